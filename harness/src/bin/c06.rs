//! C06 harness: byte streams through the real SkimItemReader (simple path and the
//! DefaultSkimItem path) and, for a sample, through the `sk --filter` binary (stdout bytes and exit
//! status).  Direct oracle: the documented line semantics computed here from the bytes.
use skim::prelude::{SkimItemReader, SkimItemReaderOption};
use skv::*;
use std::collections::BTreeSet;
use std::io::Write;
use std::process::{Command, Stdio};

const CHUNKS: [&[u8]; 26] = [b",", b",", b"k,v", b"x,y,", b"a", b"b", b"abc", b"hello world", b" ", b"\t", b"\r", b"\0", b"\n", b"\n", b"\r\n", b"\0", "中".as_bytes(), "é".as_bytes(),
    b"\xff", b"\xc3", b"\xe4\xb8", b"x", b"", b"foo", b"bar", b"\x1b[31mred\x1b[0m"];

fn gen_stream(r: &mut Rng, valid_only: bool, long: bool) -> Vec<u8> {
    let mut v = Vec::new();
    let n = r.below(14);
    for _ in 0..n {
        let c = *r.pick(&CHUNKS);
        if valid_only && std::str::from_utf8(c).is_err() { continue; }
        if valid_only && c.contains(&0x1b) { continue; }
        v.extend_from_slice(c);
    }
    if long && r.chance(1, 6) {
        // a line longer than the read buffer
        let k = 1100 + r.below(1500) as usize;
        v.extend(std::iter::repeat(b'z').take(k));
        v.push(b'\n');
        v.extend_from_slice(b"tail");
    }
    if long && r.chance(1, 40) {
        // a line far beyond any buffer size: exactly 64 KiB, or more
        let k = *r.pick(&[65536usize, 65537, 70000, 131072]);
        v.extend(std::iter::repeat(b'y').take(k));
        v.push(b'\n');
        v.extend_from_slice(b"end");
    }
    v
}

/// remove CSI sequences (ESC [ parameters intermediates final): the reference for --ansi
fn strip_csi(s: &str) -> String {
    let b = s.as_bytes();
    let mut out = Vec::new();
    let mut i = 0;
    while i < b.len() {
        if b[i] == 0x1b && i + 1 < b.len() && b[i + 1] == b'[' {
            let mut j = i + 2;
            while j < b.len() && (0x30..=0x3f).contains(&b[j]) { j += 1; }
            while j < b.len() && (0x20..=0x2f).contains(&b[j]) { j += 1; }
            if j < b.len() && (0x40..=0x7e).contains(&b[j]) { i = j + 1; continue; }
        }
        out.push(b[i]);
        i += 1;
    }
    String::from_utf8_lossy(&out).to_string()
}

/// --ansi: what is printed is the line with its ANSI sequences removed, with or without --with-nth
fn ansi_case(r: &mut Rng) -> Option<(String, String)> {
    const PIECES: [&str; 14] = ["ab", "c d", "x,y", ",", "中", "\x1b[31m", "\x1b[0m", "\x1b[1;32m", "\x1b[K", "\x1b[2K", "\x1b[10;5H", "\x1b[m", "z", " "];
    let n_lines = 1 + r.below(4);
    let mut lines: Vec<String> = Vec::new();
    for _ in 0..n_lines {
        // starts with a colour that applies to a visible character, so that the item has attributes
        let mut l = String::from("\x1b[31mR");
        for _ in 0..r.below(8) { l.push_str(*r.pick(&PIECES)); }
        lines.push(l);
    }
    let with_nth = if r.chance(1, 2) { Some("1..") } else { None };
    let joined = lines.join("\n") + "\n";
    let input = format!("--ansi with_nth={:?} lines={:?}", with_nth, lines);
    let j2 = joined.clone();
    let res = guarded(move || {
        let mut opt = SkimItemReaderOption::default().ansi(true);
        if let Some(w) = with_nth { opt = opt.delimiter(",").with_nth(w); }
        let reader = SkimItemReader::new(opt.build());
        let rx = reader.of_bufread(std::io::Cursor::new(j2.into_bytes()));
        let items: Vec<_> = rx.iter().collect();
        (items.iter().map(|it| it.text().to_string()).collect::<Vec<_>>(), items.iter().map(|it| it.output().to_string()).collect::<Vec<_>>())
    });
    match res {
        Err(e) => Some((format!("panic: {}", e), input)),
        Ok((texts, outputs)) => {
            let want: Vec<String> = lines.iter().map(|l| strip_csi(l)).collect();
            if outputs != want { return Some((format!("printed lines {:?}, the input lines without their ANSI sequences are {:?}", outputs, want), input)); }
            if texts != want { return Some((format!("item texts {:?}, the input lines without their ANSI sequences are {:?}", texts, want), input)); }
            None
        }
    }
}

/// documented semantics: lines terminated by the terminator (LF mode: LF or CRLF), last possibly unterminated
fn doc_lines(bs: &[u8], term: u8) -> Vec<Vec<u8>> {
    let mut out = Vec::new();
    let mut cur = Vec::new();
    for &b in bs {
        if b == term {
            if term == b'\n' && cur.last() == Some(&b'\r') { cur.pop(); }
            out.push(std::mem::take(&mut cur));
        } else { cur.push(b); }
    }
    if !cur.is_empty() { out.push(cur); }
    out
}
/// is the stream inside the property's window (no CR/NUL directly before a terminator of the other kind)?
fn in_window(bs: &[u8], term: u8) -> bool {
    for i in 1..bs.len() {
        if bs[i] == term {
            if term == b'\n' && bs[i - 1] == 0 { return false; }
            if term == 0 && (bs[i - 1] == b'\r' || bs[i - 1] == b'\n') { return false; }
        }
    }
    true
}

/// (texts, outputs) of the items; `with_nth` = None: plain reader / only --nth; Some(w): --with-nth w -d ,
fn read_items(bs: &[u8], read0: bool, complex: bool, with_nth: Option<&str>, cap: usize) -> Result<(Vec<String>, Vec<String>), String> {
    let b2 = bs.to_vec();
    let wn = with_nth.map(|s| s.to_string());
    guarded(move || {
        let mut opt = SkimItemReaderOption::default().read0(read0);
        if complex { opt = opt.nth("1.."); }
        if let Some(w) = &wn { opt = opt.delimiter(",").with_nth(w); }
        let reader = SkimItemReader::new(opt.build());
        // a small read buffer puts chunk boundaries everywhere (also between CR and LF)
        let rx = reader.of_bufread(std::io::BufReader::with_capacity(cap, std::io::Cursor::new(b2)));
        let items: Vec<_> = rx.iter().collect();
        (items.iter().map(|it| it.text().to_string()).collect(), items.iter().map(|it| it.output().to_string()).collect())
    })
}

fn main() {
    let a = args();
    quiet_panics();
    let mut w = CaseWriter::new(&a.out, "Corr.C06", a.shard);
    let mut dist = Hist::default();
    let mut distinct: BTreeSet<Vec<u8>> = BTreeSet::new();
    let mut samples = Vec::new();
    let mut fails = Vec::new();
    let sk = a.extra.get("sk").cloned();
    let sk_every: u64 = a.extra.get("sk_every").map(|s| s.parse().unwrap()).unwrap_or(10);
    let ids: Vec<u64> = match a.only { Some(i) => vec![i], None => (0..a.n).collect() };
    for id in ids {
        let mut r = Rng::for_case(a.seed, id);
        if id % 7 == 3 {
            dist.add("ansi-output-case");
            if let Some((what, input)) = ansi_case(&mut r) { fails.push(OracleFailure { case: id, what, known: None, input }); }
            continue;
        }
        let read0 = r.chance(1, 3);
        let complex = r.chance(1, 2);
        let valid_only = r.chance(2, 3);
        let bs = gen_stream(&mut r, valid_only, true);
        let term = if read0 { 0u8 } else { b'\n' };
        let shown = if bs.len() > 20000 { format!("<{} bytes, a line of 64 KiB or more>", bs.len()) } else { String::from_utf8_lossy(&bs).to_string() };
        let input = format!("read0={} path={} bytes={:?}", read0, if complex { "DefaultSkimItem" } else { "simple" }, shown);
        let inwin = in_window(&bs, term);
        let cap = *r.pick(&[1usize, 2, 3, 5, 8, 64, 8192]);
        let with_nth: Option<&str> = if complex && r.chance(1, 2) { Some(*r.pick(&["2,1", "1..", "2..", "1", "-1,1", "3,2,1", ".."])) } else { None };
        let input = format!("{} read_buffer={} with_nth={:?}", input, cap, with_nth);
        match read_items(&bs, read0, complex, with_nth, cap) {
            Err(e) => fails.push(OracleFailure { case: id, what: format!("panic: {}", e), known: None, input }),
            Ok((texts, outputs)) => {
                // what is printed for an item is its original line, whatever --with-nth / --nth say
                let items = if with_nth.is_some() { outputs.clone() } else { texts };
                {
                    let want_out: Vec<String> = doc_lines(&bs, term).iter().map(|l| String::from_utf8_lossy(l).to_string()).collect();
                    if inwin && outputs != want_out {
                        let k = outputs.iter().zip(want_out.iter()).position(|(x, y)| x != y).unwrap_or(outputs.len().min(want_out.len()));
                        fails.push(OracleFailure { case: id, what: format!("output of item {} is {:?}, its original line is {:?}", k, outputs.get(k), want_out.get(k)), known: None, input: input.clone() });
                    }
                }
                let want: Vec<String> = doc_lines(&bs, term).iter().map(|l| String::from_utf8_lossy(l).to_string()).collect();
                if inwin && items != want {
                    let k = items.iter().zip(want.iter()).position(|(x, y)| x != y).unwrap_or(items.len().min(want.len()));
                    fails.push(OracleFailure { case: id, what: format!("{} items for {} lines; item {} is {:?}, line {} is {:?}", items.len(), want.len(), k, items.get(k), k, want.get(k)), known: None, input: input.clone() });
                }
                dist.add(format!("read0={} path={}", read0, if complex { "item" } else { "simple" }));
                dist.add(if std::str::from_utf8(&bs).is_ok() { "utf8=valid" } else { "utf8=invalid" });
                dist.add(if bs.last().map(|b| *b == term).unwrap_or(true) { "last=terminated" } else { "last=unterminated" });
                if !inwin { dist.add("outside-window"); }
                if want.len() >= 2 { distinct.insert(bs.clone()); }
                if samples.len() < 3 { samples.push(J::s(format!("{} -> {:?}", input, items))); }
                // the sk binary in filter mode
                if let Some(skbin) = &sk {
                    if id % sk_every == 0 && inwin && std::str::from_utf8(&bs).is_ok() && !bs.contains(&0x1b) {
                        let print0 = r.chance(1, 3);
                        // with a --with-nth that hides or reorders fields the query is matched against the shown text;
                        // the oracle below matches whole lines, so it then uses the empty query
                        let whole_shown = matches!(with_nth, None | Some("1..") | Some(".."));
                        let term_q = if whole_shown { *r.pick(&["", "a", "b", "o"]) } else { "" };
                        let mut args: Vec<String> = vec!["-e".into(), "-f".into(), term_q.to_string()];
                        if read0 { args.push("--read0".into()); }
                        if print0 { args.push("--print0".into()); }
                        if complex { args.push("-d".into()); args.push(",".into()); args.push(format!("--with-nth={}", with_nth.unwrap_or("1.."))); }
                        let child = Command::new(skbin).args(&args).stdin(Stdio::piped()).stdout(Stdio::piped()).stderr(Stdio::null()).spawn();
                        if let Ok(mut ch) = child {
                            { let mut si = ch.stdin.take().unwrap(); let _ = si.write_all(&bs); }
                            if let Ok(o) = ch.wait_with_output() {
                                let ending: &[u8] = if print0 { b"\0" } else { b"\n" };
                                let mut want_out = Vec::new();
                                let mut n = 0;
                                for l in doc_lines(&bs, term) {
                                    let s = String::from_utf8_lossy(&l).to_string();
                                    if term_q.is_empty() || s.to_lowercase().contains(term_q) { want_out.extend_from_slice(s.as_bytes()); want_out.extend_from_slice(ending); n += 1; }
                                }
                                let want_code = if n == 0 { 1 } else { 0 };
                                if o.stdout != want_out || o.status.code() != Some(want_code) {
                                    fails.push(OracleFailure { case: id, what: format!("sk {:?} printed {:?} (exit {:?}); expected {:?} (exit {})", args, String::from_utf8_lossy(&o.stdout), o.status.code(), String::from_utf8_lossy(&want_out), want_code), known: None, input: input.clone() });
                                }
                                dist.add("sk-binary-run");
                            }
                        }
                    }
                }
                if bs.len() > 20000 { dist.add("line>=64KiB (oracle only)"); }
                if std::str::from_utf8(&bs).is_ok() && bs.len() <= 20000 {
                    w.push(id, format!("{{| c_term := {}; c_bytes := {}; i_items := {} |}}", coq::n(term as u64), coq::bytes(&bs), coq::list(items.iter().map(|s| coq::bytes(s.as_bytes())))));
                }
            }
        }
    }
    let total = w.total;
    let shards = w.finish();
    write_meta(&a.out, total.max(1), distinct.len() as u64,
        "byte streams of 0-13 chunks (text, blanks, CR, NUL, LF, CRLF, multi-byte, invalid UTF-8, an ANSI sequence, sometimes a line of 1100-2600 bytes) x {read0} x {simple reader, DefaultSkimItem reader}; a third of the streams may be invalid UTF-8 (oracle only), valid ones are also evaluated on the model; every 10th eligible stream is also piped through the sk binary in filter mode (-e -f TERM [--read0] [--print0] [--with-nth 1..]); non-trivial = at least two lines; distinct by stream",
        samples, dist.json(), &fails, shards);
}
