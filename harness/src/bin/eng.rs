//! Engine harness (serves C03, C04, C08): engines from the public factories on real items.
//! --focus C03: single terms, documented term rules as oracle (known classes K1, K2);
//! --focus C04: composed queries, compositional oracle (OR of ANDs of the single-term verdicts);
//! --focus C08: validity / witness oracle on the reported positions, with --nth ranges.
use fuzzy_matcher::clangd::ClangdMatcher;
#[allow(deprecated)]
use fuzzy_matcher::skim::{SkimMatcher, SkimMatcherV2};
use fuzzy_matcher::FuzzyMatcher;
use regex::Regex;
use skim::prelude::{AndOrEngineFactory, ExactOrFuzzyEngineFactory, RegexEngineFactory};
use skim::{CaseMatching, FuzzyAlgorithm, MatchEngine, MatchEngineFactory, MatchRange, SkimItem};
use skv::*;
use std::borrow::Cow;
use std::collections::BTreeSet;
use std::sync::Arc;

struct NthItem { text: String, ranges: Option<Vec<(usize, usize)>> }
impl SkimItem for NthItem {
    fn text(&self) -> Cow<str> { Cow::Borrowed(&self.text) }
    fn get_matching_ranges(&self) -> Option<&[(usize, usize)]> { self.ranges.as_deref() }
}

const TCH: [char; 21] = ['a', 'b', 'c', 'A', 'B', ' ', '-', '中', 'x', '\t', 'd', 'é', 'É', '\u{130}', '\u{212a}', 'k', '$', '^', '!', '\'', '\\'];
const QCH: [char; 12] = ['a', 'b', 'A', 'c', 'x', '中', '\'', '^', '$', '!', '\\', ' '];

fn gen_text(r: &mut Rng) -> String { (0..r.below(12)).map(|_| *r.pick(&TCH)).collect() }
fn gen_body(r: &mut Rng) -> String { (0..r.below(4)).map(|_| *r.pick(&['a', 'b', 'A', 'c', 'x', '中', 'B', 'É', 'é', 'k'])).collect() }
fn gen_term(r: &mut Rng) -> String {
    let b = gen_body(r);
    match r.below(19) {
        // the sigil characters doubled or inside the body: only the outermost one is syntax
        // a counted repetition is plain text to every engine but the regex one
        16 if r.chance(1, 2) => format!("{}{}", b, r.pick(&["{2}", "{1,2}", "{", "}", "{}", "a{2}"])),
        16 => format!("{}{}", b, r.pick(&["$$", "$$$", "^$", "$^"])),
        17 => format!("{}{}", r.pick(&["^^", "!!", "''", "!'", "^!", "'^^"]), b),
        18 => format!("{}{}{}", r.pick(&["^", "!", "'", ""]), [gen_body(r), r.pick(&["$", "^", "!", "'"]).to_string(), b.clone()].concat(), r.pick(&["$", ""])),
        0..=4 => b, 5 => format!("'{}", b), 6 => format!("^{}", b), 7 => format!("{}$", b), 8 => format!("!{}", b),
        9 => format!("^{}$", b), 10 => format!("!^{}", b), 11 => format!("!{}$", b), 12 => format!("'!{}", b), 13 => format!("'^{}$", b),
        14 => (0..r.below(5)).map(|_| *r.pick(&QCH)).collect(),
        _ => format!("{}\\ {}", b, gen_body(r)),
    }
}
fn gen_query(r: &mut Rng) -> String {
    let nalt = 1 + r.below(3);
    let mut q = String::new();
    if r.chance(1, 6) { q.push_str(*r.pick(&[" ", "  ", "| ", " | "])); }
    for a in 0..nalt {
        // (a run of bars between blanks is a stray term, not a separator)
        if a > 0 { q.push_str(*r.pick(&[" | ", "  |  ", " |  ", " |", "| ", "|", " || ", "  |||  ", " | | "])); }
        let nt = 1 + r.below(3);
        // between terms: blanks, or (rarely) runs of backslashes before a blank: only a backslash directly before the blank escapes it
        for t in 0..nt { if t > 0 { q.push_str(if r.chance(1, 10) { *r.pick(&["\\ ", "\\\\ ", "\\\\\\ ", "\\\\  "]) } else { *r.pick(&[" ", "  "]) }); } q.push_str(&gen_term(r)); }
    }
    if r.chance(1, 6) { q.push_str(*r.pick(&[" ", " |", " | ", "\\", "\\ ", "\\  ", "\\ |"])); }
    q
}
fn casem_coq(c: CaseMatching) -> &'static str { match c { CaseMatching::Respect => "Respect", CaseMatching::Ignore => "Ignore", CaseMatching::Smart => "Smart" } }

#[allow(deprecated)]
fn fuzzy_lib(algo: FuzzyAlgorithm, case: CaseMatching) -> Box<dyn FuzzyMatcher> {
    match algo {
        FuzzyAlgorithm::SkimV1 => Box::new(SkimMatcher::default()),
        FuzzyAlgorithm::SkimV2 => { let m = SkimMatcherV2::default().element_limit(1024 * 1024 * 1024); Box::new(match case { CaseMatching::Respect => m.respect_case(), CaseMatching::Ignore => m.ignore_case(), CaseMatching::Smart => m.smart_case() }) }
        FuzzyAlgorithm::Clangd => { let m = ClangdMatcher::default(); Box::new(match case { CaseMatching::Respect => m.respect_case(), CaseMatching::Ignore => m.ignore_case(), CaseMatching::Smart => m.smart_case() }) }
    }
}

fn candidates(query: &str) -> BTreeSet<String> {
    let masked = query.replace("\\ ", "\0");
    let mut toks: Vec<String> = masked.split(|c| c == ' ' || c == '|').map(|s| s.to_string()).collect();
    toks.extend(masked.split(' ').map(|s| s.trim_matches(|c| c == ' ' || c == '|').to_string()));
    toks.push(query.to_string());
    let mut out = BTreeSet::new();
    for t in toks {
        let t = t.replace('\0', " ");
        let chars: Vec<char> = t.chars().collect();
        for k in 0..=3.min(chars.len()) {
            if chars[..k].iter().all(|c| "'!^".contains(*c)) {
                let s: String = chars[k..].iter().collect();
                out.insert(s.clone());
                if s.ends_with('$') { out.insert(s[..s.len() - 1].to_string()); }
            }
        }
    }
    out
}

// ---- documented single-term rule (C03 oracle) -------------------------------------------------
fn fold(c: char, sens: bool) -> char { if sens { c } else { c.to_ascii_lowercase() } }
fn is_subseq(p: &str, t: &str, sens: bool) -> bool {
    let mut it = t.chars();
    p.chars().all(|pc| it.any(|tc| fold(tc, sens) == fold(pc, sens)))
}
struct Doc { verdict: bool, known: Option<&'static str> }
fn doc_term(term: &str, text: &str, exact_mode: bool, case: CaseMatching, algo: FuzzyAlgorithm) -> Doc {
    let mut q = term;
    let mut fuzzy_forced = false;
    let mut exact = exact_mode;
    if let Some(r) = q.strip_prefix('\'') { q = r; if exact_mode { fuzzy_forced = true; } else { exact = true; } }
    let mut inv = false;
    if !fuzzy_forced { if let Some(r) = q.strip_prefix('!') { q = r; inv = true; exact = true; } }
    if q.is_empty() { return Doc { verdict: true, known: None }; }   // "", "!", "'" match everything
    let (mut pre, mut post) = (false, false);
    if !fuzzy_forced {
        if let Some(r) = q.strip_prefix('^') { q = r; pre = true; exact = true; }
        if let Some(r) = q.strip_suffix('$') { q = r; post = true; exact = true; }
    }
    let sens = match case { CaseMatching::Respect => true, CaseMatching::Ignore => false, CaseMatching::Smart => q.chars().any(|c| c.is_ascii_uppercase()) };
    if exact && !fuzzy_forced {
        let f = |s: &str| -> String { s.chars().map(|c| fold(c, sens)).collect() };
        let (t, p) = (f(text), f(q));
        let m = match (pre, post) { (false, false) => t.contains(&p), (true, false) => t.starts_with(&p), (false, true) => t.ends_with(&p), (true, true) => t == p };
        let known = if q.is_empty() && (inv || (pre && post)) { Some("K2-empty-body-after-anchor") } else { None };
        Doc { verdict: m != inv, known }
    } else {
        let known = if matches!(algo, FuzzyAlgorithm::SkimV1) && sens { Some("K1-skim_v1-ignores-case") } else { None };
        Doc { verdict: is_subseq(q, text, sens), known }
    }
}

fn main() {
    let a = args();
    quiet_panics();
    let focus = a.extra.get("focus").cloned().unwrap_or_else(|| "C03".to_string());
    let mut w = CaseWriter::new(&a.out, "Corr.Engine", a.shard);
    let mut dist = Hist::default();
    let mut distinct: BTreeSet<String> = BTreeSet::new();
    let mut samples = Vec::new();
    let mut fails = Vec::new();
    let ids: Vec<u64> = match a.only { Some(i) => vec![i], None => (0..a.n).collect() };
    for id in ids {
        let mut r = Rng::for_case(a.seed, id);
        let mut text = gen_text(&mut r);
        let exact = r.chance(1, 4);
        let case = *r.pick(&[CaseMatching::Smart, CaseMatching::Smart, CaseMatching::Respect, CaseMatching::Ignore]);
        let algo = *r.pick(&[FuzzyAlgorithm::SkimV1, FuzzyAlgorithm::SkimV2, FuzzyAlgorithm::Clangd]);
        let regex_mode = focus != "C04" && r.chance(1, 8);
        let query = if regex_mode { r.pick(&["a", "a.c", "^a", "b$", "[ab]+", "(", "a|b", "", "A", "\\w+", "x*", "中", "^", "$", "^$", "a*", "é", "^é$"]).to_string() }
                    else if focus == "C03" { gen_term(&mut r) }
                    else if r.chance(1, 4) && text.chars().count() >= 2 {
                        // terms cut out of the text itself: adjacent, overlapping, nested, out of order
                        let cs: Vec<char> = text.chars().collect();
                        let nt = 2 + r.below(2);
                        let mut parts = Vec::new();
                        let mut at = r.below(cs.len() as u64) as usize;
                        for _ in 0..nt {
                            let len = 1 + r.below(3) as usize;
                            let piece: String = cs[at.min(cs.len() - 1)..(at + len).min(cs.len())].iter().filter(|c| !" \t|'^$!\\".contains(**c)).collect();
                            if !piece.is_empty() { parts.push(if r.chance(1, 3) { format!("'{}", piece) } else { piece }); }
                            // next term starts on the last character of this one, right after it, or anywhere
                            at = match r.below(4) { 0 => (at + len).saturating_sub(1), 1 => at + len, 2 => at, _ => r.below(cs.len() as u64) as usize };
                        }
                        if parts.is_empty() { gen_query(&mut r) } else { parts.join(" ") }
                    }
                    else { gen_query(&mut r) };
        // short texts built from the query itself: the text is exactly the term's body, or that plus one character, or the body twice
        // (beginning and ending with it without being it); or empty
        if r.chance(1, 4) {
            let body: String = query.chars().filter(|c| !" |'^$!\\".contains(*c)).collect();
            // the query read as plain text: escaped blanks become blanks, sigils and bars go
            let plain: String = query.replace("\\ ", " ").chars().filter(|c| !"|'^$!\\".contains(*c)).collect();
            let plain_bs: String = query.replace("\\ ", " ").chars().filter(|c| !"|'^$!".contains(*c)).collect();
            // the body in the other letter case, and spread out between other characters: what separates smart / respect / ignore
            let swap = |s: &str| -> String { s.chars().map(|c| if c.is_ascii_uppercase() { c.to_ascii_lowercase() } else if c.is_ascii_lowercase() { c.to_ascii_uppercase() } else { c }).collect() };
            let spread = |s: &str, r: &mut Rng| -> String { let mut o = String::new(); for c in s.chars() { if r.chance(1, 2) { o.push(*r.pick(&['x', '-', 'd', ' '])); } o.push(c); } o };
            text = match r.below(16) { 13 => format!("{}{}", body, body), 14 => format!("{} x {}", body, body), 15 => format!("{}{}{}", body, r.pick(&TCH), body), 9 => swap(&body), 10 => body.to_ascii_lowercase(), 11 => { let t = swap(&body); spread(&t, &mut r) }, 12 => { let t = body.to_ascii_lowercase(); spread(&t, &mut r) }, 7 => plain_bs.clone(), 8 => format!("{}{}", r.pick(&TCH), plain_bs), 5 => plain, 6 => format!("{}{}", plain, r.pick(&TCH)), 0 => String::new(), 1 => body, 2 => format!("{}{}", body, r.pick(&TCH)), 3 => format!("{}{}", r.pick(&TCH), body), _ => body.chars().rev().collect() };
        }
        // letter case is what separates smart / respect / ignore and the algorithms' defaults: the term's letters in another case
        if !regex_mode && query.chars().any(|c| c.is_ascii_alphabetic()) && r.chance(1, 4) {
            let body: String = query.chars().filter(|c| !" |'^$!\\".contains(*c)).collect();
            let t: String = match r.below(3) {
                0 => body.to_ascii_lowercase(),
                1 => body.to_ascii_uppercase(),
                _ => body.chars().map(|c| if c.is_ascii_uppercase() { c.to_ascii_lowercase() } else { c.to_ascii_uppercase() }).collect(),
            };
            let mut o = String::new();
            for c in t.chars() { if r.chance(1, 3) { o.push(*r.pick(&['x', '-', 'd', ' '])); } o.push(c); }
            text = o;
        }
        // a text that the term would match if its counted repetition were read as a regex: "xa{2}" against "xaa"
        if !regex_mode && query.contains("{2}") && r.chance(1, 2) {
            let plain: String = query.chars().filter(|c| !" |'^$!\\".contains(*c)).collect();
            let cs: Vec<char> = plain.chars().collect();
            let mut o = String::new();
            let mut i = 0;
            while i < cs.len() {
                if i + 3 < cs.len() + 0 && cs[i + 1] == '{' && cs[i + 2] == '2' && cs.get(i + 3) == Some(&'}') { o.push(cs[i]); o.push(cs[i]); i += 4; } else { o.push(cs[i]); i += 1; }
            }
            text = if r.chance(1, 2) { o } else { format!("{}{}", r.pick(&TCH), o) };
        }
        // --nth ranges on character boundaries (C08 focus: more often, any order)
        let bounds: Vec<usize> = text.char_indices().map(|(i, _)| i).chain(std::iter::once(text.len())).collect();
        let ranges: Option<Vec<(usize, usize)>> = if r.chance(if focus == "C08" { 2 } else { 1 }, 3) {
            Some((0..(1 + r.below(3))).map(|_| { let x = *r.pick(&bounds); let y = *r.pick(&bounds); (x.min(y), x.max(y) + if r.chance(1, 4) && x.max(y) == text.len() { 3 } else { 0 }) }).collect())
        } else { None };
        let input = format!("query={:?} text={:?} nth_ranges={:?} exact={} case={} algorithm={:?} regex={}", query, text, ranges, exact, casem_coq(case), algo, regex_mode);
        let mk = |q: &str| -> Box<dyn MatchEngine> {
            if regex_mode { RegexEngineFactory::builder().build().create_engine_with_case(q, case) }
            else { AndOrEngineFactory::new(ExactOrFuzzyEngineFactory::builder().exact_mode(exact).fuzzy_algorithm(algo).build()).create_engine_with_case(q, case) }
        };
        let item: Arc<dyn SkimItem> = Arc::new(NthItem { text: text.clone(), ranges: ranges.clone() });
        let (q2, it2) = (query.clone(), item.clone());
        let res = guarded(std::panic::AssertUnwindSafe(|| mk(&q2).match_item(it2).map(|m| m.matched_range)));
        // ---- oracle tables for the model ---------------------------------------------------------
        let len = text.len();
        let mut slices: Vec<String> = Vec::new();
        for (s, e) in ranges.clone().unwrap_or_else(|| vec![(0, len)]) {
            let (s, e) = (s.min(len), e.min(len));
            if s <= e && text.is_char_boundary(s) && text.is_char_boundary(e) { slices.push(text[s..e].to_string()); }
        }
        let lib = fuzzy_lib(algo, case);
        let mut fz_entries: Vec<String> = Vec::new();
        if !regex_mode {
            for p in candidates(&query) {
                if p.is_empty() { continue; }
                for sl in &slices {
                    if sl.is_empty() { continue; }
                    let ans = lib.fuzzy_indices(sl, &p).map(|x| x.1);
                    fz_entries.push(format!("({}, {}, {})", coq::text(&p), coq::text(sl), coq::opt(ans.map(|v| coq::ns(v.iter().map(|x| *x as u64))))));
                }
            }
        }
        let rx_coq = if regex_mode {
            let pat = format!("{}{}", if matches!(case, CaseMatching::Ignore) { "(?i)" } else { "" }, query);
            let re = Regex::new(&pat).ok();
            let tbl: Vec<String> = slices.iter().map(|sl| format!("({}, {})", coq::text(sl), coq::opt(re.as_ref().and_then(|re| re.find(sl)).map(|m| coq::pair(coq::n(m.start() as u64), coq::n(m.end() as u64)))))).collect();
            format!("(Some ({}, {}))", coq::b(re.is_some()), coq::list(tbl))
        } else { "None".to_string() };
        // ---- direct oracles ----------------------------------------------------------------------
        let mut bad: Option<(String, Option<String>)> = None;
        match &res {
            Err(e) => { bad = Some((format!("panic: {}", e), None)); }
            Ok(got) => {
                let verdict = got.is_some();
                if focus == "C03" && !regex_mode && ranges.is_none() {
                    let d = doc_term(&query, &text, exact, case, algo);
                    let cased_non_ascii = |s: &str| s.chars().any(|c| !c.is_ascii() && (c.is_uppercase() || c.is_lowercase()));
                    let simple = !query.contains(' ') && !query.contains('|') && !query.contains('\\');
                    let non_ascii_case = cased_non_ascii(&query) || cased_non_ascii(&text);
                    // with cased non-ASCII letters around, the implementation may fold more than ASCII (exact terms fold
                    // Unicode), never less: a match under ASCII-only folding must still be a match (non-inverted terms)
                    let one_way = non_ascii_case && !query.trim_start_matches('\'').starts_with('!') && d.verdict && !verdict && d.known.is_none();
                    if simple && one_way {
                        bad = Some((format!("term {:?} does not match text {:?}; ignoring the case of ASCII letters only it already matches", query, text), None));
                    } else if simple && !non_ascii_case && d.verdict != verdict {
                        bad = Some((format!("term {:?} {} text {:?}; the documented rule says it {}", query, if verdict { "matches" } else { "does not match" }, text, if d.verdict { "matches" } else { "does not match" }), d.known.map(|s| s.to_string())));
                    }
                }
                if focus == "C03" && regex_mode && ranges.is_none() {
                    let pat = format!("{}{}", if matches!(case, CaseMatching::Ignore) { "(?i)" } else { "" }, query);
                    let want = Regex::new(&pat).map(|re| re.is_match(&text)).unwrap_or(true);
                    if want != verdict { bad = Some((format!("regex {:?} verdict {} on {:?}, expected {}", query, verdict, text, want), None)); }
                }
                if focus == "C04" && ranges.is_none() {
                    // compositional oracle over the implementation's own single-term verdicts
                    let masked = query.replace("\\ ", "\0");
                    let re_or = Regex::new(r" +\| +").unwrap();
                    let mut want = false;
                    let mut nalts = 0;
                    if !query.trim().is_empty() {
                        for alt in re_or.split(&masked) {
                            let terms: Vec<String> = alt.split(' ').map(|t| t.trim_matches(|c| c == ' ' || c == '|').replace('\0', " ")).filter(|t| !t.is_empty()).collect();
                            if terms.is_empty() { continue; }
                            nalts += 1;
                            let single = ExactOrFuzzyEngineFactory::builder().exact_mode(exact).fuzzy_algorithm(algo).build();
                            if terms.iter().all(|t| single.create_engine_with_case(t, case).match_item(item.clone()).is_some()) { want = true; }
                        }
                        if want != verdict { bad = Some((format!("query {:?} {} text {:?}, but OR over its {} alternatives of AND over their terms gives {}", query, if verdict { "matches" } else { "does not match" }, text, nalts, want), None)); }
                    }
                }
                if focus == "C04" && !regex_mode && id % 8 == 0 {
                    // the verdict of one shared engine must not depend on what other threads are matching
                    let eng = mk(&query);
                    let texts: Vec<String> = (0..48).map(|k| { let mut rr = Rng::for_case(a.seed ^ 0x5151, id * 64 + k); gen_text(&mut rr) }).collect();
                    let base: Vec<bool> = texts.iter().map(|t| eng.match_item(Arc::new(NthItem { text: t.clone(), ranges: None })).is_some()).collect();
                    let diverged = std::thread::scope(|sc| {
                        let hs: Vec<_> = (0..8).map(|th| { let (eng, texts, base) = (&eng, &texts, &base); sc.spawn(move || {
                            let mut bad = None;
                            for round in 0..6 { for k in 0..texts.len() { let j = (k * 7 + th * 5 + round) % texts.len();
                                let v = eng.match_item(Arc::new(NthItem { text: texts[j].clone(), ranges: None })).is_some();
                                if v != base[j] && bad.is_none() { bad = Some(j); } } }
                            bad }) }).collect();
                        hs.into_iter().filter_map(|h| h.join().ok().flatten()).next()
                    });
                    if let Some(j) = diverged { bad = Some((format!("query {:?}: the verdict on {:?} differs when eight threads share the engine (sequentially it {})", query, texts[j], if base[j] { "matches" } else { "does not match" }), None)); }
                }
                if focus == "C08" {
                    if let Some(m) = got {
                        let nchars = text.chars().count();
                        match m {
                            MatchRange::ByteRange(b, e) => {
                                if !(b <= e && *e <= text.len() && text.is_char_boundary(*b) && text.is_char_boundary(*e)) {
                                    bad = Some((format!("reported byte span ({}, {}) is not a valid span of {:?}", b, e, text), None));
                                }
                            }
                            MatchRange::Chars(v) => {
                                if !(v.windows(2).all(|p| p[0] < p[1]) && v.iter().all(|x| *x < nchars)) {
                                    bad = Some((format!("reported indices {:?} are not strictly increasing inside {:?} ({} characters)", v, text, nchars), None));
                                } else if !regex_mode && !query.contains(' ') && !query.contains('|') && !query.contains('\\') {
                                    // single fuzzy term: the characters at the indices are the term's characters
                                    let d = candidates(&query);
                                    let tc: Vec<char> = text.chars().collect();
                                    let picked: String = v.iter().map(|i| tc[*i]).collect();
                                    if !d.iter().any(|p| p.to_lowercase() == picked.to_lowercase()) && !picked.is_empty() {
                                        bad = Some((format!("characters at the reported indices are {:?}, not the term's ({:?})", picked, query), None));
                                    }
                                }
                            }
                        }
                    }
                }
            }
        }
        if let Some((m, known)) = bad { fails.push(OracleFailure { case: id, what: m, known, input: input.clone() }); }
        dist.add(if regex_mode { "mode=regex" } else if exact { "mode=exact" } else { "mode=fuzzy" });
        dist.add(match &res { Ok(Some(_)) => "verdict=match", Ok(None) => "verdict=no-match", Err(_) => "verdict=panic" });
        if ranges.is_some() { dist.add("nth=yes"); }
        if !query.is_empty() && !text.is_empty() { distinct.insert(format!("{}|{}|{:?}|{}|{:?}", query, text, ranges, exact, casem_coq(case))); }
        if samples.len() < 3 { samples.push(J::s(format!("{} -> {:?}", input, res))); }
        let res_coq = match &res {
            Err(_) => "Panic".to_string(), Ok(None) => "NoMatch".to_string(),
            Ok(Some(MatchRange::ByteRange(b, e))) => format!("(Match (RBytes {} {}))", coq::n(*b as u64), coq::n(*e as u64)),
            Ok(Some(MatchRange::Chars(v))) => format!("(Match (RChars {}))", coq::ns(v.iter().map(|x| *x as u64))),
        };
        w.push(id, format!(
            "{{| c_exact := {}; c_case := {}; c_regex := {}; c_query := {}; c_text := {}; c_ranges := {}; c_fz := {}; c_rx := {}; i_result := {} |}}",
            coq::b(exact), casem_coq(case), coq::b(regex_mode), coq::text(&query), coq::text(&text),
            coq::opt(ranges.as_ref().map(|v| coq::list(v.iter().map(|(x, y)| coq::pair(coq::n(*x as u64), coq::n(*y as u64)))))),
            coq::list(fz_entries), rx_coq, res_coq));
    }
    let total = w.total;
    let shards = w.finish();
    write_meta(&a.out, total, distinct.len() as u64,
        "texts of 0-11 characters over {a b c A B blank - CJK x tab d é} x queries (C03: single terms with every prefix/postfix combination, junk over the syntax alphabet, escaped blanks; C04/C08: 1-3 alternatives of 1-3 terms with stray bars/blanks) x exact on/off x case {smart, respect, ignore} x algorithm {skim_v1, skim_v2, clangd} x regex mode (an eighth) x --nth byte ranges (a third; two thirds for C08, sometimes beyond the end); non-trivial = non-empty query and text; distinct by (query, text, ranges, exact, case)",
        samples, dist.json(), &fails, shards);
}
