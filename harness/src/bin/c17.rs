//! C17 harness: well-formed fragment lists (coloured ranges, highlight ranges) against the real
//! merge_fragments and AnsiString::override_attrs + iter.  The direct oracle (pointwise law +
//! well-formedness of the result) runs exhaustively over all pairs for short texts; a sample of the
//! pairs plus random larger ones is also evaluated on the Coq model.
use skim::verif::{verif_merge_fragments, AnsiString};
use skv::*;
use tuikit::attr::{Attr, Color};

type Fr = (u32, (u32, u32)); // attribute id, range

fn attr(id: u32) -> Attr {
    // id 0 stands for the default attribute (a theme whose highlight changes nothing)
    if id == 0 { return Attr::default(); }
    Attr { fg: Color::AnsiValue(id as u8), ..Attr::default() }
}
fn id_of(a: &Attr) -> Option<u32> {
    if *a == Attr::default() { None } else if let Color::AnsiValue(v) = a.fg { Some(v as u32) } else { Some(999) }
}

/// all well-formed lists with at most `maxf` fragments over 0..=n (starts <= ends, ordered, non-overlapping)
fn enumerate(n: u32, maxf: usize, base: u32) -> Vec<Vec<Fr>> {
    fn go(from: u32, n: u32, left: usize, base: u32, cur: &mut Vec<Fr>, out: &mut Vec<Vec<Fr>>) {
        out.push(cur.clone());
        if left == 0 { return; }
        for s in from..=n {
            for e in s..=n {
                cur.push((base + cur.len() as u32, (s, e)));
                go(e, n, left - 1, base, cur, out);
                cur.pop();
            }
        }
    }
    let mut out = Vec::new();
    go(0, n, maxf, base, &mut Vec::new(), &mut out);
    out
}

fn random_wf(r: &mut Rng, n: u32, base: u32) -> Vec<Fr> {
    let k = r.below(7) as usize;
    let mut cuts: Vec<u32> = (0..2 * k).map(|_| r.below(n as u64 + 1) as u32).collect();
    cuts.sort();
    (0..k).map(|i| (base + i as u32, (cuts[2 * i], cuts[2 * i + 1]))).collect()
}

fn lookup(l: &[Fr], k: u32) -> Option<u32> {
    l.iter().find(|(_, (s, e))| *s <= k && k < *e).map(|(a, _)| *a)
}

fn wf(l: &[Fr]) -> bool {
    let mut lo = 0;
    for (_, (s, e)) in l { if *s < lo || e < s { return false; } lo = *e; }
    true
}

struct Run { merged: Vec<Fr>, attrs: Vec<Option<u32>> }

fn run_impl(old: &[Fr], new: &[Fr], n: u32) -> Result<Run, String> {
    let (o, nw, nn) = (old.to_vec(), new.to_vec(), n);
    guarded(move || {
        let of: Vec<(Attr, (u32, u32))> = o.iter().map(|(a, r)| (attr(*a), *r)).collect();
        let nf: Vec<(Attr, (u32, u32))> = nw.iter().map(|(a, r)| (attr(*a), *r)).collect();
        let merged: Vec<Fr> = verif_merge_fragments(&of, &nf).iter().map(|(a, r)| (id_of(a).unwrap_or(0), *r)).collect();
        // the public path: a coloured string whose fragments are `old`, highlighted with `new`
        let text: String = (0..nn).map(|i| (b'a' + (i % 26) as u8) as char).collect();
        let mut s = AnsiString::new_str(&text, of.clone());
        let via_public = if !of.is_empty() && s.has_attrs() && !nf.is_empty() {
            s.override_attrs(nf.clone());
            Some(s.iter().map(|(_, a)| id_of(&a)).collect::<Vec<_>>())
        } else { None };
        // iterate the merged fragments the way the widget does
        let mf: Vec<(Attr, (u32, u32))> = merged.iter().map(|(a, r)| (attr(*a), *r)).collect();
        let s2 = AnsiString::new_str(&text, mf);
        let attrs: Vec<Option<u32>> = s2.iter().map(|(_, a)| id_of(&a)).collect();
        if let Some(v) = via_public { if v != attrs { panic!("override_attrs+iter differs from iterating merge_fragments' result"); } }
        Run { merged, attrs }
    })
}

fn oracle(old: &[Fr], new: &[Fr], n: u32, run: &Run) -> Option<String> {
    if !wf(&run.merged) { return Some(format!("result ranges not ordered / overlapping: {:?}", run.merged)); }
    for k in 0..n {
        let want = lookup(new, k).or_else(|| lookup(old, k)).filter(|x| *x != 0);
        let got = run.attrs.get(k as usize).cloned().flatten();
        // AnsiString::new_str drops a single default-attribute fragment; ids here are never default
        if got != want { return Some(format!("character {}: attribute {:?}, expected {:?} (highlight {:?}, colour {:?}); merged = {:?}", k, got, want, lookup(new, k), lookup(old, k), run.merged)); }
    }
    None
}

fn frs(l: &[Fr]) -> String {
    coq::list(l.iter().map(|(a, (s, e))| format!("({}, ({}, {}))", coq::n(*a as u64), coq::n(*s as u64), coq::n(*e as u64))))
}

fn main() {
    let a = args();
    quiet_panics();
    let mut w = CaseWriter::new(&a.out, "Corr.C17", a.shard);
    let mut dist = Hist::default();
    let mut fails = Vec::new();
    let mut samples = Vec::new();
    let exh_n: u32 = a.extra.get("exhaustive_n").map(|s| s.parse().unwrap()).unwrap_or(5);
    let mut evaluations = 0u64;
    let mut nontrivial = 0u64;
    // 1. exhaustive direct oracle (attribute ids: old 1.., new 101..)
    if a.only.is_none() {
        let olds = enumerate(exh_n, 3, 1);
        let news = enumerate(exh_n, 2, 101);
        for o in &olds {
            for nw in &news {
                evaluations += 1;
                if !o.is_empty() && !nw.is_empty() { nontrivial += 1; }
                match run_impl(o, nw, exh_n) {
                    Err(e) => { if fails.len() < 20 { fails.push(OracleFailure { case: 1_000_000 + evaluations, what: format!("panic: {}", e), known: None, input: format!("old={:?} new={:?} n={}", o, nw, exh_n) }); } }
                    Ok(run) => if let Some(m) = oracle(o, nw, exh_n, &run) {
                        if fails.len() < 20 { fails.push(OracleFailure { case: 1_000_000 + evaluations, what: m, known: None, input: format!("old={:?} new={:?} n={}", o, nw, exh_n) }); }
                    }
                }
            }
        }
        // the highlight attribute equal to the default attribute: one and two ranges
        let news0 = enumerate(exh_n, 2, 0);
        for o in &olds {
            for nw in &news0 {
                if nw.is_empty() { continue; }
                // ids: first range 0 (default), second range 1 would collide with the colours: use 0 for both
                let nw0: Vec<Fr> = nw.iter().map(|(_, r)| (0u32, *r)).collect();
                evaluations += 1;
                match run_impl(o, &nw0, exh_n) {
                    Err(e) => { if fails.len() < 20 { fails.push(OracleFailure { case: 2_000_000 + evaluations, what: format!("panic: {}", e), known: None, input: format!("old={:?} new(default attribute)={:?} n={}", o, nw0, exh_n) }); } }
                    Ok(run) => if let Some(m) = oracle(o, &nw0, exh_n, &run) {
                        if fails.len() < 20 { fails.push(OracleFailure { case: 2_000_000 + evaluations, what: m, known: None, input: format!("old={:?} new(default attribute)={:?} n={}", o, nw0, exh_n) }); }
                    }
                }
            }
        }
        // the highlight attribute equal to the attribute of the first / second coloured range (a theme whose match colour
        // is a colour of the text): the highlight still covers exactly its own range
        for same in [1u32, 2] {
            for o in &olds {
                for nw in &news0 {
                    if nw.is_empty() { continue; }
                    let nws: Vec<Fr> = nw.iter().map(|(_, r)| (same, *r)).collect();
                    evaluations += 1;
                    match run_impl(o, &nws, exh_n) {
                        Err(e) => { if fails.len() < 20 { fails.push(OracleFailure { case: 3_000_000 + evaluations, what: format!("panic: {}", e), known: None, input: format!("old={:?} new(attribute of a coloured range)={:?} n={}", o, nws, exh_n) }); } }
                        Ok(run) => if let Some(m) = oracle(o, &nws, exh_n, &run) {
                            if fails.len() < 20 { fails.push(OracleFailure { case: 3_000_000 + evaluations, what: m, known: None, input: format!("old={:?} new(attribute of a coloured range)={:?} n={}", o, nws, exh_n) }); }
                        }
                    }
                }
            }
        }
        dist.add(format!("exhaustive n={} pairs={}", exh_n, evaluations));
    }
    // 2. sampled + random cases, also evaluated on the Coq model
    let small_olds = enumerate(4, 3, 1);
    let small_news = enumerate(4, 3, 101);
    let ids: Vec<u64> = match a.only { Some(i) if i < 1_000_000 => vec![i], Some(_) => vec![], None => (0..a.n).collect() };
    for id in ids {
        let mut r = Rng::for_case(a.seed, id);
        let (o, nw, n) = if r.chance(1, 2) {
            (r.pick(&small_olds).clone(), r.pick(&small_news).clone(), 4u32)
        } else {
            let n = 1 + r.below(30) as u32;
            (random_wf(&mut r, n, 1), random_wf(&mut r, n, 101), n)
        };
        let input = format!("old={:?} new={:?} n={}", o, nw, n);
        evaluations += 1;
        match run_impl(&o, &nw, n) {
            Err(e) => fails.push(OracleFailure { case: id, what: format!("panic: {}", e), known: None, input }),
            Ok(run) => {
                if let Some(m) = oracle(&o, &nw, n, &run) { fails.push(OracleFailure { case: id, what: m, known: None, input: input.clone() }); }
                if !o.is_empty() && !nw.is_empty() { nontrivial += 1; }
                dist.add(format!("old={} new={}", o.len(), nw.len()));
                if samples.len() < 3 { samples.push(J::s(format!("{} -> merged={:?}", input, run.merged))); }
                w.push(id, format!("{{| c_old := {}; c_new := {}; c_n := {}; i_merged := {}; i_attrs := {} |}}",
                    frs(&o), frs(&nw), coq::n(n as u64), frs(&run.merged),
                    coq::list(run.attrs.iter().map(|x| coq::opt(x.map(|v| coq::n(v as u64)))))));
            }
        }
    }
    let shards = w.finish();
    write_meta(&a.out, evaluations, nontrivial,
        "direct oracle: ALL pairs (coloured list of <= 3 ranges, highlight list of <= 2 ranges, empty ranges included) over a text of exhaustive_n characters; model correspondence: pairs sampled from the complete space for 4 characters (<= 3 ranges each) plus random well-formed lists of up to 6 ranges over up to 30 characters; non-trivial = both lists non-empty (counted per pair, pairs are distinct by construction in the exhaustive part)",
        samples, dist.json(), &fails, shards);
}
