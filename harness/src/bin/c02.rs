//! C02 harness: histories over {append(batch), get(i), len, iter, clear} x tac x nosort on the real
//! OrderedVec<Elem>; Elem is ordered by rank only (like MatchedItem).  The direct oracle checks the
//! property on the implementation's own reads.
use skim::verif::OrderedVec;
use skv::*;
use std::cmp::Ordering;
use std::collections::BTreeSet;

#[derive(Clone, Debug)]
struct Elem {
    rank: i64,
    id: u64,
}
impl PartialEq for Elem {
    fn eq(&self, o: &Self) -> bool {
        self.rank == o.rank
    }
}
impl Eq for Elem {}
impl PartialOrd for Elem {
    fn partial_cmp(&self, o: &Self) -> Option<Ordering> {
        Some(self.cmp(o))
    }
}
impl Ord for Elem {
    fn cmp(&self, o: &Self) -> Ordering {
        self.rank.cmp(&o.rank)
    }
}

#[derive(Clone, Debug)]
enum Op {
    Append(Vec<Elem>),
    Get(usize),
    Len,
    Iter,
    Clear,
}

fn gen_batch(r: &mut Rng, next_id: &mut u64, lo: i64, hi: i64, big: bool) -> Vec<Elem> {
    let size = match r.below(10) {
        0..=4 => r.below(6),
        5..=7 => 50 + r.below(101),
        _ => if big { 300 + r.below(500) } else { 100 + r.below(60) },
    };
    (0..size)
        .map(|_| {
            *next_id += 1;
            Elem { rank: r.range(lo, hi), id: *next_id }
        })
        .collect()
}

fn gen_history(r: &mut Rng, big: bool) -> (bool, bool, Vec<Op>) {
    let tac = r.chance(1, 2);
    let nosort = r.chance(1, 4);
    let narrow = r.chance(1, 2);
    let (lo, hi) = if narrow { (0, 5) } else { (-1000, 1000) };
    let nops = 1 + r.below(24);
    let mut ops = Vec::new();
    let mut next_id = 0u64;
    let mut count = 0usize;
    // scenario bias: a materialised prefix of "late" ranks followed by many "early" ones
    let scenario = r.below(4);
    if scenario == 0 {
        let n0 = 1 + r.below(5);
        let late = if tac { lo } else { hi };
        ops.push(Op::Append((0..n0).map(|_| { next_id += 1; Elem { rank: late, id: next_id } }).collect()));
        count += n0 as usize;
        ops.push(Op::Get(r.below(n0) as usize));
    }
    for _ in 0..nops {
        match r.below(100) {
            0..=44 => {
                let b = gen_batch(r, &mut next_id, lo, hi, big);
                count += b.len();
                ops.push(Op::Append(b));
            }
            45..=74 => {
                let i = match r.below(4) {
                    0 => 0,
                    1 => count + r.below(3) as usize,
                    _ => r.below(count as u64 + 1) as usize,
                };
                ops.push(Op::Get(i));
            }
            75..=82 => ops.push(Op::Len),
            83..=94 => ops.push(Op::Iter),
            _ => {
                ops.push(Op::Clear);
                count = 0;
            }
        }
    }
    ops.push(Op::Iter);
    ops.push(Op::Len);
    (tac, nosort, ops)
}

fn elems(v: &[Elem]) -> String {
    coq::list(v.iter().map(|e| coq::pair(coq::z(e.rank), coq::n(e.id))))
}

fn main() {
    let a = args();
    quiet_panics();
    let big = a.extra.get("big").map(|s| s == "1").unwrap_or(false);
    let mut w = CaseWriter::new(&a.out, "Corr.C02", a.shard);
    let mut dist = Hist::default();
    let mut distinct: BTreeSet<u64> = BTreeSet::new();
    let mut samples = Vec::new();
    let mut fails = Vec::new();
    let ids: Vec<u64> = match a.only { Some(i) => vec![i], None => (0..a.n).collect() };
    for id in ids {
        let mut r = Rng::for_case(a.seed, id);
        let (tac, nosort, ops) = gen_history(&mut r, big);
        let ops2 = ops.clone();
        // implementation, with the direct oracle evaluated on its own reads
        let res = guarded(move || {
            let mut ov: OrderedVec<Elem> = OrderedVec::new();
            ov.tac(tac).nosort(nosort);
            let mut since: Vec<Elem> = Vec::new(); // appended since the last clear, arrival order
            let mut terms: Vec<String> = Vec::new();
            let mut bad: Option<String> = None;
            let mut crossed = false; // some append had > 100 new elements ranking before the materialised prefix
            let mut nreads = 0;
            let mut note = |bad: &mut Option<String>, k: usize, m: String| {
                if bad.is_none() {
                    *bad = Some(format!("op #{}: {}", k, m));
                }
            };
            for (k, op) in ops2.iter().enumerate() {
                match op {
                    Op::Append(b) => {
                        if b.len() > 100 { crossed = true; }
                        since.extend(b.iter().cloned());
                        ov.append(b.clone());
                        terms.push(format!("CAppend {}", elems(b)));
                    }
                    Op::Get(i) => {
                        nreads += 1;
                        let got = ov.get(*i).map(|e| e.rank);
                        if got.is_some() != (*i < since.len()) {
                            note(&mut bad, k, format!("get({}) = {:?} but {} results were received", i, got, since.len()));
                        }
                        if let Some(rk) = got {
                            // position i of the documented listing
                            let mut s: Vec<i64> = since.iter().map(|e| e.rank).collect();
                            let want = if nosort {
                                if tac { s[s.len() - 1 - *i] } else { s[*i] }
                            } else {
                                s.sort();
                                if tac { s.reverse(); }
                                s[*i]
                            };
                            if want != rk {
                                note(&mut bad, k, format!("get({}) has rank {}, the listing in rank order has {} there", i, rk, want));
                            }
                        }
                        terms.push(format!("CGet {} {}", coq::n(*i as u64), coq::opt(got.map(coq::z))));
                    }
                    Op::Len => {
                        let n = ov.len();
                        if n != since.len() {
                            note(&mut bad, k, format!("len() = {} but {} results were received since the last clear", n, since.len()));
                        }
                        terms.push(format!("CLen {}", coq::n(n as u64)));
                    }
                    Op::Iter => {
                        nreads += 1;
                        let l: Vec<Elem> = ov.iter().map(|e| e.clone()).collect();
                        if nosort {
                            let mut want: Vec<u64> = since.iter().map(|e| e.id).collect();
                            if tac { want.reverse(); }
                            let got: Vec<u64> = l.iter().map(|e| e.id).collect();
                            if want != got {
                                note(&mut bad, k, "no-sort listing is not (reverse) arrival order".to_string());
                            }
                        } else {
                            for p in l.windows(2) {
                                let ok = if tac { p[0].rank >= p[1].rank } else { p[0].rank <= p[1].rank };
                                if !ok {
                                    note(&mut bad, k, format!("listing out of rank order: rank {} is followed by rank {}", p[0].rank, p[1].rank));
                                    break;
                                }
                            }
                            let mut x: Vec<(i64, u64)> = l.iter().map(|e| (e.rank, e.id)).collect();
                            let mut y: Vec<(i64, u64)> = since.iter().map(|e| (e.rank, e.id)).collect();
                            x.sort();
                            y.sort();
                            if x != y {
                                note(&mut bad, k, format!("listing ({} entries) is not a permutation of the {} results received", x.len(), y.len()));
                            }
                        }
                        terms.push(format!("CIter {}", elems(&l)));
                    }
                    Op::Clear => {
                        ov.clear();
                        since.clear();
                        terms.push("CClear".to_string());
                    }
                }
            }
            (terms, bad, crossed, nreads)
        });
        let shape: Vec<String> = ops.iter().map(|o| match o {
            Op::Append(b) => format!("append({})", b.len()),
            Op::Get(i) => format!("get({})", i),
            Op::Len => "len".into(),
            Op::Iter => "iter".into(),
            Op::Clear => "clear".into(),
        }).collect();
        let input = format!("tac={} nosort={} ops=[{}]", tac, nosort, shape.join(", "));
        match res {
            Err(e) => fails.push(OracleFailure { case: id, what: format!("panic: {}", e), known: None, input }),
            Ok((terms, bad, crossed, nreads)) => {
                if let Some(m) = bad {
                    fails.push(OracleFailure { case: id, what: m, known: None, input: input.clone() });
                }
                dist.add(format!("tac={} nosort={}", tac, nosort));
                dist.add(format!("ops={}", (ops.len() / 5) * 5));
                if crossed { dist.add("batch>move-limit"); }
                if crossed && !nosort && nreads >= 2 {
                    let mut h = 0u64;
                    for c in input.bytes() { h = h.wrapping_mul(1099511628211).wrapping_add(c as u64); }
                    distinct.insert(h ^ id);
                }
                if samples.len() < 3 { samples.push(J::s(&input)); }
                w.push(id, format!("{{| c_tac := {}; c_nosort := {}; c_ops := [{}] |}}", coq::b(tac), coq::b(nosort), terms.join("; ")));
            }
        }
    }
    let total = w.total;
    let shards = w.finish();
    write_meta(
        &a.out, total, distinct.len() as u64,
        "random histories (1-27 ops) over append/get/len/iter/clear in the four tac x nosort configurations; batch sizes 0-5 / 50-150 / 100-160 (300-800 in the thorough tier); ranks from a 6-value domain (ties) or -1000..1000; a quarter start with a materialised prefix of late ranks; non-trivial = sorted mode, some batch larger than the move limit, at least two reads",
        samples, dist.json(), &fails, shards,
    );
}
