//! Selection-widget harness (serves C09, C10, C05): histories of moves, page jumps, row clicks,
//! result updates, clears, redraws and selection actions on the real Selection, observed through
//! its public getters after every step.  Direct oracles: cursor validity / exact motion (C09),
//! set algebra of the selection (C10), accept output (C05).
use skim::verif::{mark_new_run, Event, EventHandler, MatchedItem, Selection};
use skim::{Selector, SkimItem, SkimOptions};
use skv::canvas::Rec;
use skv::*;
use std::borrow::Cow;
use std::collections::{BTreeMap, BTreeSet};
use std::panic::AssertUnwindSafe;
use std::sync::Arc;
use tuikit::draw::Draw;

struct TestItem {
    id: u64,
    text: String,
}
impl SkimItem for TestItem {
    fn text(&self) -> Cow<str> {
        Cow::Borrowed(&self.text)
    }
}
fn id_of(it: &Arc<dyn SkimItem>) -> u64 {
    (**it).as_any().downcast_ref::<TestItem>().map(|t| t.id).unwrap_or(u64::MAX)
}

#[derive(Clone, Debug)]
enum Op {
    Up(i32), Down(i32), PageUp(i32), PageDown(i32), HalfPageUp(i32), HalfPageDown(i32),
    SelectRow(usize), Append(Vec<(u32, u64, i32)>), Clear, Draw(usize),
    Toggle, ToggleAll, SelectAll, DeselectAll, SetRun(u32),
    SelectRaw(u32, u32, u64), SelectMatched(u32, u32, u64),
}

/// the selector of the pre-select options: every k-th input position
struct ModSel(u32);
impl Selector for ModSel {
    fn should_select(&self, index: usize, _item: &dyn SkimItem) -> bool { index as u32 % self.0 == 0 }
}

fn small_k(r: &mut Rng) -> i32 {
    match r.below(10) {
        0..=5 => r.range(0, 4) as i32,
        6..=7 => r.range(-3, 12) as i32,
        8 => r.range(0, 400) as i32,
        _ => r.range(-100000, 100000) as i32,
    }
}

fn gen_ops(r: &mut Rng, sel_heavy: bool) -> Vec<Op> {
    let n = 2 + r.below(40);
    let mut ops = Vec::new();
    let mut next_id = 0u64;
    let mut next_rank = 0i32;
    let mut next_idx = 0u32;
    // a scripted opening (an eighth of the histories): a long list, the cursor scrolled far up, the window shrunk,
    // then the list replaced by a shorter one -- with or without a move / redraw in between
    let scripted = r.chance(1, 8);
    if scripted {
        let h1 = 4 + r.below(10) as usize;
        let n1 = 15 + r.below(50);
        let mut mk = |cnt: u64, next_id: &mut u64, next_idx: &mut u32, next_rank: &mut i32| {
            let mut b = Vec::new();
            for _ in 0..cnt { *next_id += 1; *next_idx += 1; *next_rank += 1; b.push((*next_idx, *next_id, (*next_rank * 7919) % 100003)); }
            Op::Append(b)
        };
        ops.push(mk(n1, &mut next_id, &mut next_idx, &mut next_rank));
        ops.push(Op::Draw(h1));
        ops.push(Op::Up(h1 as i32 - 2 + r.below(n1) as i32));
        if r.chance(1, 3) { ops.push(Op::Down(r.below(4) as i32)); }
        ops.push(Op::Draw(1 + r.below(h1 as u64) as usize));          // the window shrinks (or stays)
        if r.chance(1, 4) { ops.push(Op::Up(r.below(3) as i32)); }
        ops.push(Op::Clear);
        if r.chance(1, 2) { next_idx = 0; }
        ops.push(mk(1 + r.below(n1), &mut next_id, &mut next_idx, &mut next_rank));
        if r.chance(1, 2) { ops.push(Op::Draw(1 + r.below(12) as usize)); }
        ops.push(Op::Toggle);
    }
    // most histories draw early; some never draw before moving (height unknown)
    let early_draw = r.chance(3, 4) && !scripted;
    for step in 0..n {
        if step == 1 && early_draw {
            ops.push(Op::Draw(1 + r.below(10) as usize));
            continue;
        }
        let k = r.below(100);
        let op = if step == 0 || k < 14 {
            let size = match r.below(8) { 0 => 0, 1..=4 => 1 + r.below(6), 5..=6 => 5 + r.below(25), _ => 30 + r.below(120) };
            let mut b = Vec::new();
            for _ in 0..size {
                next_id += 1;
                next_idx += 1;
                // distinct ranks, arriving out of order
                next_rank += 1;
                let rank = (next_rank * 7919) % 100003;
                b.push((next_idx, next_id, rank));
            }
            Op::Append(b)
        } else if k < 19 {
            next_idx = if r.chance(1, 2) { 0 } else { next_idx };
            Op::Clear
        } else if k < 29 {
            Op::Draw(match r.below(8) { 0 => 1, 1 => 2, 7 => 30 + r.below(30) as usize, _ => 1 + r.below(12) as usize })
        } else if sel_heavy && k < 70 {
            match r.below(12) { 0..=5 => Op::Toggle, 6 => Op::ToggleAll, 7 => Op::SelectAll, 8 => Op::DeselectAll, 9 => Op::SetRun(r.below(3) as u32),
                10 => { next_id += 1; Op::SelectRaw(r.below(3) as u32, 1 + r.below(6) as u32, 100000 + next_id) }
                _ => { next_id += 1; Op::SelectMatched(r.below(3) as u32, 1 + r.below(6) as u32, 100000 + next_id) } }
        } else if k < 45 { Op::Up(small_k(r)) }
        else if k < 60 { Op::Down(small_k(r)) }
        else if k < 66 { Op::PageUp(r.range(-1, 3) as i32) }
        else if k < 72 { Op::PageDown(r.range(-1, 3) as i32) }
        else if k < 76 { Op::HalfPageUp(r.range(-1, 5) as i32) }
        else if k < 80 { Op::HalfPageDown(r.range(-1, 5) as i32) }
        else if k < 86 { Op::SelectRow(r.below(14) as usize) }
        else if k < 92 { Op::Toggle }
        else if k < 94 { Op::ToggleAll }
        else if k < 96 { Op::SelectAll }
        else if k < 97 { Op::DeselectAll }
        else if k < 98 { next_id += 1; Op::SelectRaw(r.below(3) as u32, 1 + r.below(6) as u32, 100000 + next_id) }
        else if k < 99 { next_id += 1; Op::SelectMatched(r.below(3) as u32, 1 + r.below(6) as u32, 100000 + next_id) }
        else { Op::SetRun(r.below(3) as u32) };
        ops.push(op);
    }
    // a long interactive session: many other commands in between, then back to an earlier one (its items keep their identity)
    if r.chance(1, 30) {
        for q in 3..(38 + r.below(10) as u32) { ops.push(Op::SetRun(q)); }
        ops.push(Op::SetRun(r.below(3) as u32));
        ops.push(Op::Toggle);
        ops.push(Op::ToggleAll);
    }
    ops
}

#[derive(Clone, Debug)]
struct Obs { idx: usize, n: usize, cur: Option<u64>, nsel: usize, out: Option<(Vec<usize>, Vec<u64>)> }

fn coq_op(o: &Op) -> String {
    match o {
        Op::Up(k) => format!("Up {}", coq::z(*k as i64)), Op::Down(k) => format!("Down {}", coq::z(*k as i64)),
        Op::PageUp(k) => format!("PageUp {}", coq::z(*k as i64)), Op::PageDown(k) => format!("PageDown {}", coq::z(*k as i64)),
        Op::HalfPageUp(k) => format!("HalfPageUp {}", coq::z(*k as i64)), Op::HalfPageDown(k) => format!("HalfPageDown {}", coq::z(*k as i64)),
        Op::SelectRow(r) => format!("SelectRow {}", coq::n(*r as u64)),
        Op::Append(b) => format!("AppendItems {}", coq::list(b.iter().map(|(idx, id, rk)| format!("{{| mi_idx := {}; mi_id := {}; mi_rank := {} |}}", coq::n(*idx as u64), coq::n(*id), coq::z(*rk as i64))))),
        Op::Clear => "Clear".into(), Op::Draw(h) => format!("Draw {}", coq::n(*h as u64)),
        Op::Toggle => "Toggle".into(), Op::ToggleAll => "ToggleAll".into(), Op::SelectAll => "SelectAll".into(), Op::DeselectAll => "DeselectAll".into(),
        Op::SetRun(r) => format!("SetRun {}", coq::n(*r as u64)),
        Op::SelectRaw(r, i, id) => format!("SelectRaw {} {} {}", coq::n(*r as u64), coq::n(*i as u64), coq::n(*id)),
        Op::SelectMatched(r, i, id) => format!("SelectMatched {} {} {}", coq::n(*r as u64), coq::n(*i as u64), coq::n(*id)),
    }
}
fn coq_obs(o: &Obs) -> String {
    format!("{{| o_idx := {}; o_n := {}; o_cur := {}; o_nsel := {}; o_out := {} |}}",
        coq::n(o.idx as u64), coq::n(o.n as u64), coq::opt(o.cur.map(coq::n)), coq::n(o.nsel as u64),
        coq::opt(o.out.as_ref().map(|(a, b)| coq::pair(coq::ns(a.iter().map(|x| *x as u64)), coq::ns(b.iter().cloned())))))
}

fn main() {
    let a = args();
    quiet_panics();
    let mut w = CaseWriter::new(&a.out, "Corr.C09", a.shard);
    let mut dist = Hist::default();
    let mut distinct: BTreeSet<String> = BTreeSet::new();
    let mut samples = Vec::new();
    let mut fails: Vec<OracleFailure> = Vec::new();
    let focus = a.extra.get("focus").cloned().unwrap_or_else(|| "C09".to_string());
    let ids: Vec<u64> = match a.only { Some(i) => vec![i], None => (0..a.n).collect() };
    for id in ids {
        let mut r = Rng::for_case(a.seed, id);
        let reverse = r.chance(1, 2);
        let multi = if focus == "C09" { r.chance(1, 2) } else { r.chance(4, 5) };
        let ops = gen_ops(&mut r, focus != "C09");
        let shape: Vec<String> = ops.iter().map(|o| match o { Op::Append(b) => format!("Append({})", b.len()), o => format!("{:?}", o) }).collect();
        // a selector (pre-selection) in a third of the histories: every item, every second, every third input position
        let selmod: u32 = if r.chance(1, 3) { 1 + r.below(3) as u32 } else { 0 };
        let input = format!("reverse={} multi={} selector={} ops=[{}]", reverse, multi, selmod, shape.join(", "));
        // --- run the implementation -----------------------------------------------------------
        let opts = SkimOptions { multi, layout: if reverse { "reverse" } else { "" },
            selector: if selmod > 0 { Some(std::rc::Rc::new(ModSel(selmod))) } else { None }, ..Default::default() };
        let mut sel = Selection::with_options(&opts);
        let _ = mark_new_run("");
        let mut run_no: u32 = 0;
        let mut run_of: Vec<(u32, u32)> = Vec::new();   // command number -> run number seen
        let mut steps: Vec<(Op, Option<Obs>)> = Vec::new();
        let mut bad: BTreeMap<&'static str, String> = BTreeMap::new(); // property -> first failure
        // oracle state
        let mut idx_of: BTreeMap<u64, u32> = BTreeMap::new(); // object id -> item_idx
        let mut want_sel: BTreeMap<(u32, u32), u64> = BTreeMap::new();
        let mut drawn_h: usize = 0; // height known to the widget (0 = never drawn)
        let mut guard_h: usize = 1; // height at the last move (lc < guard_h)
        let mut prev = Obs { idx: 0, n: 0, cur: None, nsel: 0, out: None };
        let mut listed: Vec<u64> = Vec::new(); // ids since last clear (any order)
        let mut moves_checked = 0;
        let (mut wm, mut wm_run): (usize, u32) = (0, 0); // pre-selection: longest list seen in the latest run with results
        for (k, op) in ops.iter().enumerate() {
            let mut pointer_rows: Option<Vec<usize>> = None;
            let mut outside = 0usize;
            let panicked = {
                let sel_ref = AssertUnwindSafe(&mut sel);
                let res = guarded(move || {
                    let s: &mut Selection = sel_ref.0;
                    match op {
                        Op::Up(k) => { s.handle(&Event::EvActUp(*k)); }
                        Op::Down(k) => { s.handle(&Event::EvActDown(*k)); }
                        Op::PageUp(k) => { s.handle(&Event::EvActPageUp(*k)); }
                        Op::PageDown(k) => { s.handle(&Event::EvActPageDown(*k)); }
                        Op::HalfPageUp(k) => { s.handle(&Event::EvActHalfPageUp(*k)); }
                        Op::HalfPageDown(k) => { s.handle(&Event::EvActHalfPageDown(*k)); }
                        Op::SelectRow(r) => { s.handle(&Event::EvActSelectRow(*r)); }
                        Op::Append(b) => {
                            let items: Vec<MatchedItem> = b.iter().map(|(idx, id, rk)| MatchedItem {
                                item: Arc::new(TestItem { id: *id, text: format!("item {}", id) }),
                                rank: [*rk, 0, 0, 0], matched_range: None, item_idx: *idx }).collect();
                            s.append_sorted_items(items);
                        }
                        Op::Clear => s.clear(),
                        Op::Draw(_) => {}
                        Op::Toggle => { s.handle(&Event::EvActToggle); }
                        Op::ToggleAll => { s.handle(&Event::EvActToggleAll); }
                        Op::SelectAll => { s.handle(&Event::EvActSelectAll); }
                        Op::DeselectAll => { s.handle(&Event::EvActDeselectAll); }
                        Op::SetRun(_) => {}
                        Op::SelectRaw(rn, i, id) => s.act_select_raw_item(*rn, *i, Arc::new(TestItem { id: *id, text: format!("raw {}", id) })),
                        Op::SelectMatched(rn, i, id) => s.act_select_matched(*rn, MatchedItem {
                            item: Arc::new(TestItem { id: *id, text: format!("appended {}", id) }), rank: [0, 0, 0, 0], matched_range: None, item_idx: *i }),
                    }
                });
                res.is_err()
            };
            // the commands differ only in blanks around them: they are still different commands
            if let Op::SetRun(q) = op {
                run_no = if *q < 3 { mark_new_run(&format!("{}verif-run{}", if *q == 2 { " " } else { "" }, if *q == 1 { " " } else { "" })) } else { mark_new_run(&format!("verif-run-other-{}", q)) };
                // a command keeps its run number; different commands have different ones
                if let Some((q2, _)) = run_of.iter().find(|(q2, n2)| (*q2 == *q) != (*n2 == run_no)) {
                    bad.entry("C10").or_insert(format!("op #{} {:?}: command #{} got run number {}, command #{} has {}", k, op, q, run_no, q2, run_of.iter().find(|x| x.0 == *q2).unwrap().1));
                }
                if !run_of.iter().any(|(q2, _)| *q2 == *q) { run_of.push((*q, run_no)); }
            }
            if let Op::Draw(h) = op {
                let mut cv = Rec::new(40, *h);
                let sel_ref = AssertUnwindSafe(&sel);
                let cv_ref = AssertUnwindSafe(&mut cv);
                let res = guarded(move || { let _ = sel_ref.0.draw(cv_ref.0); });
                if res.is_err() { bad.entry("C09").or_insert(format!("op #{} {:?}: draw panicked", k, op)); }
                let g = cv.grid();
                pointer_rows = Some(g.iter().filter(|((_, c), (ch, _))| *c == 0 && *ch == '>').map(|((r, _), _)| *r).collect());
                outside = cv.outside.len();
            }
            if panicked {
                bad.entry("C09").or_insert(format!("op #{} {:?} panicked", k, op));
                let op2 = if let Op::SetRun(_) = op { Op::SetRun(run_no) } else { op.clone() };
                steps.push((op2, None));
                break;
            }
            // observe
            let sel_ref = AssertUnwindSafe(&sel);
            let out = guarded(move || { let (i, v) = sel_ref.0.get_selected_indices_and_items(); (i, v.iter().map(id_of).collect::<Vec<u64>>()) }).ok();
            let o = Obs { idx: sel.get_current_item_idx(), n: sel.get_num_options(), cur: sel.get_current_item().as_ref().map(id_of), nsel: sel.get_num_selected(), out };
            // ---- direct oracles ---------------------------------------------------------------
            match op {
                Op::Append(b) => { for (idx, id, _) in b { idx_of.insert(*id, *idx); listed.push(*id); } }
                Op::Clear => listed.clear(),
                _ => {}
            }
            // C09: the cursor designates an existing result
            if o.n > 0 && (o.idx >= o.n || o.cur.is_none()) {
                bad.entry("C09").or_insert(format!("after op #{} {:?}: cursor index {} with {} results (current item {:?})", k, op, o.idx, o.n, o.cur));
            }
            if o.out.is_none() {
                bad.entry("C05").or_insert(format!("after op #{} {:?}: get_selected_indices_and_items panicked (index {} of {})", k, op, o.idx, o.n));
            }
            // C09: exact clamped motion once drawn
            let hh = drawn_h as i64;
            let want_d: Option<i64> = if drawn_h >= 1 && prev.n > 0 && prev.idx < prev.n {
                let sgn = if reverse { -1i64 } else { 1 };
                match op {
                    Op::Up(k) => Some(sgn * *k as i64), Op::Down(k) => Some(-sgn * *k as i64),
                    Op::PageUp(k) => Some(sgn * (hh - 1) * *k as i64), Op::PageDown(k) => Some(sgn * (1 - hh) * *k as i64),
                    Op::HalfPageUp(k) => Some(sgn * (((hh - 1) * *k as i64) / 2)), Op::HalfPageDown(k) => Some(sgn * (((1 - hh) * *k as i64) / 2)),
                    _ => None,
                }
            } else { None };
            if let Some(d) = want_d {
                let want = (prev.idx as i64 + d).max(0).min(prev.n as i64 - 1);
                moves_checked += 1;
                if o.idx as i64 != want {
                    bad.entry("C09").or_insert(format!("op #{} {:?}: index {} -> {} with {} results, height {}: expected {}", k, op, prev.idx, o.idx, o.n, drawn_h, want));
                }
            }
            match op {
                Op::Up(_) | Op::Down(_) | Op::PageUp(_) | Op::PageDown(_) | Op::HalfPageUp(_) | Op::HalfPageDown(_) | Op::SelectRow(_) => { guard_h = drawn_h.max(1); }
                _ => {}
            }
            if let Op::Draw(h) = op {
                if outside > 0 { bad.entry("C11").or_insert(format!("op #{} draw wrote {} cells outside the {}-row area", k, outside, h)); }
                let rows = pointer_rows.unwrap_or_default();
                // the height is recorded when a row is drawn
                if o.n > 0 && *h >= 1 { drawn_h = *h; }
                if o.n > 0 && *h >= guard_h.max(1) && rows.len() != 1 {
                    bad.entry("C09").or_insert(format!("op #{} Draw({}): window did not shrink since the last move (height then {}) but the pointer is drawn on rows {:?}", k, h, guard_h, rows));
                }
                if rows.len() > 1 { bad.entry("C11").or_insert(format!("op #{} Draw({}): pointer on rows {:?}", k, h, rows)); }
            }
            // C10: set algebra on ids
            if multi {
                match op {
                    Op::Toggle => if prev.n > 0 { if let Some(c) = prev.cur { let key = (run_no, *idx_of.get(&c).unwrap_or(&0)); if want_sel.remove(&key).is_none() { want_sel.insert(key, c); } } },
                    Op::ToggleAll => if prev.n > 0 { for c in &listed { let key = (run_no, idx_of[c]); if want_sel.remove(&key).is_none() { want_sel.insert(key, *c); } } },
                    Op::SelectAll => if prev.n > 0 { for c in &listed { want_sel.insert((run_no, idx_of[c]), *c); } },
                    Op::DeselectAll => want_sel.clear(),
                    Op::SelectRaw(rn, i, id) | Op::SelectMatched(rn, i, id) => { want_sel.insert((*rn, *i), *id); }
                    _ => {}
                }
            }
            // with a selector a result update may add arrivals the selector picks (which of them: the model's watermark rule)
            if multi && selmod > 0 {
                if let Op::Append(b) = op {
                    // arrivals are looked at only while the list is at least as long as it has ever been in this run
                    if !b.is_empty() && run_no > wm_run { wm_run = run_no; wm = 0; }
                    let looked_at = prev.n >= wm;
                    wm = wm.max(o.n);
                    let have: BTreeSet<(u32, u32)> = sel.verif_selected_keys().into_iter().collect();
                    // the objects stored, in key order (a pre-selected arrival replaces the object stored under its key)
                    let stored: Vec<u64> = o.out.as_ref().map(|x| x.1.clone()).unwrap_or_default();
                    for (pos, key) in have.iter().enumerate() {
                        let cand = b.iter().find(|(idx, _, _)| key.0 == run_no && *idx == key.1 && *idx % selmod == 0);
                        if want_sel.contains_key(key) {
                            if let (Some((_, id, _)), Some(got)) = (cand, stored.get(pos)) { if got == id { want_sel.insert(*key, *id); } }
                            continue;
                        }
                        match cand {
                            Some(_) if !looked_at => { bad.entry("C10").or_insert(format!("after op #{} {:?}: key {:?} became selected by itself: the list ({} rows before this batch) had already been longer ({} rows) in this run, so these items had been seen", k, op, key, prev.n, wm)); }
                            Some((_, id, _)) => { want_sel.insert(*key, *id); }
                            None => { bad.entry("C10").or_insert(format!("after op #{} {:?}: key {:?} became selected; it is not an arrival the selector (every {}th position) picks", k, op, key, selmod)); }
                        }
                    }
                }
            }
            if o.nsel != want_sel.len() {
                bad.entry("C10").or_insert(format!("after op #{} {:?}: {} selected, the set algebra gives {}", k, op, o.nsel, want_sel.len()));
            }
            if let Some((_, got_ids)) = &o.out {
                let want: Vec<u64> = if multi && !want_sel.is_empty() { want_sel.values().cloned().collect() } else if o.n > 0 { o.cur.iter().cloned().collect() } else { vec![] };
                if *got_ids != want {
                    let p = if multi && !want_sel.is_empty() { "C10" } else { "C05" };
                    bad.entry(p).or_insert(format!("after op #{} {:?}: accept would return ids {:?}, expected {:?}", k, op, got_ids, want));
                    // what accept returns is not the selected set: that is C05's clause too, whichever action went wrong
                    bad.entry("C05").or_insert(format!("after op #{} {:?}: accept would return ids {:?}, the items selected by the actions so far are {:?}", k, op, got_ids, want));
                }
            }
            prev = o.clone();
            let op2 = if let Op::SetRun(_) = op { Op::SetRun(run_no) } else { op.clone() };
            steps.push((op2, Some(o)));
        }
        let _ = mark_new_run("");
        for (p, m) in &bad {
            if *p == focus || (focus == "C09" && *p == "C11") {
                fails.push(OracleFailure { case: id, what: format!("[{}] {}", p, m), known: None, input: input.clone() });
            }
        }
        for (o, _) in &steps { let n = format!("{:?}", o); dist.add(n.split('(').next().unwrap()); }
        dist.add(format!("reverse={} multi={}", reverse, multi));
        if moves_checked >= 2 || (focus != "C09" && steps.len() >= 6) { distinct.insert(input.clone()); }
        if samples.len() < 3 { samples.push(J::s(&input)); }
        let body: Vec<String> = steps.iter().map(|(o, ob)| format!("({}, {})", coq_op(o), coq::opt(ob.as_ref().map(coq_obs)))).collect();
        w.push(id, format!("{{| c_reverse := {}; c_multi := {}; c_selmod := {}; c_ops := [{}] |}}", coq::b(reverse), coq::b(multi), coq::n(selmod as u64), body.join("; ")));
    }
    let total = w.total;
    let shards = w.finish();
    write_meta(&a.out, total, distinct.len() as u64,
        "random histories (2-41 ops) over up/down(k), page and half-page jumps, row clicks, append(batch of distinct ranks), clear, redraw at height h (1-12, sometimes 30-60; a quarter of the histories move before the first draw), toggle/toggle-all/select-all/deselect-all and run-number changes, in both layouts and both selection modes; k from {0-4, -3..12, 0-400, +-100000}; non-trivial = at least two exact-motion checks after a draw (or >= 6 steps for the selection-focused runs); distinct by history",
        samples, dist.json(), &fails, shards);
}
