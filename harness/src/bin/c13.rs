//! C13 harness: --tiebreak strings x value tuples against the real parse_criteria /
//! RankBuilder / [i32;4] ordering.  Writes Coq case files (model side evaluated by coqc) and
//! evaluates the direct oracle (documented rule re-implemented here, independent of the model).
use skim::verif::{parse_criteria, RankBuilder, RankCriteria};
use skv::*;
use std::cmp::Ordering;
use std::collections::BTreeSet;

const NAMES: [&str; 8] = ["score", "begin", "end", "-score", "-begin", "-end", "length", "-length"];
const JUNK: [&str; 12] = ["", " ", "foo", "scor", "-", "--score", " score", "score ", "lenght", "index", "-index", "\u{212A}ey"];

fn ordinal(c: &str) -> u64 {
    match c {
        "Score" => 0, "Begin" => 1, "End" => 2, "NegScore" => 3,
        "NegBegin" => 4, "NegEnd" => 5, "Length" => 6, "NegLength" => 7,
        _ => 99,
    }
}

fn gen_word(r: &mut Rng) -> String {
    let k = r.below(100);
    if k < 78 {
        let w = *r.pick(&NAMES);
        match r.below(4) {
            0 => w.to_string(),
            1 => w.to_uppercase(),
            _ => w.chars().map(|c| if r.chance(1, 2) { c.to_ascii_uppercase() } else { c }).collect(),
        }
    } else {
        r.pick(&JUNK).to_string()
    }
}

fn gen_opt(r: &mut Rng) -> Option<String> {
    if r.chance(1, 12) {
        return None;
    }
    let n = r.below(10);
    let mut ws: Vec<String> = Vec::new();
    for _ in 0..n {
        if !ws.is_empty() && r.chance(1, 6) {
            let last = ws.last().unwrap().clone();
            ws.push(last);
        } else {
            ws.push(gen_word(r));
        }
    }
    Some(ws.join(","))
}

fn gen_val(r: &mut Rng) -> (i32, usize, usize, usize) {
    let score = match r.below(3) {
        0 => r.range(-3, 3) as i32,
        1 => r.range(-1000, 1000) as i32,
        _ => r.range(-(i32::MAX as i64), i32::MAX as i64) as i32,
    };
    let u = |r: &mut Rng| -> usize {
        match r.below(3) {
            0 => r.below(4) as usize,
            1 => r.below(300) as usize,
            _ => r.below(i32::MAX as u64 + 1) as usize,
        }
    };
    (score, u(r), u(r), u(r))
}

/// the documented rule, written directly: Some(true) = a strictly first
fn doc_cmp(cs: &[String], a: (i32, usize, usize, usize), b: (i32, usize, usize, usize)) -> Ordering {
    for c in cs.iter().take(4) {
        let o = match c.as_str() {
            "Score" => b.0.cmp(&a.0),
            "NegScore" => a.0.cmp(&b.0),
            "Begin" => a.1.cmp(&b.1),
            "NegBegin" => b.1.cmp(&a.1),
            "End" => a.2.cmp(&b.2),
            "NegEnd" => b.2.cmp(&a.2),
            "Length" => a.3.cmp(&b.3),
            "NegLength" => b.3.cmp(&a.3),
            _ => Ordering::Equal,
        };
        if o != Ordering::Equal {
            return o;
        }
    }
    Ordering::Equal
}

/// documented normalisation: known names (case-insensitive), implicit score, adjacent repeats collapse
fn doc_criteria(opt: &Option<String>) -> Vec<String> {
    let mut cs: Vec<String> = match opt {
        None => vec!["Score".into(), "Begin".into(), "End".into()],
        Some(s) => s
            .split(',')
            .filter_map(|w| {
                let w = w.to_ascii_lowercase();
                let (neg, base) = if let Some(b) = w.strip_prefix('-') { (true, b.to_string()) } else { (false, w.clone()) };
                let name = match base.as_str() { "score" => "Score", "begin" => "Begin", "end" => "End", "length" => "Length", _ => return None };
                Some(if neg { format!("Neg{}", name) } else { name.to_string() })
            })
            .collect(),
    };
    if !cs.iter().any(|c| c == "Score" || c == "NegScore") {
        cs.insert(0, "Score".into());
    }
    cs.dedup();
    cs
}

fn main() {
    let a = args();
    quiet_panics();
    let mut w = CaseWriter::new(&a.out, "Corr.C13", a.shard);
    let mut dist = Hist::default();
    let mut distinct: BTreeSet<String> = BTreeSet::new();
    let mut samples = Vec::new();
    let mut fails = Vec::new();
    let ids: Vec<u64> = match a.only { Some(i) => vec![i], None => (0..a.n).collect() };
    for id in ids {
        let mut r = Rng::for_case(a.seed, id);
        let opt = gen_opt(&mut r);
        let va = gen_val(&mut r);
        let mut vb = gen_val(&mut r);
        // ties on a random subset of fields
        if r.chance(1, 2) {
            if r.chance(1, 2) { vb.0 = va.0; }
            if r.chance(1, 2) { vb.1 = va.1; }
            if r.chance(1, 2) { vb.2 = va.2; }
            if r.chance(1, 2) { vb.3 = va.3; }
        }
        // implementation
        let res = guarded(|| {
            let crit: Vec<RankCriteria> = match &opt {
                Some(t) => t.split(',').filter_map(parse_criteria).collect(),
                None => vec![RankCriteria::Score, RankCriteria::Begin, RankCriteria::End],
            };
            let rb = RankBuilder::new(crit);
            let dbg = format!("{:?}", rb);
            let inner = dbg.split('[').nth(1).unwrap_or("").split(']').next().unwrap_or("").to_string();
            let names: Vec<String> = inner.split(',').map(|s| s.trim().to_string()).filter(|s| !s.is_empty()).collect();
            let ra = rb.build_rank(va.0, va.1, va.2, va.3);
            let rbk = rb.build_rank(vb.0, vb.1, vb.2, vb.3);
            (names, ra, rbk, ra.cmp(&rbk))
        });
        let input = format!("tiebreak={:?} a={:?} b={:?}", opt, va, vb);
        let (names, ra, rbk, ord) = match res {
            Ok(x) => x,
            Err(e) => {
                fails.push(OracleFailure { case: id, what: format!("panic: {}", e), known: None, input });
                continue;
            }
        };
        // direct oracle
        let dc = doc_criteria(&opt);
        if dc != names {
            fails.push(OracleFailure { case: id, what: format!("criteria {:?}, documented {:?}", names, dc), known: None, input: input.clone() });
        } else {
            let want = doc_cmp(&dc, va, vb);
            if want != ord {
                fails.push(OracleFailure { case: id, what: format!("order {:?}, documented {:?} (ranks {:?} {:?})", ord, want, ra, rbk), known: None, input: input.clone() });
            }
        }
        // stats
        let nknown = names.len();
        dist.add(format!("criteria={}", nknown.min(6)));
        dist.add(format!("order={:?}", ord));
        dist.add(if opt.is_none() { "option=absent" } else { "option=given" });
        let key = format!("{:?}|{:?}|{:?}", names, va, vb);
        if nknown >= 2 && va != vb && opt.is_some() {
            distinct.insert(key);
        }
        if samples.len() < 3 {
            samples.push(J::s(format!("{} -> criteria={:?} rank_a={:?} rank_b={:?} cmp={:?}", input, names, ra, rbk, ord)));
        }
        // coq case
        let val = |v: (i32, usize, usize, usize)| format!("({}, {}, {}, {})", coq::z(v.0 as i64), coq::n(v.1 as u64), coq::n(v.2 as u64), coq::n(v.3 as u64));
        let term = format!(
            "{{| c_opt := {}; c_a := {}; c_b := {}; i_criteria := {}; i_rank_a := {}; i_rank_b := {}; i_cmp := {} |}}",
            coq::opt(opt.as_ref().map(|s| coq::text(s))),
            val(va), val(vb),
            coq::ns(names.iter().map(|s| ordinal(s))),
            coq::zs(ra.iter().map(|x| *x as i64)),
            coq::zs(rbk.iter().map(|x| *x as i64)),
            coq::z(match ord { Ordering::Less => -1, Ordering::Equal => 0, Ordering::Greater => 1 })
        );
        w.push(id, term);
    }
    let total = w.total;
    let shards = w.finish();
    write_meta(
        &a.out, total, distinct.len() as u64,
        "random --tiebreak strings (8 names in random letter case, junk words, adjacent duplicates, absent option) x two (score,begin,end,length) tuples with forced ties; non-trivial = option given, >= 2 criteria after normalisation, a != b; distinct by (criteria, a, b)",
        samples, dist.json(), &fails, shards,
    );
}
