//! C13 harness: --tiebreak strings x value tuples against the real parse_criteria /
//! RankBuilder / [i32;4] ordering.  Writes Coq case files (model side evaluated by coqc) and
//! evaluates the direct oracle (documented rule re-implemented here, independent of the model).
use skim::prelude::{AndOrEngineFactory, ExactOrFuzzyEngineFactory, RegexEngineFactory};
use skim::verif::{parse_criteria, RankBuilder, RankCriteria};
use skim::{CaseMatching, FuzzyAlgorithm, MatchEngineFactory, MatchRange, SkimItem};
use std::borrow::Cow;
use std::sync::Arc;
use skv::*;
use std::cmp::Ordering;
use std::collections::BTreeSet;

const NAMES: [&str; 8] = ["score", "begin", "end", "-score", "-begin", "-end", "length", "-length"];
const JUNK: [&str; 12] = ["", " ", "foo", "scor", "-", "--score", " score", "score ", "lenght", "index", "-index", "\u{212A}ey"];

fn ordinal(c: &str) -> u64 {
    match c {
        "Score" => 0, "Begin" => 1, "End" => 2, "NegScore" => 3,
        "NegBegin" => 4, "NegEnd" => 5, "Length" => 6, "NegLength" => 7,
        _ => 99,
    }
}

fn gen_word(r: &mut Rng) -> String {
    let k = r.below(100);
    if k < 78 {
        let w = *r.pick(&NAMES);
        match r.below(4) {
            0 => w.to_string(),
            1 => w.to_uppercase(),
            _ => w.chars().map(|c| if r.chance(1, 2) { c.to_ascii_uppercase() } else { c }).collect(),
        }
    } else {
        r.pick(&JUNK).to_string()
    }
}

fn gen_opt(r: &mut Rng) -> Option<String> {
    if r.chance(1, 12) {
        return None;
    }
    let n = r.below(10);
    let mut ws: Vec<String> = Vec::new();
    for _ in 0..n {
        if !ws.is_empty() && r.chance(1, 6) {
            let last = ws.last().unwrap().clone();
            ws.push(last);
        } else {
            ws.push(gen_word(r));
        }
    }
    Some(ws.join(","))
}

fn gen_val(r: &mut Rng) -> (i32, usize, usize, usize) {
    let score = match r.below(3) {
        0 => r.range(-3, 3) as i32,
        1 => r.range(-1000, 1000) as i32,
        _ => r.range(-(i32::MAX as i64), i32::MAX as i64) as i32,
    };
    let u = |r: &mut Rng| -> usize {
        match r.below(3) {
            0 => r.below(4) as usize,
            1 => r.below(300) as usize,
            _ => r.below(i32::MAX as u64 + 1) as usize,
        }
    };
    (score, u(r), u(r), u(r))
}

/// the documented rule, written directly: Some(true) = a strictly first
fn doc_cmp(cs: &[String], a: (i32, usize, usize, usize), b: (i32, usize, usize, usize)) -> Ordering {
    for c in cs.iter().take(4) {
        let o = match c.as_str() {
            "Score" => b.0.cmp(&a.0),
            "NegScore" => a.0.cmp(&b.0),
            "Begin" => a.1.cmp(&b.1),
            "NegBegin" => b.1.cmp(&a.1),
            "End" => a.2.cmp(&b.2),
            "NegEnd" => b.2.cmp(&a.2),
            "Length" => a.3.cmp(&b.3),
            "NegLength" => b.3.cmp(&a.3),
            _ => Ordering::Equal,
        };
        if o != Ordering::Equal {
            return o;
        }
    }
    Ordering::Equal
}

/// documented normalisation: known names (case-insensitive), implicit score, adjacent repeats collapse
fn doc_criteria(opt: &Option<String>) -> Vec<String> {
    let mut cs: Vec<String> = match opt {
        None => vec!["Score".into(), "Begin".into(), "End".into()],
        Some(s) => s
            .split(',')
            .filter_map(|w| {
                let w = w.to_ascii_lowercase();
                let (neg, base) = if let Some(b) = w.strip_prefix('-') { (true, b.to_string()) } else { (false, w.clone()) };
                let name = match base.as_str() { "score" => "Score", "begin" => "Begin", "end" => "End", "length" => "Length", _ => return None };
                Some(if neg { format!("Neg{}", name) } else { name.to_string() })
            })
            .collect(),
    };
    if !cs.iter().any(|c| c == "Score" || c == "NegScore") {
        cs.insert(0, "Score".into());
    }
    cs.dedup();
    cs
}

struct NthItem {
    text: String,
    ranges: Option<Vec<(usize, usize)>>,
}
impl SkimItem for NthItem {
    fn text(&self) -> Cow<str> {
        Cow::Borrowed(&self.text)
    }
    fn get_matching_ranges(&self) -> Option<&[(usize, usize)]> {
        self.ranges.as_deref()
    }
}

const TCHARS: [char; 9] = ['a', 'b', 'c', 'A', ' ', '-', '中', 'é', 'x'];

fn builder_for(opt: &Option<String>) -> Arc<RankBuilder> {
    let crit: Vec<RankCriteria> = match opt {
        Some(t) => t.split(',').filter_map(parse_criteria).collect(),
        None => vec![RankCriteria::Score, RankCriteria::Begin, RankCriteria::End],
    };
    Arc::new(RankBuilder::new(crit))
}

/// one engine-level case: returns (coq term, input description, oracle failure)
fn engine_case(r: &mut Rng, dist: &mut Hist) -> Option<(String, String, Option<String>)> {
    let text: String = (0..(1 + r.below(14))).map(|_| *r.pick(&TCHARS)).collect();
    // --nth style byte ranges on char boundaries
    let bounds: Vec<usize> = text.char_indices().map(|(i, _)| i).chain(std::iter::once(text.len())).collect();
    let ranges = if r.chance(1, 2) {
        let k = 1 + r.below(3);
        let mut v = Vec::new();
        for _ in 0..k {
            let a = *r.pick(&bounds);
            let b = *r.pick(&bounds);
            v.push((a.min(b), a.max(b)));
        }
        Some(v)
    } else {
        None
    };
    // sometimes no body at all: the anchor-only terms ^ $ ' ! and the empty term
    let body: String = if r.chance(1, 5) { String::new() } else { (0..(1 + r.below(3))).map(|_| *r.pick(&['a', 'b', 'c', 'x', '中'])).collect() };
    let kind = r.below(6);
    let term = match kind {
        0 => body.clone(),
        1 => format!("'{}", body),
        2 => format!("^{}", body),
        3 => format!("{}$", body),
        4 => format!("!{}", body),
        _ => body.clone(),
    };
    let algo = *r.pick(&[FuzzyAlgorithm::SkimV1, FuzzyAlgorithm::SkimV2, FuzzyAlgorithm::Clangd]);
    let exact = r.chance(1, 4);
    let regex = kind == 5 && r.chance(1, 2);
    let andor = r.chance(1, 3);
    let opt = if r.chance(1, 8) { None } else { gen_opt(r) };
    // the same engine under the given criteria and under "-score,begin,end,length" (to read score/begin/end back)
    let probe = Some("-score,begin,end,length".to_string());
    let mk = |o: &Option<String>, andor: bool| -> Box<dyn skim::MatchEngine> {
        let rb = builder_for(o);
        if regex {
            RegexEngineFactory::builder().rank_builder(rb).build().create_engine_with_case(&term, CaseMatching::Smart)
        } else {
            let f = ExactOrFuzzyEngineFactory::builder().exact_mode(exact).fuzzy_algorithm(algo).rank_builder(rb).build();
            if andor { AndOrEngineFactory::new(f).create_engine_with_case(&term, CaseMatching::Smart) } else { f.create_engine_with_case(&term, CaseMatching::Smart) }
        }
    };
    let item: Arc<dyn SkimItem> = Arc::new(NthItem { text: text.clone(), ranges: ranges.clone() });
    let got = mk(&opt, andor).match_item(item.clone())?;
    let pr = mk(&probe, andor).match_item(item.clone())?;
    // where the match is: as reported by the term's own engine (the and/or combinator keeps the
    // first term's rank but re-expresses the positions as character indices)
    let plain = mk(&probe, false).match_item(item.clone())?;
    let input = format!("engine term={:?} text={:?} nth_ranges={:?} exact={} regex={} andor={} algorithm={:?} tiebreak={:?}", term, text, ranges, exact, regex, andor, algo, opt);
    let (mb, me) = match &plain.matched_range {
        MatchRange::ByteRange(b, e) => (*b, *e),
        MatchRange::Chars(v) => (*v.first().unwrap_or(&0), *v.last().unwrap_or(&0)),
    };
    dist.add(match &plain.matched_range { MatchRange::ByteRange(..) => "engine=span", MatchRange::Chars(_) => "engine=fuzzy" });
    if ranges.is_some() { dist.add("engine:nth"); }
    let score = pr.rank[0] as i64;
    let mut bad = None;
    // direct oracle: under "-score,begin,end,length" the key is (score, match start, match end, byte length)
    if pr.rank[1] as usize != mb || pr.rank[2] as usize != me || pr.rank[3] as usize != text.len() {
        bad = Some(format!("rank under -score,begin,end,length is {:?} but the reported match is {:?} in a text of {} bytes", pr.rank, plain.matched_range, text.len()));
    }
    let term_coq = format!(
        "KEngine {{| e_opt := {}; e_score := {}; e_begin := {}; e_end := {}; e_len := {}; e_rank := {} |}}",
        coq::opt(opt.as_ref().map(|s| coq::text(s))), coq::z(score), coq::n(mb as u64), coq::n(me as u64), coq::n(text.len() as u64),
        coq::zs(got.rank.iter().map(|x| *x as i64)));
    Some((term_coq, input, bad))
}

fn main() {
    let a = args();
    quiet_panics();
    let mut w = CaseWriter::new(&a.out, "Corr.C13", a.shard);
    let mut dist = Hist::default();
    let mut distinct: BTreeSet<String> = BTreeSet::new();
    let mut samples = Vec::new();
    let mut fails = Vec::new();
    let ids: Vec<u64> = match a.only { Some(i) => vec![i], None => (0..a.n).collect() };
    for id in ids {
        let mut r = Rng::for_case(a.seed, id);
        if id % 4 == 3 {
            // engine-level case (a quarter of the run); non-matching draws are skipped
            let res = guarded(|| { let mut d = Hist::default(); let x = engine_case(&mut r.clone(), &mut d); (x, d) });
            match res {
                Err(e) => fails.push(OracleFailure { case: id, what: format!("panic in engine case: {}", e), known: None, input: format!("engine case seed={} id={}", a.seed, id) }),
                Ok((None, _)) => dist.add("engine=no-match"),
                Ok((Some((term, input, bad)), d)) => {
                    for (k, v) in d.0 { *dist.0.entry(k).or_insert(0) += v; }
                    if let Some(m) = bad { fails.push(OracleFailure { case: id, what: m, known: None, input: input.clone() }); }
                    distinct.insert(input.clone());
                    if samples.len() < 4 && samples.len() >= 2 { samples.push(J::s(&input)); }
                    w.push(id, term);
                }
            }
            continue;
        }
        let opt = gen_opt(&mut r);
        let va = gen_val(&mut r);
        let mut vb = gen_val(&mut r);
        // ties on a random subset of fields
        if r.chance(1, 2) {
            if r.chance(1, 2) { vb.0 = va.0; }
            if r.chance(1, 2) { vb.1 = va.1; }
            if r.chance(1, 2) { vb.2 = va.2; }
            if r.chance(1, 2) { vb.3 = va.3; }
        }
        // implementation
        let res = guarded(|| {
            let crit: Vec<RankCriteria> = match &opt {
                Some(t) => t.split(',').filter_map(parse_criteria).collect(),
                None => vec![RankCriteria::Score, RankCriteria::Begin, RankCriteria::End],
            };
            let rb = RankBuilder::new(crit);
            let dbg = format!("{:?}", rb);
            let inner = dbg.split('[').nth(1).unwrap_or("").split(']').next().unwrap_or("").to_string();
            let names: Vec<String> = inner.split(',').map(|s| s.trim().to_string()).filter(|s| !s.is_empty()).collect();
            let ra = rb.build_rank(va.0, va.1, va.2, va.3);
            let rbk = rb.build_rank(vb.0, vb.1, vb.2, vb.3);
            // the order the result list uses: Ord of MatchedItem, not of the bare arrays
            let mi = |rank: [i32; 4]| skim::verif::MatchedItem { item: Arc::new(String::new()) as Arc<dyn SkimItem>, rank, matched_range: None, item_idx: 0 };
            let ord = mi(ra).cmp(&mi(rbk));
            (names, ra, rbk, ord)
        });
        let input = format!("tiebreak={:?} a={:?} b={:?}", opt, va, vb);
        let (names, ra, rbk, ord) = match res {
            Ok(x) => x,
            Err(e) => {
                fails.push(OracleFailure { case: id, what: format!("panic: {}", e), known: None, input });
                continue;
            }
        };
        // direct oracle
        let dc = doc_criteria(&opt);
        if dc != names {
            fails.push(OracleFailure { case: id, what: format!("criteria {:?}, documented {:?}", names, dc), known: None, input: input.clone() });
        } else {
            let want = doc_cmp(&dc, va, vb);
            if want != ord {
                fails.push(OracleFailure { case: id, what: format!("order {:?}, documented {:?} (ranks {:?} {:?})", ord, want, ra, rbk), known: None, input: input.clone() });
            }
        }
        // stats
        let nknown = names.len();
        dist.add(format!("criteria={}", nknown.min(6)));
        dist.add(format!("order={:?}", ord));
        dist.add(if opt.is_none() { "option=absent" } else { "option=given" });
        let key = format!("{:?}|{:?}|{:?}", names, va, vb);
        if nknown >= 2 && va != vb && opt.is_some() {
            distinct.insert(key);
        }
        if samples.len() < 3 {
            samples.push(J::s(format!("{} -> criteria={:?} rank_a={:?} rank_b={:?} cmp={:?}", input, names, ra, rbk, ord)));
        }
        // coq case
        let val = |v: (i32, usize, usize, usize)| format!("({}, {}, {}, {})", coq::z(v.0 as i64), coq::n(v.1 as u64), coq::n(v.2 as u64), coq::n(v.3 as u64));
        let term = format!(
            "{{| c_opt := {}; c_a := {}; c_b := {}; i_criteria := {}; i_rank_a := {}; i_rank_b := {}; i_cmp := {} |}}",
            coq::opt(opt.as_ref().map(|s| coq::text(s))),
            val(va), val(vb),
            coq::ns(names.iter().map(|s| ordinal(s))),
            coq::zs(ra.iter().map(|x| *x as i64)),
            coq::zs(rbk.iter().map(|x| *x as i64)),
            coq::z(match ord { Ordering::Less => -1, Ordering::Equal => 0, Ordering::Greater => 1 })
        );
        w.push(id, format!("KRank {}", term));
    }
    let total = w.total;
    let shards = w.finish();
    write_meta(
        &a.out, total, distinct.len() as u64,
        "random --tiebreak strings (8 names in random letter case, junk words, adjacent duplicates, absent option) x two (score,begin,end,length) tuples with forced ties; non-trivial = option given, >= 2 criteria after normalisation, a != b; distinct by (criteria, a, b); every fourth case instead runs a real engine (exact/fuzzy x3 algorithms/regex/and-or, with random --nth byte ranges) on a real item and compares its rank with build_rank of the match it reports",
        samples, dist.json(), &fails, shards,
    );
}
