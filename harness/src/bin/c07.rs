//! C07 harness: the real inject_command on templates mixing shell text with placeholders, and
//! contexts whose item texts / queries are drawn from the full shell metacharacter set.
//! Direct oracle: /bin/sh itself reads the expansion back (printf '%s\0' <placeholders>) and the
//! words it sees must be the designated values (NUL rendered as \0).
use regex::Regex;
use skim::verif::{inject_command, InjectContext};
use skv::*;
use std::collections::BTreeSet;
use std::process::Command;

const VCHARS: [&str; 38] = ["{}", "{1}", "{+}", "{q}", "{n}", "{", "}", "\\{}", "a", "b", "c", "1", ",", ",", " ", "'", "\"", "$", "`", "\\", ";", "|", "&", "\n", "\0", "*", "?", "[", "]", "~", "#", "(", ")", "<", ">", "中", "é", "\t"];
const LITS: [&str; 16] = ["echo ", "cat ", " | wc -l", "; ", "\"$HOME\" ", "'lit' ", "{", "}", "\\", "$(true) ", "-x ", "{x} ", "{ ", "\\\\", "{1,2} ", "a{b"];

#[derive(Clone, Debug)]
enum Ph { Cur, Idx, Q, Cq, Range(Option<i32>, bool, Option<i32>), Plus, PlusIdx, PlusRange(Option<i32>, bool, Option<i32>) }

fn range_str(l: &Option<i32>, sep: bool, r: &Option<i32>) -> String {
    format!("{}{}{}", l.map(|x| x.to_string()).unwrap_or_default(), if sep { ".." } else { "" }, r.map(|x| x.to_string()).unwrap_or_default())
}
fn ph_str(p: &Ph, pad: (usize, usize)) -> String {
    let body = match p {
        Ph::Cur => String::new(), Ph::Idx => "n".into(), Ph::Q => "q".into(), Ph::Cq => "cq".into(),
        Ph::Range(l, s, r) => range_str(l, *s, r), Ph::Plus => "+".into(), Ph::PlusIdx => "+n".into(),
        Ph::PlusRange(l, s, r) => format!("+{}", range_str(l, *s, r)),
    };
    format!("{{{}{}{}}}", " ".repeat(pad.0), body, " ".repeat(pad.1))
}
fn gen_range(r: &mut Rng) -> (Option<i32>, bool, Option<i32>) {
    let n = |r: &mut Rng| r.range(-4, 4) as i32;
    match r.below(4) { 0 => (Some(n(r)), false, None), 1 => (Some(n(r)), true, None), 2 => (None, true, Some(n(r))), _ => (Some(n(r)), true, Some(n(r))) }
}
fn gen_ph(r: &mut Rng) -> Ph {
    match r.below(12) {
        0..=1 => Ph::Cur, 2 => Ph::Idx, 3 => Ph::Q, 4 => Ph::Cq,
        5..=7 => { let (a, b, c) = gen_range(r); Ph::Range(a, b, c) }
        8 => Ph::Plus, 9 => Ph::PlusIdx,
        _ => { let (a, b, c) = gen_range(r); Ph::PlusRange(a, b, c) }
    }
}
fn gen_val(r: &mut Rng, max: u64) -> String {
    if max >= 6 && r.chance(1, 3) {
        // many short fields: ranges with a negative and a positive bound only differ from others on such items
        let nf = 3 + r.below(7);
        return (0..nf).map(|_| (0..r.below(3)).map(|_| *r.pick(&["a", "b", "1", "'", " ", "中", "\\", "0"])).collect::<String>()).collect::<Vec<_>>().join(*r.pick(&[",", ",", "'", "\\"]));
    }
    (0..r.below(max + 1)).map(|_| *r.pick(&VCHARS)).collect()
}

/// documented: fields of `text` split at the delimiter's matches, selected by the range, as the
/// stretch of the text from the first selected field to the last, without the trailing delimiter
fn doc_fields(re: &Regex, text: &str, l: &Option<i32>, sep: bool, rr: &Option<i32>) -> String {
    // field i (1-based) = text[starts[i-1] .. ends[i-1]]
    let mut starts = vec![0usize];
    let mut ends = Vec::new();
    for m in re.find_iter(text) { ends.push(m.start()); starts.push(m.end()); }
    ends.push(text.len());
    let k = starts.len() as i64;
    let tr = |i: i64| if i < 0 { i + k + 1 } else { i };
    let (lo, hi) = match (l, sep, rr) {
        (Some(a), false, None) => (tr(*a as i64), tr(*a as i64)),
        (Some(a), true, None) => (tr(*a as i64), k),
        (None, true, Some(b)) => (1, tr(*b as i64)),
        (Some(a), _, Some(b)) => (tr(*a as i64), tr(*b as i64)),
        (None, _, None) => (1, k),
        (None, false, Some(b)) => (tr(*b as i64), tr(*b as i64)),
    };
    let sel: Vec<i64> = (1..=k).filter(|i| lo <= *i && *i <= hi).collect();
    match (sel.first(), sel.last()) {
        (Some(a), Some(b)) => text[starts[(*a - 1) as usize]..ends[(*b - 1) as usize]].to_string(),
        _ => String::new(),
    }
}
fn render(v: &str) -> String { v.replace('\0', "\\0") }

struct Ctx { idx: usize, cur: String, idxs: Vec<usize>, sels: Vec<String>, q: String, cq: String, re: Regex }

fn designated(p: &Ph, c: &Ctx) -> Vec<String> {
    let sels: Vec<(String, usize)> = if c.sels.is_empty() { vec![(c.cur.clone(), c.idx)] } else { c.sels.iter().cloned().zip(c.idxs.iter().cloned()).collect() };
    match p {
        Ph::Cur => vec![c.cur.clone()], Ph::Idx => vec![c.idx.to_string()], Ph::Q => vec![c.q.clone()], Ph::Cq => vec![c.cq.clone()],
        Ph::Range(l, s, r) => vec![doc_fields(&c.re, &c.cur, l, *s, r)],
        Ph::Plus => sels.iter().map(|x| x.0.clone()).collect(),
        Ph::PlusIdx => sels.iter().map(|x| x.1.to_string()).collect(),
        Ph::PlusRange(l, s, r) => sels.iter().map(|x| doc_fields(&c.re, &x.0, l, *s, r)).collect(),
    }
}

fn item_coq(t: &str, re: &Regex) -> String {
    let ms: Vec<(usize, usize)> = re.find_iter(t).map(|m| (t[..m.start()].chars().count(), t[..m.end()].chars().count())).collect();
    format!("{{| it_text := {}; it_ms := {} |}}", coq::text(t), coq::list(ms.iter().map(|(a, b)| coq::pair(coq::n(*a as u64), coq::n(*b as u64)))))
}

fn main() {
    let a = args();
    quiet_panics();
    let mut w = CaseWriter::new(&a.out, "Corr.C07", a.shard);
    let mut dist = Hist::default();
    let mut distinct: BTreeSet<String> = BTreeSet::new();
    let mut samples = Vec::new();
    let mut fails = Vec::new();
    let sh_every: u64 = a.extra.get("sh_every").map(|s| s.parse().unwrap()).unwrap_or(1);
    let ids: Vec<u64> = match a.only { Some(i) => vec![i], None => (0..a.n).collect() };
    for id in ids {
        let mut r = Rng::for_case(a.seed, id);
        // the delimiter: usually a comma; sometimes a pattern that matches characters the escaping produces
        let re = Regex::new(match r.below(8) { 0 => "'", 1 => "\\\\", 2 => "[',]", 3 => "[0\\\\]", _ => "," }).unwrap();
        let nsel = if r.chance(1, 2) { 0 } else { 1 + r.below(3) as usize };
        let c = Ctx { re: re.clone(), idx: r.below(1000) as usize, cur: gen_val(&mut r, 8), idxs: (0..nsel).map(|_| r.below(50) as usize).collect(),
                      sels: (0..nsel).map(|_| gen_val(&mut r, 6)).collect(), q: gen_val(&mut r, 5), cq: gen_val(&mut r, 4) };
        // template 1: shell text mixed with placeholders (compared with the model)
        let mut cmd = String::new();
        let mut phs: Vec<Ph> = Vec::new();
        for _ in 0..(1 + r.below(6)) {
            if r.chance(1, 2) { cmd.push_str(*r.pick(&LITS)); }
            else {
                let p = gen_ph(&mut r);
                if r.chance(1, 8) { cmd.push('\\'); }
                let pad = if r.chance(1, 6) { (r.below(3) as usize, r.below(3) as usize) } else { (0, 0) };
                cmd.push_str(&ph_str(&p, pad));
                phs.push(p);
            }
        }
        // template 2: placeholders only, read back through /bin/sh
        let probes: Vec<Ph> = (0..(1 + r.below(3))).map(|_| gen_ph(&mut r)).collect();
        let probe_cmd = format!("printf '%s\\0' {}", probes.iter().map(|p| ph_str(p, (0, 0))).collect::<Vec<_>>().join(" "));
        let input = format!("delimiter={:?} cmd={:?} probe={:?} index={} current={:?} indices={:?} selections={:?} query={:?} cmd_query={:?}", re.as_str(), cmd, probe_cmd, c.idx, c.cur, c.idxs, c.sels, c.q, c.cq);
        let selrefs: Vec<&str> = c.sels.iter().map(|s| s.as_str()).collect();
        let ictx = InjectContext { delimiter: &re, current_index: c.idx, current_selection: &c.cur, indices: &c.idxs, selections: &selrefs, query: &c.q, cmd_query: &c.cq };
        let (cmd2, probe2) = (cmd.clone(), probe_cmd.clone());
        let res = guarded(std::panic::AssertUnwindSafe(move || (inject_command(&cmd2, ictx).to_string(), inject_command(&probe2, ictx).to_string())));
        match res {
            Err(e) => fails.push(OracleFailure { case: id, what: format!("panic: {}", e), known: None, input }),
            Ok((out, probe_out)) => {
                // direct oracle through the real shell
                if id % sh_every == 0 {
                    let want: Vec<String> = probes.iter().flat_map(|p| designated(p, &c)).map(|v| render(&v)).collect();
                    match Command::new("/bin/sh").arg("-c").arg(&probe_out).output() {
                        Ok(o) => {
                            let mut got: Vec<String> = o.stdout.split(|b| *b == 0).map(|w| String::from_utf8_lossy(w).to_string()).collect();
                            got.pop();
                            if got != want || !o.status.success() {
                                fails.push(OracleFailure { case: id, what: format!("/bin/sh reads {:?} from {:?}; the designated values are {:?}", got, probe_out, want), known: None, input: input.clone() });
                            }
                        }
                        Err(e) => fails.push(OracleFailure { case: id, what: format!("cannot run /bin/sh: {}", e), known: None, input: input.clone() }),
                    }
                }
                for p in phs.iter().chain(probes.iter()) { let n = format!("{:?}", p); dist.add(n.split('(').next().unwrap()); }
                dist.add(if c.sels.is_empty() { "selection=none" } else { "selection=some" });
                if !phs.is_empty() && c.cur.chars().any(|ch| "'\"$`\\;|&\n\0*".contains(ch)) { distinct.insert(input.clone()); }
                if samples.len() < 3 { samples.push(J::s(format!("{} -> {:?}", input, out))); }
                w.push(id, format!(
                    "{{| c_cmd := {}; c_ctx := {{| current_index := {}; current := {}; indices := {}; selections := {}; query := {}; cmd_query := {} |}}; i_out := {}; i_depends := true |}}",
                    coq::text(&cmd), coq::n(c.idx as u64), item_coq(&c.cur, &re), coq::ns(c.idxs.iter().map(|x| *x as u64)),
                    coq::list(c.sels.iter().map(|s| item_coq(s, &re))), coq::text(&c.q), coq::text(&c.cq), coq::text(&out)));
            }
        }
    }
    let total = w.total;
    let shards = w.finish();
    write_meta(&a.out, total, distinct.len() as u64,
        "templates of 1-6 pieces (shell text incl. quotes, pipes, braces, backslashes, look-alikes such as {x} {1,2}; placeholders {}, {n}, {q}, {cq}, {R}, {+}, {+n}, {+R} with R in N, N.., ..M, N..M over -4..4, optional blanks, sometimes backslash-escaped) x contexts with item texts, queries and 0-3 selections over the shell metacharacter set (quotes, $, backquote, backslash, ;|&, newline, NUL, globs, brackets, multi-byte); every case also expands a placeholder-only probe through /bin/sh; non-trivial = at least one placeholder and a metacharacter in the current item; distinct by input",
        samples, dist.json(), &fails, shards);
}
