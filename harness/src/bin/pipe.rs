//! Pipeline harness (C01, C14, C15): whole sessions of the real event loop (Model::start on a held
//! terminal, real reader / matcher / item pool / selection threads) with items arriving in chunks,
//! query edits racing with arrival, mode rotation, spurious heartbeats, header lines, -1/-0/--sync,
//! and delays at the trace points.  Direct oracles: at quiescence the accepted (select-all) output
//! is exactly the matching items in arrival order (C01, C15 identity); an automatic -1/-0 decision
//! is taken only when the complete result has one / no item and is taken when it has (C14).
//! Correspondence: the main thread's trace (values read, actions taken) is replayed through the
//! Coq handler model; component cases drive the real ItemPool against the pool model.
use skim::prelude::*;
use skim::verif as V;
use skv::*;
use std::sync::mpsc;
use std::sync::Arc;
use std::time::{Duration, Instant};

#[derive(Clone, Debug)]
enum Act {
    Feed(usize),
    Eof,
    Add(char),
    Back,
    Rotate,
    Hb,
    Cmd,
}

#[derive(Clone, Debug)]
struct Sess {
    items: Vec<String>,
    timeline: Vec<(u64, Act)>,
    init_query: String,
    exact: bool,
    select1: bool,
    exit0: bool,
    sync: bool,
    header_lines: usize,
    no_clear_if_empty: bool,
    delays: Vec<(&'static str, usize, u64)>,
}

const WORDS: [&str; 12] = ["ab", "ba", "abc", "cab", "bca", "aa", "bb", "c", "acb", "xyz", "axb", "b"];
const POINTS: [&str; 12] = ["hb.stopped", "hb.done", "hb.harvest", "hb.consumed", "hb.end", "rm.done", "rm.append", "rm.spawn", "m.load", "m.take", "m.publish", "m.notify"];

fn gen(r: &mut Rng, focus: &str) -> Sess {
    let n_items = match r.below(6) { 0 => 0, 1 => 1, 2 => 2, _ => r.below(40) as usize };
    let items: Vec<String> = (0..n_items).map(|i| format!("{}{}", r.pick(&WORDS), i)).collect();
    let mut timeline = Vec::new();
    let c14 = focus == "C14";
    // feeding: chunks with pauses
    let mut fed = 0;
    let mut feed_acts = Vec::new();
    while fed < n_items {
        let k = 1 + r.below(((n_items - fed) as u64).min(12)) as usize;
        feed_acts.push(Act::Feed(k));
        fed += k;
    }
    feed_acts.push(Act::Eof);
    let n_edits = if c14 { 0 } else { r.below(5) as usize };
    let mut edit_acts = Vec::new();
    for _ in 0..n_edits {
        edit_acts.push(match r.below(10) {
            0..=5 => Act::Add(*r.pick(&['a', 'b', 'c'])),
            6..=7 => Act::Back,
            8 => Act::Rotate,
            _ => Act::Hb,
        });
    }
    // interleave
    let (mut i, mut j) = (0, 0);
    while i < feed_acts.len() || j < edit_acts.len() {
        let take_feed = j >= edit_acts.len() || (i < feed_acts.len() && r.chance(1, 2));
        let d = match r.below(5) { 0 => 0, 1 => 1, 2 => r.below(20), 3 => r.below(60), _ => 100 + r.below(40) };
        if take_feed {
            timeline.push((d, feed_acts[i].clone()));
            i += 1;
        } else {
            timeline.push((d, edit_acts[j].clone()));
            j += 1;
        }
    }
    let init_query = match r.below(4) {
        0 => "".to_string(),
        1 => r.pick(&["a", "b", "c"]).to_string(),
        2 => r.pick(&["ab", "ba", "ca", "xyz"]).to_string(),
        _ => format!("{}{}", r.pick(&WORDS), r.below(n_items.max(1) as u64)),   // often exactly one item
    };
    let mut delays = Vec::new();
    for _ in 0..r.below(3) {
        delays.push((*r.pick(&POINTS), 1 + r.below(3) as usize, *r.pick(&[5u64, 30, 120, 250])));
    }
    Sess {
        items,
        timeline,
        init_query,
        exact: r.chance(1, 2),
        select1: c14 && r.chance(2, 3),
        exit0: c14 && r.chance(2, 3),
        sync: c14 && r.chance(1, 4),
        header_lines: if r.chance(1, 4) { 1 + r.below(3) as usize } else { 0 },
        no_clear_if_empty: r.chance(1, 6),
        delays,
    }
}

/// the command collector of the harness: every invocation hands the harness a sender for that run
struct HCollector {
    senders: Arc<std::sync::Mutex<Vec<SkimItemSender>>>,
}
impl V::CommandCollector for HCollector {
    fn invoke(&mut self, _cmd: &str, _components: Arc<AtomicUsize>) -> (SkimItemReceiver, Sender<i32>) {
        let (tx, rx) = unbounded();
        self.senders.lock().unwrap().push(tx);
        let (txi, _rxi) = bounded(8);
        (rx, txi)
    }
}

fn leak(s: &str) -> &'static str {
    Box::leak(s.to_string().into_boxed_str())
}

/// `items=ab0,cab1;tl=0:F2,5:E,10:+a,0:-,0:R,0:H;q=ab;exact=1;s1=1;e0=0;sync=0;hl=0;ncie=0;delays=m.take:1:60`
fn parse_spec(spec: &str) -> Sess {
    let mut s = Sess { items: vec![], timeline: vec![], init_query: String::new(), exact: false, select1: false, exit0: false, sync: false, header_lines: 0, no_clear_if_empty: false, delays: vec![] };
    for kv in spec.split(';') {
        let (k, v) = kv.split_once('=').unwrap_or((kv, ""));
        match k {
            "items" => s.items = v.split(',').filter(|x| !x.is_empty()).map(|x| x.to_string()).collect(),
            "tl" => {
                for e in v.split(',').filter(|x| !x.is_empty()) {
                    let (d, a) = e.split_once(':').unwrap();
                    let act = match &a[..1] {
                        "F" => Act::Feed(a[1..].parse().unwrap()),
                        "E" => Act::Eof,
                        "+" => Act::Add(a[1..].chars().next().unwrap()),
                        "-" => Act::Back,
                        "R" => Act::Rotate,
                        "C" => Act::Cmd,
                        _ => Act::Hb,
                    };
                    s.timeline.push((d.parse().unwrap(), act));
                }
            }
            "q" => s.init_query = v.to_string(),
            "exact" => s.exact = v == "1",
            "s1" => s.select1 = v == "1",
            "e0" => s.exit0 = v == "1",
            "sync" => s.sync = v == "1",
            "hl" => s.header_lines = v.parse().unwrap(),
            "ncie" => s.no_clear_if_empty = v == "1",
            "delays" => {
                for e in v.split(',').filter(|x| !x.is_empty()) {
                    let p: Vec<&str> = e.split(':').collect();
                    s.delays.push((leak(p[0]), p[1].parse().unwrap(), p[2].parse().unwrap()));
                }
            }
            _ => {}
        }
    }
    s
}

fn spec_of(s: &Sess) -> String {
    let tl: Vec<String> = s.timeline.iter().map(|(d, a)| format!("{}:{}", d, match a {
        Act::Feed(k) => format!("F{}", k), Act::Eof => "E".into(), Act::Add(c) => format!("+{}", c), Act::Back => "-".into(), Act::Rotate => "R".into(), Act::Hb => "H".into(), Act::Cmd => "C".into() })).collect();
    let dl: Vec<String> = s.delays.iter().map(|(n, k, ms)| format!("{}:{}:{}", n, k, ms)).collect();
    format!("items={};tl={};q={};exact={};s1={};e0={};sync={};hl={};ncie={};delays={}", s.items.join(","), tl.join(","), s.init_query,
        s.exact as u8, s.select1 as u8, s.exit0 as u8, s.sync as u8, s.header_lines, s.no_clear_if_empty as u8, dl.join(","))
}

fn subseq(q: &str, s: &str) -> bool {
    let mut it = s.chars();
    q.chars().all(|c| it.any(|d| d == c))
}

/// the reference filter: which items match the final query in the final mode, in arrival order
fn expected(s: &Sess, run_start: usize, fed: usize, query: &str, regex: bool) -> Vec<String> {
    s.items[run_start..fed]
        .iter()
        .skip(s.header_lines)
        .filter(|it| if regex || s.exact { it.contains(query) } else { subseq(query, it) })
        .cloned()
        .collect()
}

struct Outcome {
    auto: bool,             // the loop ended by itself (-1 / -0)
    is_abort: bool,
    output: Vec<String>,
    trace: Vec<V::TraceRec>,
    stalled: bool,          // never reached quiescence
    final_query: String,
    regex: bool,
    run_start: usize,       // index of the first item of the last command run
    fed: usize,             // number of items fed in all
}

fn wait_quiescent(mark: usize, limit: Duration) -> bool {
    // quiescent: the last hb.end after `mark` says (no matcher, processed) and nothing moves for 250 ms
    let t0 = Instant::now();
    let mut last_len = 0;
    let mut stable_since = Instant::now();
    loop {
        let tr = V::trace_snapshot();
        if tr.len() != last_len {
            last_len = tr.len();
            stable_since = Instant::now();
        }
        let last_end = tr.iter().rposition(|e| e.1 == "hb.end");
        let last_act = tr.iter().rposition(|e| matches!(e.1, "r.push" | "r.eof" | "q.change" | "cmd.change" | "rm.spawn" | "m.load" | "m.take" | "m.publish" | "m.notify" | "m.stop"));
        let q = match last_end {
            Some(i) => tr[i].2 == 0 && tr[i].3 == 1 && last_act.map(|j| j < i).unwrap_or(true) && tr.len() >= mark,
            None => false,
        };
        if q && stable_since.elapsed() > Duration::from_millis(250) {
            return true;
        }
        if t0.elapsed() > limit {
            return false;
        }
        std::thread::sleep(Duration::from_millis(10));
    }
}

fn run(s: &Sess) -> Outcome {
    let senders: Arc<std::sync::Mutex<Vec<SkimItemSender>>> = Arc::new(std::sync::Mutex::new(Vec::new()));
    let senders2 = senders.clone();
    let (tx_ev, rx_ev) = mpsc::channel();
    let s2 = s.clone();
    V::trace_start(s.delays.clone());
    let th = std::thread::spawn(move || {
        let q = s2.init_query.clone();
        let options = SkimOptionsBuilder::default()
            .multi(true)
            .query(Some(&q))
            .cmd(Some("run"))
            .cmd_collector(Rc::new(RefCell::new(HCollector { senders: senders2 })))
            .exact(s2.exact)
            .select1(s2.select1)
            .exit0(s2.exit0)
            .sync(s2.sync)
            .header_lines(s2.header_lines)
            .no_clear_if_empty(s2.no_clear_if_empty)
            .build()
            .unwrap();
        V::run_session(&options, None, move |tx| {
            let _ = tx_ev.send(tx);
        })
    });
    let tx = rx_ev.recv().expect("session start");
    // the sender of run k (waits for the collector to be invoked)
    let sender_of = |k: usize| -> Option<SkimItemSender> {
        let t0 = Instant::now();
        loop {
            if let Some(tx) = senders.lock().unwrap().get(k) {
                return Some(tx.clone());
            }
            if t0.elapsed() > Duration::from_millis(3000) {
                return None;
            }
            std::thread::sleep(Duration::from_millis(1));
        }
    };
    let mut query = s.init_query.clone();
    let mut regex = false;
    let mut next = 0;
    let mut run_no = 0;
    let mut run_start = 0;
    let mut cur: Option<SkimItemSender> = sender_of(0);
    let drop_run = |k: usize| {
        // forget the harness's copy held in the table, so that the channel closes
        let mut v = senders.lock().unwrap();
        if k < v.len() {
            let (t, _r) = unbounded();
            v[k] = t;
        }
    };
    for (d, a) in &s.timeline {
        if *d > 0 {
            std::thread::sleep(Duration::from_millis(*d));
        }
        if th.is_finished() {
            break;
        }
        match a {
            Act::Feed(k) => {
                for _ in 0..*k {
                    if next < s.items.len() {
                        let it: Arc<dyn SkimItem> = Arc::new(s.items[next].clone());
                        if let Some(c) = cur.as_ref() {
                            let _ = c.send(it);
                        }
                        next += 1;
                    }
                }
            }
            Act::Eof => {
                cur.take();
                drop_run(run_no);
            }
            Act::Add(c) => {
                query.push(*c);
                let _ = tx.send((Key::Null, Event::EvActAddChar(*c)));
            }
            Act::Back => {
                query.pop();
                let _ = tx.send((Key::Null, Event::EvActBackwardDeleteChar));
            }
            Act::Rotate => {
                regex = !regex;
                let _ = tx.send((Key::Null, Event::EvActRotateMode));
            }
            Act::Hb => {
                let _ = tx.send((Key::Null, Event::EvHeartBeat));
            }
            Act::Cmd => {
                cur.take();
                drop_run(run_no);
                let _ = tx.send((Key::Null, Event::EvActRefreshCmd));
                run_no += 1;
                run_start = next;
                cur = sender_of(run_no);
            }
        }
    }
    cur.take();
    drop_run(run_no);
    let mark = V::trace_len();
    // an automatic decision, or quiescence
    let t0 = Instant::now();
    let mut auto = false;
    let mut stalled = false;
    if s.select1 || s.exit0 {
        // give the loop the chance to decide on its own
        while t0.elapsed() < Duration::from_millis(5000) {
            if th.is_finished() {
                auto = true;
                break;
            }
            let tr = V::trace_snapshot();
            if tr.iter().any(|e| e.1 == "s1.decide") {
                std::thread::sleep(Duration::from_millis(150));
                auto = th.is_finished();
                break;
            }
            std::thread::sleep(Duration::from_millis(10));
        }
    }
    if !auto {
        if !wait_quiescent(mark.saturating_sub(1), Duration::from_millis(6000)) {
            stalled = true;
        }
        let _ = tx.send((Key::Null, Event::EvActSelectAll));
        let _ = tx.send((Key::Null, Event::EvActAccept(None)));
    }
    let out = th.join().ok().flatten();
    let trace = V::trace_stop();
    let (is_abort, output) = match out {
        Some(o) => (o.is_abort, o.selected_items.iter().map(|i| i.output().to_string()).collect()),
        None => (true, vec![]),
    };
    Outcome { auto, is_abort, output, trace, stalled, final_query: query, regex, run_start, fed: next }
}

fn main() {
    let a = args();
    let focus = a.extra.get("focus").cloned().unwrap_or_else(|| "C01".to_string());
    let mut r = Rng::for_case(a.seed, a.only.unwrap_or(0));
    let s = match a.extra.get("spec") { Some(sp) => parse_spec(sp), None => gen(&mut r, &focus) };
    eprintln!("{}", spec_of(&s));
    let o = run(&s);
    let exp = expected(&s, o.run_start, o.fed, &o.final_query, o.regex);
    eprintln!("auto={} abort={} stalled={} q={:?} regex={} out={:?}\nexp={:?}", o.auto, o.is_abort, o.stalled, o.final_query, o.regex, o.output, exp);
    for e in &o.trace {
        eprintln!("  {:x} {} {} {}", e.0 % 0xfff, e.1, e.2, e.3);
    }
}
