//! Pipeline harness (C01, C14, C15): whole sessions of the real event loop (Model::start on a held
//! terminal, real reader / matcher / item pool / selection threads) with items arriving in chunks,
//! query edits racing with arrival, mode rotation, spurious heartbeats, header lines, -1/-0/--sync,
//! and delays at the trace points.  Direct oracles: at quiescence the accepted (select-all) output
//! is exactly the matching items in arrival order (C01, C15 identity); an automatic -1/-0 decision
//! is taken only when the complete result has one / no item and is taken when it has (C14).
//! Correspondence: the main thread's trace (values read, actions taken) is replayed through the
//! Coq handler model; component cases drive the real ItemPool against the pool model.
use skim::prelude::*;
use skim::verif as V;
use skv::*;
use std::sync::mpsc;
use std::sync::Arc;
use std::time::{Duration, Instant};

#[derive(Clone, Debug)]
enum Act {
    Feed(usize),
    Eof,
    Add(char),
    Back,
    Rotate,
    Hb,
    Cmd,
    Settle,      // wait for quiescence before going on
    SelAll,
    TogAll,
    DeselAll,
    AppendSel,   // append-and-select: the query becomes an item of its own, selected
}

#[derive(Clone, Debug)]
struct Sess {
    items: Vec<String>,
    timeline: Vec<(u64, Act)>,
    init_query: String,
    exact: bool,
    select1: bool,
    exit0: bool,
    sync: bool,
    header_lines: usize,
    no_clear_if_empty: bool,
    delays: Vec<(&'static str, usize, u64)>,
    set_ops: bool,          // C10 sessions: the accepted output is the selected set, not the list
    end: u8,                // C05 sessions: how the session is ended (0 = select-all + accept by the harness)
    preview_log: Option<String>, // C20 sessions: the preview command appends its {cq} / {q} to this file
    cmdq: Option<String>,     // interactive sessions (-i): the initial command query; the edits then go to the command line
    tiebreak: Option<String>, // C13 sessions: the --tiebreak option ("-" in a spec = option absent)
}

const WORDS: [&str; 14] = ["ab", "ba", "abc", "cab", "bca", "aa", "bb", "c", "acb", "xyz", "axb", "b", "a b", "b a c"];
const POINTS: [&str; 16] = ["hb.stopped", "hb.done", "hb.harvest", "hb.consumed", "hb.end", "rm.done", "rm.append", "rm.spawn", "m.load", "m.take", "m.publish", "m.notify", "m.stop", "r.start", "r.push", "s1.read"];

fn gen_c10(r: &mut Rng) -> Sess {
    let n_items = 3 + r.below(28) as usize;
    let items: Vec<String> = (0..n_items).map(|i| format!("{}{}", r.pick(&WORDS), i)).collect();
    let mut timeline = Vec::new();
    let mut fed = 0;
    while fed < n_items {
        let c = 1 + r.below(((n_items - fed) as u64).min(12)) as usize;
        timeline.push((*r.pick(&[0u64, 1, 10, 40]), Act::Feed(c)));
        fed += c;
    }
    timeline.push((0, Act::Eof));
    for _ in 0..(2 + r.below(5)) {
        if r.chance(2, 3) {
            timeline.push((*r.pick(&[0u64, 5, 30]), match r.below(6) { 0..=2 => Act::Add(*r.pick(&['a', 'b', 'c', ' '])), 3..=4 => Act::Back, _ => Act::Rotate }));
        }
        timeline.push((0, Act::Settle));
        timeline.push((0, match r.below(6) { 0..=2 => Act::TogAll, 3..=4 => Act::SelAll, _ => Act::DeselAll }));
    }
    timeline.push((0, Act::Settle));
    let mut delays = Vec::new();
    for _ in 0..r.below(3) { delays.push((*r.pick(&POINTS), 1 + r.below(4) as usize, *r.pick(&[5u64, 30, 120]))); }
    Sess { items, timeline, init_query: r.pick(&["", "a", "b", "ab"]).to_string(), exact: r.chance(1, 2), select1: false, exit0: false, sync: false,
           header_lines: if r.chance(1, 4) { 1 + r.below(2) as usize } else { 0 }, no_clear_if_empty: false, delays, set_ops: true, end: 0, preview_log: None, cmdq: None, tiebreak: None }
}

fn gen_c05(r: &mut Rng) -> Sess {
    let n_items = r.below(12) as usize;
    let items: Vec<String> = (0..n_items).map(|i| format!("{}{}", r.pick(&WORDS), i)).collect();
    let mut timeline = Vec::new();
    if n_items > 0 { timeline.push((0, Act::Feed(n_items))); }
    timeline.push((0, Act::Eof));
    // interactive mode: the conditional actions look at the filter query, not at the command line
    let cmdq = if r.chance(1, 4) { Some(r.pick(&["", "zz"]).to_string()) } else { None };
    if cmdq.is_none() {
        for _ in 0..r.below(4) { timeline.push((*r.pick(&[0u64, 5, 20]), if r.chance(2, 3) { Act::Add(*r.pick(&['a', 'b', 'c', 'x'])) } else { Act::Back })); }
    }
    timeline.push((0, Act::Settle));
    Sess { items, timeline, init_query: r.pick(&["", "", "a", "ab"]).to_string(), exact: true, select1: false, exit0: false, sync: false,
           header_lines: 0, no_clear_if_empty: false, delays: vec![], set_ops: false, end: 1 + r.below(10) as u8, preview_log: None, cmdq, tiebreak: None }
}

fn gen_c13(r: &mut Rng) -> Sess {
    let n_items = 2 + r.below(11) as usize;
    let items: Vec<String> = (0..n_items).map(|i| format!("{}{}{}{}", "x".repeat(r.below(4) as usize), r.pick(&WORDS), "y".repeat(r.below(3) as usize), i)).collect();
    let mut timeline = vec![(0, Act::Feed(n_items)), (0, Act::Eof)];
    for _ in 0..r.below(2) { timeline.push((5, Act::Add(*r.pick(&['a', 'b'])))); }
    timeline.push((0, Act::Settle));
    let tiebreak = match r.below(14) {
        0 => None,
        k => Some(["foo", "", "index,bar", "begin", "-begin", "length", "-length,begin", "end", "score,-end", "foo,length", "-score", "begin,begin,length", "LENGTH"][k as usize - 1].to_string()),
    };
    Sess { items, timeline, init_query: r.pick(&["a", "b", "ab", ""]).to_string(), exact: r.chance(1, 2), select1: false, exit0: false, sync: false,
           header_lines: 0, no_clear_if_empty: false, delays: vec![], set_ops: false, end: 1, preview_log: None, cmdq: None, tiebreak }
}

/// interactive session with a preview that depends on the command query, which does not occur in the command
fn gen_c20(r: &mut Rng, log: String) -> Sess {
    let items: Vec<String> = (0..(1 + r.below(4))).map(|i| format!("it{}", i)).collect();
    let mut timeline = vec![(0, Act::Feed(items.len())), (0, Act::Eof), (0, Act::Settle)];
    for _ in 0..(1 + r.below(3)) { timeline.push((*r.pick(&[0u64, 5, 40, 120]), if r.chance(3, 4) { Act::Add(*r.pick(&['x', 'y', 'z'])) } else { Act::Back })); }
    timeline.push((0, Act::Settle));
    Sess { items, timeline, init_query: String::new(), exact: true, select1: false, exit0: false, sync: false, header_lines: 0, no_clear_if_empty: false,
           delays: vec![], set_ops: false, end: 1, preview_log: Some(log), cmdq: Some(r.pick(&["", "c"]).to_string()), tiebreak: None }
}

fn gen(r: &mut Rng, focus: &str) -> Sess {
    if focus == "C10" { return gen_c10(r); }
    if focus == "C13" { return gen_c13(r); }
    if focus == "C05" { return gen_c05(r); }
    let c14 = focus == "C14";
    // a very large backlog (hundreds of thousands of lines pending at one take): judged by the oracle only (order and completeness)
    if focus == "C15" && r.chance(1, 170) {
        let n = *r.pick(&[270_000usize, 300_000, 530_000]);
        let items: Vec<String> = (0..n).map(|i| format!("i{}", i)).collect();
        return Sess { items, timeline: vec![(0, Act::Feed(n)), (0, Act::Eof)], init_query: r.pick(&["", "7", "i1"]).to_string(), exact: true, select1: false, exit0: false, sync: false,
                      header_lines: *r.pick(&[0usize, 0, 2]), no_clear_if_empty: false, delays: vec![("hb.stopped", 1, 700)], set_ops: false, end: 0,
                      preview_log: None, cmdq: None, tiebreak: None };
    }
    // the first complete result starts the interactive session; an edit afterwards leaves exactly one / no match: nothing fires any more
    if c14 && r.chance(1, 8) {
        let one_later = r.chance(1, 2);
        let items: Vec<String> = vec!["ab0".to_string(), "ac1".to_string(), "cd2".to_string()];
        let (q, edit, s1, e0) = if one_later { ("abx", Act::Back, true, r.chance(1, 3)) } else { ("a", Act::Add('x'), r.chance(1, 3), true) };
        // with both options the first result must not fire either: "abx" (0 matches) fires exit-0, so keep to the option that stays silent
        let (s1, e0) = if one_later { (s1, false) } else { (false, e0) };
        return Sess { items, timeline: vec![(0, Act::Feed(3)), (0, Act::Eof), (0, Act::Settle), (*r.pick(&[0u64, 30]), edit), (0, Act::Settle)],
                      init_query: q.to_string(), exact: true, select1: s1, exit0: e0, sync: r.chance(1, 4),
                      header_lines: 0, no_clear_if_empty: false, delays: vec![], set_ops: false, end: 0, preview_log: None, cmdq: None, tiebreak: None };
    }
    // a source that has ended (often empty) before the first heartbeat looks at it: the result set is final with no matcher run at all
    if (c14 || focus == "C01") && r.chance(1, 10) {
        let n = *r.pick(&[0usize, 0, 0, 1, 2]);
        let items: Vec<String> = (0..n).map(|i| format!("{}{}", r.pick(&WORDS), i)).collect();
        let mut timeline = Vec::new();
        if n > 0 { timeline.push((0, Act::Feed(n))); }
        timeline.push((0, Act::Eof));
        let (s1, e0) = match r.below(3) { 0 => (true, false), 1 => (false, true), _ => (true, true) };
        return Sess { items, timeline, init_query: r.pick(&["", "", "a", "xyz"]).to_string(), exact: r.chance(1, 2), select1: c14 && s1, exit0: c14 && e0, sync: false,
                      header_lines: 0, no_clear_if_empty: false, delays: vec![("hb.stopped", 1, *r.pick(&[30u64, 120]))], set_ops: false, end: 0,
                      preview_log: None, cmdq: None, tiebreak: None };
    }
    let n_runs = if focus == "C01" { match r.below(20) { 0..=13 => 1, 14..=18 => 2, _ => 3 } } else { 1 };
    let mut items: Vec<String> = Vec::new();
    let mut feed_acts = Vec::new();
    for k in 0..n_runs {
        let n_items = match r.below(6) { 0 => 0, 1 => 1, 2 => 2, _ => r.below(40) as usize };
        if k > 0 { feed_acts.push(Act::Cmd); }
        let base = items.len();
        for i in 0..n_items { items.push(format!("{}{}", r.pick(&WORDS), base + i)); }
        let mut fed = 0;
        while fed < n_items {
            let c = 1 + r.below(((n_items - fed) as u64).min(12)) as usize;
            feed_acts.push(Act::Feed(c));
            fed += c;
        }
        // the last run always ends; an earlier one may be cut short by the re-run
        if k + 1 == n_runs || r.chance(2, 3) { feed_acts.push(Act::Eof); }
    }
    let n_items = items.len();
    // with -1/-0 pending the user may already be typing
    let n_edits = if c14 { if r.chance(1, 3) { 1 + r.below(2) as usize } else { 0 } } else { r.below(5) as usize };
    let mut edit_acts = Vec::new();
    for _ in 0..n_edits {
        edit_acts.push(match r.below(10) {
            0..=5 => Act::Add(*r.pick(&['a', 'b', 'c', 'a', 'b', ' '])),
            6..=7 => Act::Back,
            8 => Act::Rotate,
            _ => Act::Hb,
        });
    }
    // sometimes the query is appended as an item of its own (append-and-select); such sessions are judged by the oracle only
    if (focus == "C01" || focus == "C15") && !feed_acts.iter().any(|a| matches!(a, Act::Cmd)) { if r.chance(1, 8) { for _ in 0..(1 + r.below(2)) { let k = r.below(edit_acts.len() as u64 + 1) as usize; edit_acts.insert(k, Act::AppendSel); } } }
    let mut timeline = Vec::new();
    let (mut i, mut j) = (0, 0);
    while i < feed_acts.len() || j < edit_acts.len() {
        let take_feed = j >= edit_acts.len() || (i < feed_acts.len() && r.chance(1, 2));
        let d = match r.below(5) { 0 => 0, 1 => 1, 2 => r.below(20), 3 => r.below(60), _ => 100 + r.below(40) };
        if take_feed {
            timeline.push((d, feed_acts[i].clone()));
            i += 1;
        } else {
            timeline.push((d, edit_acts[j].clone()));
            j += 1;
        }
    }
    let init_query = match r.below(4) {
        0 => "".to_string(),
        1 => r.pick(&["a", "b", "c"]).to_string(),
        2 => r.pick(&["ab", "ba", "ca", "xyz"]).to_string(),
        _ => format!("{}{}", r.pick(&WORDS), r.below(n_items.max(1) as u64)),   // often exactly one item
    };
    let mut delays = Vec::new();
    for _ in 0..r.below(3) {
        delays.push((*r.pick(&POINTS), 1 + r.below(4) as usize, *r.pick(&[5u64, 30, 120, 250])));
    }
    let has_append = timeline.iter().any(|x: &(u64, Act)| matches!(x.1, Act::AppendSel));
    Sess {
        items,
        timeline,
        init_query,
        exact: r.chance(1, 2),
        select1: c14 && r.chance(2, 3),
        exit0: c14 && r.chance(2, 3),
        sync: c14 && r.chance(1, 4),
        header_lines: if has_append { 0 } else if r.chance(1, 4) || focus == "C15" && r.chance(1, 2) { 1 + r.below(3) as usize } else { 0 },
        no_clear_if_empty: r.chance(1, 8),
        delays,
        set_ops: false,
        end: 0,
        preview_log: None,
        cmdq: None,
        tiebreak: None,
    }
}

/// the command collector of the harness: every invocation hands the harness a sender for that run
struct HCollector {
    senders: Arc<std::sync::Mutex<Vec<SkimItemSender>>>,
}
impl V::CommandCollector for HCollector {
    fn invoke(&mut self, _cmd: &str, _components: Arc<AtomicUsize>) -> (SkimItemReceiver, Sender<i32>) {
        let (tx, rx) = unbounded();
        self.senders.lock().unwrap().push(tx);
        let (txi, _rxi) = bounded(8);
        (rx, txi)
    }
}

fn leak(s: &str) -> &'static str {
    Box::leak(s.to_string().into_boxed_str())
}

/// `items=ab0,cab1;tl=0:F2,5:E,10:+a,0:-,0:R,0:H;q=ab;exact=1;s1=1;e0=0;sync=0;hl=0;ncie=0;delays=m.take:1:60`
fn parse_spec(spec: &str) -> Sess {
    let mut s = Sess { items: vec![], timeline: vec![], init_query: String::new(), exact: false, select1: false, exit0: false, sync: false, header_lines: 0, no_clear_if_empty: false, delays: vec![], set_ops: false, end: 0, preview_log: None, cmdq: None, tiebreak: None };
    for kv in spec.split(';') {
        let (k, v) = kv.split_once('=').unwrap_or((kv, ""));
        match k {
            "items" => s.items = if let Some(n) = v.strip_prefix('#') { (0..n.parse::<usize>().unwrap()).map(|i| format!("i{}", i)).collect() } else { v.split(',').filter(|x| !x.is_empty()).map(|x| x.to_string()).collect() },
            "tl" => {
                for e in v.split(',').filter(|x| !x.is_empty()) {
                    let (d, a) = e.split_once(':').unwrap();
                    let act = match &a[..1] {
                        "F" => Act::Feed(a[1..].parse().unwrap()),
                        "E" => Act::Eof,
                        "+" => Act::Add(a[1..].chars().next().unwrap()),
                        "-" => Act::Back,
                        "R" => Act::Rotate,
                        "C" => Act::Cmd,
                        "S" => Act::Settle,
                        "A" => Act::SelAll,
                        "T" => Act::TogAll,
                        "D" => Act::DeselAll,
                        "P" => Act::AppendSel,
                        _ => Act::Hb,
                    };
                    s.timeline.push((d.parse().unwrap(), act));
                }
            }
            "q" => s.init_query = v.to_string(),
            "exact" => s.exact = v == "1",
            "s1" => s.select1 = v == "1",
            "e0" => s.exit0 = v == "1",
            "sync" => s.sync = v == "1",
            "hl" => s.header_lines = v.parse().unwrap(),
            "ncie" => s.no_clear_if_empty = v == "1",
            "setops" => s.set_ops = v == "1",
            "end" => s.end = v.parse().unwrap_or(0),
            "pvlog" => s.preview_log = if v == "-" { None } else { Some(v.to_string()) },
            "cmdq" => s.cmdq = if v == "-" { None } else { Some(v.to_string()) },
            "tb" => s.tiebreak = if v == "-" { None } else { Some(v.replace('+', ",")) },
            "delays" => {
                for e in v.split(',').filter(|x| !x.is_empty()) {
                    let p: Vec<&str> = e.split(':').collect();
                    s.delays.push((leak(p[0]), p[1].parse().unwrap(), p[2].parse().unwrap()));
                }
            }
            _ => {}
        }
    }
    s
}

fn spec_of(s: &Sess) -> String {
    let tl: Vec<String> = s.timeline.iter().map(|(d, a)| format!("{}:{}", d, match a {
        Act::Feed(k) => format!("F{}", k), Act::Eof => "E".into(), Act::Add(c) => format!("+{}", c), Act::Back => "-".into(), Act::Rotate => "R".into(), Act::Hb => "H".into(), Act::Cmd => "C".into(), Act::Settle => "S".into(), Act::SelAll => "A".into(), Act::TogAll => "T".into(), Act::DeselAll => "D".into(), Act::AppendSel => "P".into() })).collect();
    let dl: Vec<String> = s.delays.iter().map(|(n, k, ms)| format!("{}:{}:{}", n, k, ms)).collect();
    format!("items={};tl={};q={};exact={};s1={};e0={};sync={};hl={};ncie={};setops={};end={};pvlog={};cmdq={};tb={};delays={}", if s.items.len() > 20000 { format!("#{}", s.items.len()) } else { s.items.join(",") }, tl.join(","), s.init_query,
        s.exact as u8, s.select1 as u8, s.exit0 as u8, s.sync as u8, s.header_lines, s.no_clear_if_empty as u8, s.set_ops as u8, s.end, s.preview_log.clone().unwrap_or_else(|| "-".to_string()), s.cmdq.clone().unwrap_or_else(|| "-".to_string()),
        s.tiebreak.as_ref().map(|t| t.replace(',', "+")).unwrap_or_else(|| "-".to_string()), dl.join(","))
}

fn subseq(q: &str, s: &str) -> bool {
    let mut it = s.chars();
    q.chars().all(|c| it.any(|d| d == c))
}

/// the reference filter: which items match the final query in the final mode, in arrival order
fn expected(s: &Sess, run_start: usize, fed: usize, query: &str, regex: bool) -> Vec<String> {
    s.items[run_start..fed]
        .iter()
        .skip(s.header_lines)
        .filter(|it| matches_ref(s, it, query, regex))
        .cloned()
        .collect()
}

struct Outcome {
    auto: bool,             // the loop ended by itself (-1 / -0)
    is_abort: bool,
    output: Vec<String>,
    trace: Vec<V::TraceRec>,
    stalled: bool,          // never reached quiescence
    final_query: String,
    regex: bool,
    appended: Vec<String>,  // texts turned into items by append-and-select
    final_key: String,
    final_event: String,
    out_query: String,
    run_start: usize,       // index of the first item of the last command run
    fed: usize,             // number of items fed in all
}

fn wait_quiescent(mark: usize, limit: Duration) -> bool {
    // quiescent: the last hb.end after `mark` says (no matcher, processed) and nothing moves for 250 ms
    let t0 = Instant::now();
    let mut last_len = 0;
    let mut stable_since = Instant::now();
    loop {
        let tr = V::trace_snapshot();
        if tr.len() != last_len {
            last_len = tr.len();
            stable_since = Instant::now();
        }
        let last_end = tr.iter().rposition(|e| e.1 == "hb.end");
        let last_act = tr.iter().rposition(|e| matches!(e.1, "r.push" | "r.eof" | "q.change" | "cmd.change" | "rm.spawn" | "m.load" | "m.take" | "m.publish" | "m.notify" | "m.stop"));
        let q = match last_end {
            Some(i) => tr[i].2 == 0 && tr[i].3 == 1 && last_act.map(|j| j < i).unwrap_or(true) && tr.len() >= mark,
            None => false,
        };
        if q && stable_since.elapsed() > Duration::from_millis(250) {
            return true;
        }
        if t0.elapsed() > limit {
            return false;
        }
        std::thread::sleep(Duration::from_millis(10));
    }
}

fn run(s: &Sess) -> Outcome {
    let senders: Arc<std::sync::Mutex<Vec<SkimItemSender>>> = Arc::new(std::sync::Mutex::new(Vec::new()));
    let senders2 = senders.clone();
    let (tx_ev, rx_ev) = mpsc::channel();
    let s2 = s.clone();
    V::trace_start(s.delays.clone());
    let th = std::thread::spawn(move || {
        let q = s2.init_query.clone();
        let pv_cmd: Option<String> = s2.preview_log.as_ref().map(|f| format!("echo cq={{cq}} q={{q}} >> {}", f));
        let options = SkimOptionsBuilder::default()
            .multi(true)
            .query(Some(&q))
            .cmd(Some("run"))
            .cmd_collector(Rc::new(RefCell::new(HCollector { senders: senders2 })))
            .exact(s2.exact)
            .select1(s2.select1)
            .exit0(s2.exit0)
            .sync(s2.sync)
            .header_lines(s2.header_lines)
            .no_clear_if_empty(s2.no_clear_if_empty)
            .tiebreak(s2.tiebreak.clone())
            .preview(pv_cmd.as_deref())
            .interactive(s2.cmdq.is_some())
            .cmd_query(s2.cmdq.as_deref())
            .build()
            .unwrap();
        V::run_session(&options, None, move |tx| {
            let _ = tx_ev.send(tx);
        })
    });
    let tx = rx_ev.recv().expect("session start");
    // the sender of run k (waits for the collector to be invoked)
    let sender_of = |k: usize| -> Option<SkimItemSender> {
        let t0 = Instant::now();
        loop {
            if let Some(tx) = senders.lock().unwrap().get(k) {
                return Some(tx.clone());
            }
            if t0.elapsed() > Duration::from_millis(10000) {
                return None;
            }
            std::thread::sleep(Duration::from_millis(1));
        }
    };
    let mut query = s.init_query.clone();
    let mut regex = false;
    let mut next = 0;
    let mut sent_nonhb = 0usize;
    let mut appended: Vec<String> = Vec::new();
    let mut run_no = 0;
    let mut run_start = 0;
    let mut cur: Option<SkimItemSender> = sender_of(0);
    let drop_run = |k: usize| {
        // forget the harness's copy held in the table, so that the channel closes
        let mut v = senders.lock().unwrap();
        if k < v.len() {
            let (t, _r) = unbounded();
            v[k] = t;
        }
    };
    for (d, a) in &s.timeline {
        if *d > 0 {
            std::thread::sleep(Duration::from_millis(*d));
        }
        if th.is_finished() {
            break;
        }
        match a {
            Act::Feed(k) => {
                for _ in 0..*k {
                    if next < s.items.len() {
                        let it: Arc<dyn SkimItem> = Arc::new(s.items[next].clone());
                        if let Some(c) = cur.as_ref() {
                            let _ = c.send(it);
                        }
                        next += 1;
                    }
                }
            }
            Act::Eof => {
                cur.take();
                drop_run(run_no);
            }
            Act::Add(c) => {
                query.push(*c);
                let _ = tx.send((Key::Null, Event::EvActAddChar(*c)));
                sent_nonhb += 1;
            }
            Act::Back => {
                query.pop();
                let _ = tx.send((Key::Null, Event::EvActBackwardDeleteChar));
                sent_nonhb += 1;
            }
            Act::Rotate => {
                regex = !regex;
                let _ = tx.send((Key::Null, Event::EvActRotateMode));
                sent_nonhb += 1;
            }
            Act::Hb => {
                let _ = tx.send((Key::Null, Event::EvHeartBeat));
            }
            Act::Settle => {
                // every event sent so far has been picked up by the loop, then quiescence
                let t1 = Instant::now();
                while V::trace_snapshot().iter().filter(|e| e.1 == "ev" && e.2 == 0).count() < sent_nonhb && t1.elapsed() < Duration::from_millis(4000) {
                    std::thread::sleep(Duration::from_millis(2));
                }
                let _ = wait_quiescent(V::trace_len(), Duration::from_millis(20000));
            }
            Act::SelAll => { let _ = tx.send((Key::Null, Event::EvActSelectAll)); sent_nonhb += 1; }
            Act::TogAll => { let _ = tx.send((Key::Null, Event::EvActToggleAll)); sent_nonhb += 1; }
            Act::DeselAll => { let _ = tx.send((Key::Null, Event::EvActDeselectAll)); sent_nonhb += 1; }
            Act::AppendSel => { if !query.is_empty() && s.cmdq.is_none() { appended.push(query.clone()); } let _ = tx.send((Key::Null, Event::EvActAppendAndSelect)); sent_nonhb += 1; }
            Act::Cmd => {
                cur.take();
                drop_run(run_no);
                let _ = tx.send((Key::Null, Event::EvActRefreshCmd));
                sent_nonhb += 1;
                run_no += 1;
                run_start = next;
                cur = sender_of(run_no);
            }
        }
    }
    cur.take();
    drop_run(run_no);
    let mark = V::trace_len();
    // an automatic decision, or quiescence
    let t0 = Instant::now();
    let mut auto = false;
    let mut stalled = false;
    if s.select1 || s.exit0 {
        // give the loop the chance to decide on its own
        while t0.elapsed() < Duration::from_millis(15000) {
            if th.is_finished() {
                auto = true;
                break;
            }
            let tr = V::trace_snapshot();
            if let Some(d) = tr.iter().find(|e| e.1 == "s1.decide") {
                // the decision point was reached: if it fires (the accept / abort event is queued) the loop ends as soon as
                // it gets to that event, which a delayed heartbeat in between may postpone
                let fires = (d.3 == 1 && s.select1) || (d.3 == 0 && s.exit0);
                let limit = if fires { 10000 } else { 150 };
                let t2 = Instant::now();
                while !th.is_finished() && t2.elapsed() < Duration::from_millis(limit) { std::thread::sleep(Duration::from_millis(5)); }
                auto = th.is_finished();
                break;
            }
            std::thread::sleep(Duration::from_millis(10));
        }
    }
    if !auto {
        // every event sent has been picked up by the loop
        let t1 = Instant::now();
        while !th.is_finished() && V::trace_snapshot().iter().filter(|e| e.1 == "ev" && e.2 == 0).count() < sent_nonhb && t1.elapsed() < Duration::from_millis(10000) {
            std::thread::sleep(Duration::from_millis(2));
        }
        if !wait_quiescent(mark.saturating_sub(1), Duration::from_millis(20000)) {
            stalled = true;
        }
        if s.end > 0 {
            let (k, ev) = match s.end {
                1 => (Key::Enter, Event::EvActAccept(None)),
                2 => (Key::Ctrl('y'), Event::EvActAccept(Some("ctrl-y".to_string()))),
                3 => (Key::ESC, Event::EvActAbort),
                4 => (Key::Ctrl('d'), Event::EvActIfQueryEmpty("abort".to_string())),
                5 => (Key::Ctrl('y'), Event::EvActIfQueryNotEmpty("accept".to_string())),
                6 => (Key::Ctrl('g'), Event::EvActIfNonMatched("abort".to_string())),
                8 => (Key::Ctrl('a'), Event::EvActIfQueryEmpty("abort".to_string())),
                9 => (Key::Ctrl('a'), Event::EvActIfQueryNotEmpty("accept".to_string())),
                _ => (Key::Ctrl('d'), Event::EvActDeleteCharEOF),
            };
            let _ = tx.send((k, ev));
            // a chain: the conditional's own action must run before the rest of the chain
            if s.end == 8 { let _ = tx.send((Key::Ctrl('a'), Event::EvActAccept(None))); }
            if s.end == 9 { let _ = tx.send((Key::Ctrl('a'), Event::EvActAbort)); }
            // type-ahead: Enter is already queued behind ctrl-d; an abort by ctrl-d on an empty line still comes first
            if s.end == 10 { let _ = tx.send((Key::Enter, Event::EvActAccept(None))); }
            // a conditional whose condition is false ends nothing: Enter then accepts
            let t2 = Instant::now();
            while !th.is_finished() && t2.elapsed() < Duration::from_millis(400) { std::thread::sleep(Duration::from_millis(5)); }
            if !th.is_finished() { let _ = tx.send((Key::Enter, Event::EvActAccept(None))); }
        } else {
            if !s.set_ops { let _ = tx.send((Key::Null, Event::EvActSelectAll)); }
            let _ = tx.send((Key::Null, Event::EvActAccept(None)));
        }
    }
    // the loop must return once it has been told to end (a deadlocked loop is abandoned and reported as a stall)
    let t9 = Instant::now();
    while !th.is_finished() && t9.elapsed() < Duration::from_millis(45000) { std::thread::sleep(Duration::from_millis(5)); }
    let out = if th.is_finished() { th.join().ok().flatten() } else { stalled = true; None };
    let trace = V::trace_stop();
    let (is_abort, output, final_key, final_event, out_query) = match out {
        Some(o) => (o.is_abort, o.selected_items.iter().map(|i| i.output().to_string()).collect(), format!("{:?}", o.final_key), format!("{:?}", o.final_event), o.query.clone()),
        None => (true, vec![], String::new(), String::new(), String::new()),
    };
    Outcome { auto, is_abort, output, trace, stalled, appended, final_query: query, regex, final_key, final_event, out_query, run_start, fed: next }
}


// ------------------------------------------------------------------------------------------
// linearisation of a recorded session into labels of Model/Pipeline.v

struct Lin {
    steps: Vec<(String, Vec<u64>)>,
}
impl Lin {
    fn emit(&mut self, label: &str, obs: Vec<u64>) {
        self.steps.push((label.to_string(), obs));
    }
}

struct Thr {
    evs: Vec<(&'static str, usize, usize)>,
    pos: usize,
}

fn matches_ref(s: &Sess, item: &str, q: &str, regex: bool) -> bool {
    // regex mode: the query is one pattern (letters and blanks only: literal); otherwise blanks separate terms that must all match
    if regex { return item.contains(q); }
    // a query of blanks only is handed to the term engine as it is (AndOrEngineFactory::parse_or)
    if !q.is_empty() && q.trim().is_empty() { return if s.exact { item.contains(q) } else { subseq(q, item) }; }
    q.split(' ').filter(|t| !t.is_empty()).all(|t| if s.exact { item.contains(t) } else { subseq(t, item) })
}

/// (coq term of the case, description) or None if the trace has no main thread
fn session_case(s: &Sess, o: &Outcome) -> Option<String> {
    let tr = &o.trace;
    let main_tag = tr.iter().find(|e| e.1 == "ev")?.0;
    // threads in order of first appearance
    let mut readers: Vec<Thr> = Vec::new();
    let mut reader_tags: Vec<u64> = Vec::new();
    let mut matchers: Vec<Thr> = Vec::new();
    let mut matcher_tags: Vec<u64> = Vec::new();
    let mut main: Vec<(&'static str, usize, usize)> = Vec::new();
    for e in tr {
        if e.0 == main_tag {
            main.push((e.1, e.2, e.3));
        } else if e.1.starts_with("r.") {
            if e.1 == "r.start" {
                reader_tags.push(e.0);
                readers.push(Thr { evs: vec![], pos: 0 });
            } else if let Some(k) = reader_tags.iter().rposition(|t| *t == e.0) {
                readers[k].evs.push((e.1, e.2, e.3));
            }
        } else if e.1.starts_with("m.") {
            let k = match matcher_tags.iter().position(|t| *t == e.0) {
                Some(k) => k,
                None => {
                    matcher_tags.push(e.0);
                    matchers.push(Thr { evs: vec![], pos: 0 });
                    matchers.len() - 1
                }
            };
            matchers[k].evs.push((e.1, e.2, e.3));
        }
    }
    // queries: id 0 = initial; one more per effective edit
    let mut queries: Vec<(String, bool)> = vec![(s.init_query.clone(), false)];
    {
        let (mut q, mut rx) = (s.init_query.clone(), false);
        for (_, a) in &s.timeline {
            match a {
                Act::Add(c) => { q.push(*c); queries.push((q.clone(), rx)); }
                Act::Back => { if !q.is_empty() { q.pop(); queries.push((q.clone(), rx)); } }
                Act::Rotate => { rx = !rx; queries.push((q.clone(), rx)); }
                _ => {}
            }
        }
    }
    // command runs: item ids per run
    let mut run_bounds: Vec<usize> = vec![0];
    {
        let mut next = 0;
        for (_, a) in &s.timeline {
            match a {
                Act::Feed(k) => next = (next + k).min(s.items.len()),
                Act::Cmd => run_bounds.push(next),
                _ => {}
            }
        }
        run_bounds.push(next);
    }
    let run_ids = |k: usize| -> Vec<u64> {
        if k + 1 < run_bounds.len() { (run_bounds[k] as u64..run_bounds[k + 1] as u64).collect() } else { vec![] }
    };

    let mut lin = Lin { steps: Vec::new() };
    let mut cur_reader: usize = 0;
    let mut cur_matcher: Option<usize> = None;
    let mut next_matcher = 0usize;
    let mut untaken = 0usize;
    let mut qid = 0usize;
    let mut run_no = 0usize;
    let mut dec: u64 = 0;

    fn adv_matcher(lin: &mut Lin, m: &mut Thr, upto: &str, killed: bool) {
        // emit the thread's labels up to and including `upto`
        if !m.evs[m.pos.min(m.evs.len())..].iter().any(|e| e.0 == upto) {
            return;
        }
        while m.pos < m.evs.len() {
            let e = m.evs[m.pos];
            m.pos += 1;
            match e.0 {
                "m.load" => lin.emit("LMLoad", vec![e.1 as u64]),
                "m.take" => lin.emit("LMTake", vec![e.1 as u64, e.2 as u64]),
                "m.publish" => lin.emit("LMPublish", if killed { vec![] } else { vec![e.1 as u64] }),
                "m.notify" => lin.emit("LMNotify", vec![]),
                "m.stop" => {
                    lin.emit("LMFlag", vec![]);
                    lin.emit("LMExit", vec![]);
                }
                _ => {}
            }
            if e.0 == upto {
                break;
            }
        }
    }
    fn adv_pushes(lin: &mut Lin, r: &mut Thr, untaken: &mut usize, want: usize) {
        while *untaken < want && r.pos < r.evs.len() {
            let e = r.evs[r.pos];
            if e.0 != "r.push" {
                break;
            }
            r.pos += 1;
            lin.emit("LPush", vec![]);
            *untaken += 1;
        }
    }
    fn adv_eof(lin: &mut Lin, r: &mut Thr, untaken: &mut usize) {
        while r.pos < r.evs.len() {
            let e = r.evs[r.pos];
            r.pos += 1;
            if e.0 == "r.push" {
                lin.emit("LPush", vec![]);
                *untaken += 1;
            } else if e.0 == "r.eof" {
                lin.emit("LEof", vec![]);
            }
        }
    }

    let mut i = 0;
    let mut pending_nonhb = false;
    while i < main.len() {
        let (name, a, b) = main[i];
        i += 1;
        match name {
            "ev" => {
                if a == 1 {
                    lin.emit("LHb", vec![]);
                    pending_nonhb = false;
                } else {
                    pending_nonhb = true;
                }
            }
            "hb.stopped" => {
                if a == 1 {
                    if let Some(j) = cur_matcher { adv_matcher(&mut lin, &mut matchers[j], "m.stop", false); }
                }
                lin.emit("LMain", vec![a as u64, b as u64]);
            }
            "hb.done" => {
                if a == 1 && cur_reader < readers.len() { adv_eof(&mut lin, &mut readers[cur_reader], &mut untaken); }
                lin.emit("LMain", vec![a as u64]);
            }
            "hb.harvest" => {
                lin.emit("LMain", vec![a as u64, b as u64]);
                cur_matcher = None;
            }
            "hb.consumed" => {
                if a == 1 {
                    if let Some(j) = cur_matcher { if matchers.len() > j { adv_matcher(&mut lin, &mut matchers[j], "m.take", false); } }
                }
                // is the timer re-armed before this heartbeat ends?
                let armed = main[i..].iter().take_while(|e| e.0 != "hb.end").any(|e| e.0 == "hb.arm");
                lin.emit("LMain", vec![a as u64, armed as u64]);
            }
            "rm.done" => {
                if a == 1 {
                    if cur_reader < readers.len() { adv_eof(&mut lin, &mut readers[cur_reader], &mut untaken); }
                    lin.emit("LMain", vec![1]);
                }
            }
            "rm.append" => {
                if cur_reader < readers.len() { adv_pushes(&mut lin, &mut readers[cur_reader], &mut untaken, a); }
                lin.emit("LMain", vec![0, a as u64, b as u64]);
                untaken = 0;
            }
            "rm.spawn" => {
                cur_matcher = Some(next_matcher);
                next_matcher += 1;
            }
            "hb.end" => {
                if i < main.len() && main[i].0 == "s1.read" {
                    let (bits, nm) = (main[i].1, main[i].2);
                    i += 1;
                    let c = (bits >> 1) & 1;
                    let r = (bits >> 2) & 1;
                    let ms = bits & 1;
                    if c == 1 { if let Some(j) = cur_matcher { if matchers.len() > j { adv_matcher(&mut lin, &mut matchers[j], "m.take", false); } } }
                    lin.emit("LMain", vec![c as u64]);
                    if r == 1 && cur_reader < readers.len() { adv_eof(&mut lin, &mut readers[cur_reader], &mut untaken); }
                    lin.emit("LMain", vec![r as u64]);
                    lin.emit("LMain", vec![ms as u64, nm as u64]);
                } else {
                    lin.emit("LMain", vec![]);
                    lin.emit("LMain", vec![]);
                    lin.emit("LMain", vec![]);
                }
            }
            "s1.decide" => {
                dec = if b == 1 && s.select1 { 1 } else if b == 0 && s.exit0 { 2 } else { 3 };
            }
            "q.change" if pending_nonhb => {
                qid += 1;
                lin.emit(&format!("(LQuery {})", coq::n(qid as u64)), vec![]);
                lin.emit("LMain", vec![]);
                if let Some(j) = cur_matcher.take() { if matchers.len() > j { adv_matcher(&mut lin, &mut matchers[j], "m.stop", true); } }
                lin.emit("LMain", vec![]);
                pending_nonhb = false;
            }
            "cmd.change" if pending_nonhb => {
                run_no += 1;
                lin.emit(&format!("(LCmd {})", coq::ns(run_ids(run_no))), vec![]);
                lin.emit("LMain", vec![]);
                if let Some(j) = cur_matcher.take() { if matchers.len() > j { adv_matcher(&mut lin, &mut matchers[j], "m.stop", true); } }
                lin.emit("LMain", vec![]);
                cur_reader = run_no;
                untaken = 0;
                pending_nonhb = false;
            }
            _ => {}
        }
    }
    // table: row per query id over all item ids
    let table = coq::list(queries.iter().map(|(q, rx)| coq::list(s.items.iter().map(|it| coq::b(matches_ref(s, it, q, *rx))))));
    // run-length encoding: blocks start at a dispatch label; equal consecutive blocks are merged
    let mut blocks: Vec<Vec<(String, Vec<u64>)>> = Vec::new();
    for st in &lin.steps {
        if blocks.is_empty() || st.0 == "LHb" || st.0.starts_with("(L") { blocks.push(Vec::new()); }
        blocks.last_mut().unwrap().push(st.clone());
    }
    let mut segs: Vec<(u64, Vec<(String, Vec<u64>)>)> = Vec::new();
    let mut bi = 0;
    while bi < blocks.len() {
        // best repetition of a group of 1..4 blocks starting here
        let (mut best_p, mut best_k) = (1usize, 1usize);
        for p in 1..=4usize {
            if bi + p > blocks.len() { break; }
            let mut k = 1;
            while bi + (k + 1) * p <= blocks.len() && (0..p).all(|t| blocks[bi + t] == blocks[bi + k * p + t]) { k += 1; }
            if k >= 2 && p * k > best_p * best_k { best_p = p; best_k = k; }
        }
        let group: Vec<(String, Vec<u64>)> = blocks[bi..bi + best_p].iter().flatten().cloned().collect();
        segs.push((best_k as u64, group));
        bi += best_p * best_k;
    }
    let steps = coq::list(segs.iter().map(|(n, b)| coq::pair(coq::n(*n), coq::list(b.iter().map(|(l, o)| coq::pair(l.clone(), coq::ns(o.iter().cloned())))))));
    let final_ids: Option<Vec<u64>> = if o.auto || o.stalled || s.set_ops || s.end > 0 { None } else {
        let mut ids = Vec::new();
        for t in &o.output {
            match s.items.iter().position(|x| x == t) { Some(k) => ids.push(k as u64), None => ids.push(9_999_999) }
        }
        Some(ids)
    };
    Some(format!("(KSession {} {} {} {} {} {} {} {} {} {} {})",
        s.header_lines, coq::b(s.no_clear_if_empty), table, coq::ns(run_ids(0)), coq::n(0),
        coq::b(s.select1), coq::b(s.exit0), coq::b(s.sync), steps, coq::opt(final_ids.map(|v| coq::ns(v))), coq::n(dec)))
}

// ------------------------------------------------------------------------------------------
// ItemPool component cases
fn pool_case(r: &mut Rng) -> (String, Option<String>, String) {
    let nres = if r.chance(1, 2) { 0 } else { r.below(5) as usize };
    let pool = V::ItemPool::new().lines_to_reserve(nres);
    let mut next = 0u64;
    let mut ops = Vec::new();
    let mut seen = Vec::new();
    let mut bad: Option<String> = None;
    // reference: everything appended since the last clear, in order
    let mut all: Vec<u64> = Vec::new();
    let mut taken_ref = 0usize;
    let nops = 1 + r.below(14);
    for _ in 0..nops {
        match r.below(10) {
            0..=4 => {
                let k = r.below(5) as usize;
                let ids: Vec<u64> = (0..k).map(|_| { next += 1; next - 1 }).collect();
                let items: Vec<Arc<dyn SkimItem>> = ids.iter().map(|i| Arc::new(i.to_string()) as Arc<dyn SkimItem>).collect();
                let n = pool.append(items);
                all.extend(ids.iter());
                ops.push(format!("(PAppend {})", coq::ns(ids)));
                seen.push(vec![pool.len() as u64, pool.num_taken() as u64, pool.reserved().len() as u64]);
                if n != pool.len() { bad = Some(format!("append returned {} but len() = {}", n, pool.len())); }
            }
            5..=7 => {
                let (slice, start): (Vec<u64>, usize) = {
                    let before = pool.num_taken();
                    let g = pool.take();
                    (g.iter().map(|it| it.text().parse::<u64>().unwrap()).collect(), before)
                };
                ops.push("PTake".to_string());
                let mut v = vec![pool.len() as u64, pool.num_taken() as u64, pool.reserved().len() as u64];
                v.extend(slice.iter());
                seen.push(v);
                // oracle: exactly the not-yet-taken items after the header lines, in order, at positions start..
                let body: Vec<u64> = all.iter().skip(nres).cloned().collect();
                let want: Vec<u64> = body.iter().skip(taken_ref).cloned().collect();
                if slice != want || start != taken_ref { bad = Some(format!("take handed out {:?} from {}, expected {:?} from {}", slice, start, want, taken_ref)); }
                taken_ref = body.len();
            }
            8 => {
                pool.reset();
                ops.push("PReset".to_string());
                seen.push(vec![pool.len() as u64, pool.num_taken() as u64, pool.reserved().len() as u64]);
                taken_ref = 0;
            }
            _ => {
                pool.clear();
                ops.push("PClear".to_string());
                seen.push(vec![pool.len() as u64, pool.num_taken() as u64, pool.reserved().len() as u64]);
                all.clear();
                taken_ref = 0;
            }
        }
        // header lines: the first nres items since the last clear, never in the pool
        let hdr: Vec<u64> = pool.reserved().iter().map(|it| it.text().parse::<u64>().unwrap()).collect();
        let want_hdr: Vec<u64> = all.iter().take(nres).cloned().collect();
        if hdr != want_hdr && bad.is_none() { bad = Some(format!("reserved header items {:?}, expected {:?}", hdr, want_hdr)); }
        if pool.num_not_taken() != pool.len() - pool.num_taken() && bad.is_none() { bad = Some("num_not_taken inconsistent".to_string()); }
    }
    let term = format!("(KPool {} {} {})", nres, coq::list(ops.iter().cloned()), coq::list(seen.iter().map(|v| coq::ns(v.iter().cloned()))));
    (term, bad, format!("nres={} ops={:?}", nres, ops))
}

/// the header widget over --header lines and reserved items with tabs / wide characters
fn header_case(r: &mut Rng) -> (String, Option<String>, String) {
    use skv::canvas::Rec;
    use tuikit::draw::Draw;
    use unicode_width::UnicodeWidthChar;
    const AL: [char; 10] = ['a', 'b', 'X', ' ', '-', '中', '字', 'é', 'q', '_'];
    let mut text = |r: &mut Rng, maxlen: usize| -> String {
        let n = r.below(maxlen as u64 + 1) as usize;
        (0..n).map(|_| if r.chance(1, 14) { '\t' } else { *r.pick(&AL) }).collect()
    };
    let width = match r.below(10) { 0 => 1 + r.below(2) as usize, _ => 3 + r.below(30) as usize };
    let height = r.below(7) as usize;
    let reverse = r.chance(1, 2);
    let tab = *r.pick(&[1usize, 2, 4, 8]);
    let nres = r.below(4) as usize;
    let fixed: Vec<String> = (0..r.below(3)).map(|_| { let mut t = text(r, width + 6); if t.trim_end().is_empty() { t = "h".to_string(); } t.trim_end().to_string() }).collect();
    let n_items = r.below(6) as usize;
    let items: Vec<String> = (0..n_items).map(|_| text(r, width + 6)).collect();
    let pool = Arc::new(defer_drop::DeferDrop::new(V::ItemPool::new().lines_to_reserve(nres)));
    // chunked appends
    let mut i = 0;
    while i < items.len() {
        let k = 1 + r.below(3) as usize;
        let chunk: Vec<Arc<dyn SkimItem>> = items[i..(i + k).min(items.len())].iter().map(|t| Arc::new(t.clone()) as Arc<dyn SkimItem>).collect();
        pool.append(chunk);
        i += k;
    }
    let reserved: Vec<String> = items.iter().take(nres).cloned().collect();
    let hdr_joined = fixed.join("\n");
    let ts = tab.to_string();
    let options = SkimOptionsBuilder::default()
        .header(if fixed.is_empty() { None } else { Some(&hdr_joined) })
        .tabstop(Some(&ts))
        .layout(if reverse { "reverse" } else { "default" })
        .build()
        .unwrap();
    let header = V::Header::empty().with_options(&options).item_pool(pool.clone());
    let mut cv = Rec::new(width, height);
    let drew = header.draw(&mut cv).is_ok();
    let hattr = V::DEFAULT_THEME.header();
    let mut bad: Option<String> = None;
    let rows: Option<Vec<(usize, Vec<(usize, char, u64)>)>> = if !drew { None } else {
        let mut rows: Vec<(usize, Vec<(usize, char, u64)>)> = Vec::new();
        // one group per header line, in drawing order (a line may put no cell at all)
        let body: Vec<(usize, usize, char, tuikit::attr::Attr)> = cv.all.iter().skip(width * height).cloned().collect();
        let n_lines = fixed.len() + reserved.len();
        for idx in 0..n_lines {
            let row = if reverse { idx } else { height - idx - 1 };
            rows.push((row, body.iter().filter(|c| c.0 == row).map(|c| (c.1, c.2, if c.3 == hattr { 7 } else { 9 })).collect()));
        }
        if body.iter().any(|c| !rows.iter().any(|r| r.0 == c.0)) { bad = Some("a cell was put on a row that holds no header line".to_string()); }
        Some(rows)
    };
    // oracle: reserved item k is on row fixed+k, shown as a prefix of its text inside the area
    if let Some(rows) = &rows {
        for (k, t) in reserved.iter().enumerate() {
            let (row, cs) = &rows[fixed.len() + k];
            let want_row = if reverse { fixed.len() + k } else { height - (fixed.len() + k) - 1 };
            if *row != want_row { bad = Some(format!("header line {} on row {}, expected {}", k, row, want_row)); }
            let mut exp: Vec<(usize, char)> = Vec::new();
            let mut pos = 0usize;
            for ch in t.chars() {
                if ch == '\t' { let n = tab - pos % tab; for j in 0..n { exp.push((2 + pos + j, ' ')); } pos += n; } else { exp.push((2 + pos, ch)); pos += ch.width().unwrap_or(2); }
            }
            let got: Vec<(usize, char)> = cs.iter().map(|c| (c.0, c.1)).collect();
            if got.len() > exp.len() || got[..] != exp[..got.len()] { bad = Some(format!("header line {:?} drawn as {:?}: not a prefix of its text", t, got)); }
            if cs.iter().any(|c| c.0 < 2 || c.0 >= width) { bad = Some(format!("header line {:?}: cell outside columns 2..{}", t, width)); }
        }
    } else if width >= 3 && height >= fixed.len() + reserved.len() { bad = Some("the header refused to draw although it fits".to_string()); }
    let mut chars: std::collections::BTreeSet<char> = [' '].iter().cloned().collect();
    for t in fixed.iter().chain(reserved.iter()) { for c in t.chars() { chars.insert(c); } }
    let widths = coq::list(chars.iter().map(|c| coq::pair(coq::n(*c as u64), format!("{}", c.width().unwrap_or(2)))));
    let rows_coq = coq::opt(rows.as_ref().map(|rows| coq::list(rows.iter().map(|(row, cs)| coq::pair(row.to_string(), coq::list(cs.iter().map(|(col, ch, tg)| coq::pair(col.to_string(), coq::pair(coq::n(*ch as u64), coq::n(*tg))))))))));
    let term = format!("(KHeader {} {} {} {} {} {} {} {})", width, height, tab, coq::b(reverse), coq::list(fixed.iter().map(|t| coq::text(t))), coq::list(reserved.iter().map(|t| coq::text(t))), widths, rows_coq);
    (term, bad, format!("header w={} h={} reverse={} tab={} nres={} fixed={:?} items={:?}", width, height, reverse, tab, nres, fixed, items))
}

/// SpinLock: K threads increment a non-atomic counter J times each under the lock
fn spin_case(r: &mut Rng) -> Option<String> {
    // a lock released by someone who does not hold it makes the holder's own release spin for ever: run under a deadline
    let seed = r.below(u64::MAX);
    let h = std::thread::spawn(move || { let mut r2 = Rng::for_case(seed, 0); spin_body(&mut r2) });
    let t0 = Instant::now();
    while !h.is_finished() && t0.elapsed() < Duration::from_millis(30000) { std::thread::sleep(Duration::from_millis(5)); }
    if h.is_finished() { h.join().unwrap_or(Some("SpinLock stress panicked".to_string())) }
    else { Some("SpinLock stress did not finish within 30 s: a release (or an acquisition) spins for ever".to_string()) }
}

fn spin_body(r: &mut Rng) -> Option<String> {
    // a long hold (the matcher keeps the pool lock for a whole pass): a waiter must stay out however long it waits
    if r.chance(1, 4) {
        let hold = *r.pick(&[60u64, 250, 600]);
        let m = Arc::new(V::SpinLock::new(0u64));
        let g = m.lock();
        let m2 = m.clone();
        let entered = Arc::new(AtomicUsize::new(0));
        let e2 = entered.clone();
        let h = std::thread::spawn(move || { let mut g2 = m2.lock(); e2.store(1, Ordering::SeqCst); *g2 += 1; });
        std::thread::sleep(Duration::from_millis(hold));
        let early = entered.load(Ordering::SeqCst);
        if early != 0 { std::mem::forget(g); return Some(format!("SpinLock held for {} ms: a second thread entered while it was held", hold)); }
        drop(g);
        let _ = h.join();
        let v = *m.lock();
        return if early != 0 || v != 1 { Some(format!("SpinLock held for {} ms: a second thread entered while it was held (entered={}, counter={})", hold, early, v)) } else { None };
    }
    let k = 2 + r.below(7) as usize;
    let j = 200 + r.below(2000) as usize;
    let m = Arc::new(V::SpinLock::new((0u64, 0u64)));
    let mut hs = Vec::new();
    for _ in 0..k {
        let m2 = m.clone();
        hs.push(std::thread::spawn(move || {
            let mut torn = 0u64;
            for _ in 0..j {
                let mut g = m2.lock();
                // two fields kept equal by every holder: a second holder inside would see them differ
                if g.0 != g.1 { torn += 1; }
                g.0 += 1;
                std::hint::spin_loop();
                g.1 += 1;
            }
            torn
        }));
    }
    let torn: u64 = hs.into_iter().map(|h| h.join().unwrap()).sum();
    let g = m.lock();
    if torn != 0 || g.0 != (k * j) as u64 || g.1 != g.0 {
        Some(format!("{} threads x {} increments under SpinLock: counter = ({}, {}), torn reads = {}", k, j, g.0, g.1, torn))
    } else { None }
}

// ------------------------------------------------------------------------------------------
fn esc(s: &str) -> String { s.replace('\\', "\\\\").replace('\t', "\\t").replace('\n', "\\n") }
fn unesc(s: &str) -> String {
    let mut out = String::new();
    let mut it = s.chars();
    while let Some(c) = it.next() {
        if c == '\\' { match it.next() { Some('t') => out.push('\t'), Some('n') => out.push('\n'), Some(x) => out.push(x), None => {} } } else { out.push(c); }
    }
    out
}

/// one case: lines `id \t kind \t payload` (kind: case | fail | dist | distinct)
fn run_case(seed: u64, id: u64, focus: &str, spec: Option<&String>, outdir: &std::path::Path, out: &mut Vec<String>) {
    let mut r = Rng::for_case(seed, id);
    let kind = if spec.is_some() { 0 } else { r.below(10) };
    if kind == 0 && spec.is_none() && focus == "C15" || (kind == 1 && spec.is_none()) {
        // pool component case
        let (term, bad, input) = pool_case(&mut r);
        out.push(format!("{}\tcase\t{}", id, esc(&term)));
        out.push(format!("{}\tdist\tkind=pool", id));
        out.push(format!("{}\tdistinct\t{}", id, esc(&input)));
        if let Some(b) = bad { out.push(format!("{}\tfail\t{}\t{}", id, esc(&b), esc(&input))); }
        if focus == "C15" {
            let (term, bad, input) = header_case(&mut r);
            out.push(format!("{}\tcase\t{}", id, esc(&term)));
            out.push(format!("{}\tdist\tkind=header", id));
            if let Some(b) = bad { out.push(format!("{}\tfail\t{}\t{}", id, esc(&b), esc(&input))); }
        }
        if focus == "C15" && id % 8 == 0 {
            if let Some(b) = spin_case(&mut r) { out.push(format!("{}\tfail\t{}\tspinlock stress", id, esc(&b))); }
            out.push(format!("{}\tdist\tkind=spinlock-stress", id));
        }
        return;
    }
    let s = match spec { Some(sp) => parse_spec(sp), None => if focus == "C20" { gen_c20(&mut r, outdir.join(format!("pv_{}.log", id)).to_string_lossy().to_string()) } else { gen(&mut r, focus) } };
    let input = spec_of(&s);
    if let Some(f) = &s.preview_log { let _ = std::fs::remove_file(f); }
    let mut o = run(&s);
    // a stall is reported when the same session stalls again (one that does not recur is counted, not reported:
    // the stalls the property is about are decided by the interleaving, which the delays of the session force again)
    if o.stalled {
        out.push(format!("{}\tdist\tstall-rerun", id));
        if let Some(f) = &s.preview_log { let _ = std::fs::remove_file(f); }
        let o2 = run(&s);
        if !o2.stalled { out.push(format!("{}\tdist\tstall-not-reproduced", id)); }
        o = o2;
    }
    if std::env::var("SKV_TRACE").is_ok() { for t in &o.trace { eprintln!("{:?}", t); } eprintln!("output {:?}", o.output); }
    out.push(format!("{}\tdist\tkind=session", id));
    out.push(format!("{}\tdist\truns={}", id, 1 + s.timeline.iter().filter(|x| matches!(x.1, Act::Cmd)).count()));
    out.push(format!("{}\tdist\tedits={}", id, s.timeline.iter().filter(|x| matches!(x.1, Act::Add(_) | Act::Back | Act::Rotate)).count().min(4)));
    out.push(format!("{}\tdist\tharvests={}", id, o.trace.iter().filter(|e| e.1 == "hb.harvest").count().min(6)));
    out.push(format!("{}\tdist\tdelays={}", id, s.delays.len()));
    if s.header_lines > 0 { out.push(format!("{}\tdist\theader-lines", id)); }
    if s.select1 || s.exit0 { out.push(format!("{}\tdist\t{}", id, if o.auto { if o.is_abort { "decision=abort" } else { "decision=accept" } } else { "decision=interactive" })); }
    out.push(format!("{}\tdistinct\t{}", id, esc(&input)));
    let exp = expected(&s, o.run_start, o.fed, &o.final_query, o.regex);
    let mut bad: Option<String> = None;
    if s.set_ops {
        // the selected set by set algebra over the match sets at the time of each operation
        let mut sel: std::collections::BTreeSet<usize> = std::collections::BTreeSet::new();
        let (mut q, mut rx) = (s.init_query.clone(), false);
        for (_, a) in &s.timeline {
            let listed: Vec<usize> = (s.header_lines..s.items.len()).filter(|k| matches_ref(&s, &s.items[*k], &q, rx)).collect();
            match a {
                Act::Add(c) => q.push(*c),
                Act::Back => { q.pop(); }
                Act::Rotate => rx = !rx,
                Act::SelAll => { for k in &listed { sel.insert(*k); } }
                Act::TogAll => { for k in &listed { if !sel.remove(k) { sel.insert(*k); } } }
                Act::DeselAll => sel.clear(),
                _ => {}
            }
        }
        out.push(format!("{}\tdist\tselected-at-end={}", id, sel.len().min(8)));
        if o.stalled { bad = Some("no quiescent state within 20 s of the last input".to_string()); }
        else if !sel.is_empty() {
            let want: Vec<String> = sel.iter().map(|k| s.items[*k].clone()).collect();
            if o.output != want { bad = Some(format!("after the select-all / toggle-all / deselect-all history and re-filtering the accepted items are {:?}, the selected set is {:?}", o.output, want)); }
        } else if o.output.len() > 1 { bad = Some(format!("nothing is selected but {:?} was accepted", o.output)); }
    }
    let has_append = s.timeline.iter().any(|x| matches!(x.1, Act::AppendSel));
    if let Some(f) = &s.preview_log {
        // C20 through the event loop: the preview request carries the command query as edited
        let mut cq = s.cmdq.clone().unwrap_or_default();
        for (_, a) in &s.timeline { match a { Act::Add(c) => cq.push(*c), Act::Back => { cq.pop(); } _ => {} } }
        // give the last preview child time to write
        let want = format!("cq={} q={}", cq, s.init_query);
        let t0 = Instant::now();
        let mut last = String::new();
        while t0.elapsed() < Duration::from_millis(3000) {
            last = std::fs::read_to_string(f).unwrap_or_default().lines().last().unwrap_or("").to_string();
            if last == want { break; }
            std::thread::sleep(Duration::from_millis(20));
        }
        out.push(format!("{}\tdist\tkind=preview-through-loop", id));
        if last != want { bad = Some(format!("the last preview request ran with {:?}, the command query and query as edited give {:?}", last, want)); }
        let _ = std::fs::remove_file(f);
    } else if has_append {
        // the appended texts are items of their own and selected: accepted = listed matches + appended ones
        let mut want: Vec<String> = exp.clone();
        want.extend(o.appended.iter().cloned());   // selected when appended, and selected they stay (one key each within a run)
        want.sort();
        let mut got = o.output.clone();
        got.sort();
        out.push(format!("{}\tdist\tappend-and-select", id));
        if o.stalled { bad = Some("no quiescent state within 20 s of the last input".to_string()); }
        else if got != want { bad = Some(format!("after append-and-select the accepted items are {:?}; the matching items of the source plus the appended ones are {:?}", got, want)); }
    } else if s.tiebreak.is_some() || focus == "C13" {
        // C13 end to end: the item on the cursor row of a fresh list is a best-ranked one under the criteria
        // the option stands for (names split at commas, unknown ones ignored; absent option: score, begin, end)
        let crit: Vec<V::RankCriteria> = match &s.tiebreak {
            Some(t) => t.split(',').filter_map(V::parse_criteria).collect(),
            None => vec![V::RankCriteria::Score, V::RankCriteria::Begin, V::RankCriteria::End],
        };
        let rb = Arc::new(V::RankBuilder::new(crit));
        let f = ExactOrFuzzyEngineFactory::builder().exact_mode(s.exact).rank_builder(rb).build();
        let eng = AndOrEngineFactory::new(f).create_engine_with_case(&o.final_query, CaseMatching::default());
        let ranks: Vec<(String, [i32; 4])> = s.items.iter().filter_map(|t| eng.match_item(Arc::new(t.clone()) as Arc<dyn SkimItem>).map(|m| (t.clone(), m.rank))).collect();
        out.push(format!("{}\tdist\ttiebreak={}", id, s.tiebreak.clone().unwrap_or_else(|| "(absent)".to_string())));
        if let Some(best) = ranks.iter().map(|x| x.1).min() {
            match o.output.first().and_then(|t| ranks.iter().find(|x| &x.0 == t)) {
                Some((t, rk)) => if *rk != best { bad = Some(format!("--tiebreak {:?}: the first row holds {:?} with key {:?}, the best key is {:?} ({:?})", s.tiebreak, t, rk, best, ranks.iter().find(|x| x.1 == best).map(|x| &x.0))); },
                None => bad = Some(format!("--tiebreak {:?}: accepted {:?}, which is not a matching item", s.tiebreak, o.output)),
            }
        }
    } else if s.end > 0 {
        // C05: the result carries the query as edited and the key / event that ended the session; abort is abort
        let q = &o.final_query;
        let n_match = exp.len();
        let (want_abort, want_key, want_ev): (bool, &str, &str) = match s.end {
            1 => (false, "Enter", "EvActAccept(None)"),
            2 => (false, "Ctrl('y')", "EvActAccept(Some(\"ctrl-y\"))"),
            3 => (true, "ESC", "EvActAbort"),
            4 => if q.is_empty() { (true, "Ctrl('d')", "EvActAbort") } else { (false, "Enter", "EvActAccept(None)") },
            5 => if !q.is_empty() { (false, "Ctrl('y')", "EvActAccept(None)") } else { (false, "Enter", "EvActAccept(None)") },
            6 => if n_match == 0 { (true, "Ctrl('g')", "EvActAbort") } else { (false, "Enter", "EvActAccept(None)") },
            8 => if q.is_empty() { (true, "Ctrl('a')", "EvActAbort") } else { (false, "Ctrl('a')", "EvActAccept(None)") },
            9 => if !q.is_empty() { (false, "Ctrl('a')", "EvActAccept(None)") } else { (true, "Ctrl('a')", "EvActAbort") },
            // delete-charEOF looks at the line being edited: the command line in interactive mode
            _ => if s.cmdq.as_ref().map(|c| c.is_empty()).unwrap_or(q.is_empty()) { (true, "Ctrl('d')", "EvActAbort") } else { (false, "Enter", "EvActAccept(None)") },
        };
        if s.cmdq.is_some() { out.push(format!("{}\tdist\tinteractive", id)); }
        out.push(format!("{}\tdist\tend={}", id, s.end));
        if o.is_abort != want_abort || o.final_key != want_key || o.final_event != want_ev {
            bad = Some(format!("the session ended with abort={} key={} event={}; expected abort={} key={} event={} (query {:?}, {} matches)", o.is_abort, o.final_key, o.final_event, want_abort, want_key, want_ev, q, n_match));
        } else if &o.out_query != q {
            bad = Some(format!("the result carries query {:?}, the query as edited is {:?}", o.out_query, q));
        } else if !want_abort && n_match > 0 && o.output.len() != 1 {
            bad = Some(format!("accept with nothing selected returned {:?}, expected the one cursor item", o.output));
        } else if !want_abort && n_match > 0 && !exp.contains(&o.output[0]) {
            bad = Some(format!("accept returned {:?}, which is not a listed item ({:?})", o.output, exp));
        }
    } else if s.set_ops {
    } else if s.select1 || s.exit0 {
        // the decision is taken once, on the first complete result set: under the query as it stood then, which is
        // the query at the end of the source or after any later edit (the harness cannot tell which; the replay
        // through the model checks the decision against the recorded reads)
        let mut states: Vec<(String, bool)> = Vec::new();
        let (mut q, mut rx, mut ended) = (s.init_query.clone(), false, false);
        let last_eof = s.timeline.iter().rposition(|x| matches!(x.1, Act::Eof));
        for (k, (_, a)) in s.timeline.iter().enumerate() {
            match a {
                Act::Add(c) => q.push(*c),
                Act::Back => { q.pop(); }
                Act::Rotate => rx = !rx,
                _ => {}
            }
            if Some(k) == last_eof { ended = true; }
            if ended && !states.contains(&(q.clone(), rx)) { states.push((q.clone(), rx)); }
            // once the session has settled after the end of the source the decision has been taken: later edits do not count
            if ended && matches!(a, Act::Settle) { break; }
        }
        if states.is_empty() { states.push((q.clone(), rx)); }
        let mut why = Vec::new();
        let mut ok = false;
        for (qk, rxk) in &states {
            let ek = expected(&s, o.run_start, o.fed, qk, *rxk);
            let n = ek.len();
            let last = qk == &o.final_query && *rxk == o.regex;
            if s.select1 && n == 1 {
                if o.auto && !o.is_abort && o.output == ek { ok = true; }
                else { why.push(format!("--select-1 with exactly one match {:?} for {:?}: auto={} abort={} output={:?}", ek, qk, o.auto, o.is_abort, o.output)); }
            } else if s.exit0 && n == 0 {
                if o.auto && o.is_abort { ok = true; }
                else { why.push(format!("--exit-0 with no match for {:?}: the session did not end on its own (auto={} abort={})", qk, o.auto, o.is_abort)); }
            } else if o.auto {
                why.push(format!("{} item(s) match {:?} but the session ended on its own ({}): decided on a partial result", n, qk, if o.is_abort { "exit-0" } else { "select-1" }));
            } else { ok = true; }
            let _ = last;
        }
        if !ok { bad = Some(why.join(" | ")); }
        // "neither option fires later": after a decision point that started the interactive session no further one is reached
        let decides: Vec<(usize, usize)> = o.trace.iter().filter(|e| e.1 == "s1.decide").map(|e| (e.2, e.3)).collect();
        if let Some(k) = decides.iter().position(|d| !((d.1 == 1 && s.select1) || (d.1 == 0 && s.exit0))) {
            if bad.is_none() && decides.len() > k + 1 {
                bad = Some(format!("the decision point was reached again after the interactive session had started (list sizes at the decision points: {:?})", decides.iter().map(|d| d.1).collect::<Vec<_>>()));
            }
        }
    }
    if bad.is_none() && !o.auto && !s.set_ops && s.end == 0 && !has_append && s.preview_log.is_none() {
        if o.stalled { bad = Some("no quiescent state within 20 s of the last input (heartbeats stopped or never settle)".to_string()); }
        else {
            let stale_ok = s.no_clear_if_empty && exp.is_empty() && o.run_start > 0;
            if o.output != exp && !stale_ok {
                bad = Some(if exp.len() > 60 || o.output.len() > 60 {
                    let k = o.output.iter().zip(exp.iter()).position(|(a, b)| a != b).unwrap_or(o.output.len().min(exp.len()));
                    format!("at quiescence the list has {} items, the matching items of the source are {}; they first differ at position {}: listed {:?}, expected {:?} (query {:?})", o.output.len(), exp.len(), k, o.output.get(k), exp.get(k), o.final_query)
                } else {
                    format!("at quiescence the list is {:?}, the matching items of the source are {:?} (query {:?}, regex {})", o.output, exp, o.final_query, o.regex)
                });
            }
        }
    }
    if bad.is_none() && o.stalled { bad = Some("the session stalled: no quiescent state within 20 s of the last input, or the event loop did not return within 45 s of being told to end".to_string()); }
    if let Some(b) = bad { out.push(format!("{}\tfail\t{}\t{}", id, esc(&b), esc(&input))); }
    if has_append || s.items.len() > 20000 { out.push(format!("{}\tok\toracle-only", id)); if s.items.len() > 20000 { out.push(format!("{}\tdist\tkind=big-backlog", id)); } return; }
    match session_case(&s, &o) {
        Some(t) => out.push(format!("{}\tcase\t{}", id, esc(&t))),
        None => out.push(format!("{}\tfail\tno trace recorded\t{}", id, esc(&input))),
    }
}

fn main() {
    let a = args();
    let focus = a.extra.get("focus").cloned().unwrap_or_else(|| "C01".to_string());
    if let Some(w) = a.extra.get("worker") {
        // worker: ids = w mod nw
        let w: u64 = w.parse().unwrap();
        let nw: u64 = a.extra.get("workers").map(|x| x.parse().unwrap()).unwrap_or(16);
        let mut lines = Vec::new();
        let mut id = w;
        while id < a.n {
            run_case(a.seed, id, &focus, None, &a.out, &mut lines);
            id += nw;
        }
        std::fs::write(a.out.join(format!("part_{}.txt", w)), lines.join("\n")).expect("write part");
        return;
    }
    std::fs::create_dir_all(&a.out).expect("mkdir");
    let mut lines: Vec<String> = Vec::new();
    if let Some(i) = a.only {
        run_case(a.seed, i, &focus, a.extra.get("spec"), &a.out, &mut lines);
    } else if a.extra.get("spec").is_some() {
        run_case(a.seed, 0, &focus, a.extra.get("spec"), &a.out, &mut lines);
    } else {
        let nw: u64 = a.extra.get("workers").map(|x| x.parse().unwrap()).unwrap_or(16);
        let exe = std::env::current_exe().unwrap();
        let mut ch = Vec::new();
        for w in 0..nw {
            ch.push(std::process::Command::new(&exe)
                .args(["--seed", &a.seed.to_string(), "--n", &a.n.to_string(), "--out", a.out.to_str().unwrap(), "--focus", &focus, "--worker", &w.to_string(), "--workers", &nw.to_string()])
                .spawn().expect("spawn worker"));
        }
        for mut c in ch { let _ = c.wait(); }
        for w in 0..nw {
            if let Ok(t) = std::fs::read_to_string(a.out.join(format!("part_{}.txt", w))) { lines.extend(t.lines().map(|x| x.to_string())); }
            let _ = std::fs::remove_file(a.out.join(format!("part_{}.txt", w)));
        }
    }
    // merge
    let mut cases: Vec<(u64, String)> = Vec::new();
    let mut fails = Vec::new();
    let mut dist = Hist::default();
    let mut distinct = std::collections::BTreeSet::new();
    let mut samples = Vec::new();
    for l in &lines {
        let p: Vec<&str> = l.splitn(4, '\t').collect();
        if p.len() < 3 { continue; }
        let id: u64 = p[0].parse().unwrap_or(0);
        match p[1] {
            "case" => cases.push((id, unesc(p[2]))),
            "fail" => fails.push(OracleFailure { case: id, what: unesc(p[2]), known: None, input: unesc(p.get(3).unwrap_or(&"")) }),
            "dist" => dist.add(p[2]),
            "distinct" => { let d = unesc(p[2]); if samples.len() < 3 { samples.push(J::s(&d)); } distinct.insert(d); }
            _ => {}
        }
    }
    cases.sort_by_key(|c| c.0);
    let mut w = CaseWriter::new(&a.out, "Corr.Pipe", a.shard);
    for (id, t) in cases { w.push(id, t); }
    let total = w.total;
    let shards = w.finish();
    write_meta(&a.out, total, distinct.len() as u64,
        "whole sessions of the real event loop on a held terminal: 0-40 items in 1-12-item chunks with 0-140 ms pauses, initial query, 0-4 query edits / mode rotations / spurious heartbeats / command re-runs interleaved with arrival, header lines, --no-clear-if-empty, -1/-0/--sync, 0-2 delays of 5-250 ms at the trace points of the heartbeat, restart_matcher, the matcher thread; plus ItemPool operation sequences (append/take/reset/clear with header reservation) and SpinLock contention runs; distinct by session specification",
        samples, dist.json(), &fails, shards);
}
