//! C19 harness: --bind specifications generated from the grammar
//! key:action[(arg)|[arg]|"arg"|'arg'|:arg][+action...][,...] over tuikit's key names and the action
//! table, through the real parse_key_action / Input / parse_action_arg.  Direct oracle: the chain
//! expected from the generator's own AST (override semantics, expect keys, unbound keys).
use skim::verif::{parse_action_arg, parse_key_action, Event, Input};
use skv::*;
use std::collections::{BTreeMap, BTreeSet};
use tuikit::event::Event as TermEvent;
use tuikit::key::{from_keyname, Key};

const KEYNAMES: [&str; 40] = ["ctrl-a", "ctrl-b", "ctrl-c", "ctrl-t", "ctrl-x", "ctrl-y", "alt-a", "alt-b", "alt-x", "f1", "f5", "f12", "enter", "tab", "esc",
    "up", "down", "left", "right", "home", "end", "pgup", "pgdn", "space", "bspace", "del", "btab", "ctrl-space", "alt-enter", "shift-up", "x", "Q", "ctrl-alt-a", "return", "ctrl-m",
    "foo", "hyper-x", "ctrl-", "f99", "alt-"];
const NOARG: [&str; 30] = ["abort", "append-and-select", "backward-char", "backward-delete-char", "backward-kill-word", "backward-word", "beginning-of-line", "cancel",
    "clear-screen", "delete-char", "delete-charEOF", "deselect-all", "end-of-line", "forward-char", "forward-word", "ignore", "kill-line", "kill-word", "next-history", "previous-history",
    "refresh-cmd", "refresh-preview", "select-all", "toggle", "toggle-all", "toggle-in", "toggle-interactive", "toggle-out", "toggle-preview", "yank"];
const INTARG: [&str; 14] = ["down", "up", "half-page-down", "half-page-up", "page-down", "page-up", "preview-up", "preview-down", "preview-left", "preview-right", "preview-page-up", "preview-page-down", "scroll-left", "scroll-right"];
const STRARG: [&str; 5] = ["execute", "execute-silent", "if-non-matched", "if-query-empty", "if-query-not-empty"];
const ARGCH: [&str; 22] = ["a", "b", "ls", " ", "{}", "{q}", "{1..}", ",", ":", "+", "|", "$x", "-l", "\n", "\"", "'", "(", ")", "[", "]", "é", "cat"];

#[derive(Clone, Debug)]
enum Form { Paren, Bracket, DQuote, SQuote, Colon }
#[derive(Clone, Debug)]
struct Act { name: String, arg: Option<(Form, String)> }

fn gen_argtext(r: &mut Rng) -> String { (0..(1 + r.below(5))).map(|_| *r.pick(&ARGCH)).collect() }
fn pick_form(r: &mut Rng, arg: &str) -> Option<Form> {
    let mut ok = Vec::new();
    if !arg.contains(')') { ok.push(Form::Paren); }
    if !arg.contains(']') { ok.push(Form::Bracket); }
    if !arg.contains('"') { ok.push(Form::DQuote); }
    if !arg.contains('\'') { ok.push(Form::SQuote); }
    // the colon form: no separator and no character that opens another argument form (see DESIGN C19)
    if !arg.contains(|c| ":,+([\"'".contains(c)) { ok.push(Form::Colon); }
    if ok.is_empty() { None } else { Some(r.pick(&ok).clone()) }
}
fn gen_act(r: &mut Rng, depth: u32) -> Act {
    match r.below(10) {
        0..=4 => Act { name: r.pick(&NOARG).to_string(), arg: None },
        5..=6 => {
            let name = r.pick(&INTARG).to_string();
            let arg = if r.chance(1, 2) { None } else { let v = match r.below(4) { 0 => "x".to_string(), 1 => format!("{}", r.range(-3, 40)), _ => format!("{}", r.below(10)) }; pick_form(r, &v).map(|f| (f, v)) };
            Act { name, arg }
        }
        7 => { let arg = if r.chance(1, 2) { None } else { let v = gen_argtext(r); pick_form(r, &v).map(|f| (f, v)) }; Act { name: "accept".into(), arg } }
        _ => {
            let name = r.pick(&STRARG).to_string();
            let mut v = if name.starts_with("if-") && depth == 0 && r.chance(2, 3) {
                // an action as argument (a different bracket is needed for nesting)
                render_act(&gen_act(r, 1))
            } else { gen_argtext(r) };
            let mut form = pick_form(r, &v);
            if form.is_none() { v = "ls".into(); form = Some(Form::Paren); }
            Act { name, arg: Some((form.unwrap(), v)) }
        }
    }
}
fn render_act(a: &Act) -> String {
    match &a.arg {
        None => a.name.clone(),
        Some((Form::Paren, v)) => format!("{}({})", a.name, v),
        Some((Form::Bracket, v)) => format!("{}[{}]", a.name, v),
        Some((Form::DQuote, v)) => format!("{}\"{}\"", a.name, v),
        Some((Form::SQuote, v)) => format!("{}'{}'", a.name, v),
        Some((Form::Colon, v)) => format!("{}:{}", a.name, v),
    }
}

/// Event -> (constructor name, argument) for comparison
fn enc(e: &Event) -> (String, String) {
    let d = format!("{:?}", e);
    let ctor = d.split('(').next().unwrap().to_string();
    use Event::*;
    let arg = match e {
        EvActAccept(o) => format!("(MOptStr {})", coq::opt(o.as_ref().map(|s| coq::text(s)))),
        EvActAddChar(c) => format!("(MChar {})", coq::n(*c as u64)),
        EvInputKey(k) => format!("(MKey {})", coq::text(&format!("{:?}", k))),
        EvActDown(i) | EvActUp(i) | EvActHalfPageDown(i) | EvActHalfPageUp(i) | EvActPageDown(i) | EvActPageUp(i) | EvActPreviewUp(i) | EvActPreviewDown(i)
        | EvActPreviewLeft(i) | EvActPreviewRight(i) | EvActPreviewPageUp(i) | EvActPreviewPageDown(i) | EvActScrollLeft(i) | EvActScrollRight(i) => format!("(MInt {})", coq::z(*i as i64)),
        EvActExecute(s) | EvActExecuteSilent(s) | EvActIfQueryEmpty(s) | EvActIfQueryNotEmpty(s) | EvActIfNonMatched(s) => format!("(MStr {})", coq::text(s)),
        _ => "MNone".to_string(),
    };
    (ctor, arg)
}
fn enc_coq(e: &Event) -> String { let (c, a) = enc(e); format!("({}, {})", coq::text(&c), a) }

/// what the generator's AST says an action becomes (None = unknown action, dropped)
fn expect_event(a: &Act) -> Option<(String, String)> {
    let argt = a.arg.as_ref().map(|x| x.1.clone());
    let camel = |n: &str| -> String { if n == "delete-charEOF" { return "EvActDeleteCharEOF".into(); }
        format!("EvAct{}", n.split('-').map(|p| { let mut c = p.chars(); c.next().map(|f| f.to_uppercase().collect::<String>() + c.as_str()).unwrap_or_default() }).collect::<String>()) };
    if NOARG.contains(&a.name.as_str()) { Some((camel(&a.name), "MNone".into())) }
    else if INTARG.contains(&a.name.as_str()) { let v = argt.and_then(|s| s.parse::<i32>().ok()).unwrap_or(1); Some((camel(&a.name), format!("(MInt {})", coq::z(v as i64)))) }
    else if a.name == "accept" { Some(("EvActAccept".into(), format!("(MOptStr {})", coq::opt(argt.map(|s| coq::text(&s)))))) }
    else if STRARG.contains(&a.name.as_str()) { argt.map(|s| (camel(&a.name), format!("(MStr {})", coq::text(&s)))) }
    else { None }
}

fn main() {
    let a = args();
    quiet_panics();
    let mut w = CaseWriter::new(&a.out, "Corr.C19", a.shard);
    let mut dist = Hist::default();
    let mut distinct: BTreeSet<String> = BTreeSet::new();
    let mut samples = Vec::new();
    let mut fails = Vec::new();
    let ids: Vec<u64> = match a.only { Some(i) => vec![i], None => (0..a.n).collect() };
    for id in ids {
        let mut r = Rng::for_case(a.seed, id);
        // the specification
        let nspecs = 1 + r.below(2);
        let mut specs_ast: Vec<Vec<(String, Vec<Act>)>> = Vec::new();
        for _ in 0..nspecs {
            let nb = 1 + r.below(4);
            specs_ast.push((0..nb).map(|_| (r.pick(&KEYNAMES).to_string(), (0..(1 + r.below(3))).map(|_| gen_act(&mut r, 0)).collect())).collect());
        }
        let specs: Vec<String> = specs_ast.iter().map(|bs| bs.iter().map(|(k, acts)| format!("{}:{}", k, acts.iter().map(render_act).collect::<Vec<_>>().join("+"))).collect::<Vec<_>>().join(",")).collect();
        // (an expected key may be a character of the binding grammar itself: it is a key name here, nothing else)
        let expect: Option<String> = if r.chance(1, 3) { Some((0..(1 + r.below(3))).map(|_| if r.chance(1, 6) { r.pick(&[":", ")", "(", "+", "]"]).to_string() } else { r.pick(&KEYNAMES).to_string() }).collect::<Vec<_>>().join(",")) } else { None };
        let ifargs: Vec<String> = (0..r.below(3)).map(|_| render_act(&gen_act(&mut r, 1))).collect();
        // probes: the keys named in the specs / expect list, plus a few fixed ones
        let mut probe_names: Vec<String> = specs_ast.iter().flatten().map(|b| b.0.clone()).collect();
        if let Some(e) = &expect { probe_names.extend(e.split(',').map(|s| s.to_string())); }
        probe_names.extend(["enter", "ctrl-c", "tab", "f7", "z"].iter().map(|s| s.to_string()));
        let mut probes: Vec<Key> = probe_names.iter().filter_map(|n| from_keyname(n)).collect();
        // the capital of every bound letter is a key of its own (unbound unless named), and so is an unnamed capital
        let caps: Vec<Key> = probes.iter().filter_map(|k| if let Key::Char(c) = k { if c.is_ascii_lowercase() { Some(Key::Char(c.to_ascii_uppercase())) } else { None } } else { None }).collect();
        probes.extend(caps);
        probes.push(Key::Char('Q'));
        probes.push(Key::Char('中'));
        probes.push(Key::CursorPos(1, 2));
        probes.dedup();
        let input = format!("bind={:?} expect={:?} if-args={:?}", specs, expect, ifargs);
        let (specs2, expect2, probes2, ifargs2) = (specs.clone(), expect.clone(), probes.clone(), ifargs.clone());
        let res = guarded(move || {
            let parsed: Vec<Vec<(String, Vec<(String, Option<String>)>)>> = specs2.iter().map(|s| parse_key_action(s).into_iter().map(|(k, acts)| (k.to_string(), acts.into_iter().map(|(n, a)| (n.to_string(), a)).collect())).collect()).collect();
            let chains = guarded(|| {
                let mut input = Input::new();
                let refs: Vec<&str> = specs2.iter().map(|s| s.as_str()).collect();
                input.parse_keymaps(&refs);
                input.parse_expect_keys(expect2.as_deref());
                probes2.iter().map(|k| input.translate_event(TermEvent::Key(*k)).1).collect::<Vec<_>>()
            }).ok();
            let ifevs: Vec<Option<Option<Event>>> = ifargs2.iter().map(|s| { let s2 = s.clone(); guarded(move || parse_action_arg(&s2)).ok() }).collect();
            (parsed, chains, ifevs)
        });
        match res {
            Err(e) => fails.push(OracleFailure { case: id, what: format!("panic: {}", e), known: None, input }),
            Ok((parsed, chains, ifevs)) => {
                // ---- direct oracle from the AST ----------------------------------------------------
                let mut bad: Option<String> = None;
                for (si, bs) in specs_ast.iter().enumerate() {
                    let want: Vec<(String, Vec<(String, Option<String>)>)> = bs.iter().map(|(k, acts)| (k.clone(), acts.iter().map(|x| (x.name.clone(), x.arg.as_ref().map(|y| y.1.clone()))).collect())).collect();
                    if bad.is_none() && parsed.get(si) != Some(&want) { bad = Some(format!("--bind {:?} parses to {:?}, the specification is {:?}", specs[si], parsed.get(si), want)); }
                }
                // expected key map: defaults, then bindings in order (last wins), then expect keys
                let needs_arg_missing = specs_ast.iter().flatten().flat_map(|b| b.1.iter()).any(|x| STRARG.contains(&x.name.as_str()) && x.arg.is_none());
                if let Some(ch) = &chains {
                    let mut want_map: BTreeMap<String, Vec<(String, String)>> = BTreeMap::new();
                    for (k, acts) in specs_ast.iter().flatten() {
                        if let Some(key) = from_keyname(k) {
                            let evs: Vec<(String, String)> = acts.iter().filter_map(expect_event).collect();
                            if !evs.is_empty() { want_map.insert(format!("{:?}", key), evs); }
                        }
                    }
                    if let Some(e) = &expect { for k in e.split(',') { if let Some(key) = from_keyname(k) { want_map.insert(format!("{:?}", key), vec![("EvActAccept".into(), format!("(MOptStr (Some {}))", coq::text(k)))]); } } }
                    let defaults = Input::new();
                    for (pk, got) in probes.iter().zip(ch.iter()) {
                        let got_enc: Vec<(String, String)> = got.iter().map(enc).collect();
                        let want: Vec<(String, String)> = match want_map.get(&format!("{:?}", pk)) {
                            Some(v) => v.clone(),
                            None => defaults.translate_event(TermEvent::Key(*pk)).1.iter().map(enc).collect(),   // every other key keeps its default / unbound behaviour
                        };
                        if bad.is_none() && got_enc != want { bad = Some(format!("key {:?} is translated to {:?}, expected {:?}", pk, got_enc, want)); }
                    }
                } else if !needs_arg_missing && bad.is_none() { bad = Some("building the key map panicked".into()); }
                if let Some(m) = bad { fails.push(OracleFailure { case: id, what: m, known: None, input: input.clone() }); }
                for bs in &specs_ast { for (_, acts) in bs { for x in acts { dist.add(match &x.arg { None => "arg=none", Some((Form::Paren, _)) => "arg=()", Some((Form::Bracket, _)) => "arg=[]", Some((Form::DQuote, _)) => "arg=\"\"", Some((Form::SQuote, _)) => "arg=''", Some((Form::Colon, _)) => "arg=:" }); } } }
                distinct.insert(specs.join("|"));
                if samples.len() < 3 { samples.push(J::s(&input)); }
                // ---- Coq case ------------------------------------------------------------------------
                let mut names: BTreeSet<String> = specs_ast.iter().flatten().map(|b| b.0.clone()).collect();
                if let Some(e) = &expect { for k in e.split(',') { names.insert(k.to_string()); } }
                let keys = coq::list(names.iter().map(|n| coq::pair(coq::text(n), coq::opt(from_keyname(n).map(|k| coq::text(&format!("{:?}", k)))))));
                let parsed_coq = coq::list(parsed.iter().map(|bs| coq::list(bs.iter().map(|(k, acts)| coq::pair(coq::text(k), coq::list(acts.iter().map(|(n, a)| coq::pair(coq::text(n), coq::opt(a.as_ref().map(|s| coq::text(s)))))))))));
                let probes_coq = coq::list(probes.iter().map(|k| coq::pair(coq::text(&format!("{:?}", k)), coq::opt(if let Key::Char(c) = k { Some(coq::n(*c as u64)) } else { None }))));
                let chains_coq = coq::opt(chains.as_ref().map(|ch| coq::list(ch.iter().map(|c| coq::list(c.iter().map(enc_coq))))));
                let ifevs_coq = coq::list(ifevs.iter().map(|o| coq::opt(o.as_ref().map(|e| coq::opt(e.as_ref().map(enc_coq))))));
                w.push(id, format!("{{| c_keys := {}; c_specs := {}; c_expect := {}; i_parsed := {}; c_probes := {}; i_chains := {}; c_ifargs := {}; i_ifevs := {} |}}",
                    keys, coq::list(specs.iter().map(|s| coq::text(s))), coq::opt(expect.as_ref().map(|s| coq::text(s))), parsed_coq, probes_coq, chains_coq,
                    coq::list(ifargs.iter().map(|s| coq::text(s))), ifevs_coq));
            }
        }
    }
    let total = w.total;
    let shards = w.finish();
    write_meta(&a.out, total, distinct.len() as u64,
        "1-2 --bind strings of 1-4 bindings over 40 key names (35 known to tuikit, 5 unknown) and all actions of the table; chains of 1-3 actions; arguments in the five forms ((..) [..] \"..\" '..' :..) chosen so that the argument does not contain the form's terminator, over an alphabet with commas, colons, plus signs, placeholders, quotes, brackets, newline, multi-byte; nested actions as if-* arguments; optional --expect list; probes = all keys named plus enter/ctrl-c/tab/f7/z, a CJK character key and a non-character key; distinct by specification",
        samples, dist.json(), &fails, shards);
}
