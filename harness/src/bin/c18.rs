//! C18 harness: event sequences on the real Query (Query::from_options + EventHandler::handle),
//! observed after every event through get_fz_query / get_cmd_query / in_query_mode and the cursor
//! column of a recording canvas.  Direct oracle: a plain reference editor written here
//! (text + cursor per buffer, kill buffer, history zipper), independent of the Coq model.
use skim::verif::{Event, EventHandler, Query};
use skim::SkimOptions;
use skv::canvas::Rec;
use skv::*;
use std::collections::BTreeSet;
use tuikit::draw::Draw;
use tuikit::key::Key;

const ALPHABET: [char; 22] = [
    'a', 'b', 'Z', 'q', '0', '9', ' ', ' ', '\t', '-', '_', '.', '/', '中', '文', 'é', 'ß', '\u{301}', '\u{3000}', '\u{a0}', '٣', '!',
];

#[derive(Clone, Debug)]
enum Ev {
    AddChar(char), DeleteChar, DeleteCharEOF, BackwardChar, BackwardDeleteChar, BackwardKillWord,
    BackwardWord, BeginningOfLine, EndOfLine, ForwardChar, ForwardWord, KillLine, KillWord,
    PreviousHistory, NextHistory, UnixLineDiscard, UnixWordRubout, Yank, ToggleInteractive,
    PasteStart, PasteEnd, Other,
}

impl Ev {
    fn to_event(&self) -> Event {
        use Event::*;
        match self {
            Ev::AddChar(c) => EvActAddChar(*c), Ev::DeleteChar => EvActDeleteChar, Ev::DeleteCharEOF => EvActDeleteCharEOF,
            Ev::BackwardChar => EvActBackwardChar, Ev::BackwardDeleteChar => EvActBackwardDeleteChar,
            Ev::BackwardKillWord => EvActBackwardKillWord, Ev::BackwardWord => EvActBackwardWord,
            Ev::BeginningOfLine => EvActBeginningOfLine, Ev::EndOfLine => EvActEndOfLine,
            Ev::ForwardChar => EvActForwardChar, Ev::ForwardWord => EvActForwardWord,
            Ev::KillLine => EvActKillLine, Ev::KillWord => EvActKillWord,
            Ev::PreviousHistory => EvActPreviousHistory, Ev::NextHistory => EvActNextHistory,
            Ev::UnixLineDiscard => EvActUnixLineDiscard, Ev::UnixWordRubout => EvActUnixWordRubout,
            Ev::Yank => EvActYank, Ev::ToggleInteractive => EvActToggleInteractive,
            Ev::PasteStart => EvInputKey(Key::BracketedPasteStart), Ev::PasteEnd => EvInputKey(Key::BracketedPasteEnd),
            Ev::Other => EvActRedraw,
        }
    }
    fn coq(&self) -> String {
        match self {
            Ev::AddChar(c) => format!("AddChar {}", coq::n(*c as u64)),
            e => format!("{:?}", e),
        }
    }
}

fn gen_text(r: &mut Rng, max: u64) -> String {
    let n = r.below(max + 1);
    (0..n).map(|_| *r.pick(&ALPHABET)).collect()
}

fn gen_events(r: &mut Rng) -> Vec<Ev> {
    let n = 1 + r.below(60);
    let mut v = Vec::new();
    let mut pasting = false;
    for _ in 0..n {
        let k = r.below(100);
        let e = match k {
            0..=24 => Ev::AddChar(*r.pick(&ALPHABET)),
            25..=27 => Ev::DeleteChar,
            28 => Ev::DeleteCharEOF,
            29..=34 => Ev::BackwardChar,
            35..=38 => Ev::BackwardDeleteChar,
            39..=43 => Ev::BackwardKillWord,
            44..=48 => Ev::BackwardWord,
            49..=51 => Ev::BeginningOfLine,
            52..=54 => Ev::EndOfLine,
            55..=58 => Ev::ForwardChar,
            59..=62 => Ev::ForwardWord,
            63..=66 => Ev::KillLine,
            67..=70 => Ev::KillWord,
            71..=75 => Ev::PreviousHistory,
            76..=79 => Ev::NextHistory,
            80..=82 => Ev::UnixLineDiscard,
            83..=86 => Ev::UnixWordRubout,
            87..=92 => Ev::Yank,
            93..=95 => Ev::ToggleInteractive,
            96..=97 => { if pasting { pasting = false; Ev::PasteEnd } else { pasting = true; Ev::PasteStart } }
            98 => Ev::PasteEnd,
            _ => Ev::Other,
        };
        v.push(e);
    }
    v
}

// ---- the plain reference editor (direct oracle) ---------------------------------------------
#[derive(Clone, Default)]
struct Line { text: Vec<char>, cur: usize }
#[derive(Clone, Default)]
struct Hist { older: Vec<String>, newer: Vec<String> } // last = nearest
struct Ref { fz: Line, cmd: Line, kill: Vec<char>, query_mode: bool, hq: Hist, hc: Hist, paste: Option<Vec<char>> }

impl Ref {
    fn line(&mut self) -> &mut Line { if self.query_mode { &mut self.fz } else { &mut self.cmd } }
    fn hist(&mut self) -> &mut Hist { if self.query_mode { &mut self.hq } else { &mut self.hc } }
    fn insert(&mut self, t: &[char]) { let l = self.line(); let c = l.cur; l.text.splice(c..c, t.iter().cloned()); l.cur += t.len(); }
    fn kill_range(&mut self, a: usize, b: usize, cursor_to: usize) {
        let l = self.line();
        let k: Vec<char> = l.text.drain(a..b).collect();
        l.cur = cursor_to;
        if !k.is_empty() { self.kill = k; }
    }
    fn back(&mut self, p1: &dyn Fn(char) -> bool, p2: &dyn Fn(char) -> bool) -> usize {
        let l = self.line();
        let mut i = l.cur;
        while i > 0 && p1(l.text[i - 1]) { i -= 1; }
        while i > 0 && p2(l.text[i - 1]) { i -= 1; }
        i
    }
    fn fwd(&mut self, p1: &dyn Fn(char) -> bool, p2: &dyn Fn(char) -> bool) -> usize {
        let l = self.line();
        let mut i = l.cur;
        while i < l.text.len() && p1(l.text[i]) { i += 1; }
        while i < l.text.len() && p2(l.text[i]) { i += 1; }
        i
    }
    fn step(&mut self, e: &Ev) {
        let ws = |c: char| c.is_whitespace();
        let nws = |c: char| !c.is_whitespace();
        let al = |c: char| c.is_alphanumeric();
        let nal = |c: char| !c.is_alphanumeric();
        match e {
            Ev::AddChar(c) => { if let Some(p) = self.paste.as_mut() { p.push(*c) } else { self.insert(&[*c]) } }
            Ev::DeleteChar | Ev::DeleteCharEOF => { let l = self.line(); if l.cur < l.text.len() { let c = l.cur; l.text.remove(c); } }
            Ev::BackwardChar => { let l = self.line(); if l.cur > 0 { l.cur -= 1 } }
            Ev::ForwardChar => { let l = self.line(); if l.cur < l.text.len() { l.cur += 1 } }
            Ev::BackwardDeleteChar => { let l = self.line(); if l.cur > 0 { l.cur -= 1; let c = l.cur; l.text.remove(c); } }
            Ev::BeginningOfLine => self.line().cur = 0,
            Ev::EndOfLine => { let l = self.line(); l.cur = l.text.len() }
            Ev::BackwardWord => { let i = self.back(&nal, &al); self.line().cur = i }
            Ev::ForwardWord => { let i = self.fwd(&ws, &nws); self.line().cur = i }
            Ev::BackwardKillWord => { let i = self.back(&nal, &al); let c = self.line().cur; self.kill_range(i, c, i) }
            Ev::UnixWordRubout => { let i = self.back(&ws, &nws); let c = self.line().cur; self.kill_range(i, c, i) }
            Ev::KillWord => { let i = self.fwd(&nal, &al); let c = self.line().cur; self.kill_range(c, i, c) }
            Ev::KillLine => { let c = self.line().cur; let n = self.line().text.len(); self.kill_range(c, n, c) }
            Ev::UnixLineDiscard => { let c = self.line().cur; self.kill_range(0, c, 0) }
            Ev::Yank => { let k = self.kill.clone(); self.insert(&k) }
            Ev::PreviousHistory => {
                let cur: String = self.line().text.iter().collect();
                if let Some(h) = self.hist().older.pop() {
                    self.hist().newer.push(cur);
                    let l = self.line(); l.text = h.chars().collect(); l.cur = l.text.len();
                }
            }
            Ev::NextHistory => {
                let cur: String = self.line().text.iter().collect();
                if let Some(h) = self.hist().newer.pop() {
                    self.hist().older.push(cur);
                    let l = self.line(); l.text = h.chars().collect(); l.cur = l.text.len();
                }
            }
            Ev::ToggleInteractive => self.query_mode = !self.query_mode,
            Ev::PasteStart => self.paste = Some(vec![]),
            Ev::PasteEnd => { let p = self.paste.take().unwrap_or_default(); self.insert(&p) }
            Ev::Other => {}
        }
    }
}

fn main() {
    let a = args();
    quiet_panics();
    let mut w = CaseWriter::new(&a.out, "Corr.C18", a.shard);
    let mut dist = Hist_::default();
    let mut distinct: BTreeSet<String> = BTreeSet::new();
    let mut samples = Vec::new();
    let mut fails = Vec::new();
    let ws: Vec<u64> = { let mut s: BTreeSet<u64> = BTreeSet::new(); for c in ALPHABET.iter() { if c.is_whitespace() { s.insert(*c as u64); } } s.into_iter().collect() };
    let al: Vec<u64> = { let mut s: BTreeSet<u64> = BTreeSet::new(); for c in ALPHABET.iter() { if c.is_alphanumeric() { s.insert(*c as u64); } } s.into_iter().collect() };
    let ids: Vec<u64> = match a.only { Some(i) => vec![i], None => (0..a.n).collect() };
    for id in ids {
        let mut r = Rng::for_case(a.seed, id);
        let q0 = gen_text(&mut r, 8);
        let c0 = gen_text(&mut r, 6);
        let interactive = r.chance(1, 4);
        let mut hq: Vec<String> = (0..r.below(4)).map(|_| gen_text(&mut r, 6)).collect();
        let mut hc: Vec<String> = (0..r.below(3)).map(|_| gen_text(&mut r, 6)).collect();
        // histories with repeated entries (the same line entered twice in a row, or the line being edited equal to an entry)
        if r.chance(1, 4) { for h in [&mut hq, &mut hc] { if !h.is_empty() { let k = r.below(h.len() as u64) as usize; let e = h[k].clone(); h.insert(k, e); } } }
        let (q0, c0) = if r.chance(1, 8) { (hq.last().cloned().unwrap_or(q0.clone()), hc.last().cloned().unwrap_or(c0.clone())) } else { (q0, c0) };
        let mut evs = gen_events(&mut r);
        // a walk through the history and back: previous / next must undo each other
        if r.chance(1, 5) {
            let at = r.below(evs.len() as u64 + 1) as usize;
            let walk: Vec<Ev> = (0..(2 + r.below(6))).map(|_| if r.chance(3, 5) { Ev::PreviousHistory } else { Ev::NextHistory }).collect();
            for (k, e) in walk.into_iter().enumerate() { evs.insert(at + k, e); }
        }
        let input = format!("query={:?} cmd_query={:?} interactive={} query_history={:?} cmd_history={:?} events={:?}", q0, c0, interactive, hq, hc, evs);
        let (q0c, c0c, hqc, hcc, evsc) = (q0.clone(), c0.clone(), hq.clone(), hc.clone(), evs.clone());
        let res = guarded(move || {
            let opts = SkimOptions {
                query: Some(&q0c), cmd_query: Some(&c0c), interactive, prompt: Some(""), cmd_prompt: Some(""),
                query_history: &hqc, cmd_history: &hcc, cmd: Some("echo {}"),
                ..Default::default()
            };
            let mut q = Query::from_options(&opts);
            let mut rf = Ref {
                fz: Line { text: q0c.chars().collect(), cur: q0c.chars().count() },
                cmd: Line { text: c0c.chars().collect(), cur: c0c.chars().count() },
                kill: vec![], query_mode: !interactive,
                hq: Hist { older: hqc.clone(), newer: vec![] }, hc: Hist { older: hcc.clone(), newer: vec![] }, paste: None,
            };
            let mut obs = Vec::new();
            let mut bad: Option<String> = None;
            for (k, e) in evsc.iter().enumerate() {
                let _ = q.handle(&e.to_event());
                rf.step(e);
                let mut cv = Rec::new(400, 1);
                let _ = q.draw(&mut cv);
                // prints: prompt (empty), before, after
                let np = cv.prints.len();
                let before = if np >= 3 { cv.prints[np - 2].2.clone() } else { String::new() };
                let cursor = before.chars().count();
                let (fz, cm, qm) = (q.get_fz_query(), q.get_cmd_query(), q.in_query_mode());
                let want_fz: String = rf.fz.text.iter().collect();
                let want_cm: String = rf.cmd.text.iter().collect();
                let want_cur = if rf.query_mode { rf.fz.cur } else { rf.cmd.cur };
                if bad.is_none() && (fz != want_fz || cm != want_cm || qm != rf.query_mode || cursor != want_cur) {
                    bad = Some(format!("after event #{} {:?}: query={:?} cmd_query={:?} query_mode={} cursor={}; reference editor: query={:?} cmd_query={:?} query_mode={} cursor={}",
                        k, e, fz, cm, qm, cursor, want_fz, want_cm, rf.query_mode, want_cur));
                }
                obs.push((fz, cm, qm, cursor));
            }
            (obs, bad)
        });
        match res {
            Err(e) => fails.push(OracleFailure { case: id, what: format!("panic: {}", e), known: None, input }),
            Ok((obs, bad)) => {
                if let Some(m) = bad { fails.push(OracleFailure { case: id, what: m, known: None, input: input.clone() }); }
                let mut kinds: BTreeSet<String> = BTreeSet::new();
                for e in &evs { let n = format!("{:?}", e); let n = n.split('(').next().unwrap().to_string(); dist.add(&n); kinds.insert(n); }
                dist.add(format!("len={}", (evs.len() / 10) * 10));
                if kinds.len() >= 4 { distinct.insert(format!("{:?}", evs)); }
                if samples.len() < 3 { samples.push(J::s(&input)); }
                let steps: Vec<String> = evs.iter().zip(obs.iter()).map(|(e, o)| format!(
                    "({}, {{| o_fz := {}; o_cmd := {}; o_query_mode := {}; o_cursor := {} |}})",
                    e.coq(), coq::text(&o.0), coq::text(&o.1), coq::b(o.2), coq::n(o.3 as u64))).collect();
                w.push(id, format!(
                    "{{| c_ws := {}; c_alnum := {}; c_q := {}; c_c := {}; c_interactive := {}; c_hq := {}; c_hc := {}; c_evs := [{}] |}}",
                    coq::ns(ws.iter().cloned()), coq::ns(al.iter().cloned()), coq::text(&q0), coq::text(&c0), coq::b(interactive),
                    coq::list(hq.iter().map(|h| coq::text(h))), coq::list(hc.iter().map(|h| coq::text(h))), steps.join("; ")));
            }
        }
    }
    let total = w.total;
    let shards = w.finish();
    write_meta(&a.out, total, distinct.len() as u64,
        "random event sequences (1-60 events) over the 20 editing/history/mode actions plus bracketed-paste markers and an ignored event; alphabet of 21 characters (letters, digits, punctuation, blank, tab, NBSP, ideographic space, CJK, accented, combining mark, Arabic-Indic digit); random initial query / command query / mode / histories; non-trivial = at least 4 different event kinds; distinct by event sequence",
        samples, dist.json(), &fails, shards);
}
type Hist_ = skv::Hist;
