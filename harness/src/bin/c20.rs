//! C20 harness: the real Previewer (src/previewer.rs) with real shell commands of chosen duration.
//! A run is a sequence of on_item_change calls (current item, query, selection, forced or not) with
//! random pauses, racing with command completion.  Observed: in the previewer's own callback, which
//! request's output has just been put into the pane; the trace of the worker and waiter threads;
//! the final content; scroll offsets.  Direct oracles: the shown request numbers only increase, the
//! settled pane shows the newest request, an unchanged request is not re-run, scrolling stays in
//! range.  Correspondence: the linearised trace replayed through Model/Preview.v in Coq.
use skim::prelude::*;
use skim::verif as V;
use skim::verif::{Event as Ev, EventHandler, Previewer};
use skim::{ItemPreview, PreviewContext, PreviewPosition};
use tuikit::prelude::Size;
use skv::canvas::Rec;
use skv::*;
use std::collections::BTreeSet;
use std::sync::Mutex;
use std::time::{Duration, Instant};
use tuikit::draw::Draw;

/// text of the item: "<delay ms, 3 digits> <name>"; preview through the global command
struct CmdItem {
    text: String,
}
impl SkimItem for CmdItem {
    fn text(&self) -> Cow<str> {
        Cow::Borrowed(&self.text)
    }
}
/// preview given as text by the item itself
struct TxtItem {
    text: String,
}
impl SkimItem for TxtItem {
    fn text(&self) -> Cow<str> {
        Cow::Borrowed(&self.text)
    }
    fn preview(&self, ctx: PreviewContext) -> ItemPreview {
        ItemPreview::Text(format!("OUT {} text\nl2\nl3", ctx.query))
    }
}

/// text preview that asks for an initial scroll position far beyond its three lines
struct PosItem {
    text: String,
}
impl SkimItem for PosItem {
    fn text(&self) -> Cow<str> {
        Cow::Borrowed(&self.text)
    }
    fn preview(&self, ctx: PreviewContext) -> ItemPreview {
        ItemPreview::TextWithPos(format!("OUT {} pos\nl2\nl3", ctx.query), PreviewPosition { v_scroll: Size::Fixed(40), ..Default::default() })
    }
}

/// preview given as ANSI text whose colour stays on across line breaks
struct AnsiItem {
    text: String,
}
const ANSI_PREVIEW: &str = "\x1b[31mone\ntwo\nth\x1b[0mree\n\x1b[1;32mfour\nfive";
impl SkimItem for AnsiItem {
    fn text(&self) -> Cow<str> {
        Cow::Borrowed(&self.text)
    }
    fn preview(&self, ctx: PreviewContext) -> ItemPreview {
        ItemPreview::AnsiText(format!("OUT {} ansi\n{}", ctx.query, ANSI_PREVIEW))
    }
}

#[derive(Clone, Debug)]
struct Call {
    item: Option<usize>,     // index into the item table
    query: String,
    sel: Vec<usize>,         // selected item indices
    force: bool,
    pause_ms: u64,           // pause before the call
}

// every third entry ends with status 200 and its text on stderr: a command that ends by itself with any status is shown
// (stdout on success, stderr otherwise); only one ended by a signal is dropped
const CMD: &str = "sleep 0.{1}; p=$(echo OUT {q} {2} N={n} SEL={+2}; echo l2; echo l3; echo l4); case {n} in 1|4|7|10) echo \"$p\" >&2; exit 200;; *) echo \"$p\";; esac";
const PV_POINTS: [&str; 6] = ["pv.exit", "pv.recv", "pv.drain", "pv.spawn", "pv.kill", "pv.send"];

fn main() {
    let a = args();
    quiet_panics();
    let mut w = CaseWriter::new(&a.out, "Corr.C20", a.shard);
    let mut dist = Hist::default();
    let mut distinct: BTreeSet<String> = BTreeSet::new();
    let mut samples = Vec::new();
    let mut fails: Vec<OracleFailure> = Vec::new();
    let ids: Vec<u64> = match a.only { Some(i) => vec![i], None => (0..a.n).collect() };
    // sessions are run one after another (the trace buffer is global); workers split the ids
    if let Some(wk) = a.extra.get("worker") {
        let wk: u64 = wk.parse().unwrap();
        let nw: u64 = a.extra.get("workers").map(|x| x.parse().unwrap()).unwrap_or(16);
        let mut lines = Vec::new();
        let mut id = wk;
        while id < a.n {
            run_case(a.seed, id, &mut lines);
            id += nw;
        }
        std::fs::write(a.out.join(format!("part_{}.txt", wk)), lines.join("\n")).expect("write part");
        return;
    }
    std::fs::create_dir_all(&a.out).expect("mkdir");
    let mut lines: Vec<String> = Vec::new();
    if a.only.is_some() {
        for id in ids { run_case(a.seed, id, &mut lines); }
    } else {
        let nw: u64 = a.extra.get("workers").map(|x| x.parse().unwrap()).unwrap_or(16);
        let exe = std::env::current_exe().unwrap();
        let mut ch = Vec::new();
        for k in 0..nw {
            ch.push(std::process::Command::new(&exe)
                .args(["--seed", &a.seed.to_string(), "--n", &a.n.to_string(), "--out", a.out.to_str().unwrap(), "--worker", &k.to_string(), "--workers", &nw.to_string()])
                .spawn().expect("spawn worker"));
        }
        for mut c in ch { let _ = c.wait(); }
        for k in 0..nw {
            if let Ok(t) = std::fs::read_to_string(a.out.join(format!("part_{}.txt", k))) { lines.extend(t.lines().map(|x| x.to_string())); }
            let _ = std::fs::remove_file(a.out.join(format!("part_{}.txt", k)));
        }
    }
    let mut cases: Vec<(u64, u64, String)> = Vec::new();
    for l in &lines {
        let p: Vec<&str> = l.splitn(5, '\t').collect();
        if p.len() < 3 { continue; }
        let id: u64 = p[0].parse().unwrap_or(0);
        match p[1] {
            "case" => cases.push((id, cases.len() as u64, p[2].to_string())),
            "fail" => fails.push(OracleFailure { case: id, what: p[2].to_string(), known: if p.get(3) == Some(&"-") { None } else { p.get(3).map(|x| x.to_string()) }, input: p.get(4).unwrap_or(&"").to_string() }),
            "dist" => dist.add(p[2]),
            "distinct" => { if samples.len() < 3 { samples.push(J::s(p[2])); } distinct.insert(p[2].to_string()); }
            _ => {}
        }
    }
    cases.sort();
    for (id, _, t) in cases { w.push(id, t); }
    let total = w.total;
    let shards = w.finish();
    write_meta(&a.out, total, distinct.len() as u64,
        "runs of 2-9 on_item_change calls on the real Previewer: current item one of four command-previewed items (child runs 0-150 ms), a text-previewed item or none; query unchanged or new; selected set unchanged, changed in size or changed with equal size; forced refresh; pauses of 0-160 ms between calls (racing with child completion and with the worker's kill/join); then scroll actions; distinct by call sequence",
        samples, dist.json(), &fails, shards);
}

fn run_case(seed: u64, id: u64, out: &mut Vec<String>) {
    let mut r = Rng::for_case(seed, id);
    let delays = ["030", "000", "120", "060"];
    let n_calls = 2 + r.below(8) as usize;
    let mut calls: Vec<Call> = Vec::new();
    let mut q_no = 0usize;
    let mut cur_item: Option<usize> = Some(0);
    let mut cur_sel: Vec<usize> = vec![];
    for _ in 0..n_calls {
        let mut force = false;
        match r.below(12) {
            0..=2 => { cur_item = Some(r.below(4) as usize); }
            3 => { cur_item = Some(if cur_item == Some(0) { 5 } else { 0 }); }   // 5: another entry with the same text as 0
            4 => { cur_item = Some(*r.pick(&[4usize, 6, 7])); }   // a text-previewed item (6: with a scroll position beyond its content)
            5 => { cur_item = None; }
            6..=7 => { q_no += 1; }
            8 => { let k = r.below(4) as usize; if cur_sel.contains(&k) { cur_sel.retain(|x| *x != k); } else { cur_sel.push(k); cur_sel.sort(); } }
            9 => { if !cur_sel.is_empty() { let k = cur_sel[0]; cur_sel[0] = (k + 1 + r.below(3) as usize) % 4; cur_sel.sort(); cur_sel.dedup(); } }   // same size, other members
            10 => { force = true; }
            _ => {}                                            // identical request
        }
        calls.push(Call { item: cur_item, query: format!("q{}", q_no), sel: cur_sel.clone(), force, pause_ms: *r.pick(&[0u64, 0, 1, 5, 20, 45, 80, 160]) });
    }
    let input = format!("{:?}", calls);

    // ---- run ---------------------------------------------------------------------------------------
    let items: Vec<Arc<dyn SkimItem>> = (0..4).map(|k| Arc::new(CmdItem { text: format!("{} it{}", delays[k], k) }) as Arc<dyn SkimItem>)
        .chain(std::iter::once(Arc::new(TxtItem { text: "000 txt".to_string() }) as Arc<dyn SkimItem>))
        .chain(std::iter::once(Arc::new(CmdItem { text: format!("{} it0", delays[0]) }) as Arc<dyn SkimItem>))
        .chain(std::iter::once(Arc::new(PosItem { text: "000 pos".to_string() }) as Arc<dyn SkimItem>))
        .chain(std::iter::once(Arc::new(AnsiItem { text: "000 ansi".to_string() }) as Arc<dyn SkimItem>)).collect();
    let content_cell: Arc<Mutex<Option<Arc<V::SpinLock<Vec<AnsiString<'static>>>>>>> = Arc::new(Mutex::new(None));
    let seen: Arc<Mutex<Vec<String>>> = Arc::new(Mutex::new(Vec::new()));
    let (cc, sn) = (content_cell.clone(), seen.clone());
    let mut dl = Vec::new();
    for _ in 0..r.below(3) { dl.push((*r.pick(&PV_POINTS), 1 + r.below(3) as usize, *r.pick(&[5u64, 30, 90]))); }
    let input = format!("{} delays={:?}", input, dl);
    V::trace_start(dl);
    let mut pv = Previewer::new(Some(CMD.to_string()), move || {
        if let Some(c) = cc.lock().unwrap().as_ref() {
            let first = c.lock().first().map(|l| l.stripped().to_string()).unwrap_or_default();
            sn.lock().unwrap().push(first);
        }
    });
    *content_cell.lock().unwrap() = Some(pv.verif_content());
    // which calls sent a request: count pv.send points around each call; the request's content label
    let mut sent: Vec<bool> = Vec::new();
    let mut labels_of_send: Vec<String> = Vec::new();   // request number -> what its output's first line is
    for c in &calls {
        if c.pause_ms > 0 { std::thread::sleep(Duration::from_millis(c.pause_ms)); }
        let before = V::trace_snapshot().iter().filter(|e| e.1 == "pv.send").count();
        let sel_items: Vec<Arc<dyn SkimItem>> = c.sel.iter().map(|k| items[*k].clone()).collect();
        let sel_idx = c.sel.clone();
        pv.on_item_change(c.item.unwrap_or(0), c.item.map(|k| items[k].clone()), c.query.clone(), "".to_string(), c.sel.len(),
            move || (sel_idx.clone(), sel_items.clone()), c.force);
        let after = V::trace_snapshot().iter().filter(|e| e.1 == "pv.send").count();
        sent.push(after > before);
        if after > before {
            labels_of_send.push(match c.item {
                None => "-".to_string(),
                Some(4) => format!("OUT {} text", c.query),
                Some(6) => format!("OUT {} pos", c.query),
                Some(7) => format!("OUT {} ansi", c.query),
                // {+2}: the second field of every selected item, or of the current item when nothing is selected
                Some(k) => format!("OUT {} it{} N={} SEL={}", c.query, k % 5, k, if c.sel.is_empty() { format!("it{}", k % 5) } else { c.sel.iter().map(|x| if *x == 4 { "txt".to_string() } else { format!("it{}", x % 5) }).collect::<Vec<_>>().join(" ") }),
            });
        }
    }
    // settle: no trace activity for 450 ms and no child still to report
    let t0 = Instant::now();
    let mut last_len = 0;
    let mut stable = Instant::now();
    let mut settled = false;
    while t0.elapsed() < Duration::from_millis(20000) {
        let tr = V::trace_snapshot();
        if tr.len() != last_len { last_len = tr.len(); stable = Instant::now(); }
        let spawns = tr.iter().filter(|e| e.1 == "pv.spawn").count();
        let exits = tr.iter().filter(|e| e.1 == "pv.exit").count();
        let sends = tr.iter().filter(|e| e.1 == "pv.send").count();
        let handled: usize = tr.iter().filter(|e| e.1 == "pv.recv").count() + tr.iter().filter(|e| e.1 == "pv.drain").map(|e| e.2).sum::<usize>();
        // the worker is back in recv (its last record closes a cycle), every child has reported, nothing moved for 600 ms
        let worker_idle = tr.iter().rev().find(|e| matches!(e.1, "pv.recv" | "pv.kill" | "pv.joined" | "pv.drain" | "pv.spawn" | "pv.text" | "pv.noop"))
            .map(|e| matches!(e.1, "pv.spawn" | "pv.text" | "pv.noop")).unwrap_or(sends == 0);
        if spawns == exits && sends == handled && worker_idle && stable.elapsed() > Duration::from_millis(600) { settled = true; break; }
        std::thread::sleep(Duration::from_millis(10));
    }
    let final_first = pv.verif_content().lock().first().map(|l| l.stripped().to_string());
    let n_lines = pv.verif_content().lock().len();
    // an ANSI text preview: the colour active at a line break carries over to the next line (one parser per text)
    let ansi_attrs: Option<Vec<Vec<(char, tuikit::attr::Attr)>>> = if final_first.as_deref().map(|f| f.ends_with(" ansi")).unwrap_or(false) {
        Some(pv.verif_content().lock().iter().map(|l| l.iter().collect()).collect())
    } else { None };
    let init_off = pv.verif_vscroll();
    let nth_line = pv.verif_content().lock().get(init_off.saturating_sub(1)).map(|l| l.stripped().to_string());
    // the pane as drawn
    let mut cv = Rec::new(60, 8);
    let _ = pv.draw(&mut cv);
    let drawn_row0: String = { let g = cv.grid(); (0..60).filter_map(|c| g.get(&(0, c)).map(|x| x.0)).collect::<String>() };
    // scroll actions
    let mut scrolls: Vec<(usize, i64, usize, usize)> = Vec::new();
    for _ in 0..(1 + r.below(4)) {
        let d = 1 + r.below(5) as i32;
        let (ev, diff) = match r.below(4) { 0 => (Ev::EvActPreviewDown(d), d as i64), 1 => (Ev::EvActPreviewUp(d), -(d as i64)), 2 => (Ev::EvActPreviewPageDown(1), 8), _ => (Ev::EvActPreviewPageUp(1), -8) };
        let before = pv.verif_vscroll();
        pv.handle(&ev);
        scrolls.push((before, diff, n_lines, pv.verif_vscroll()));
    }
    let trace = V::trace_stop();
    drop(pv);
    let seen_v: Vec<String> = seen.lock().unwrap().clone();

    // ---- direct oracles --------------------------------------------------------------------------
    let mut bad: Option<(String, Option<String>)> = None;
    // what the property asks of each call: a request goes out iff something changed (the selected SET counts) or forced
    let mut want_sent: Vec<bool> = Vec::new();
    for (k, c) in calls.iter().enumerate() {
        // the first call always differs from "nothing requested yet"
        let changed = if k == 0 { true } else { let p = &calls[k - 1]; p.item != c.item || p.query != c.query || p.sel != c.sel };
        want_sent.push(c.force || changed);
    }
    for k in 0..calls.len() {
        if !want_sent[k] && sent[k] { bad = Some((format!("call #{} repeats the previous request without force, yet a request was sent", k), None)); break; }
        if want_sent[k] && !sent[k] {
            let prevc = if k > 0 { Some(&calls[k - 1]) } else { None };
            let k4 = prevc.map(|p| p.item == calls[k].item && p.query == calls[k].query && p.sel.len() == calls[k].sel.len() && p.sel != calls[k].sel).unwrap_or(false);
            if k4 { if bad.is_none() { bad = Some((format!("call #{}: the selected items changed ({:?} -> {:?}, same number) but no new preview was requested; the pane keeps the output for the old selection", k, prevc.unwrap().sel, calls[k].sel), Some("K4-selection-same-count".to_string()))); } }
            else { bad = Some((format!("call #{} differs from the previous request but nothing was sent", k), None)); break; }
        }
    }
    if !settled && bad.as_ref().map(|b| b.1.is_some()).unwrap_or(true) { bad = Some(("preview activity did not settle within 20 s".to_string(), None)); }
    // monotone: the shown outputs are those of increasing request numbers
    let idx_of = |first: &str| -> Option<usize> { labels_of_send.iter().rposition(|l| l == first) };
    let mut seen_nos: Vec<usize> = Vec::new();
    for f in &seen_v {
        match labels_of_send.iter().enumerate().filter(|(_, l)| *l == f).map(|(i, _)| i).filter(|i| seen_nos.last().map(|l| i > l).unwrap_or(true)).next() {
            Some(i) => seen_nos.push(i),
            None => {
                if bad.as_ref().map(|b| b.1.is_some()).unwrap_or(true) {
                    bad = Some((format!("the pane was given {:?}, which is not the output of a request newer than the one shown before (shown so far: {:?})", f, seen_nos), None));
                }
                if let Some(i) = idx_of(f) { seen_nos.push(i); }
            }
        }
    }
    if settled && !labels_of_send.is_empty() && bad.as_ref().map(|b| b.1.is_some()).unwrap_or(true) {
        let last = labels_of_send.len() - 1;
        if labels_of_send[last] != "-" {
            if final_first.as_deref() != Some(labels_of_send[last].as_str()) {
                bad = Some((format!("settled pane shows {:?}, the newest request's output is {:?}", final_first, labels_of_send[last]), None));
            } else if init_off < 1 || init_off > n_lines.max(2) - 1 {
                bad = Some((format!("settled pane is scrolled to line {} of {} lines", init_off, n_lines), None));
            } else if !nth_line.as_ref().map(|l| drawn_row0.starts_with(l.as_str())).unwrap_or(false) {
                bad = Some((format!("settled pane is drawn as {:?}, expected to start with line {} of the content, {:?}", drawn_row0.trim_end(), init_off, nth_line), None));
            }
        }
    }
    if let Some(got) = &ansi_attrs {
        let mut parser = V::ANSIParser::default();
        let text = format!("{}\n{}", final_first.clone().unwrap_or_default(), ANSI_PREVIEW);
        let want: Vec<Vec<(char, tuikit::attr::Attr)>> = text.lines().map(|l| parser.parse_ansi(l).iter().collect()).collect();
        if *got != want && bad.as_ref().map(|b| b.1.is_some()).unwrap_or(true) {
            let k = got.iter().zip(want.iter()).position(|(a, b)| a != b).unwrap_or(0);
            bad = Some((format!("ANSI text preview: line {} is drawn with attributes {:?}, expected {:?} (a colour left on at a line break carries over)", k, got.get(k).map(|l| l.iter().map(|c| format!("{:?}", c.1.fg)).collect::<Vec<_>>()), want.get(k).map(|l| l.iter().map(|c| format!("{:?}", c.1.fg)).collect::<Vec<_>>())), None));
        }
    }
    for (b, d, n, g) in &scrolls {
        if (*g < 1 || *g > (*n).max(2) - 1) && bad.as_ref().map(|b| b.1.is_some()).unwrap_or(true) { bad = Some((format!("scroll from {} by {} over {} lines gives offset {}", b, d, n, g), None)); }
    }
    let esc = |s: &str| s.replace('\t', " ").replace('\n', " ");
    if let Some((m, known)) = &bad { out.push(format!("{}\tfail\t{}\t{}\t{}", id, esc(m), known.clone().unwrap_or_else(|| "-".to_string()), esc(&input))); }
    out.push(format!("{}\tdistinct\t{}", id, esc(&input)));
    out.push(format!("{}\tdist\tcalls={}", id, calls.len()));
    out.push(format!("{}\tdist\tsent={}", id, sent.iter().filter(|x| **x).count()));
    out.push(format!("{}\tdist\tkills={}", id, trace.iter().filter(|e| e.1 == "pv.kill").count().min(5)));
    out.push(format!("{}\tdist\tshown={}", id, seen_v.len().min(6)));
    out.push(format!("{}\tdist\tdrained>0={}", id, trace.iter().any(|e| e.1 == "pv.drain" && e.2 > 0)));

    // ---- Coq cases ---------------------------------------------------------------------------------
    // front end
    let fcalls = coq::list(calls.iter().map(|c| format!("(FCall {} {} (Some []) {} {})",
        coq::opt(c.item.map(|k| coq::n(k as u64))), coq::opt(Some(coq::text(&c.query))), c.sel.len(), coq::b(c.force))));
    out.push(format!("{}\tcase\t(KFront {} {})", id, fcalls, coq::list(sent.iter().map(|b| coq::b(*b)))));
    for (b, d, n, g) in &scrolls { out.push(format!("{}\tcase\t(KScroll {} {} {} {})", id, b, coq::z(*d), n, g)); }
    if settled && calls.iter().rev().zip(sent.iter().rev()).find(|(_, s)| **s).map(|(c, _)| c.item == Some(6)).unwrap_or(false) && final_first.as_deref() == labels_of_send.last().map(|x| x.as_str()) {
        out.push(format!("{}\tcase\t(KScrollInit 40 {} {})", id, n_lines, init_off));
    }
    // linearisation of the worker / waiter trace
    if settled {
        let main_tag = trace.iter().find(|e| e.1 == "pv.send").map(|e| e.0);
        let worker_tag = trace.iter().find(|e| e.1 == "pv.recv").map(|e| e.0);
        let sends: Vec<usize> = trace.iter().filter(|e| Some(e.0) == main_tag && e.1 == "pv.send").map(|e| e.2).collect();
        let wev: Vec<(&str, usize)> = trace.iter().filter(|e| Some(e.0) == worker_tag).map(|e| (e.1, e.2)).collect();
        let wpos: Vec<usize> = trace.iter().enumerate().filter(|(_, e)| Some(e.0) == worker_tag).map(|(i, _)| i).collect();
        // waiter threads in order of first appearance: (exit normal?, called back?)
        let mut wtags: Vec<u64> = Vec::new();
        let mut waiters: Vec<(bool, bool)> = Vec::new();
        let mut wexit_pos: Vec<usize> = Vec::new();      // where in the trace each waiter reported its child's end
        for (gi, e) in trace.iter().enumerate() {
            if e.1 == "pv.exit" { wtags.push(e.0); waiters.push((e.2 == 1, false)); wexit_pos.push(gi); }
            if e.1 == "pv.cb" { if let Some(k) = wtags.iter().rposition(|t| *t == e.0) { waiters[k].1 = true; } }
        }
        let mut labels: Vec<String> = Vec::new();
        let kind = |a: usize| match a { 0 => "KCmd", 1 => "KText", _ => "KNoop" };
        let (mut sent_n, mut chan) = (0usize, 0usize);
        let mut cur_w: Option<usize> = None;      // index of the live waiter
        let mut next_w = 0usize;
        let mut w_finished = true;
        let mut i = 0;
        let flush_waiter = |labels: &mut Vec<String>, waiters: &Vec<(bool, bool)>, cur: Option<usize>, fin: &mut bool| {
            if let Some(k) = cur { if !*fin { if k < waiters.len() && waiters[k].0 { labels.push("PChildExit".into()); } labels.push("PWaiter".into()); *fin = true; } }
        };
        while i < wev.len() {
            let (name, av) = wev[i];
            i += 1;
            match name {
                "pv.recv" => {
                    if chan == 0 && sent_n < sends.len() { labels.push(format!("(PSend {})", kind(sends[sent_n]))); sent_n += 1; chan += 1; }
                    labels.push("PRecv".into());
                    chan = chan.saturating_sub(1);
                    // kill / join of the previous waiter, if any, come before the drain
                    let mut j = i;
                    let mut killed = false;
                    let mut joined = false;
                    let mut joined_at = usize::MAX;
                    while j < wev.len() && wev[j].0 != "pv.drain" { if wev[j].0 == "pv.kill" { killed = true; } if wev[j].0 == "pv.joined" { joined = true; joined_at = wpos[j]; } j += 1; }
                    // the join returned: the waiter must have reported before (else PJoin is emitted first and the model refuses it)
                    let reported = cur_w.map(|k| k < wexit_pos.len() && wexit_pos[k] < joined_at).unwrap_or(true);
                    if joined && reported {
                        if let Some(k) = cur_w {
                            if !w_finished {
                                if killed && k < waiters.len() && !waiters[k].0 { labels.push("PKill".into()); }
                                flush_waiter(&mut labels, &waiters, cur_w, &mut w_finished);
                            }
                        }
                    }
                    labels.push("PJoin".into());
                    cur_w = None;
                }
                "pv.drain" => {
                    while chan < av && sent_n < sends.len() { labels.push(format!("(PSend {})", kind(sends[sent_n]))); sent_n += 1; chan += 1; }
                    labels.push("PDrain".into());
                    chan = 0;
                }
                "pv.spawn" => { labels.push("PHandle".into()); cur_w = Some(next_w); next_w += 1; w_finished = false; }
                "pv.text" | "pv.noop" => { labels.push("PHandle".into()); }
                _ => {}
            }
        }
        flush_waiter(&mut labels, &waiters, cur_w, &mut w_finished);
        // texts are compared by identity of the string (identical requests print identical texts)
        let mut ids: Vec<String> = Vec::new();
        let mut id_of = |t: &str| -> usize { match ids.iter().position(|x| x == t) { Some(k) => k + 1, None => { ids.push(t.to_string()); ids.len() } } };
        let outputs: Vec<usize> = labels_of_send.iter().map(|l| id_of(l)).collect();
        let seen_ids: Vec<usize> = seen_v.iter().map(|l| id_of(l)).collect();
        let final_id = final_first.as_ref().map(|f| id_of(f));
        out.push(format!("{}\tcase\t(KRun {} {} {} {})", id, coq::list(labels.into_iter()), coq::list(outputs.iter().map(|x| x.to_string())),
            coq::list(seen_ids.iter().map(|x| x.to_string())), coq::opt(final_id.map(|x| x.to_string()))));
    }
}
