//! C16 harness: lines built from text runs and CSI sequences fed to the real ANSIParser (several
//! lines per parser, for attribute carry-over).  The vte callback sequence is recorded with the same
//! vte crate on the same bytes and handed to the Coq model.  Direct oracle: an SGR interpreter
//! written from ECMA-48 / xterm's documentation, independent of skim and of the model.
use skim::prelude::{SkimItemReader, SkimItemReaderOption};
use skim::verif::ANSIParser;
use skim::{DisplayContext, Matches};
use skv::*;
use std::collections::BTreeSet;
use tuikit::attr::{Attr, Color, Effect};
use vte::{Params, Perform};

#[derive(Clone, Debug)]
enum Cb { Print(char), Execute(u8), Csi(Vec<Vec<u16>>, char), Esc, Ignored }

#[derive(Default)]
struct Recorder { cbs: Vec<Cb> }
impl Perform for Recorder {
    fn print(&mut self, c: char) { self.cbs.push(Cb::Print(c)); }
    fn execute(&mut self, b: u8) { self.cbs.push(Cb::Execute(b)); }
    fn hook(&mut self, _: &Params, _: &[u8], _: bool, _: char) { self.cbs.push(Cb::Ignored); }
    fn put(&mut self, _: u8) { self.cbs.push(Cb::Ignored); }
    fn unhook(&mut self) { self.cbs.push(Cb::Ignored); }
    fn osc_dispatch(&mut self, _: &[&[u8]], _: bool) { self.cbs.push(Cb::Ignored); }
    fn csi_dispatch(&mut self, params: &Params, _: &[u8], _: bool, action: char) {
        self.cbs.push(Cb::Csi(params.iter().map(|p| p.to_vec()).collect(), action));
    }
    fn esc_dispatch(&mut self, _: &[u8], _: bool, _: u8) { self.cbs.push(Cb::Esc); }
}

// includes zero-width code points (combining accent, zero-width space, variation selector): each counts as one character
const TEXT: [&str; 16] = ["a", "b", "hello", " ", "\t", "中", "文字", "é", "x y", "-", "_", "0", "e\u{301}", "\u{200b}", "x\u{fe0f}", "\u{301}"];

fn gen_sgr_params(r: &mut Rng) -> String {
    let n = 1 + r.below(4);
    let mut ps: Vec<String> = Vec::new();
    for _ in 0..n {
        match r.below(20) {
            0..=7 => ps.push(format!("{}", r.below(108))),
            8 => ps.push(String::new()),
            9 => ps.push(format!("{}", 100 + r.below(400))),
            10..=11 => { let c = if r.chance(1, 2) { 38 } else { 48 }; ps.push(format!("{};5;{}", c, r.below(300))); }
            12..=13 => { let c = if r.chance(1, 2) { 38 } else { 48 }; ps.push(format!("{};2;{};{};{}", c, r.below(300), r.below(256), r.below(256))); }
            14 => { let c = if r.chance(1, 2) { 38 } else { 48 }; ps.push(match r.below(5) { 0 => format!("{}", c), 1 => format!("{};5", c), 2 => format!("{};2", c), 3 => format!("{};2;{}", c, r.below(256)), _ => format!("{};2;{};{}", c, r.below(256), r.below(256)) }); }
            15 => { let c = if r.chance(1, 2) { 38 } else { 48 }; ps.push(format!("{};{}", c, r.below(10))); }
            16 => ps.push("0".into()),
            17 => ps.push(format!("{}", *r.pick(&[1u32, 2, 4, 5, 7]))),
            18 => ps.push(format!("{}", *r.pick(&[39u32, 49, 90, 97, 100, 107, 30, 37, 40, 47]))),
            _ => ps.push(format!("{}", r.below(70000))),
        }
    }
    ps.join(";")
}

fn gen_line(r: &mut Rng, plain: bool) -> String {
    let mut s = String::new();
    let n = r.below(9);
    for _ in 0..n {
        if plain || r.chance(1, 2) {
            s.push_str(*r.pick(&TEXT));
        } else if r.chance(5, 6) {
            s.push_str(&format!("\x1b[{}m", gen_sgr_params(r)));
        } else {
            // non-SGR CSI sequences
            s.push_str(*r.pick(&["\x1b[K", "\x1b[2K", "\x1b[10;5H", "\x1b[?25l", "\x1b[1A", "\x1b[3J", "\x1b[m"]));
        }
    }
    s
}

fn color_coq(c: &Color) -> String {
    match c {
        Color::Default => "CDefault".into(),
        Color::AnsiValue(v) => format!("(CAnsi {})", coq::n(*v as u64)),
        Color::Rgb(r, g, b) => format!("(CRgb {} {} {})", coq::n(*r as u64), coq::n(*g as u64), coq::n(*b as u64)),
        _ => "CDefault".into(),
    }
}
fn attr_coq(a: &Attr) -> String {
    format!("{{| fg := {}; bg := {}; eff := {} |}}", color_coq(&a.fg), color_coq(&a.bg), coq::n(a.effect.bits() as u64))
}
fn cb_coq(c: &Cb) -> String {
    match c {
        Cb::Print(ch) => format!("Print {}", coq::n(*ch as u64)),
        Cb::Execute(b) => format!("Execute {}", coq::n(*b as u64)),
        Cb::Csi(ps, a) => format!("Csi {} {}", coq::list(ps.iter().map(|p| coq::ns(p.iter().map(|x| *x as u64)))), coq::n(*a as u64)),
        Cb::Esc => "Esc".into(),
        Cb::Ignored => "Ignored".into(),
    }
}

// ---- independent SGR interpreter (ECMA-48 8.3.117 / xterm ctlseqs) ---------------------------
fn spec_sgr(ps: &[Vec<u16>], mut a: Attr) -> Attr {
    let mut i = 0;
    while i < ps.len() {
        let c = ps[i][0];
        i += 1;
        match c {
            0 => a = Attr::default(),
            1 => a.effect |= Effect::BOLD,
            2 => a.effect |= Effect::DIM,
            4 => a.effect |= Effect::UNDERLINE,
            5 => a.effect |= Effect::BLINK,
            7 => a.effect |= Effect::REVERSE,
            30..=37 => a.fg = Color::AnsiValue((c - 30) as u8),
            40..=47 => a.bg = Color::AnsiValue((c - 40) as u8),
            90..=97 => a.fg = Color::AnsiValue((c - 90 + 8) as u8),
            100..=107 => a.bg = Color::AnsiValue((c - 100 + 8) as u8),
            39 => a.fg = Color::Default,
            49 => a.bg = Color::Default,
            38 | 48 => {
                // extended colour: 5;n or 2;r;g;b; a truncated form changes nothing and ends the sequence
                let kind = ps.get(i).map(|p| p.as_slice());
                let col = if kind == Some(&[5][..]) {
                    if i + 1 < ps.len() { let v = ps[i + 1][0]; i += 2; Some(Color::AnsiValue(v as u8)) } else { i = ps.len(); None }
                } else if kind == Some(&[2][..]) {
                    if i + 3 < ps.len() { let (r, g, b) = (ps[i + 1][0], ps[i + 2][0], ps[i + 3][0]); i += 4; Some(Color::Rgb(r as u8, g as u8, b as u8)) } else { i = ps.len(); None }
                } else { if kind.is_some() { i += 1; } None };
                if let Some(col) = col { if c == 38 { a.fg = col } else { a.bg = col } }
            }
            _ => {}
        }
    }
    a
}

fn main() {
    let a = args();
    quiet_panics();
    let mut w = CaseWriter::new(&a.out, "Corr.C16", a.shard);
    let mut dist = Hist::default();
    let mut distinct: BTreeSet<String> = BTreeSet::new();
    let mut samples = Vec::new();
    let mut fails = Vec::new();
    let ids: Vec<u64> = match a.only { Some(i) => vec![i], None => (0..a.n).collect() };
    for id in ids {
        let mut r = Rng::for_case(a.seed, id);
        let nlines = 1 + r.below(3);
        let plain_case = r.chance(1, 10);
        let lines: Vec<String> = (0..nlines).map(|_| gen_line(&mut r, plain_case)).collect();
        let input = format!("lines={:?}", lines);
        let ls = lines.clone();
        let res = guarded(move || {
            let mut parser = ANSIParser::default();
            let mut cur = Attr::default(); // oracle: the running SGR state, carried over lines
            let mut out = Vec::new();
            let mut bad: Option<String> = None;
            for (li, line) in ls.iter().enumerate() {
                let mut rec = Recorder::default();
                let mut sm = vte::Parser::new();
                for b in line.as_bytes() { sm.advance(&mut rec, *b); }
                let s = parser.parse_ansi(line);
                let text = s.stripped().to_string();
                let attrs: Vec<(char, Attr)> = s.iter().collect();
                let has = s.has_attrs();
                // oracle: printable characters and tabs in order, each with the SGR state before it
                let mut want: Vec<(char, Attr)> = Vec::new();
                let mut any_csi_or_ctl = false;
                for c in &rec.cbs {
                    match c {
                        Cb::Print(ch) => want.push((*ch, cur)),
                        Cb::Execute(9) => want.push(('\t', cur)),
                        Cb::Execute(_) => any_csi_or_ctl = true,
                        Cb::Csi(ps, 'm') => { any_csi_or_ctl = true; cur = spec_sgr(ps, cur); }
                        Cb::Csi(..) => any_csi_or_ctl = true,
                        _ => any_csi_or_ctl = true,
                    }
                }
                if bad.is_none() {
                    let wt: String = want.iter().map(|x| x.0).collect();
                    if wt != text { bad = Some(format!("line {}: text {:?}, expected {:?}", li, text, wt)); }
                    else if attrs != want {
                        let k = attrs.iter().zip(want.iter()).position(|(x, y)| x != y).unwrap_or(0);
                        bad = Some(format!("line {}: character {} {:?} has attribute {:?}, the SGR sequences before it select {:?}", li, k, attrs.get(k).map(|x| x.0), attrs.get(k).map(|x| x.1), want.get(k).map(|x| x.1)));
                    } else if !any_csi_or_ctl && li == 0 && (has || text != *line) {
                        bad = Some(format!("line {}: plain line changed or carries attributes", li));
                    }
                }
                out.push((rec.cbs, text, has, attrs));
            }
            // the same lines as input items (--ansi): every item starts from default attributes
            let mut items_out = Vec::new();
            let nonempty: Vec<&String> = ls.iter().collect();
            let joined: String = nonempty.iter().map(|l| format!("{}\n", l)).collect();
            let reader = SkimItemReader::new(SkimItemReaderOption::default().ansi(true).build());
            let rx = reader.of_bufread(std::io::Cursor::new(joined.into_bytes()));
            let items: Vec<_> = rx.iter().collect();
            if items.len() != ls.len() && bad.is_none() { bad = Some(format!("{} lines became {} items", ls.len(), items.len())); }
            for (li, it) in items.iter().enumerate().take(ls.len()) {
                let text = it.text().to_string();
                let disp = it.display(DisplayContext { text: &text, score: 0, matches: Matches::None, container_width: 80, highlight_attr: Attr::default() });
                let attrs: Vec<(char, Attr)> = disp.iter().collect();
                let has = disp.has_attrs();
                let mut cur = Attr::default();
                let mut want: Vec<(char, Attr)> = Vec::new();
                for c in &out[li].0 {
                    match c { Cb::Print(ch) => want.push((*ch, cur)), Cb::Execute(9) => want.push(('\t', cur)), Cb::Csi(ps, 'm') => cur = spec_sgr(ps, cur), _ => {} }
                }
                if bad.is_none() && attrs != want {
                    let k = attrs.iter().zip(want.iter()).position(|(x, y)| x != y).unwrap_or(0);
                    bad = Some(format!("item {}: character {} has attribute {:?}, its own line's SGR sequences select {:?} (items start from default attributes)", li, k, attrs.get(k).map(|x| x.1), want.get(k).map(|x| x.1)));
                }
                items_out.push((out[li].0.clone(), text.clone(), has, attrs));
            }
            (out, items_out, bad)
        });
        match res {
            Err(e) => fails.push(OracleFailure { case: id, what: format!("panic: {}", e), known: None, input }),
            Ok((out, items_out, bad)) => {
                if let Some(m) = bad { fails.push(OracleFailure { case: id, what: m, known: None, input: input.clone() }); }
                let mut ncsi = 0;
                for (cbs, _, _, _) in &out { for c in cbs { match c { Cb::Csi(ps, 'm') => { ncsi += 1; for p in ps { dist.add(format!("sgr:{}", if p[0] <= 107 { format!("{}", p[0]) } else { ">107".into() })); } } Cb::Csi(..) => dist.add("csi:other"), _ => {} } } }
                if ncsi >= 1 && out.iter().any(|o| !o.1.is_empty()) { distinct.insert(input.clone()); }
                if samples.len() < 3 { samples.push(J::s(&input)); }
                let ls: Vec<String> = out.iter().map(|(cbs, text, has, attrs)| format!(
                    "{{| l_cbs := {}; i_text := {}; i_has_attrs := {}; i_attrs := {} |}}",
                    coq::list(cbs.iter().map(cb_coq)), coq::text(text), coq::b(*has), coq::list(attrs.iter().map(|x| attr_coq(&x.1))))).collect();
                let is: Vec<String> = items_out.iter().map(|(cbs, text, has, attrs)| format!(
                    "{{| l_cbs := {}; i_text := {}; i_has_attrs := {}; i_attrs := {} |}}",
                    coq::list(cbs.iter().map(cb_coq)), coq::text(text), coq::b(*has), coq::list(attrs.iter().map(|x| attr_coq(&x.1))))).collect();
                w.push(id, format!("{{| c_lines := [{}]; c_items := [{}] |}}", ls.join("; "), is.join("; ")));
            }
        }
    }
    let total = w.total;
    let shards = w.finish();
    // keep the histogram small: collapse sgr codes into bands
    let mut small = Hist::default();
    for (k, v) in dist.0.iter() {
        let key = if let Some(c) = k.strip_prefix("sgr:") { if let Ok(n) = c.parse::<u32>() { format!("sgr:{}-{}", (n / 10) * 10, (n / 10) * 10 + 9) } else { k.clone() } } else { k.clone() };
        *small.0.entry(key).or_insert(0) += *v;
    }
    write_meta(&a.out, total, distinct.len() as u64,
        "1-3 lines per parser, each a mix of text runs (ASCII, tab, multi-byte) and CSI sequences: SGR with 1-4 parameters from {0..107, empty, 100-500, up to 70000, 38/48;5;n, 38/48;2;r;g;b, truncated and malformed 38/48 forms} and non-SGR CSI; a tenth of the cases are plain text; non-trivial = at least one SGR sequence and some text; distinct by input",
        samples, small.json(), &fails, shards);
}
