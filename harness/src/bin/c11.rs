//! C11 harness: the real Selection (src/selection.rs) with real items is drawn on a recording
//! canvas; the recorded put_cell calls (in order, inside the area or not) are compared with
//! Model/Draw.v evaluated in Coq, and the property's cell-level statements are checked directly.
use skim::prelude::*;
use skim::verif as V;
use skim::verif::{Event as Ev, EventHandler, MatchedItem, Selection};
use skim::MatchRange;
use skv::canvas::Rec;
use skv::*;
use std::collections::BTreeSet;
use std::panic::AssertUnwindSafe;
use tuikit::attr::Attr;
use tuikit::draw::Draw;
use unicode_width::UnicodeWidthChar;

struct TextItem {
    text: String,
}
impl SkimItem for TextItem {
    fn text(&self) -> Cow<str> {
        Cow::Borrowed(&self.text)
    }
}

#[derive(Clone, Debug)]
enum MR {
    None,
    Chars(Vec<usize>),
    Bytes(usize, usize),
}

const ALPHA: [char; 16] = ['a', 'b', 'c', 'X', 'Y', ' ', '-', '_', '/', '中', '文', '字', 'é', 'q', 'r', 's'];

fn gen_text(r: &mut Rng, maxlen: usize, allow_bs: bool) -> String {
    let n = r.below(maxlen as u64 + 1) as usize;
    let mut s = String::new();
    for _ in 0..n {
        match r.below(40) {
            0..=2 => s.push('\t'),
            3 if allow_bs => s.push('\u{8}'),
            _ => s.push(*r.pick(&ALPHA)),
        }
    }
    s
}

fn cw(c: char) -> usize {
    c.width().unwrap_or(2)
}

fn main() {
    let a = args();
    V::mark_new_run("c11 earlier command");
    V::mark_new_run("c11 later command");
    V::mark_new_run("c11 earlier command");
    quiet_panics();
    let th = *V::DEFAULT_THEME;
    let tags: Vec<Attr> = vec![
        th.normal(),
        th.normal().extend(th.matched()),
        th.current(),
        th.current().extend(th.current_match()),
        th.cursor(),
        th.normal().extend(th.selected()),
        th.current().extend(th.selected()),
    ];
    for i in 0..tags.len() - 1 {
        for j in 0..i {
            assert!(tags[i] != tags[j], "theme attributes {} and {} coincide: tags would be ambiguous", i, j);
        }
    }
    let tag_of = |at: &Attr| -> u64 { tags.iter().position(|t| t == at).map(|k| k as u64).unwrap_or(9) };

    let mut w = CaseWriter::new(&a.out, "Corr.C11", a.shard);
    let mut dist = Hist::default();
    let mut distinct: BTreeSet<String> = BTreeSet::new();
    let mut samples = Vec::new();
    let mut fails = Vec::new();
    let ids: Vec<u64> = match a.only { Some(i) => vec![i], None => (0..a.n).collect() };
    for id in ids {
        let mut r = Rng::for_case(a.seed, id);
        let width = match r.below(20) { 0 => 1 + r.below(2) as usize, 1..=9 => 3 + r.below(10) as usize, _ => 13 + r.below(28) as usize };
        let height = if r.chance(1, 40) { 0 } else { 1 + r.below(12) as usize };
        // the window may have had another height when the cursor was moved (it is redrawn after a resize)
        let height0 = if r.chance(1, 3) { 1 + r.below(14) as usize } else { height };
        // ... and another width (a resize, the preview window toggled): derived from the case, not drawn from the stream
        let width0 = match id % 3 { 0 => 3 + ((width * 7 + height0 * 3 + id as usize) % 10), 1 => 13 + ((width * 5 + height0 + id as usize) % 28), _ => width };
        let reverse = r.chance(3, 10);
        let tabstop = *r.pick(&[1usize, 2, 3, 4, 8]);
        let no_hscroll = r.chance(3, 20);
        let keep_right = r.chance(3, 20);
        let use_reader = r.chance(1, 2);
        let n_items = r.below(11) as usize;
        let mut texts: Vec<String> = Vec::new();
        let mut mrs: Vec<MR> = Vec::new();
        for _ in 0..n_items {
            let maxlen = if r.chance(1, 2) { width.max(3) - 2 } else { 3 * width + 4 };
            let t = gen_text(&mut r, maxlen, !use_reader);
            let nch = t.chars().count();
            let mr = match r.below(10) {
                0..=2 => MR::None,
                3..=6 => {
                    if nch == 0 { MR::Chars(vec![]) } else {
                        let k = 1 + r.below(4.min(nch as u64)) as usize;
                        let mut v: BTreeSet<usize> = BTreeSet::new();
                        // often a run near one place, sometimes scattered
                        let base = r.below(nch as u64) as usize;
                        for _ in 0..k { v.insert(if r.chance(2, 3) { (base + r.below(3) as usize).min(nch - 1) } else { r.below(nch as u64) as usize }); }
                        let mut v: Vec<usize> = v.into_iter().collect();
                        if r.chance(1, 40) { let l = v.len(); v[l - 1] = nch + r.below(3) as usize; }   // out of range (C08 forbids it)
                        MR::Chars(v)
                    }
                }
                _ => {
                    let s = r.below(nch as u64 + 1) as usize;
                    let e = s + r.below((nch - s) as u64 + 1) as usize;
                    let bs = t.char_indices().nth(s).map(|x| x.0).unwrap_or(t.len());
                    let be = t.char_indices().nth(e).map(|x| x.0).unwrap_or(t.len());
                    MR::Bytes(bs, be)
                }
            };
            texts.push(t);
            mrs.push(mr);
        }
        let n_ops = r.below(6) as usize;
        let ops: Vec<Ev> = (0..n_ops).map(|_| match r.below(12) {
            0..=2 => Ev::EvActDown(1 + r.below(3) as i32),
            3..=5 => Ev::EvActUp(1 + r.below(3) as i32),
            6..=7 => Ev::EvActToggle,
            8 => Ev::EvActPageUp(1),
            9 => Ev::EvActToggleAll,
            10 => Ev::EvActScrollRight(1 + r.below(6) as i32),
            _ => Ev::EvActScrollLeft(1 + r.below(6) as i32),
        }).collect();
        let input = format!("w={} h={} (h while moving: {}, first drawn at width {}) reverse={} tabstop={} no_hscroll={} keep_right={} reader_items={} items={:?} ranges={:?} ops={:?}", width, height, height0, width0, reverse, tabstop, no_hscroll, keep_right, use_reader, texts, mrs, ops);

        let rev_list = r.chance(1, 2);   // both reverse layouts put the first result on the top row of the list area
        let rerun = r.chance(1, 5);
        let rerun_keep = r.chance(1, 2);
        let input = format!("{} rerun={} {} reverse-list={}", input, rerun, rerun_keep, rev_list);
        let (texts2, mrs2, ops2) = (texts.clone(), mrs.clone(), ops.clone());
        let res = guarded(AssertUnwindSafe(move || {
            let ts = tabstop.to_string();
            let options = SkimOptionsBuilder::default()
                .multi(true)
                .layout(if reverse { if rev_list { "reverse-list" } else { "reverse" } } else { "default" })
                .tabstop(Some(&ts))
                .no_hscroll(no_hscroll)
                .keep_right(keep_right)
                .build()
                .unwrap();
            let mut sel = Selection::with_options(&options);
            let items: Vec<Arc<dyn SkimItem>> = if use_reader {
                let opt = SkimItemReaderOption::default().ansi(true).build();
                let rd = SkimItemReader::new(opt);
                let joined = texts2.join("\n") + if texts2.is_empty() { "" } else { "\n" };
                let rx = rd.of_bufread(std::io::Cursor::new(joined.into_bytes()));
                rx.iter().collect()
            } else {
                texts2.iter().map(|t| Arc::new(TextItem { text: t.clone() }) as Arc<dyn SkimItem>).collect()
            };
            // the reader drops empty lines: keep the pairing by text
            let mut shown: Vec<(String, MR)> = Vec::new();
            let mut mitems = Vec::new();
            let mut ti = 0;
            for (k, it) in items.iter().enumerate() {
                let text = it.text().to_string();
                while ti < texts2.len() && texts2[ti] != text { ti += 1; }
                let mr = if ti < mrs2.len() { mrs2[ti].clone() } else { MR::None };
                ti += 1;
                let range = match &mr { MR::None => None, MR::Chars(v) => Some(MatchRange::Chars(v.clone())), MR::Bytes(s, e) => Some(MatchRange::ByteRange(*s, *e)) };
                mitems.push(MatchedItem { item: it.clone(), rank: [k as i32, 0, 0, 0], matched_range: range, item_idx: k as u32 });
                shown.push((text, mr));
            }
            // sometimes the list shown belongs to a command that had been run before another one (its run number is
            // lower than one the selection has already seen): marks are looked up under the CURRENT run
            if rerun {
                V::mark_new_run("c11 later command");
                sel.append_sorted_items(mitems.clone());
                sel.handle(&Ev::EvActToggleAll);
                if rerun_keep { sel.handle(&Ev::EvActToggle); }
                sel.clear();
                V::mark_new_run("c11 earlier command");
            }
            let run = V::current_run_num();
            sel.append_sorted_items(mitems);
            // a first draw tells the selection its height
            {
                let mut cv0 = Rec::new(width0, height0);
                let sel_ref = AssertUnwindSafe(&sel);
                let cv_ref = AssertUnwindSafe(&mut cv0);
                let _ = guarded(move || { let _ = sel_ref.0.draw(cv_ref.0); });
            }
            for op in &ops2 { sel.handle(op); }
            let (ic, lc) = sel.verif_cursors();
            let keys: BTreeSet<(u32, u32)> = sel.verif_selected_keys().into_iter().collect();
            let hoff = sel.get_hscroll_offset();
            let mut cv = Rec::new(width, height);
            let sel_ref = AssertUnwindSafe(&sel);
            let cv_ref = AssertUnwindSafe(&mut cv);
            let drew = guarded(move || { let _ = sel_ref.0.draw(cv_ref.0); }).is_ok();
            let selected: Vec<bool> = (0..shown.len()).map(|k| keys.contains(&(run, k as u32))).collect();
            (shown, ic, lc, selected, hoff, if drew { Some(cv.all.clone()) } else { None })
        }));
        let (shown, ic, lc, selected, hoff, cells) = match res {
            Ok(x) => x,
            Err(e) => { fails.push(OracleFailure { case: id, what: format!("setup panicked: {}", e), known: None, input }); continue; }
        };
        // recorded rows: drop clear_canvas's width*height blanks, group by screen row
        let rec_rows: Option<Vec<(usize, Vec<(usize, char, u64)>)>> = cells.as_ref().map(|all| {
            let mut rows: Vec<(usize, Vec<(usize, char, u64)>)> = Vec::new();
            for (k, (row, col, ch, at)) in all.iter().enumerate() {
                if k < width * height { continue; }
                if rows.last().map(|x| x.0 != *row).unwrap_or(true) { rows.push((*row, Vec::new())); }
                rows.last_mut().unwrap().1.push((*col, *ch, tag_of(at)));
            }
            rows
        });
        // ---- direct oracle -----------------------------------------------------------------------
        let mut bad: Option<String> = None;
        let valid = |k: usize| -> bool {
            let nch = shown[k].0.chars().count();
            match &shown[k].1 { MR::Chars(v) => v.iter().all(|x| *x < nch), _ => true }
        };
        let all_valid = (ic..shown.len().min(ic + height)).all(valid);
        match &rec_rows {
            None => { if all_valid { bad = Some("draw panicked although every match position lies inside its text".into()); } }
            Some(rows) => {
                let n_vis = shown.len().saturating_sub(ic).min(height);
                if rows.len() != n_vis { bad = Some(format!("{} rows drawn, {} items are in the window", rows.len(), n_vis)); }
                for (j, (row, cs)) in rows.iter().enumerate() {
                    if bad.is_some() { break; }
                    let want_row = if reverse { j } else { height - 1 - j };
                    if *row != want_row { bad = Some(format!("item #{} of the window is on screen row {}, expected {}", j, row, want_row)); break; }
                    for (col, ch, _) in cs {
                        if *col >= width && width >= 3 { bad = Some(format!("row {}: {:?} written at column {} of a {}-column area", row, ch, col, width)); }
                    }
                    if bad.is_some() { break; }
                    let is_cur = j == lc;
                    match cs.first() { Some((0, c, 4)) if (*c == '>') == is_cur && (*c == '>' || *c == ' ') => {}, x => { bad = Some(format!("row {}: pointer cell is {:?} (cursor row: {})", row, x, is_cur)); break; } }
                    if width < 3 { continue; }
                    let base = if is_cur { 2 } else { 0 };
                    let want_marker = if selected[ic + j] { (1usize, '>', 5) } else { (1usize, ' ', base) };
                    if cs.get(1) != Some(&want_marker) { bad = Some(format!("row {}: selection mark cell is {:?}, expected {:?}", row, cs.get(1), want_marker)); break; }
                    // fit: the whole text is shown with exactly the matched characters highlighted
                    let (text, mr) = &shown[ic + j];
                    let mut exp: Vec<(char, bool)> = Vec::new();   // tab-expanded glyphs
                    let mut pos = 0usize;
                    let bytes_to_chars = |b: usize| text[..b.min(text.len())].chars().count();
                    for (k, ch) in text.chars().enumerate() {
                        let m = match mr { MR::None => false, MR::Chars(v) => v.contains(&k), MR::Bytes(s, e) => bytes_to_chars(*s) <= k && k < bytes_to_chars(*e) };
                        if ch == '\u{8}' { continue; }
                        if ch == '\t' { let n = tabstop - pos % tabstop; for _ in 0..n { exp.push((' ', m)); } pos += n; } else { exp.push((ch, m)); pos += cw(ch); }
                    }
                    let has_match = match mr { MR::None => false, MR::Chars(v) => !(v.is_empty()) && !(v[0] == 0 && v[v.len() - 1] + 1 == 0), MR::Bytes(s, e) => !(bytes_to_chars(*s) == 0 && bytes_to_chars(*e) == 0) };
                    let body: Vec<(usize, char, u64)> = cs[2..].to_vec();
                    if pos <= width - 2 && hoff <= 0 && (has_match || no_hscroll || true) && !text.contains('\u{8}') {
                        // shift is 0 in every branch when the text fits (keep_right: max(full,cw)-cw = 0; skip: 0)
                        let mut col = 2;
                        let mut want = Vec::new();
                        for (ch, m) in &exp { want.push((col, *ch, base + *m as u64)); col += cw(*ch); }
                        if body != want { bad = Some(format!("row {}: the text fits ({} <= {}) but the cells are {:?}, expected {:?}", row, pos, width - 2, body, want)); break; }
                    } else if !text.contains('\u{8}') {
                        // clipped: the non-dot cells are a contiguous run of the expanded text, in order, own highlight
                        let shown_cells: Vec<(char, u64)> = body.iter().filter(|c| c.1 != '.').map(|c| (c.1, c.2)).collect();
                        let expv: Vec<(char, u64)> = exp.iter().map(|(c, m)| (*c, base + *m as u64)).collect();
                        let found = shown_cells.is_empty() || expv.windows(shown_cells.len()).any(|w| w == &shown_cells[..]);
                        if !found { bad = Some(format!("row {}: the characters shown {:?} are not a contiguous run of the text {:?}", row, shown_cells, text)); break; }
                        // each cut side is marked: glyphs missing before / after the shown run mean at least one dot there
                        if found && !shown_cells.is_empty() {
                            let offs: Vec<usize> = (0..=expv.len() - shown_cells.len()).filter(|o| expv[*o..*o + shown_cells.len()] == shown_cells[..]).collect();
                            let lead = body.iter().take_while(|c| c.1 == '.').count();
                            let trail = body.iter().rev().take_while(|c| c.1 == '.').count();
                            // (a run that occurs at several places is judged by the most lenient one)
                            let ok = offs.iter().any(|o| (*o == 0 || lead >= 1) && (*o + shown_cells.len() == expv.len() || trail >= 1));
                            if !ok { bad = Some(format!("row {}: the text {:?} is cut but the cut side carries no dots: {:?}", row, text, body)); break; }
                        }
                        let first_nd = body.iter().position(|c| c.1 != '.');
                        let last_nd = body.iter().rposition(|c| c.1 != '.');
                        if let (Some(f), Some(l)) = (first_nd, last_nd) {
                            if body[f..=l].iter().any(|c| c.1 == '.') { bad = Some(format!("row {}: dots inside the shown run: {:?}", row, body)); break; }
                            if f > 3 || body.len() - 1 - l > 3 { bad = Some(format!("row {}: more than three dots at a cut side: {:?}", row, body)); break; }
                        }
                    }
                }
            }
        }
        if let Some(m) = bad { fails.push(OracleFailure { case: id, what: m, known: None, input: input.clone() }); }
        dist.add(if width < 3 { "width<3" } else if width <= 12 { "width 3-12" } else { "width 13-40" });
        dist.add(format!("items-in-window={}", shown.len().saturating_sub(ic).min(height).min(6)));
        if hoff != 0 { dist.add("hscroll"); }
        if cells.is_none() { dist.add("draw-panicked"); }
        for (t, _) in &shown { if t.contains('\t') { dist.add("text-with-tab"); } if t.chars().any(|c| cw(c) == 2) { dist.add("text-with-wide"); } }
        distinct.insert(input.clone());
        if samples.len() < 3 { samples.push(J::s(&input)); }
        // ---- Coq case --------------------------------------------------------------------------------
        let mut chars: BTreeSet<char> = ['.', ' ', '>'].iter().cloned().collect();
        for (t, _) in &shown { for c in t.chars() { chars.insert(c); } }
        let widths = coq::list(chars.iter().map(|c| coq::pair(coq::n(*c as u64), format!("{}", cw(*c)))));
        let rows = coq::list(shown.iter().enumerate().skip(ic).map(|(k, (t, mr))| {
            let m = match mr {
                MR::None => "MNone".to_string(),
                MR::Chars(v) => format!("(MChars {})", coq::list(v.iter().map(|x| x.to_string()))),
                MR::Bytes(s, e) => { let cs = t[..*s].chars().count(); let ce = cs + t[*s..*e].chars().count(); format!("(MRange {} {})", cs, ce) }
            };
            format!("{{| r_text := {}; r_match := {}; r_selected := {} |}}", coq::text(t), m, coq::b(selected[k]))
        }));
        let irows = coq::opt(rec_rows.as_ref().map(|rows| coq::list(rows.iter().map(|(row, cs)|
            coq::pair(row.to_string(), coq::list(cs.iter().map(|(col, ch, tg)| coq::pair(col.to_string(), coq::pair(coq::n(*ch as u64), coq::n(*tg))))))))));
        w.push(id, format!("{{| c_width := {}; c_height := {}; c_reverse := {}; c_opts := {{| o_tabstop := {}; o_nohscroll := {}; o_keepright := {}; o_skip := 0; o_hoff := {} |}}; c_line_cursor := {}; c_rows := {}; c_widths := {}; i_rows := {} |}}",
            width, height, coq::b(reverse), tabstop, coq::b(no_hscroll), coq::b(keep_right), coq::z(hoff), lc, rows, widths, irows));
    }
    let total = w.total;
    let shards = w.finish();
    write_meta(&a.out, total, distinct.len() as u64,
        "0-10 items (plain SkimItem or reader-built DefaultSkimItem) with texts of 0..3w+4 characters over ASCII, wide (CJK), accented, tab and backspace; match ranges none / 1-4 character positions / byte range (2.5% out of range); canvas 1-40 x 0-12 (two thirds of the cases were first drawn at another width), default or reverse layout, tabstop 1-8, no-hscroll, keep-right; 0-5 cursor moves, toggles, page-up, toggle-all, horizontal scrolls before the recorded draw; distinct by full description",
        samples, dist.json(), &fails, shards);
}
