//! C12 harness: skim::field's public functions on random lines x delimiter regexes x range
//! strings.  Direct oracle: the documented field semantics computed from the delimiter matches.
use regex::Regex;
use skim::field::{get_string_by_field, parse_matching_fields, parse_transform_fields, FieldRange};
use skim::prelude::{SkimItemReader, SkimItemReaderOption};
use skv::*;
use std::collections::BTreeSet;

const DELIMS: [&str; 7] = [",", "[\t\n ]+", "x*", ":", "--", "[,;]", "中"];
const PIECES: [&str; 18] = ["a", "bc", "", ",", ",,", " ", "  ", "x", ":", "--", ";", "中", "é", "\t", ",", ":", " ", "--"];

fn gen_line(r: &mut Rng) -> String {
    let n = r.below(9);
    (0..n).map(|_| *r.pick(&PIECES)).collect()
}
fn gen_num(r: &mut Rng, k: i64) -> String {
    match r.below(12) {
        0..=8 => format!("{}", r.range(-k - 2, k + 2)),
        9 => format!("0{}", r.below(4)),
        10 => "99999999999".into(),
        _ => "-99999999999".into(),
    }
}
fn gen_range(r: &mut Rng, k: i64) -> String {
    match r.below(14) {
        0..=2 => gen_num(r, k),
        3..=4 => format!("{}..", gen_num(r, k)),
        5..=6 => format!("..{}", gen_num(r, k)),
        7..=10 => format!("{}..{}", gen_num(r, k), gen_num(r, k)),
        11 => r.pick(&["", "..", "a..", "..b", "1-2", "1...3", "-", " 1", "1 ", "+1", "1..2..3"]).to_string(),
        _ => format!("{}{}", gen_num(r, k), gen_num(r, k)),
    }
}
fn fr_coq(f: &FieldRange) -> String {
    match f {
        FieldRange::Single(n) => format!("(Single {})", coq::z(*n as i64)),
        FieldRange::LeftInf(n) => format!("(LeftInf {})", coq::z(*n as i64)),
        FieldRange::RightInf(n) => format!("(RightInf {})", coq::z(*n as i64)),
        FieldRange::Both(a, b) => format!("(Both {} {})", coq::z(*a as i64), coq::z(*b as i64)),
    }
}
fn pr(o: Option<(usize, usize)>) -> String {
    coq::opt(o.map(|(a, b)| coq::pair(coq::n(a as u64), coq::n(b as u64))))
}

/// documented semantics: fields 1..k, field i = [end of match i-1, start of match i), owning match i
fn doc_selected(f: &FieldRange, k: i64) -> Vec<i64> {
    let tr = |i: i64| if i < 0 { i + k + 1 } else { i };
    let (lo, hi) = match f {
        FieldRange::Single(n) => (tr(*n as i64), tr(*n as i64)),
        FieldRange::LeftInf(m) => (1, tr(*m as i64)),
        FieldRange::RightInf(n) => (tr(*n as i64), k),
        FieldRange::Both(a, b) => (tr(*a as i64), tr(*b as i64)),
    };
    (1..=k).filter(|i| lo <= *i && *i <= hi).collect()
}

fn main() {
    let a = args();
    quiet_panics();
    let mut w = CaseWriter::new(&a.out, "Corr.C12", a.shard);
    let mut dist = Hist::default();
    let mut distinct: BTreeSet<String> = BTreeSet::new();
    let mut samples = Vec::new();
    let mut fails = Vec::new();
    let ids: Vec<u64> = match a.only { Some(i) => vec![i], None => (0..a.n).collect() };
    for id in ids {
        let mut r = Rng::for_case(a.seed, id);
        let line = gen_line(&mut r);
        let dstr = *r.pick(&DELIMS);
        let re = Regex::new(dstr).unwrap();
        // item level: --nth together with --with-nth designates fields of the SHOWN text
        if id % 6 == 5 && !line.contains('\n') && !line.contains('\0') && !line.is_empty() {
            let nth = *r.pick(&["1", "2", "2..", "..2", "-1", "1,3", "3,1", "2..3"]);
            let with_nth = *r.pick(&["2..", "1,3", "3,2,1", "..", "-2..", "2"]);
            let (l2, d2) = (line.clone(), dstr.to_string());
            let res = guarded(move || {
                let opt = SkimItemReaderOption::default().delimiter(&d2).nth(nth).with_nth(with_nth).build();
                let rx = SkimItemReader::new(opt).of_bufread(std::io::Cursor::new(format!("{}\n", l2).into_bytes()));
                rx.iter().next().map(|it| (it.text().to_string(), it.get_matching_ranges().map(|v| v.to_vec())))
            });
            let input = format!("line={:?} delimiter={:?} --with-nth {} --nth {}", line, dstr, with_nth, nth);
            dist.add("item-level nth+with-nth");
            match res {
                Err(e) => fails.push(OracleFailure { case: id, what: format!("panic: {}", e), known: None, input }),
                Ok(None) => {}
                Ok(Some((shown, got))) => {
                    let fields: Vec<FieldRange> = nth.split(',').filter_map(FieldRange::from_str).collect();
                    let want = parse_matching_fields(&re, &shown, &fields);
                    if got.as_deref() != Some(&want[..]) {
                        fails.push(OracleFailure { case: id, what: format!("matching ranges {:?} of the shown text {:?}; the --nth fields of the shown text are {:?}", got, shown, want), known: None, input });
                    }
                }
            }
            continue;
        }
        let ms: Vec<(usize, usize)> = re.find_iter(&line).map(|m| (m.start(), m.end())).collect();
        let k = ms.len() as i64 + 1;
        let range = gen_range(&mut r, k);
        let kk = if r.chance(1, 2) { k as usize } else { r.below(8) as usize };
        let fields: Vec<String> = (0..r.below(4)).map(|_| gen_range(&mut r, k)).collect();
        let input = format!("line={:?} delimiter={:?} range={:?} k={} nth={:?}", line, dstr, range, kk, fields);
        let (l2, rg2, f2, re2, ms2) = (line.clone(), range.clone(), fields.clone(), re.clone(), ms.clone());
        let res = guarded(move || {
            let parsed = FieldRange::from_str(&rg2);
            let pair = parsed.as_ref().and_then(|p| p.to_index_pair(kk));
            let get = parsed.as_ref().and_then(|p| get_string_by_field(&re2, &l2, p)).map(|s| {
                let off = s.as_ptr() as usize - l2.as_ptr() as usize;
                (off, off + s.len())
            });
            let fl: Vec<FieldRange> = f2.iter().filter_map(|s| FieldRange::from_str(s)).collect();
            let m = parse_matching_fields(&re2, &l2, &fl);
            let t = parse_transform_fields(&re2, &l2, &fl);
            // direct oracle
            let mut bad: Option<String> = None;
            let kf = ms2.len() as i64 + 1;
            let begin = |i: i64| -> usize { if i == 1 { 0 } else { ms2[(i - 2) as usize].1 } };           // start of field i
            let end_excl = |i: i64| -> usize { if i == kf { l2.len() } else { ms2[(i - 1) as usize].0 } }; // end of field i without delimiter
            let end_incl = |i: i64| -> usize { if i == kf { l2.len() } else { ms2[(i - 1) as usize].1 } }; // ... with its delimiter
            if let Some(p) = &parsed {
                let sel = doc_selected(p, kf);
                let want = if sel.is_empty() { None } else { Some((begin(sel[0]), end_excl(*sel.last().unwrap()))) };
                if want != get { bad = Some(format!("get_string_by_field gives {:?}, the designated fields {:?} span {:?}", get, sel, want)); }
                let selk = doc_selected(p, kk as i64);
                let wantp = if selk.is_empty() { None } else { Some(((selk[0] - 1) as usize, *selk.last().unwrap() as usize)) };
                if bad.is_none() && wantp != pair { bad = Some(format!("to_index_pair({}) = {:?}, the designated fields are {:?}", kk, pair, selk)); }
            }
            let mut wantm = Vec::new();
            let mut wantt = String::new();
            for f in &fl {
                let sel = doc_selected(f, kf);
                if !sel.is_empty() {
                    let (b, e) = (begin(sel[0]), end_incl(*sel.last().unwrap()));
                    wantm.push((b, e));
                    wantt.push_str(&l2[b..e]);
                }
            }
            if bad.is_none() && wantm != m { bad = Some(format!("parse_matching_fields gives {:?}, the designated fields span {:?}", m, wantm)); }
            if bad.is_none() && wantt != t { bad = Some(format!("parse_transform_fields gives {:?}, expected {:?}", t, wantt)); }
            for (b, e) in m.iter().chain(get.iter()) {
                if bad.is_none() && !(b <= e && *e <= l2.len() && l2.is_char_boundary(*b) && l2.is_char_boundary(*e)) {
                    bad = Some(format!("range ({}, {}) is not on character boundaries inside the line", b, e));
                }
            }
            (parsed, pair, get, m, bad)
        });
        match res {
            Err(e) => fails.push(OracleFailure { case: id, what: format!("panic: {}", e), known: None, input }),
            Ok((parsed, pair, get, m, bad)) => {
                if let Some(b) = bad { fails.push(OracleFailure { case: id, what: b, known: None, input: input.clone() }); }
                dist.add(format!("fields={}", k.min(6)));
                dist.add(match &parsed { None => "range=unparsable", Some(FieldRange::Single(_)) => "range=N", Some(FieldRange::LeftInf(_)) => "range=..M", Some(FieldRange::RightInf(_)) => "range=N..", Some(FieldRange::Both(..)) => "range=N..M" });
                dist.add(if get.is_some() { "selects=something" } else { "selects=nothing" });
                if parsed.is_some() && k >= 2 { distinct.insert(format!("{:?}|{:?}|{:?}", ms, range, line.len())); }
                if samples.len() < 3 { samples.push(J::s(format!("{} -> parsed={:?} pair={:?} get={:?} matching={:?}", input, parsed, pair, get, m))); }
                w.push(id, format!(
                    "{{| c_len := {}; c_ms := {}; c_range := {}; i_parsed := {}; c_k := {}; i_pair := {}; i_get := {}; c_fields := {}; i_match := {} |}}",
                    coq::n(line.len() as u64), coq::list(ms.iter().map(|(x, y)| coq::pair(coq::n(*x as u64), coq::n(*y as u64)))),
                    coq::text(&range), coq::opt(parsed.as_ref().map(fr_coq)), coq::n(kk as u64), pr(pair), pr(get),
                    coq::list(fields.iter().map(|f| coq::text(f))), coq::list(m.iter().map(|(x, y)| coq::pair(coq::n(*x as u64), coq::n(*y as u64))))));
            }
        }
    }
    let total = w.total;
    let shards = w.finish();
    write_meta(&a.out, total, distinct.len() as u64,
        "random lines (0-8 pieces from letters, empty, commas, blanks, tabs, colons, dashes, multi-byte) x 7 delimiter regexes (literal, class, +, empty-matching x*, multi-byte) x range strings (N, N.., ..M, N..M with bounds in -k-2..k+2, leading zeros, overflowing literals, malformed) x --nth lists of 0-3 ranges; non-trivial = parsable range and at least two fields; distinct by (delimiter matches, range, line length)",
        samples, dist.json(), &fails, shards);
}
