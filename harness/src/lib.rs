//! Shared pieces of the correspondence harness: PRNG, Coq term printing, case-file writer,
//! run metadata (JSON).  One binary per property lives in src/bin/.
use std::collections::BTreeMap;
use std::fmt::Write as _;
use std::fs;
use std::io::Write as _;
use std::path::{Path, PathBuf};

// ------------------------------------------------------------------------------------------
// SplitMix64: every random choice of a run derives from VERIF_SEED; case i has its own stream
// so that it can be regenerated alone for a replay.
#[derive(Clone)]
pub struct Rng(pub u64);

impl Rng {
    pub fn new(seed: u64) -> Self {
        Rng(seed)
    }
    pub fn for_case(seed: u64, index: u64) -> Self {
        let mut r = Rng(seed ^ index.wrapping_mul(0x9E37_79B9_7F4A_7C15).rotate_left(17));
        r.next();
        r
    }
    pub fn next(&mut self) -> u64 {
        self.0 = self.0.wrapping_add(0x9E37_79B9_7F4A_7C15);
        let mut z = self.0;
        z = (z ^ (z >> 30)).wrapping_mul(0xBF58_476D_1CE4_E5B9);
        z = (z ^ (z >> 27)).wrapping_mul(0x94D0_49BB_1331_11EB);
        z ^ (z >> 31)
    }
    /// uniform in 0..n (n > 0)
    pub fn below(&mut self, n: u64) -> u64 {
        self.next() % n
    }
    /// uniform in lo..=hi
    pub fn range(&mut self, lo: i64, hi: i64) -> i64 {
        lo + (self.next() % ((hi - lo + 1) as u64)) as i64
    }
    pub fn chance(&mut self, num: u64, den: u64) -> bool {
        self.below(den) < num
    }
    pub fn pick<'a, T>(&mut self, xs: &'a [T]) -> &'a T {
        &xs[self.below(xs.len() as u64) as usize]
    }
    pub fn shuffle<T>(&mut self, xs: &mut [T]) {
        for i in (1..xs.len()).rev() {
            let j = self.below(i as u64 + 1) as usize;
            xs.swap(i, j);
        }
    }
}

// ------------------------------------------------------------------------------------------
// Coq term printing (numbers are printed with explicit scopes so that case files need none)
pub mod coq {
    pub fn n(x: u64) -> String {
        format!("{}%N", x)
    }
    pub fn z(x: i64) -> String {
        if x < 0 {
            format!("({})%Z", x)
        } else {
            format!("{}%Z", x)
        }
    }
    pub fn b(x: bool) -> String {
        (if x { "true" } else { "false" }).to_string()
    }
    pub fn list<I: IntoIterator<Item = String>>(xs: I) -> String {
        let v: Vec<String> = xs.into_iter().collect();
        format!("[{}]", v.join("; "))
    }
    pub fn opt(x: Option<String>) -> String {
        match x {
            Some(s) => format!("(Some {})", s),
            None => "None".to_string(),
        }
    }
    pub fn pair(a: String, b: String) -> String {
        format!("({}, {})", a, b)
    }
    /// a Rust string as `list N` of Unicode scalar values
    pub fn text(s: &str) -> String {
        list(s.chars().map(|c| n(c as u64)))
    }
    pub fn bytes(s: &[u8]) -> String {
        list(s.iter().map(|c| n(*c as u64)))
    }
    pub fn ns<I: IntoIterator<Item = u64>>(xs: I) -> String {
        list(xs.into_iter().map(n))
    }
    pub fn zs<I: IntoIterator<Item = i64>>(xs: I) -> String {
        list(xs.into_iter().map(z))
    }
}

// ------------------------------------------------------------------------------------------
// minimal JSON value (no external crates)
#[derive(Clone, Debug)]
pub enum J {
    Null,
    B(bool),
    I(i64),
    S(String),
    A(Vec<J>),
    O(BTreeMap<String, J>),
}

impl J {
    pub fn s<T: AsRef<str>>(x: T) -> J {
        J::S(x.as_ref().to_string())
    }
    pub fn obj(kv: Vec<(&str, J)>) -> J {
        J::O(kv.into_iter().map(|(k, v)| (k.to_string(), v)).collect())
    }
    pub fn render(&self, out: &mut String) {
        match self {
            J::Null => out.push_str("null"),
            J::B(b) => out.push_str(if *b { "true" } else { "false" }),
            J::I(i) => {
                let _ = write!(out, "{}", i);
            }
            J::S(s) => {
                out.push('"');
                for c in s.chars() {
                    match c {
                        '"' => out.push_str("\\\""),
                        '\\' => out.push_str("\\\\"),
                        '\n' => out.push_str("\\n"),
                        '\r' => out.push_str("\\r"),
                        '\t' => out.push_str("\\t"),
                        c if (c as u32) < 0x20 => {
                            let _ = write!(out, "\\u{:04x}", c as u32);
                        }
                        c => out.push(c),
                    }
                }
                out.push('"');
            }
            J::A(v) => {
                out.push('[');
                for (i, x) in v.iter().enumerate() {
                    if i > 0 {
                        out.push(',');
                    }
                    x.render(out);
                }
                out.push(']');
            }
            J::O(m) => {
                out.push('{');
                for (i, (k, v)) in m.iter().enumerate() {
                    if i > 0 {
                        out.push(',');
                    }
                    J::S(k.clone()).render(out);
                    out.push(':');
                    v.render(out);
                }
                out.push('}');
            }
        }
    }
    pub fn to_string(&self) -> String {
        let mut s = String::new();
        self.render(&mut s);
        s
    }
}

// ------------------------------------------------------------------------------------------
// command line:  <bin> --seed S --n N --out DIR [--only INDEX] [--shard K]
pub struct Args {
    pub seed: u64,
    pub n: u64,
    pub out: PathBuf,
    pub only: Option<u64>,
    pub shard: usize,
    pub extra: BTreeMap<String, String>,
}

pub fn args() -> Args {
    let mut a = Args {
        seed: 1,
        n: 100,
        out: PathBuf::from("."),
        only: None,
        shard: 250,
        extra: BTreeMap::new(),
    };
    let v: Vec<String> = std::env::args().skip(1).collect();
    let mut i = 0;
    while i < v.len() {
        let val = v.get(i + 1).cloned().unwrap_or_default();
        match v[i].as_str() {
            "--seed" => a.seed = val.parse().expect("seed"),
            "--n" => a.n = val.parse().expect("n"),
            "--out" => a.out = PathBuf::from(&val),
            "--only" => a.only = Some(val.parse().expect("only")),
            "--shard" => a.shard = val.parse().expect("shard"),
            k if k.starts_with("--") => {
                a.extra.insert(k[2..].to_string(), val);
            }
            _ => panic!("bad argument {}", v[i]),
        }
        i += 2;
    }
    a
}

// ------------------------------------------------------------------------------------------
/// Collects the cases of a run and writes them as Coq files `cases_<k>.v`, each ending in
/// `Eval vm_compute in (mismatches check cases).`, plus `index.json` mapping shard -> case ids.
pub struct CaseWriter {
    dir: PathBuf,
    corr_module: String,
    shard: usize,
    cur: Vec<(u64, String)>,
    nshards: usize,
    index: Vec<J>,
    pub total: u64,
}

impl CaseWriter {
    pub fn new(dir: &Path, corr_module: &str, shard: usize) -> Self {
        fs::create_dir_all(dir).expect("mkdir out");
        CaseWriter {
            dir: dir.to_path_buf(),
            corr_module: corr_module.to_string(),
            shard,
            cur: Vec::new(),
            nshards: 0,
            index: Vec::new(),
            total: 0,
        }
    }
    /// `term` is a Coq term of the correspondence file's `case` type
    pub fn push(&mut self, id: u64, term: String) {
        self.cur.push((id, term));
        self.total += 1;
        if self.cur.len() >= self.shard {
            self.flush();
        }
    }
    pub fn flush(&mut self) {
        if self.cur.is_empty() {
            return;
        }
        let k = self.nshards;
        self.nshards += 1;
        let path = self.dir.join(format!("cases_{}.v", k));
        let mut f = fs::File::create(&path).expect("create cases file");
        writeln!(f, "From SkimV Require Import {}.", self.corr_module).unwrap();
        writeln!(f, "Definition cases : list case := [").unwrap();
        let n = self.cur.len();
        for (i, (_, t)) in self.cur.iter().enumerate() {
            writeln!(f, "  {}{}", t, if i + 1 < n { ";" } else { "" }).unwrap();
        }
        writeln!(f, "].").unwrap();
        writeln!(f, "Eval vm_compute in (mismatches check cases).").unwrap();
        self.index.push(J::A(self.cur.iter().map(|(id, _)| J::I(*id as i64)).collect()));
        self.cur.clear();
    }
    pub fn finish(mut self) -> J {
        self.flush();
        J::A(self.index)
    }
}

/// Histogram helper for the input distribution written into the evidence.
#[derive(Default)]
pub struct Hist(pub BTreeMap<String, i64>);
impl Hist {
    pub fn add<T: AsRef<str>>(&mut self, k: T) {
        *self.0.entry(k.as_ref().to_string()).or_insert(0) += 1;
    }
    pub fn json(&self) -> J {
        J::O(self.0.iter().map(|(k, v)| (k.clone(), J::I(*v))).collect())
    }
}

/// A failure of the direct oracle (property evaluated on the implementation alone).
pub struct OracleFailure {
    pub case: u64,
    pub what: String,
    /// name of the known-finding class the input falls in, if any
    pub known: Option<String>,
    /// human-readable input, for the replay file
    pub input: String,
}

pub fn write_meta(
    dir: &Path,
    evaluations: u64,
    distinct_nontrivial: u64,
    rule: &str,
    samples: Vec<J>,
    dist: J,
    failures: &[OracleFailure],
    shards: J,
) {
    let fails = J::A(
        failures
            .iter()
            .map(|f| {
                J::obj(vec![
                    ("case", J::I(f.case as i64)),
                    ("what", J::s(&f.what)),
                    ("known", f.known.as_ref().map(J::s).unwrap_or(J::Null)),
                    ("input", J::s(&f.input)),
                ])
            })
            .collect(),
    );
    let m = J::obj(vec![
        ("evaluations", J::I(evaluations as i64)),
        ("distinct_nontrivial", J::I(distinct_nontrivial as i64)),
        ("rule", J::s(rule)),
        ("samples", J::A(samples)),
        ("distribution", dist),
        ("oracle_failures", fails),
        ("shards", shards),
    ]);
    fs::write(dir.join("meta.json"), m.to_string()).expect("write meta");
}

/// run `f`, mapping a panic to Err(message)
pub fn guarded<T, F: FnOnce() -> T + std::panic::UnwindSafe>(f: F) -> Result<T, String> {
    std::panic::catch_unwind(f).map_err(|e| {
        if let Some(s) = e.downcast_ref::<&str>() {
            s.to_string()
        } else if let Some(s) = e.downcast_ref::<String>() {
            s.clone()
        } else {
            "panic".to_string()
        }
    })
}

pub fn quiet_panics() {
    std::panic::set_hook(Box::new(|_| {}));
}

// ------------------------------------------------------------------------------------------
/// An in-memory tuikit Canvas that records what is drawn.
pub mod canvas {
    use tuikit::attr::Attr;
    use tuikit::canvas::Canvas;
    use tuikit::cell::Cell;
    use unicode_width::UnicodeWidthChar;

    pub struct Rec {
        pub width: usize,
        pub height: usize,
        /// every put_cell inside the area, in call order: (row, col, char, attr)
        pub cells: Vec<(usize, usize, char, Attr)>,
        /// put_cell calls outside the area (row >= height or col >= width)
        pub outside: Vec<(usize, usize, char)>,
        /// print_with_attr calls: (row, col, text)
        pub prints: Vec<(usize, usize, String)>,
        pub cursor: Option<(usize, usize)>,
        pub clears: usize,
        /// every put_cell since the last clear(), in call order, inside the area or not
        pub all: Vec<(usize, usize, char, Attr)>,
    }

    impl Rec {
        pub fn new(width: usize, height: usize) -> Self {
            Rec { width, height, cells: vec![], outside: vec![], prints: vec![], cursor: None, clears: 0, all: vec![] }
        }
        /// final content of each cell (later writes win)
        pub fn grid(&self) -> std::collections::BTreeMap<(usize, usize), (char, Attr)> {
            let mut m = std::collections::BTreeMap::new();
            for (r, c, ch, a) in &self.cells {
                m.insert((*r, *c), (*ch, *a));
            }
            m
        }
    }

    impl Canvas for Rec {
        fn size(&self) -> tuikit::Result<(usize, usize)> {
            Ok((self.width, self.height))
        }
        fn clear(&mut self) -> tuikit::Result<()> {
            self.clears += 1;
            self.cells.clear();
            self.all.clear();
            Ok(())
        }
        fn put_cell(&mut self, row: usize, col: usize, cell: Cell) -> tuikit::Result<usize> {
            let w = cell.ch.width().unwrap_or(2);
            self.all.push((row, col, cell.ch, cell.attr));
            if row >= self.height || col >= self.width {
                self.outside.push((row, col, cell.ch));
            } else {
                self.cells.push((row, col, cell.ch, cell.attr));
            }
            Ok(w)
        }
        fn print_with_attr(&mut self, row: usize, col: usize, content: &str, attr: Attr) -> tuikit::Result<usize> {
            self.prints.push((row, col, content.to_string()));
            let mut width = 0;
            for ch in content.chars() {
                width += self.put_cell(row, col + width, Cell { ch, attr })?;
            }
            Ok(width)
        }
        fn set_cursor(&mut self, row: usize, col: usize) -> tuikit::Result<()> {
            self.cursor = Some((row, col));
            Ok(())
        }
        fn show_cursor(&mut self, _show: bool) -> tuikit::Result<()> {
            Ok(())
        }
    }
}
