(** C14 — --select-1 / --exit-0 decide only on the complete result set.
    Statements only; the transition system is that of C01 (Model/Pipeline.v).  [decided] records the
    outcome of handle_select1_or_exit0: Accept (select-1 fires), Abort (exit-0 fires) or Interactive
    (the flags are dropped and the terminal is started). *)
From SkimV Require Import Common.Base Gen.PipelineOrder Model.PipelineOrder Model.Pipeline Model.PipelineAbs Proof.Pipeline Proof.PipelineLive Proof.Fair Proof.PipelineProgress.

(** Whenever a step takes the decision, in any reachable state of any interleaving: the source has
    ended, the reader's buffer has been moved, every pool item has been handed to a matcher, and no
    matcher run is outstanding -- neither running nor finished-but-unharvested; and the decision is
    the one the complete result dictates: Accept iff exactly one item matches (with --select-1),
    otherwise Abort iff none matches (with --exit-0), otherwise the interactive session. *)
Theorem c14_decides_on_complete : forall nres mp source q0 a b c ls s s' d,
  run nres false mp (init source q0 a b c) ls = Some s ->
  step nres false mp s LMain = Some s' -> decided s = None -> decided s' = Some d ->
  (alive s = false /\ rbuf s = [] /\ src s = [] /\ mt s = None /\ taken s = List.length (pl s)) /\
  d = decision_of (List.length (complete nres mp s)) (f1 s) (f0 s).
Proof.
  intros nres mp source q0 a b c ls s s' d Hr Hs Hd0 Hd1.
  pose proof (reachable_inv _ _ _ _ _ _ _ _ _ _ Hr) as HI.
  assert (Hpc : exists cc r rest, pc s = S1Decide cc r :: rest).
  { destruct (step_flags nres false mp s LMain s' Hs) as [_ _].
    cbn in Hs. unfold exec_main in Hs. destruct (pc s) as [|op rest] eqn:Hpc; [discriminate|].
    destruct op as [ |sv|r|r| | |cc|cc r| | |sr|sr]; try (exfalso; revert Hs; clear -Hd0 Hd1; intros Hs;
      repeat match type of Hs with
             | context [match ?x with _ => _ end] => destruct x
             | context [if ?x then _ else _] => destruct x
             end; try discriminate; inversion Hs; subst s'; cbn in Hd1; congruence).
    eauto. }
  destruct Hpc as (cc & r & rest & Hpc).
  destruct (decide_complete nres false mp s s' cc r rest d HI Hpc Hs Hd0 Hd1) as (H1 & H2 & H3).
  split; [exact H1|]. apply H3. destruct H2 as [H2 | [_ H2]]; [exact H2|discriminate].
Qed.
Print Assumptions c14_decides_on_complete.

(** once the interactive session has started neither option fires later *)
Theorem c14_interactive_is_final : forall nres ncie mp source q0 a b c ls ls' s s',
  run nres ncie mp (init source q0 a b c) ls = Some s -> decided s = Some Interactive ->
  run nres ncie mp s ls' = Some s' -> decided s' = Some Interactive.
Proof.
  intros nres ncie mp source q0 a b c ls ls' s s' Hr Hd Hr'.
  exact (proj1 (interactive_is_final nres ncie mp ls' s s' (reachable_finv _ _ _ _ _ _ _ _ _ _ Hr) Hd Hr')).
Qed.
Print Assumptions c14_interactive_is_final.

(** the decision point is reached: an idle loop with nothing on its way is quiescent (C01), and the
    heartbeat that harvested the last run evaluates the decision in the same handler *)
Theorem c14_idle_is_quiescent : forall nres ncie mp source q0 a b c ls s,
  run nres ncie mp (init source q0 a b c) ls = Some s ->
  pc s = [] -> hbq s = 0 -> timer s = false -> prenotify s = false -> quiescent s.
Proof. exact idle_is_quiescent. Qed.
Print Assumptions c14_idle_is_quiescent.


(** ... and it IS reached: with --select-1, --exit-0 or --sync given, once the source has ended
    (no command change in flight) every weakly fair execution without keystrokes (see C01,
    c01_fair_quiescence, for the notions) takes the decision -- which, by c14_decides_on_complete,
    is the one the complete result dictates. *)
Theorem c14_decision_is_taken : forall nres ncie mp source q0 a b c ls s0 (sigma : nat -> st) (lam : nat -> option label),
  run nres ncie mp (init source q0 a b c) ls = Some s0 -> alive s0 = false -> no_cmd (map amop_of (pc s0)) = true ->
  sigma 0 = s0 -> a || b || c = true ->
  exec st label (step nres ncie mp) inner sigma lam -> wfair st label (step nres ncie mp) inner sigma lam ->
  exists t, decided (sigma t) <> None.
Proof. exact fair_decision. Qed.
Print Assumptions c14_decision_is_taken.

(** ... and from any reachable state, the source still producing (the reader's steps included) *)
Theorem c14_decision_is_taken_any : forall nres ncie mp source q0 a b c ls s0 (sigma : nat -> st) (lam : nat -> option label),
  run nres ncie mp (init source q0 a b c) ls = Some s0 -> no_cmd (map amop_of (pc s0)) = true ->
  sigma 0 = s0 -> a || b || c = true ->
  exec st label (step nres ncie mp) inner2 sigma lam -> wfair st label (step nres ncie mp) inner2 sigma lam ->
  exists t, decided (sigma t) <> None.
Proof. exact fair_decision_any. Qed.
Print Assumptions c14_decision_is_taken_any.

(** at rest with an option still pending, the decision has been recorded (no reachable state rests undecided) *)
Theorem c14_rest_decided : forall nres ncie mp source q0 a b c ls s,
  run nres ncie mp (init source q0 a b c) ls = Some s ->
  at_rest s = true -> f1 s || f0 s || fsync s = true -> decided s <> None.
Proof. exact reachable_rest_decided. Qed.
Print Assumptions c14_rest_decided.

(** the code still has the skeleton the transition system stands for: in the decision, the heartbeat and the threads whose completion it reads, the
    shared-state operations extracted from the Rust sources on this run (Gen/PipelineOrder.v) are
    the ones, in the order, that the model's steps were written for (Model/PipelineOrder.v) *)
Theorem c14_code_skeleton :
  same_rows c14_rows code_order model_order = true.
Proof. vm_compute. reflexivity. Qed.
Print Assumptions c14_code_skeleton.

(** Non-vacuity: one matching item of two, --select-1: the first heartbeat (matcher just spawned)
    and the second (matcher running) do not decide; the third harvests and accepts. *)
Definition ex_mp (qq : N) (x : item) : bool := N.even x.
Definition ex_labels : list label :=
  [LPush; LPush; LEof; LHb; LMain; LMain; LMain; LMain; LMain; LMain; LMain;
   LMLoad; LMTake; LHb; LMain; LMain; LMain; LMain; LMain; LMain;
   LMPublish; LMNotify; LMFlag; LMExit;
   LHb; LMain; LMain; LMain; LMain; LMain; LMain].
Example c14_example :
  exists s s', run 0 false ex_mp (init [1; 2]%N 0%N true true false) ex_labels = Some s /\
               decided s = None /\ step 0 false ex_mp s LMain = Some s' /\ decided s' = Some Accept /\ L s' = [(2%N, 1)].
Proof. eexists. eexists. split; [vm_compute; reflexivity|]. cbn. repeat split; reflexivity. Qed.
