(** C06 — Lines in, lines out: ingestion and output are lossless and order-preserving.
    Statements only.  A stream is a list of bytes; [term] is the configured line ending (LF, or
    NUL with --read0). *)
From SkimV Require Import Common.Base Model.Reader Proof.Reader.

(** Framing never drops or reorders a byte: the records, concatenated, are the stream; there is
    one item per record and no record is empty (for every byte stream whatsoever). *)
Theorem c06_count_order : forall term bs,
  concat (records term bs) = bs /\ Forall (fun r => r <> []) (records term bs) /\
  length (items term bs) = length (records term bs).
Proof.
  intros term bs. split; [apply records_lossless|]. split; [apply records_nonempty|].
  unfold items. apply map_length.
Qed.
Print Assumptions c06_count_order.

(** Every line (terminated by LF or CRLF, or by the configured byte; the last one possibly
    unterminated) becomes exactly one item, in order, whose bytes are the line without its
    terminator - under the property's conditions on lines ([lines_ok]: no terminator byte inside a
    line, a line before a bare LF does not end in CR, only the last line may be unterminated). *)
Theorem c06_split_join : forall term ls, lines_ok term ls -> items term (join term ls) = map fst ls.
Proof. intros term ls H. unfold items, records. apply split_join_go; [exact H | lia]. Qed.
Print Assumptions c06_split_join.

(** The framing does not depend on how the source hands out its bytes (pipe writes, a slow command,
    any read-buffer size, a boundary between CR and LF or inside a multi-byte character): for every
    division of the stream into non-empty pieces, BufRead::read_until's fill_buf / consume loop
    yields the records of the whole stream. *)
Theorem c06_chunk_independent : forall term chunks, Forall (fun c => c <> []) chunks ->
  records_chunks term chunks = records term (concat chunks).
Proof. exact records_chunks_spec. Qed.
Print Assumptions c06_chunk_independent.

(** filter mode prints, in input order, the output of exactly the matching items, each followed by
    the output ending; with a query that matches everything it prints them all *)
Theorem c06_filter : forall Item (matches : Item -> bool) output ending its,
  filter_out matches output ending its = flat_map (fun it => output it ++ ending) (filter matches its) /\
  ((forall it, matches it = true) -> filter_out matches output ending its = flat_map (fun it => output it ++ ending) its).
Proof.
  intros Item matches output ending its. split; [reflexivity|]. intros H. unfold filter_out.
  replace (filter matches its) with its; [reflexivity|]. induction its as [|x l IH]; cbn; [reflexivity|]. rewrite H. f_equal. exact IH.
Qed.
Print Assumptions c06_filter.

(** Non-vacuity: CRLF, a bare LF, an empty line, an unterminated last line ending in NUL. *)
Example c06_example :
  let ls := [([97; 98], TermCRLF); ([99], TermLF); ([], TermLF); ([100; 0], NoTerm)]%N in
  lines_ok 10%N ls /\ items 10%N (join 10%N ls) = [[97; 98]; [99]; []; [100; 0]]%N.
Proof.
  cbn zeta. split; [|vm_compute; reflexivity]. cbn -[In].
  repeat split; try discriminate; try (intros H; cbn in H; intuition discriminate).
Qed.

(** Non-vacuity: a CRLF split between two pieces, a piece holding two terminators, a last piece
    without one. *)
Example c06_chunks_example :
  let chunks := [[97; 13]; [10; 98; 10; 10]; [99]]%N in
  Forall (fun c => c <> []) chunks /\
  records_chunks 10%N chunks = [[97; 13; 10]; [98; 10]; [10]; [99]]%N.
Proof. cbn zeta. split; [repeat constructor; discriminate | vm_compute; reflexivity]. Qed.
