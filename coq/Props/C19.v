(** C19 — Key bindings: user bindings override defaults and run their actions in order.
    Statements only.  The binding grammar is the deterministic scanner of Model/Keymap.v, which
    stands for the two regexes on well-formed specifications: keys without ':', action names of
    letters and '-', and each argument written in a form whose terminator (for the colon form:
    any of colon, comma, plus, an opening parenthesis or bracket, or a quote) it does not contain.  That the regexes agree with the scanner on that
    language is carried by the correspondence check. *)
From SkimV Require Import Common.Base Gen.EventTable Gen.DefaultKeymap Model.Keymap Proof.Keymap.
From Coq Require Import String.

(** every well-formed specification parses back to exactly its bindings: each key with exactly
    the listed chain, in order, arguments verbatim, in all five argument forms *)
Theorem c19_roundtrip : forall spec, Forall wf_binding spec ->
  parse_key_action (render_spec spec) = map strip_binding spec.
Proof. exact roundtrip. Qed.
Print Assumptions c19_roundtrip.

(** binding a key replaces any earlier (default or user) binding of that key and leaves every
    other key's binding unchanged; unknown key names and empty chains bind nothing *)
Theorem c19_override : forall keyof m name c k',
  lookup (bind keyof m name c) k' =
  match keyof name, c with
  | Some k, _ :: _ => if text_eqb k' k then Some c else lookup m k'
  | _, _ => lookup m k'
  end.
Proof. exact lookup_bind. Qed.
Print Assumptions c19_override.

(** a key event is translated to the bound chain, a printable character without binding to
    inserting that character, any other key to itself *)
Theorem c19_translate : forall m k ch,
  (forall c, lookup m k = Some c -> translate_key m k ch = c) /\
  (lookup m k = None ->
   translate_key m k ch = match ch with Some c => [(codes "EvActAddChar"%string, MChar c)] | None => [(codes "EvInputKey"%string, MKey k)] end).
Proof. intros m k ch. split; [intros c H; apply translate_bound, H | apply translate_unbound]. Qed.
Print Assumptions c19_translate.

(** --expect keys: accept naming the key *)
Theorem c19_expect : forall keyof m name k, keyof name = Some k ->
  lookup (parse_expect_keys keyof m (Some name)) k = Some [(accept_ctor, MOptStr (Some name))] \/ In COMMA name.
Proof.
  intros keyof m name k Hk. destruct (in_dec N.eq_dec COMMA name) as [Hin|Hn]; [right; exact Hin|]. left.
  assert (Hs : split_comma name = [name]).
  { clear Hk. induction name as [|c r IH]; [reflexivity|]. cbn [split_comma].
    destruct (c =? COMMA)%N eqn:E; [apply N.eqb_eq in E; subst; exfalso; apply Hn; left; reflexivity|].
    rewrite IH by (intros H; apply Hn; right; exact H). reflexivity. }
  unfold parse_expect_keys. rewrite Hs. cbn [fold_left]. rewrite lookup_bind, Hk. rewrite text_eqb_refl. reflexivity.
Qed.
Print Assumptions c19_expect.

(** the conditional actions run their argument action exactly when the condition holds *)
Theorem c19_conditions : forall cond arg,
  handle_if cond arg = if cond then parse_action_arg arg else Ok None.
Proof. exact handle_if_spec. Qed.
Print Assumptions c19_conditions.

(** Non-vacuity: the unit test's specification shapes. *)
Example c19_example :
  let spec := [ (codes "ctrl-t"%string, [ {| a_name := codes "toggle"%string; a_arg := None |}; {| a_name := codes "up"%string; a_arg := Some (FParen, codes "3"%string) |} ]);
                (codes "f1"%string, [ {| a_name := codes "execute"%string; a_arg := Some (FBracket, codes "less -f {}, (x):+y"%string) |} ]);
                (codes "ctrl-m"%string, [ {| a_name := codes "if-query-empty"%string; a_arg := Some (FColon, codes "abort"%string) |} ]) ] in
  Forall wf_binding spec /\
  render_spec spec = codes "ctrl-t:toggle+up(3),f1:execute[less -f {}, (x):+y],ctrl-m:if-query-empty:abort"%string.
Proof. cbn zeta. split; [|vm_compute; reflexivity]. repeat constructor; cbn; try discriminate. Qed.
