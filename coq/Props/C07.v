(** C07 — Placeholder expansion is shell-safe: each value becomes exactly one literal word.
    Statements only.  The reference for "word" is the POSIX token recogniser of Model/ShellLex.v
    (quoting, blanks, operators, expansion triggers). *)
From SkimV Require Import Common.Base Model.Field Model.Inject Model.ShellLex Proof.Inject.
From Coq Require Import String.

(** For every value (any characters: quotes, $, backquote, backslash, ;|&, newline, NUL, globs,
    multi-byte) the quoted form, met in unquoted context, contributes exactly the value's characters
    (NUL as the two characters \0) as literal parts of the current word and returns to unquoted
    context: no word boundary, no operator, no expansion trigger is produced. *)
Theorem c07_quote_one_word : forall v s, md s = Unq ->
  lex_from s (quote v) =
  {| md := Unq; cur := Some (match cur s with Some w => w | None => [] end ++ lits (render_val v)); out := out s |}.
Proof. exact quote_one_word. Qed.
Print Assumptions c07_quote_one_word.

(** The values of one placeholder, quoted and joined by blanks, are read back as one word per
    value, each identical to its value. *)
Theorem c07_words : forall vals s, md s = Unq -> cur s = None -> vals <> [] ->
  lex_from s (join_sp (map quote vals)) =
  {| md := Unq; cur := Some (lits (render_val (last vals [])));
     out := out s ++ map (fun v => Word (lits (render_val v))) (removelast vals) |}.
Proof. exact quoted_values_words. Qed.
Print Assumptions c07_words.

(** The template is cut into literal characters, placeholders and backslash-escaped placeholders,
    covering it exactly; the expansion is the concatenation of the rendered segments ... *)
Theorem c07_segments : forall cmd c,
  flat_map seg_source (segments cmd) = cmd /\
  inject_command cmd c = flat_map (render c) (segments cmd).
Proof. intros cmd c. split; [apply segments_cover | reflexivity]. Qed.
Print Assumptions c07_segments.

(** ... where text outside placeholders (escaped placeholders included) is never altered and a
    placeholder becomes its values, each quoted, joined by single blanks *)
Theorem c07_verbatim : forall c s, (forall body, s <> Ph body) -> render c s = seg_source s.
Proof. exact render_verbatim. Qed.
Print Assumptions c07_verbatim.

Theorem c07_placeholder : forall c body, render c (Ph body) = join_sp (map quote (values body c)).
Proof. exact render_placeholder. Qed.
Print Assumptions c07_placeholder.

(** Non-vacuity: a hostile value and a template with an escaped placeholder. *)
Example c07_example :
  let v := codes "a'b $(rm -rf /) `x`; |"%string in
  lex (codes "echo "%string ++ quote v ++ codes " x"%string) =
    [Word (lits (codes "echo"%string)); Word (lits v); Word (lits (codes "x"%string))] /\
  let it := {| it_text := codes "a,b'c,d"%string; it_ms := [(1, 2); (5, 6)]%N |} in
  let c := {| current_index := 3; current := it; indices := []; selections := []; query := codes "q u"%string; cmd_query := [] |} in
  inject_command (codes "cat {2..-1} \{} {q}|{n}"%string) c = codes "cat 'b'\''c,d' \{} 'q u'|'3'"%string.
Proof. vm_compute. split; reflexivity. Qed.
