(** C11 — What is drawn is what the state says: rows, pointer, markers, highlight, clipping.
    Statements only.  [draw] (Model/Draw.v) is Draw::draw of the list: for the items from
    item_cursor on it yields the screen row and the cells put on it, a cell being (column,
    (character, tag)); tag 0/2 = the row's default attribute (ordinary / cursor row), 1/3 = with the
    match highlight, 4 = pointer column, 5/6 = selection mark.  [cw] is the character width
    (unicode-width); glyphs are the text's characters with tabs expanded. *)
From SkimV Require Import Common.Base Model.Draw Proof.Draw.

(** rows: the j-th row drawn is item item_cursor + j, on screen row j from the top in the reverse
    layouts and from the bottom otherwise; exactly min(height, items) rows are drawn *)
Theorem c11_rows : forall cw o width height reverse line_cursor rows out,
  draw cw o width height reverse line_cursor rows = Some out ->
  List.length out = Nat.min height (List.length rows) /\
  forall j rw, nth_error out j = Some rw ->
    fst rw = (if reverse then j else height - 1 - j) /\ j < height /\
    exists r, nth_error rows j = Some r /\ row_cells cw o width (j =? line_cursor)%nat r = Some (snd rw).
Proof.
  intros cw o width height reverse line_cursor rows out H.
  destruct (draw_rows_spec cw o width height reverse line_cursor rows 0 out H) as [H1 H2].
  split; [rewrite H1; f_equal; lia|]. intros j rw Hj. exact (H2 j rw Hj).
Qed.
Print Assumptions c11_rows.

(** pointer and selection mark: column 0 carries '>' on exactly the cursor row, column 1 carries
    '>' on exactly the rows of selected items; the text follows *)
Theorem c11_marks : forall cw o width is_cur r cs,
  3 <= width -> row_cells cw o width is_cur r = Some cs ->
  exists body,
    cs = (0, ((if is_cur then GT else SPC), 4%N)) ::
         (1, (if r_selected r then (GT, (5 + (if is_cur then 1 else 0))%N) else (SPC, if is_cur then 2%N else 0%N))) :: body /\
    item_cells cw o width (r_text r) (r_match r) (if is_cur then 2%N else 0%N) = Some body.
Proof. exact row_cells_marks. Qed.
Print Assumptions c11_marks.

(** nothing is written outside the list area: every text cell lies in columns 2 .. width-1 *)
Theorem c11_bounds : forall cw o width t m base cs,
  item_cells cw o width t m base = Some cs -> Forall (fun c => 2 <= fst c < 2 + (width - 2)) cs.
Proof. exact item_cells_in_area. Qed.
Print Assumptions c11_bounds.

(** a text that fits is shown in full, every glyph at its own column, in order *)
Theorem c11_fit : forall cw o width t m base,
  cw SPC = 1 -> ~ In BSP t -> wide_ok cw (item_glyphs cw o t m base) ->
  last (acc_widths cw (o_tabstop o) t) 0 <= width - 2 -> (o_hoff o <= 0)%Z ->
  (o_nohscroll o = true \/ o_keepright o = true \/ o_skip o <= 2 \/ fst (match_span m) <> 0 \/ snd (match_span m) <> 0) ->
  item_cells cw o width t m base = Some (place cw 2 (item_glyphs cw o t m base)).
Proof. exact item_cells_fit. Qed.
Print Assumptions c11_fit.

(** exactly the matched characters carry the highlight tag (tabs pass theirs to their spaces) *)
Theorem c11_highlight : forall m base t k c tg,
  nth_error (tagged m 0 base t) k = Some (c, tg) ->
  nth_error t k = Some c /\ tg = (if matched_at m k then (base + 1)%N else base).
Proof. intros m base t k c tg H. exact (tagged_nth m base t 0 k c tg H). Qed.
Print Assumptions c11_highlight.

(** a text that does not fit (or is scrolled): what is shown is a contiguous run of the text's
    glyphs, in order, at consecutive columns, between at most three dots on the left and at most
    two on the right, and nothing else *)
Theorem c11_clip : forall cw o width t m base cs,
  wide_ok cw (item_glyphs cw o t m base) ->
  item_cells cw o width t m base = Some cs ->
  exists a b L R,
    cs = L ++ place cw (2 + List.length L) (firstn b (skipn a (item_glyphs cw o t m base))) ++ R /\
    Forall is_dot L /\ Forall is_dot R /\ List.length L <= 3 /\ List.length R <= 2.
Proof. exact item_cells_structure. Qed.
Print Assumptions c11_clip.

(** reshape_string neither indexes out of range nor underflows when the match span is a span of
    the text (C08 supplies that) *)
Theorem c11_reshape_safe : forall cw t cwid ms me tab,
  ms <= me -> me <= List.length t -> exists s full, reshape cw t cwid ms me tab = Some (s, full).
Proof. exact reshape_total. Qed.
Print Assumptions c11_reshape_safe.

(** Non-vacuity: a 12-column area; the first text fits, the second is cut on both sides around
    its match (the wide character straddles the left cut: one dot). *)
Definition ex_cw (c : char) : nat := if (c <? 128)%N then 1 else 2.
Definition ex_opts : dopts := {| o_tabstop := 8; o_nohscroll := false; o_keepright := false; o_skip := 0; o_hoff := 0 |}.
Example c11_example :
  draw ex_cw ex_opts 12 3 false 1
    [ {| r_text := [97; 98; 99]%N; r_match := MChars [1]; r_selected := true |};
      {| r_text := [97; 98; 99; 20013; 101; 102; 103; 104; 105; 106; 107; 108; 109; 110; 111; 112; 113; 114; 115; 116; 117; 118; 119; 120]%N;
         r_match := MRange 8 10; r_selected := false |} ] =
  Some [ (2, [(0, (SPC, 4%N)); (1, (GT, 5%N)); (2, (97%N, 0%N)); (3, (98%N, 1%N)); (4, (99%N, 0%N))]);
         (1, [(0, (GT, 4%N)); (1, (SPC, 2%N)); (2, (DOT, 2%N)); (3, (102%N, 2%N)); (4, (103%N, 2%N)); (5, (104%N, 2%N));
              (6, (105%N, 3%N)); (7, (106%N, 3%N)); (8, (107%N, 2%N)); (9, (DOT, 2%N)); (10, (DOT, 2%N))]) ].
Proof. vm_compute. reflexivity. Qed.
