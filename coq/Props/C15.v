(** C15 — Reader-to-matcher hand-off is exactly-once; header lines are never candidates; the lock
    admits one holder.  Statements only.  Pool and matcher are those of the pipeline transition
    system (Model/Pipeline.v); the lock is Model/SpinLock.v. *)
From SkimV Require Import Common.Base Gen.PipelineOrder Model.PipelineOrder Model.Pipeline Proof.Pipeline Model.SpinLock Proof.SpinLock Model.Draw Proof.Draw.

(** In every reachable state: the slices handed out by `take` since the last reset/clear are
    contiguous from position 0 up to the taken mark (none skipped, none handed out twice, in
    order), and the mark never passes the pool length (num_not_taken cannot underflow). *)
Theorem c15_partition : forall nres ncie mp source q0 a b c ls s,
  run nres ncie mp (init source q0 a b c) ls = Some s ->
  chain 0 (handed s) (taken s) /\ taken s <= List.length (pl s).
Proof. intros nres ncie mp source q0 a b c ls s Hr. apply (handed_partition nres ncie mp). exact (reachable_inv _ _ _ _ _ _ _ _ _ _ Hr). Qed.
Print Assumptions c15_partition.

(** the index base a matcher loaded before `take` is the start of the slice it was handed, so
    item_idx = position in the pool; the slice ends at the pool length at the time of the take *)
Theorem c15_identity : forall nres ncie mp source q0 a b c ls s m,
  run nres ncie mp (init source q0 a b c) ls = Some s -> mt s = Some m -> took m = true ->
  mn m = mlo m /\ mlo m <= mhi m /\ mhi m = List.length (pl s) /\ taken s = mhi m.
Proof. intros nres ncie mp source q0 a b c ls s m Hr. apply (handoff_identity nres ncie mp). exact (reachable_inv _ _ _ _ _ _ _ _ _ _ Hr). Qed.
Print Assumptions c15_identity.

(** every published result names an item of the slice by its own pool position *)
Theorem c15_published_positions : forall nres ncie mp source q0 a b c ls s m x i,
  run nres ncie mp (init source q0 a b c) ls = Some s -> mt s = Some m -> published m = true ->
  In (x, i) (mres m) -> mlo m <= i < mhi m /\ nth_error (pl s) i = Some x /\ mp (mq m) x = true.
Proof. intros nres ncie mp source q0 a b c ls s m x i Hr. apply (published_positions nres ncie mp). exact (reachable_inv _ _ _ _ _ _ _ _ _ _ Hr). Qed.
Print Assumptions c15_published_positions.

(** header lines: whatever the chunking, the reserved items are the first [nres] items that
    arrived and the pool holds exactly the rest; both come from the source in order *)
Theorem c15_header : forall nres ncie mp source q0 a b c ls s,
  run nres ncie mp (init source q0 a b c) ls = Some s ->
  resv s = firstn nres (resv s ++ pl s) /\ pl s = skipn nres (resv s ++ pl s) /\
  (resv s ++ pl s) ++ rbuf s ++ src s = s0 s.
Proof.
  intros nres ncie mp source q0 a b c ls s Hr. pose proof (reachable_inv _ _ _ _ _ _ _ _ _ _ Hr) as HI.
  destruct (header_split nres ncie mp s HI). split; [|split]; auto. apply (arrived_prefix nres ncie mp s HI).
Qed.
Print Assumptions c15_header.

(** the header widget shows them above the list: after the --header lines, reserved item k is on
    row (fixed + k) from the top in the reverse layouts and from the bottom otherwise; what is shown
    is a prefix of its glyphs, inside columns 2..width-1, with no dots and no highlight *)
Theorem c15_header_shown : forall cw width height tab reverse fixed reserved out,
  header_rows cw width height tab reverse fixed reserved = Some out ->
  List.length out = List.length fixed + List.length reserved /\
  forall k t, nth_error (fixed ++ reserved) k = Some t ->
    nth_error out k = Some ((if reverse then k else height - k - 1), header_line cw width tab t) /\ k < height /\
    exists b, header_line cw width tab t = place cw 2 (firstn b (glyphs cw tab 0 (tagged MNone 0 7%N t))) /\
              Forall (fun c => 2 <= fst c < 2 + (width - 2)) (header_line cw width tab t).
Proof.
  intros cw width height tab reverse fixed reserved out H.
  destruct (header_rows_spec cw width height tab reverse fixed reserved out H) as [H1 H2].
  split; [exact H1|]. intros k t Hk. destruct (H2 k t Hk) as [Ha Hb]. split; [exact Ha|]. split; [exact Hb|].
  apply header_line_prefix.
Qed.
Print Assumptions c15_header_shown.

(** the lock: at most one holder under every schedule of any number of threads; a holder reads
    what the previous holder wrote and no completed update is lost (sequentially consistent CAS) *)
Theorem c15_mutual_exclusion : forall n sched s i j a b,
  lrun (linit n) sched = Some s ->
  nth_error (thr s) i = Some a -> nth_error (thr s) j = Some b ->
  holding a = true -> holding b = true -> i = j.
Proof. exact mutual_exclusion. Qed.
Print Assumptions c15_mutual_exclusion.

Theorem c15_no_lost_update : forall n sched s,
  lrun (linit n) sched = Some s ->
  data s = completed s /\ (forall i v, nth_error (thr s) i = Some (TRead v) -> v = data s).
Proof. exact no_lost_update. Qed.
Print Assumptions c15_no_lost_update.


(** the code still has the skeleton the transition system stands for: in the pool, the matcher's take and the lock, the
    shared-state operations extracted from the Rust sources on this run (Gen/PipelineOrder.v) are
    the ones, in the order, that the model's steps were written for (Model/PipelineOrder.v) *)
Theorem c15_code_skeleton :
  same_rows c15_rows code_order model_order = true.
Proof. vm_compute. reflexivity. Qed.
Print Assumptions c15_code_skeleton.

(** Non-vacuity: three header lines reserved across two chunks (2 + 3 items), two takes. *)
Definition ex_mp (qq : N) (x : item) : bool := true.
Definition ex_labels : list label :=
  [LPush; LPush; LHb; LMain; LMain; LMain; LMain; LMain; LMain; LMain;
   LMLoad; LMTake; LMPublish; LMNotify; LMFlag; LMExit; LPush; LPush; LPush;
   LHb; LMain; LMain; LMain; LMain; LMain; LMain; LMain; LMain; LMLoad; LMTake; LMPublish].
Example c15_example :
  exists s m, run 3 false ex_mp (init [10; 11; 12; 13; 14]%N 0%N false false false) ex_labels = Some s /\
              resv s = [10; 11; 12]%N /\ pl s = [13; 14]%N /\ handed s = [(0, 0); (0, 2)] /\
              mt s = Some m /\ mres m = [(13%N, 0); (14%N, 1)].
Proof. eexists. eexists. split; [vm_compute; reflexivity|]. cbn. repeat split; reflexivity. Qed.

Example c15_lock_example :
  exists s, lrun (linit 2) [0; 1; 0; 1; 1; 0; 0; 0; 1; 1; 1; 1] = Some s /\ data s = 2 /\ locked s = false.
Proof. eexists. split; [vm_compute; reflexivity|]. split; reflexivity. Qed.
