(** C03 — Each search term matches by its documented rule (fuzzy, ' ^ $ !, case, regex).
    Statements only.  The fuzzy-matcher library and the regex crate (regex mode) are oracles
    ([fz], [rx], [rx_valid]); exact terms are matched by the model itself.  Known findings:
    K1 (skim_v1 ignores the case option - inside the library configuration) and K2 (an empty body
    after ^/$ or with ! matches everything, see [c03_known_k2]). *)
From SkimV Require Import Common.Base Model.Engine Proof.Engine.

(** the decoding table, for every body [b] that carries no term syntax at its ends *)
Theorem c03_decode : forall em b, plain b ->
  decode_term em b = (if em then EExact b false false false else EFuzzy b) /\
  decode_term false (Q :: b) = EExact b false false false /\
  decode_term true (Q :: b) = EFuzzy b /\                      (* under --exact a leading ' makes the term fuzzy *)
  decode_term em (CARET :: b) = EExact b true false false /\
  decode_term em (b ++ [DOLLAR]) = EExact b false true false /\
  decode_term em (CARET :: b ++ [DOLLAR]) = EExact b true true false /\
  decode_term em (BANG :: b) = EExact b false false true /\
  decode_term em (BANG :: CARET :: b) = EExact b true false true.
Proof.
  intros em b H. destruct (decode_quote b H) as [Q1 Q2].
  split; [apply decode_plain; exact H|]. split; [exact Q1|]. split; [exact Q2|].
  split; [apply decode_caret; exact H|]. split; [apply decode_dollar; exact H|].
  split; [apply decode_caret_dollar; exact H|]. split; [apply decode_bang; exact H | apply decode_bang_caret; exact H].
Qed.
Print Assumptions c03_decode.

(** an empty term, a lone ! and a lone ' match everything *)
Theorem c03_match_all : forall fz rx rxv cm em t,
  decode_term em [] = EAll /\ decode_term em [BANG] = EAll /\ decode_term false [Q] = EAll /\
  decode_term true [Q] = EFuzzy [] /\
  is_match (eval fz rx rxv cm EAll (whole t)) = true /\ is_match (eval fz rx rxv cm (EFuzzy []) (whole t)) = true.
Proof.
  intros. destruct (decode_match_all em) as (A & B & C & D). repeat split; try assumption.
  rewrite eval_fuzzy_whole. reflexivity.
Qed.
Print Assumptions c03_match_all.

(** an exact term matches iff the remaining string occurs as a substring / prefix / suffix / the
    whole of the text under the case rule, and ! inverts the verdict *)
Theorem c03_exact_rule : forall sens pat pre post t,
  exact_in_slice sens pat pre post t <> None <-> occurs sens pat pre post t.
Proof. exact exact_in_slice_iff. Qed.
Print Assumptions c03_exact_rule.

Theorem c03_exact_verdict : forall fz rx rxv cm t p ps pre post inv,
  is_match (eval fz rx rxv cm (EExact (p :: ps) pre post inv) (whole t)) =
  xorb inv (match exact_in_slice (case_sensitive cm (p :: ps)) (p :: ps) pre post t with Some _ => true | None => false end).
Proof. exact eval_exact_whole. Qed.
Print Assumptions c03_exact_verdict.

(** a fuzzy term matches iff the library finds its characters in order (empty pattern: always;
    empty text: never) - with a library that answers Some exactly for subsequences under the case
    rule this is the documented rule *)
Theorem c03_fuzzy_verdict : forall fz rx rxv cm t pat,
  is_match (eval fz rx rxv cm (EFuzzy pat) (whole t)) =
  match pat with
  | [] => true
  | _ => match t with [] => false | _ => match fz pat t with Some _ => true | None => false end end
  end.
Proof. exact eval_fuzzy_whole. Qed.
Print Assumptions c03_fuzzy_verdict.

(** regex mode: matches iff the expression finds a match; an invalid expression filters nothing *)
Theorem c03_regex : forall fz rx rxv cm t pat,
  (rxv pat = false -> eval fz rx rxv cm (ERegex pat) (whole t) = Match (RBytes 0 0)) /\
  (rxv pat = true -> is_match (eval fz rx rxv cm (ERegex pat) (whole t)) = match rx pat t with Some _ => true | None => false end).
Proof. intros. split; [apply eval_regex_invalid | apply eval_regex_whole]. Qed.
Print Assumptions c03_regex.

(** smart case: letter case is ignored unless the term contains an upper-case ASCII letter *)
Theorem c03_case : forall pat,
  case_sensitive Respect pat = true /\ case_sensitive Ignore pat = false /\
  case_sensitive Smart pat = existsb is_upper pat.
Proof. intros. repeat split. Qed.
Print Assumptions c03_case.

(** Known finding K2 (witness): "^$" is given no pattern at all and matches a non-empty text,
    although the rule says it matches only the empty text; likewise "!^" matches everything. *)
Theorem c03_known_k2 : forall fz rx rxv cm,
  decode_term false [CARET; DOLLAR] = EExact [] true true false /\
  eval fz rx rxv cm (EExact [] true true false) (whole [97%N]) = Match (RBytes 0 0) /\
  decode_term false [BANG; CARET] = EExact [] true false true /\
  eval fz rx rxv cm (EExact [] true false true) (whole [97%N]) = Match (RBytes 0 0).
Proof. intros. repeat split; try reflexivity; apply eval_exact_empty. Qed.
Print Assumptions c03_known_k2.

Example c03_plain_inhabited : plain [97; 66; 99]%N.
Proof. cbn. repeat split; discriminate. Qed.
