(** C17 — Match highlight laid over coloured text changes only the matched characters.
    Statements only.  A fragment is (attr, (start, end)), end exclusive, over character indices;
    [lookup l k] is the attribute the iterator gives character k (None = the default attribute). *)
From SkimV Require Import Common.Base Model.Merge Proof.Merge.

(** For every arrangement of well-formed coloured ranges [old] and highlight ranges [new]
    (ordered, non-overlapping, empty ones allowed): the merge terminates within its fuel, the
    result is well-formed again, and every character inside a highlight range gets the highlight
    attribute while every other character keeps exactly the attribute it had. *)
Theorem c17_merge : forall (A : Type) (old new : list (A * (N * N))), WF old -> WF new ->
  exists r, merge_fragments old new = Some r /\ WF r /\
    forall k, lookup r k = match lookup new k with Some a => Some a | None => lookup old k end.
Proof. intros A. exact merge_spec. Qed.
Print Assumptions c17_merge.

(** the stateful character iterator (fragment index only advances) computes [lookup] *)
Theorem c17_iterator : forall (A : Type) (l : list (A * (N * N))) n,
  iter_attrs l n = map (lookup l) (map N.of_nat (seq 0 n)).
Proof. intros A. exact iter_attrs_lookup. Qed.
Print Assumptions c17_iterator.

(** on well-formed lists the iterator's rule is "the fragment containing the character" *)
Theorem c17_lookup_is_containing_fragment : forall (A : Type) (l : list (A * (N * N))) k,
  WF l -> lookup l k = den l k.
Proof. intros A l k W. exact (lookup_den 0 l k W). Qed.
Print Assumptions c17_lookup_is_containing_fragment.

(** End to end, as displayed: the attributes the iterator yields for the first n characters of the
    merged line are, character by character, the highlight attribute inside a highlight range and
    the old attribute elsewhere. *)
Theorem c17_displayed : forall (A : Type) (old new : list (A * (N * N))) n, WF old -> WF new ->
  exists r, merge_fragments old new = Some r /\
    iter_attrs r n = map (fun k => over (lookup new k) (lookup old k)) (map N.of_nat (seq 0 n)).
Proof. intros A. exact merge_displayed. Qed.
Print Assumptions c17_displayed.

(** AnsiString::override_attrs (what DefaultSkimItem::display calls): on a string without colours
    the highlights are taken as they are, with no highlights the string is untouched, otherwise the
    merge; in every case the pointwise law holds and the ranges stay ordered and non-overlapping. *)
Theorem c17_override_attrs : forall (A : Type) (cur : option (list (A * (N * N)))) attrs, WFo cur -> WF attrs ->
  exists r, override_attrs cur attrs = Some r /\ WFo r /\
    forall k, lookupo r k = over (lookup attrs k) (lookupo cur k).
Proof. intros A. exact override_spec. Qed.
Print Assumptions c17_override_attrs.

(** Two successive layers (the result of one merge is a legal input of the next): the later layer
    wins, then the earlier one, then the colours of the text; nothing else changes. *)
Theorem c17_two_layers : forall (A : Type) (old h1 h2 : list (A * (N * N))), WF old -> WF h1 -> WF h2 ->
  exists r1 r2, merge_fragments old h1 = Some r1 /\ merge_fragments r1 h2 = Some r2 /\ WF r2 /\
    forall k, lookup r2 k = over (lookup h2 k) (over (lookup h1 k) (lookup old k)).
Proof. intros A. exact merge_two_layers. Qed.
Print Assumptions c17_two_layers.

(** Laying the same highlight ranges a second time changes no character. *)
Theorem c17_idempotent : forall (A : Type) (old new : list (A * (N * N))), WF old -> WF new ->
  exists r1 r2, merge_fragments old new = Some r1 /\ merge_fragments r1 new = Some r2 /\
    forall k, lookup r2 k = lookup r1 k.
Proof. intros A. exact merge_idempotent. Qed.
Print Assumptions c17_idempotent.

(** Non-vacuity: nested, adjacent, empty and trailing ranges. *)
Example c17_example :
  let old := [(1, (0, 4)); (2, (4, 4)); (3, (6, 9))]%N in
  let new := [(7, (1, 2)); (8, (2, 2)); (9, (3, 7))]%N in
  WF old /\ WF new /\
  merge_fragments old new = Some [(1, (0, 1)); (7, (1, 2)); (8, (2, 2)); (1, (2, 3)); (9, (3, 7)); (3, (7, 9))]%N.
Proof. cbn zeta. split; [|split]; [cbn; lia | cbn; lia | vm_compute; reflexivity]. Qed.
