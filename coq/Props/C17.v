(** C17 — Match highlight laid over coloured text changes only the matched characters.
    Statements only.  A fragment is (attr, (start, end)), end exclusive, over character indices;
    [lookup l k] is the attribute the iterator gives character k (None = the default attribute). *)
From SkimV Require Import Common.Base Model.Merge Proof.Merge.

(** For every arrangement of well-formed coloured ranges [old] and highlight ranges [new]
    (ordered, non-overlapping, empty ones allowed): the merge terminates within its fuel, the
    result is well-formed again, and every character inside a highlight range gets the highlight
    attribute while every other character keeps exactly the attribute it had. *)
Theorem c17_merge : forall (A : Type) (old new : list (A * (N * N))), WF old -> WF new ->
  exists r, merge_fragments old new = Some r /\ WF r /\
    forall k, lookup r k = match lookup new k with Some a => Some a | None => lookup old k end.
Proof. intros A. exact merge_spec. Qed.
Print Assumptions c17_merge.

(** the stateful character iterator (fragment index only advances) computes [lookup] *)
Theorem c17_iterator : forall (A : Type) (l : list (A * (N * N))) n,
  iter_attrs l n = map (lookup l) (map N.of_nat (seq 0 n)).
Proof. intros A. exact iter_attrs_lookup. Qed.
Print Assumptions c17_iterator.

(** on well-formed lists the iterator's rule is "the fragment containing the character" *)
Theorem c17_lookup_is_containing_fragment : forall (A : Type) (l : list (A * (N * N))) k,
  WF l -> lookup l k = den l k.
Proof. intros A l k W. exact (lookup_den 0 l k W). Qed.
Print Assumptions c17_lookup_is_containing_fragment.

(** Non-vacuity: nested, adjacent, empty and trailing ranges. *)
Example c17_example :
  let old := [(1, (0, 4)); (2, (4, 4)); (3, (6, 9))]%N in
  let new := [(7, (1, 2)); (8, (2, 2)); (9, (3, 7))]%N in
  WF old /\ WF new /\
  merge_fragments old new = Some [(1, (0, 1)); (7, (1, 2)); (8, (2, 2)); (1, (2, 3)); (9, (3, 7)); (3, (7, 9))]%N.
Proof. cbn zeta. split; [|split]; [cbn; lia | cbn; lia | vm_compute; reflexivity]. Qed.
