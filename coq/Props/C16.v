(** C16 — --ansi: escape sequences leave the text, colours land on the right characters.
    Statements only.  The parser is modelled as skim's vte::Perform implementation folded over the
    callback sequence the vte tokeniser produces for the line (the tokeniser itself is a library). *)
From SkimV Require Import Common.Base Gen.SgrTable Model.Merge Model.Ansi Proof.Merge Proof.Ansi.
Local Open Scope N_scope.

(** The generated table of SGR match arms equals the documented meaning of every code a u16
    parameter can take (finite sweep over all 65536 values): reset, bold, dim, underline, blink,
    reverse, 8/16-colour foreground and background, their defaults, the two extended forms,
    everything else ignored. *)
Theorem c16_sgr_table : forall c, c < 65536 -> table_upd c = spec_upd c.
Proof. exact table_is_spec. Qed.
Print Assumptions c16_sgr_table.

(** The parameter loop equals the documented reading of a parameter list, including the 256-colour
    and RGB forms, unknown selectors and truncated forms. *)
Theorem c16_sgr_loop : forall ps a, codes_u16 ps -> sgr ps a = sgr_spec ps a.
Proof. intros ps a H. exact (sgr_is_spec (length ps) ps a (Nat.le_refl _) H). Qed.
Print Assumptions c16_sgr_loop.

(** malformed / truncated extended forms change nothing; unknown codes are ignored *)
Theorem c16_malformed_local : forall a r g,
  sgr_spec [[38]] a = a /\ sgr_spec [[48]] a = a /\
  sgr_spec [[38]; [5]] a = a /\ sgr_spec [[48]; [5]] a = a /\
  sgr_spec [[38]; [2]] a = a /\ sgr_spec [[38]; [2]; r] a = a /\ sgr_spec [[38]; [2]; r; g] a = a /\
  sgr_spec [[48]; [2]] a = a /\ sgr_spec [[48]; [2]; r] a = a /\ sgr_spec [[48]; [2]; r; g] a = a.
Proof. exact truncated_ext_identity. Qed.
Print Assumptions c16_malformed_local.

Theorem c16_unknown_ignored : forall c rest a, spec_upd c = UId -> sgr_spec ([c] :: rest) a = sgr_spec rest a.
Proof. exact unknown_code_ignored. Qed.
Print Assumptions c16_unknown_ignored.

(** Parsing a line on a parser that is between two lines: iter() yields exactly the characters
    that were printed, in order, each with the attribute that was current when it was printed
    (positions are character counts); the returned text is those characters; the parser keeps the
    final attribute for the next line (header / preview carry-over) and is clean again. *)
Theorem c16_attr_pointwise : forall s cbs, clean s -> no_backspace cbs ->
  let (x, s') := parse_ansi s cbs in
  iter x = fst (ref_run cbs (last_attr s)) /\
  a_text x = map fst (fst (ref_run cbs (last_attr s))) /\
  last_attr s' = snd (ref_run cbs (last_attr s)) /\ clean s'.
Proof. exact parse_pointwise. Qed.
Print Assumptions c16_attr_pointwise.

(** the text: printed characters, NUL/CR/LF/TAB and nothing else; CSI sequences contribute nothing *)
Theorem c16_text : forall cbs cur, map fst (fst (ref_run cbs cur)) = printed cbs.
Proof. exact ref_run_text. Qed.
Print Assumptions c16_text.

(** a line without escape sequences or control characters is returned unchanged and carries no
    attributes (on a parser whose current attribute is the default, e.g. a fresh one per item) *)
Theorem c16_plain : forall s chars, clean s -> last_attr s = default_attr ->
  let (x, s') := parse_ansi s (map Print chars) in
  a_text x = chars /\ has_attrs x = false /\ last_attr s' = default_attr.
Proof. exact plain_line. Qed.
Print Assumptions c16_plain.

(** every input item starts from default attributes: a fresh parser is clean and default *)
Theorem c16_fresh : clean fresh /\ last_attr fresh = default_attr.
Proof. repeat split. Qed.
Print Assumptions c16_fresh.

(** Non-vacuity: ESC[1;31m a ESC[38;5;200m 中 ESC[0m b, as vte reports it. *)
Example c16_example :
  let cbs := [Csi [[1]; [31]] 109; Print 97; Csi [[38]; [5]; [200]] 109; Print 20013; Csi [[0]] 109; Print 98] in
  no_backspace cbs /\
  iter (fst (parse_ansi fresh cbs)) =
    [(97, {| fg := CAnsi 1; bg := CDefault; eff := 1 |});
     (20013, {| fg := CAnsi 200; bg := CDefault; eff := 1 |});
     (98, default_attr)].
Proof. cbn zeta. split; [repeat constructor; discriminate | vm_compute; reflexivity]. Qed.
