(** C20 — The preview ends up showing the latest requested item, never an older one.
    Statements only.  The previewer is the transition system of Model/Preview.v: the front end sends
    numbered requests (command / text / no-op), the worker receives one, kills and joins the previous
    waiter, drains the channel to the newest request and handles it; a child may exit by itself or be
    killed; the waiter shows the output of a normally exited child only.  [prun pinit ls] is the
    state after any label sequence [ls]. *)
From SkimV Require Import Common.Base Model.Preview Proof.Preview.
From Coq Require Import Sorted.

(** the outputs put into the pane are those of strictly increasing request numbers: an earlier
    request's output never replaces a later one's, whatever the timing of sends, child exits,
    kills and the worker loop *)
Theorem c20_monotone : forall ls s, prun pinit ls = Some s -> StronglySorted lt (shown s).
Proof. exact shown_monotone. Qed.
Print Assumptions c20_monotone.

(** once preview activity settles (channel empty, worker waiting, no child still to report) the
    newest request is the one that was handled, and unless it was a no-op (no current item) the pane
    shows its output *)
Theorem c20_latest : forall ls s,
  prun pinit ls = Some s -> psettled s -> 0 < next s ->
  exists k, handled s = Some (next s - 1, k) /\ (k <> KNoop -> content s = Some (next s - 1)).
Proof. exact settled_latest. Qed.
Print Assumptions c20_latest.

(** the output of a child that was terminated by the kill is dropped *)
Theorem c20_killed_discarded : forall s s' w,
  pstep s PWaiter = Some s' -> wt s = Some w -> w_stat w = Killed -> content s' = content s /\ shown s' = shown s.
Proof. exact killed_discarded. Qed.
Print Assumptions c20_killed_discarded.

(** the kill is aimed at the child of an older request than the one being served, and the worker
    does not go on before that waiter has returned (PJoin is enabled only then) *)
Theorem c20_kill_targets_older : forall ls s e w,
  prun pinit ls = Some s -> wk s = WGot e -> wt s = Some w -> w_no w < fst e.
Proof. exact kill_targets_older. Qed.
Print Assumptions c20_kill_targets_older.

(** a request identical to the previous one is not re-run unless refresh is forced; any change of
    item, query, command query or NUMBER of selected items, or force, sends one.  (Known finding K4:
    the selected items enter this comparison only through their number, so a selection that changes
    while keeping its size is the first case, not the second.) *)
Theorem c20_no_rerun : forall f, on_item_change f (f_item f) (f_query f) (f_cmdq f) (f_nsel f) false = (false, f).
Proof. exact no_rerun. Qed.
Print Assumptions c20_no_rerun.

Theorem c20_rerun_when_changed : forall f item q cq nsel force,
  fst (on_item_change f item q cq nsel force) = true <->
  force = true \/ opt_changed N.eqb (f_item f) item = true \/ opt_changed text_eqb (f_query f) q = true \/
  opt_changed text_eqb (f_cmdq f) cq = true \/ f_nsel f <> nsel.
Proof. exact rerun_when_changed. Qed.
Print Assumptions c20_rerun_when_changed.

(** vertical scroll stays within the content: between line 1 and the last line but one *)
Theorem c20_scroll : forall off diff len, 1 <= scroll_down off diff len <= Nat.max (len - 1) 1.
Proof. exact scroll_in_range. Qed.
Print Assumptions c20_scroll.

(** ... and so does the position a preview itself asks for *)
Theorem c20_scroll_init : forall req len, 1 <= scroll_init req len <= Nat.max (len - 1) 1.
Proof. exact scroll_init_in_range. Qed.
Print Assumptions c20_scroll_init.

(** "once preview activity settles": it does.  Without a further request every run of the previewer
    (worker loop, child, waiter, in any order) is at most [prank s] steps long -- six per queued
    request, five for a request in the worker's hands, two for a running child -- and a state that is
    not settled always has a step other than a new request (the exit of a running child is one: the
    preview command is assumed to terminate; everything else is the previewer's own).  So activity
    after the last request ends, in a settled state, where c20_settled_latest applies. *)
Theorem c20_settles_bounded : forall ls s s',
  Forall nosend ls -> prun s ls = Some s' -> List.length ls + prank s' <= prank s.
Proof. exact settles_bounded. Qed.
Print Assumptions c20_settles_bounded.

Theorem c20_unsettled_enabled : forall s, ~ psettled s -> exists l s', nosend l /\ pstep s l = Some s'.
Proof. exact unsettled_enabled. Qed.
Print Assumptions c20_unsettled_enabled.

(** Non-vacuity: request 0 (command) is overtaken while its child runs: killed, dropped; requests
    1 and 2 arrive together, 1 is skipped; request 2's child exits by itself and is shown. *)
Example c20_example :
  exists s, prun pinit [PSend KCmd; PRecv; PJoin; PDrain; PHandle; PSend KCmd; PSend KCmd; PRecv; PKill; PWaiter; PJoin;
                        PDrain; PHandle; PChildExit; PWaiter] = Some s /\
            psettled s /\ shown s = [2] /\ content s = Some 2 /\ next s = 3.
Proof. eexists. split; [vm_compute; reflexivity|]. unfold psettled. cbn. repeat split; reflexivity. Qed.
