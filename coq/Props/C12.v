(** C12 — Field ranges (--nth, --with-nth, {N}) select exactly the designated fields.
    Statements only.  The delimiter's matches enter as data ([ms]: the regex crate's find_iter
    spans, in order, non-overlapping, inside the line — [wfms]). *)
From SkimV Require Import Common.Base Model.Field Proof.Field.
From Coq Require Import String.
Local Open Scope Z_scope.

(** A range over k fields selects exactly the fields of its clipped set (negative numbers count
    from the end); the result is the 0-based half-open index pair of a non-empty set ... *)
Theorem c12_index_pair_some : forall r K a b, to_index_pair r K = Some (a, b) ->
  (forall i, selected r (Z.of_N K) i <-> Z.of_N a + 1 <= i <= Z.of_N b) /\ (a < b)%N /\ (b <= K)%N.
Proof. exact index_pair_some. Qed.
Print Assumptions c12_index_pair_some.

(** ... and nothing exactly when the set is empty (empty or out-of-bounds range) *)
Theorem c12_index_pair_none : forall r K, to_index_pair r K = None -> forall i, ~ selected r (Z.of_N K) i.
Proof. exact index_pair_none. Qed.
Print Assumptions c12_index_pair_none.

(** Splitting at every delimiter match gives fields 1..k (k = matches + 1): field j starts at the
    end of the previous match (or 0) and ends at the start of its own delimiter (or the line end). *)
Theorem c12_fields : forall ms len j d, (j <= List.length ms)%nat ->
  List.length (ranges_by_delimiter ms len) = S (List.length ms) /\
  nth j (ranges_by_delimiter ms len) d = (field_begin ms j, field_end ms len j).
Proof. intros ms len j d H. split; [apply ranges_from_length | apply ranges_nth, H]. Qed.
Print Assumptions c12_fields.

(** --nth / --with-nth: a selecting range yields the bytes from the start of its first field up to
    the start of the field after its last one (each field with the delimiter that follows it) ... *)
Theorem c12_owner : forall ms len f b e,
  field_span (ranges_by_delimiter ms len) len f = Some (b, e) ->
  exists start stop, to_index_pair f (N.of_nat (S (List.length ms))) = Some (start, stop) /\
    b = field_begin ms (N.to_nat start) /\
    e = (if Nat.ltb (N.to_nat stop) (S (List.length ms)) then field_begin ms (N.to_nat stop) else len).
Proof. exact field_span_spec. Qed.
Print Assumptions c12_owner.

(** ... while {N}-style placeholders stop before the trailing delimiter of the last field *)
Theorem c12_placeholder_fields : forall ms len f b e, get_string_by_field ms len f = Some (b, e) ->
  exists start stop, to_index_pair f (N.of_nat (S (List.length ms))) = Some (start, stop) /\
    b = field_begin ms (N.to_nat start) /\ e = field_end ms len (N.to_nat stop - 1).
Proof. exact get_string_spec. Qed.
Print Assumptions c12_placeholder_fields.

(** All byte ranges produced lie inside the line and start/end at 0, the line's length or an
    endpoint of a delimiter match — character boundaries whenever the matches are. *)
Theorem c12_boundaries : forall ms len f b e, wfms 0 ms len ->
  field_span (ranges_by_delimiter ms len) len f = Some (b, e) \/ get_string_by_field ms len f = Some (b, e) ->
  (b <= e <= len)%N /\ boundary ms len b /\ boundary ms len e.
Proof. intros ms len f b e W [H|H]; [eapply span_bounds | eapply get_string_bounds]; eassumption. Qed.
Print Assumptions c12_boundaries.

(** --with-nth shows the concatenation of the selected fields in the order written *)
Theorem c12_with_nth_order : forall ms len fs1 fs2,
  parse_transform_fields ms len (fs1 ++ fs2) = parse_transform_fields ms len fs1 ++ parse_transform_fields ms len fs2.
Proof. exact matching_fields_app. Qed.
Print Assumptions c12_with_nth_order.

(** Non-vacuity: "a,b,,c" split at ",": fields a | b | (empty) | c. *)
Example c12_example :
  let ms := [(1, 2); (3, 4); (4, 5)]%N in
  wfms 0 ms 6 /\
  option_map (fun r => parse_matching_fields ms 6 [r]) (from_str (codes "2..-2"%string)) = Some [(2, 5)]%N /\
  option_map (get_string_by_field ms 6) (from_str (codes "-1"%string)) = Some (Some (5, 6))%N /\
  option_map (get_string_by_field ms 6) (from_str (codes "5.."%string)) = Some None.
Proof. cbn zeta. split; [cbn; lia|]. vm_compute. repeat split; reflexivity. Qed.
