(** C05 — Accept returns the item under the cursor or the selected set (Selection level:
    get_selected_indices_and_items).  Statements only. *)
From SkimV Require Import Common.Base Model.Selection Proof.Selection Proof.SelectionSet.
From Coq Require Import Sorted.

(** single-selection mode: exactly the item on the cursor row, nothing if the list is empty *)
Theorem c05_single : forall s, Good s -> multi s = false -> selected s = [] ->
  output s = Some (if (nitems s =? 0)%N then ([], []) else
                   ([cursor_idx s], match current_item s with Some i => [i] | None => [] end)) /\
  ((0 < nitems s)%N -> current_item s <> None).
Proof. exact output_single. Qed.
Print Assumptions c05_single.

(** multi-selection mode: exactly the selected items, in key order = (command run, input position) *)
Theorem c05_multi_selected : forall s, SelInv s -> multi s = true -> selected s <> [] ->
  output s = Some (map (fun kv => snd (fst kv)) (selected s), map snd (selected s)) /\
  StronglySorted key_lt (map fst (selected s)).
Proof. intros s HI Hm Hs. split; [apply output_multi_selected; assumption | apply wf_sorted, HI]. Qed.
Print Assumptions c05_multi_selected.

(** ... or the cursor item when nothing is selected *)
Theorem c05_multi_none : forall s, Good s -> multi s = true -> selected s = [] ->
  output s = Some (if (nitems s =? 0)%N then ([], []) else
                   ([cursor_idx s], match current_item s with Some i => [i] | None => [] end)).
Proof. exact output_multi_none. Qed.
Print Assumptions c05_multi_none.

(** the accept path never panics in a reachable state *)
Theorem c05_no_panic : forall rev mul ops, Forall op_bounded ops -> (Z.of_nat (total_len ops) < B)%Z ->
  exists s, run_ops (init rev mul) ops = Some s /\ output s <> None.
Proof.
  intros rev mul ops Hb Hl. destruct (run_good ops (init rev mul) (init_good rev mul) Hb Hl) as (s & E & G).
  exists s. split; [exact E | apply output_no_panic, G].
Qed.
Print Assumptions c05_no_panic.

(** single mode keeps the set empty in every reachable state (with or without a selector
    configured: [k] is the selector, 0 = none), so c05_single applies *)
Theorem c05_single_set_empty : forall rev k ops s, run_ops (init_sel rev false k) ops = Some s ->
  multi s = false /\ selected s = [].
Proof. exact single_set_empty. Qed.
Print Assumptions c05_single_set_empty.

Example c05_example :
  let mk i := {| mi_idx := i; mi_id := 100 + i; mi_rank := Z.of_N i |} in
  option_map output (run_ops (init false true) [AppendItems [mk 5; mk 2; mk 9]%N; Up 1; Toggle; Up 1; Toggle; Down 2])
  = Some (Some ([5; 9], [105; 109]))%N.
Proof. vm_compute. reflexivity. Qed.
