(** C05 — Accept returns the item under the cursor or the selected set (Selection level:
    get_selected_indices_and_items).  Statements only. *)
From SkimV Require Import Common.Base Model.Selection Proof.Selection Proof.SelectionSet.
From Coq Require Import Sorted.

(** single-selection mode: exactly the item on the cursor row, nothing if the list is empty *)
Theorem c05_single : forall s, Good s -> multi s = false -> selected s = [] ->
  output s = Some (if (nitems s =? 0)%N then ([], []) else
                   ([cursor_idx s], match current_item s with Some i => [i] | None => [] end)) /\
  ((0 < nitems s)%N -> current_item s <> None).
Proof. exact output_single. Qed.
Print Assumptions c05_single.

(** multi-selection mode: exactly the selected items, in key order = (command run, input position) *)
Theorem c05_multi_selected : forall s, SelInv s -> multi s = true -> selected s <> [] ->
  output s = Some (map (fun kv => snd (fst kv)) (selected s), map snd (selected s)) /\
  StronglySorted key_lt (map fst (selected s)).
Proof. intros s HI Hm Hs. split; [apply output_multi_selected; assumption | apply wf_sorted, HI]. Qed.
Print Assumptions c05_multi_selected.

(** ... or the cursor item when nothing is selected *)
Theorem c05_multi_none : forall s, Good s -> multi s = true -> selected s = [] ->
  output s = Some (if (nitems s =? 0)%N then ([], []) else
                   ([cursor_idx s], match current_item s with Some i => [i] | None => [] end)).
Proof. exact output_multi_none. Qed.
Print Assumptions c05_multi_none.

(** the accept path never panics in a reachable state *)
Theorem c05_no_panic : forall rev mul ops, Forall op_bounded ops -> (Z.of_nat (total_len ops) < B)%Z ->
  exists s, run_ops (init rev mul) ops = Some s /\ output s <> None.
Proof.
  intros rev mul ops Hb Hl. destruct (run_good ops (init rev mul) (init_good rev mul) Hb Hl) as (s & E & G).
  exists s. split; [exact E | apply output_no_panic, G].
Qed.
Print Assumptions c05_no_panic.

(** single mode keeps the set empty in every reachable state, so c05_single applies *)
Theorem c05_single_set_empty : forall rev ops s, run_ops (init rev false) ops = Some s ->
  multi s = false /\ selected s = [].
Proof.
  intros rev ops s E.
  assert (Hm : forall ops s0 s1, multi s0 = false -> run_ops s0 ops = Some s1 -> multi s1 = false).
  { induction ops0 as [|o ops0 IH]; intros s0 s1 H0 E0; cbn [run_ops] in E0; [inversion E0; subst; exact H0|].
    destruct (step s0 o) as [s2|] eqn:Es; [|discriminate]. apply (IH s2 s1); [|exact E0].
    destruct (is_sel_action o) eqn:Ha.
    - destruct o; cbn in Ha; try discriminate; cbn [step] in Es.
      + destruct (single_mode_ignores s0 H0) as (T & _). rewrite T in Es. inversion Es; subst; exact H0.
      + inversion Es; subst. destruct (single_mode_ignores s0 H0) as (_ & T & _). rewrite T. exact H0.
      + inversion Es; subst. destruct (single_mode_ignores s0 H0) as (_ & _ & T). rewrite T. exact H0.
      + inversion Es; subst. exact H0.
      + inversion Es; subst. unfold act_select_raw_item. rewrite H0. exact H0.
      + inversion Es; subst. unfold act_select_raw_item. rewrite H0. exact H0.
    - destruct (other_ops_keep_selected s0 o s2 Ha Es) as [_ H2]. congruence. }
  pose proof (Hm ops (init rev false) s eq_refl E) as M. split; [exact M|].
  apply (run_SelInv ops _ _ (init_SelInv rev false) E). exact M.
Qed.
Print Assumptions c05_single_set_empty.

Example c05_example :
  let mk i := {| mi_idx := i; mi_id := 100 + i; mi_rank := Z.of_N i |} in
  option_map output (run_ops (init false true) [AppendItems [mk 5; mk 2; mk 9]%N; Up 1; Toggle; Up 1; Toggle; Down 2])
  = Some (Some ([5; 9], [105; 109]))%N.
Proof. vm_compute. reflexivity. Qed.
