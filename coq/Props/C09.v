(** C09 — The cursor always designates an existing row inside the viewport.
    Statements only.  Size window: list sizes, cursor positions and single move distances below
    2^29, heights and page counts at most 2^14 (so that no i32 computation of the code overflows);
    within it every history is covered, including moves before the first draw and on an empty list. *)
From SkimV Require Import Common.Base Model.Selection Proof.Selection.
Local Open Scope Z_scope.

(** No checked operation fails (no panic, no wrap-around) in any history, and in every reachable
    state a non-empty list has its cursor on an existing result. *)
Theorem c09_valid_no_error : forall rev mul ops, Forall op_bounded ops -> Z.of_nat (total_len ops) < B ->
  exists s, run_ops (init rev mul) ops = Some s /\ Good s.
Proof. intros rev mul ops Hb Hl. apply run_good; [apply init_good | exact Hb | exact Hl]. Qed.
Print Assumptions c09_valid_no_error.

Theorem c09_designates_existing : forall s, Good s -> (0 < nitems s)%N ->
  (cursor_idx s < nitems s)%N /\ exists it, item_at s (cursor_idx s) = Some it.
Proof. intros s HG Hp. split; [apply (proj2 HG), Hp | apply item_at_valid; [apply HG | exact Hp]]. Qed.
Print Assumptions c09_designates_existing.

(** The line cursor stays below the (effective) height that was known at the last cursor move: if
    the window has not shrunk since, the cursor row is inside the window. *)
Theorem c09_in_window : forall rev mul ops, Forall op_bounded ops -> Z.of_nat (total_len ops) < B ->
  exists s g, run_g (init rev mul) 1 ops = Some (s, g) /\ Good s /\ Z.of_N (lc s) < g /\
              (g <= eff_h s -> Z.of_N (lc s) < eff_h s).
Proof.
  intros rev mul ops Hb Hl.
  destruct (run_g_inv ops (init rev mul) 1 (init_good rev mul) Hb Hl) as (s & g & E & G & L & _); [cbn; lia | lia |].
  exists s, g. split; [exact E|]. split; [exact G|]. split; [exact L|]. intros H. lia.
Qed.
Print Assumptions c09_in_window.

(** Moving by k rows changes the designated index by exactly k (sign by layout), clamped to the
    first and last result; a page is the window height minus one. *)
Theorem c09_exact_up : forall s k s', Good s -> (0 < nitems s)%N -> - B < k < B -> step s (Up k) = Some s' ->
  Z.of_N (cursor_idx s') = clamp (Z.of_N (cursor_idx s) + (if reverse s then - k else k)) 0 (Z.of_N (nitems s) - 1).
Proof. exact up_exact. Qed.
Print Assumptions c09_exact_up.

Theorem c09_exact_down : forall s k s', Good s -> (0 < nitems s)%N -> - B < k < B -> step s (Down k) = Some s' ->
  Z.of_N (cursor_idx s') = clamp (Z.of_N (cursor_idx s) - (if reverse s then - k else k)) 0 (Z.of_N (nitems s) - 1).
Proof. exact down_exact. Qed.
Print Assumptions c09_exact_down.

Theorem c09_exact_page : forall s up k half s', Good s -> (0 < nitems s)%N -> - HB <= k <= HB ->
  page s up k half = Some s' ->
  Z.of_N (cursor_idx s') =
  clamp (Z.of_N (cursor_idx s) + (if reverse s then - page_rows s up k half else page_rows s up k half))
        0 (Z.of_N (nitems s) - 1).
Proof. exact page_exact. Qed.
Print Assumptions c09_exact_page.

(** Non-vacuity: a concrete history (moves before the first draw, a shrinking window, a clear). *)
Definition mk (i : N) (r : Z) : mitem := {| mi_idx := i; mi_id := i; mi_rank := r |}.
Example c09_example :
  let ops := [AppendItems [mk 1 5; mk 2 3; mk 3 9]; Up 1; Draw 2; Up 7; Draw 1; Clear; AppendItems [mk 4 1]; PageUp 1] in
  Forall op_bounded ops /\ Z.of_nat (total_len ops) < B /\
  option_map (fun s => (cursor_idx s, nitems s)) (run_ops (init false false) ops) = Some (0%N, 1%N).
Proof. cbn zeta. split; [repeat constructor; cbn; unfold B, HB; lia|]. split; [vm_compute; reflexivity | vm_compute; reflexivity]. Qed.
