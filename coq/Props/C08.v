(** C08 — Reported match positions are valid and are a witness of the match.  Statements only. *)
From SkimV Require Import Common.Base Model.Engine Proof.Engine.
From Coq Require Import String.

(** exact (and prefix/suffix/whole) terms: the reported byte span, shifted from the matched field
    to the whole text, lies inside the text on character boundaries and covers an occurrence of the
    term under the case rule *)
Theorem c08_exact_span : forall t s e pre_t sl sens pat pre post b e',
  slice t s e = Some (pre_t, sl) -> exact_in_slice sens pat pre post sl = Some (b, e') ->
  exists a m c, t = a ++ m ++ c /\ blen a = (b + s)%N /\ (blen a + blen m)%N = (e' + s)%N /\ same sens pat m.
Proof. exact exact_span_valid. Qed.
Print Assumptions c08_exact_span.

(** fuzzy terms: if the library's indices are valid inside the matched field (strictly
    increasing, inside the field) then the reported indices are valid in the whole text and
    designate the very same characters *)
Theorem c08_fuzzy_shift : forall (pre sl post : text) idx, valid_indices idx (List.length sl) ->
  let shifted := map (fun x => x + N.of_nat (List.length pre))%N idx in
  valid_indices shifted (List.length (pre ++ sl ++ post)) /\
  (forall k i, nth_error idx k = Some i ->
     nth_error (pre ++ sl ++ post) (N.to_nat (i + N.of_nat (List.length pre))) = nth_error sl (N.to_nat i)).
Proof. exact fuzzy_shift_valid. Qed.
Print Assumptions c08_fuzzy_shift.

(** slices taken at byte offsets are exact: what precedes the slice has that many bytes, so the
    `chars().count()` shift is the number of characters before the field *)
Theorem c08_slice : forall t s e pre m, slice t s e = Some (pre, m) ->
  exists post, t = pre ++ m ++ post /\ blen pre = s /\ blen m = (e - s)%N /\ (s <= e)%N.
Proof. exact slice_spec. Qed.
Print Assumptions c08_slice.

(** a multi-term alternative reports the sorted union of its terms' positions: strictly
    increasing, exactly the members of the union *)
Theorem c08_union : forall l, strict_N (dedup_N (sort_N l)) /\ forall y, In y (dedup_N (sort_N l)) <-> In y l.
Proof. exact merged_positions. Qed.
Print Assumptions c08_union.

(** inverse and match-all terms report the empty span *)
Theorem c08_empty_span : forall fz rx rxv cm t pre post inv,
  eval fz rx rxv cm EAll (whole t) = Match (RBytes 0 0) /\
  eval fz rx rxv cm (EExact [] pre post inv) (whole t) = Match (RBytes 0 0).
Proof. intros. split; [reflexivity | apply eval_exact_empty]. Qed.
Print Assumptions c08_empty_span.

Example c08_example :
  let t := [97; 20013; 98; 44; 99; 20013; 100]%N in           (* a中b,c中d *)
  slice t 6 11 = Some ([97; 20013; 98; 44], [99; 20013; 100])%N /\
  exact_in_slice false [20013; 68]%N false false [99; 20013; 100]%N = Some (1, 5)%N.
Proof. vm_compute. split; reflexivity. Qed.
