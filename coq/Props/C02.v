(** C02 — Results are listed in rank order (input order with --no-sort), reversed by --tac.
    Statements only; proofs are [exact]/[apply] of lemmas in Proof/OrderedVec.v.
    The two constants come from Gen/OrderedVecConst.v (regenerated from src/orderedvec.rs on
    every run); the only fact used about them is SPILL_THRESHOLD <= MOVE_LIMIT. *)
From SkimV Require Import Common.Base Gen.OrderedVecConst Model.OrderedVec Proof.OrderedVec.
From Coq Require Import Permutation.

Definition MAXn : nat := N.to_nat MOVE_LIMIT.
Definition THRn : nat := N.to_nat SPILL_THRESHOLD.

(** the spill triggers whenever the move loop may have stopped on its limit *)
Lemma spill_covers_move_limit : THRn <= MAXn.
Proof. vm_compute. repeat constructor. Qed.

Section C02.
  Context {T : Type}.
  Variable le : T -> T -> bool.                       (* the rank order, a total preorder *)
  Hypothesis le_total : forall a b, le a b = true \/ le b a = true.
  Hypothesis le_trans : forall a b c, le a b = true -> le b c = true -> le a c = true.

  (** the vector reached from empty by any history, in configuration (tac, nosort) *)
  Definition reached (t n : bool) (ops : list (op T)) : ov T := run le MAXn THRn (empty t n) ops.
  (** what a complete read of a state returns *)
  Definition listing_of (s : ov T) : list T := listing le s.
  (** never-decreasing (never-increasing with tac) *)
  Definition in_rank_order (t : bool) (l : list T) : Prop :=
    asc (fun a b => if t return Prop then le b a = true else le a b = true) l.

  (** Iterating yields exactly the listing; the listing is a permutation of everything received
      since the last clear, in rank order (reversed by tac). *)
  Theorem c02_iter_sorted_perm : forall t ops,
    let s := reached t false ops in
    snd (iter le s) = map (@RSome T) (listing_of s) /\
    Permutation (listing_of s) (since_clear ops) /\
    in_rank_order t (listing_of s).
  Proof.
    intros t ops.
    exact (conj (reach_iter le MAXn THRn le_total le_trans spill_covers_move_limit t false ops)
          (conj (reach_listing_perm le MAXn THRn le_total le_trans spill_covers_move_limit t false ops)
                (reach_listing_sorted le MAXn THRn le_total le_trans spill_covers_move_limit t ops))).
  Qed.

  (** With --no-sort the listing is exactly arrival order, reversed with --tac. *)
  Theorem c02_nosort : forall t ops,
    let s := reached t true ops in
    snd (iter le s) = map (@RSome T) (listing_of s) /\
    listing_of s = if t then rev (since_clear ops) else since_clear ops.
  Proof.
    intros t ops.
    exact (conj (reach_iter le MAXn THRn le_total le_trans spill_covers_move_limit t true ops)
                (reach_listing_nosort le MAXn THRn le_total le_trans spill_covers_move_limit t ops)).
  Qed.

  (** Reading position i returns element i of that same listing, and no read (get or iterate)
      changes the listing: any pattern of reads between two updates sees one ordered permutation. *)
  Theorem c02_get_is_position : forall t n ops i x,
    snd (get le (reached t n ops) i) = RSome x -> nth_error (listing_of (reached t n ops)) i = Some x.
  Proof. exact (reach_get_listing le MAXn THRn le_total le_trans spill_covers_move_limit). Qed.

  Theorem c02_reads_keep_listing : forall t n ops i,
    listing_of (fst (get le (reached t n ops) i)) = listing_of (reached t n ops) /\
    listing_of (fst (iter le (reached t n ops))) = listing_of (reached t n ops).
  Proof. exact (reach_reads_keep_listing le MAXn THRn le_total le_trans spill_covers_move_limit). Qed.

  (** The reported length is the number of results received since the last clear; positions at or
      beyond it yield nothing; no read indexes out of bounds. *)
  Theorem c02_len : forall t n ops, len (reached t n ops) = length (since_clear ops).
  Proof. exact (reach_len le MAXn THRn le_total le_trans spill_covers_move_limit). Qed.

  Theorem c02_get_none : forall t n ops i,
    snd (get le (reached t n ops) i) = RNone <-> length (since_clear ops) <= i.
  Proof. exact (reach_get_none le MAXn THRn le_total le_trans spill_covers_move_limit). Qed.

  Theorem c02_get_no_panic : forall t n ops i, snd (get le (reached t n ops) i) <> RPanic.
  Proof. exact (reach_get_no_panic le MAXn THRn le_total le_trans spill_covers_move_limit). Qed.
End C02.

Print Assumptions c02_iter_sorted_perm.
Print Assumptions c02_nosort.
Print Assumptions c02_get_is_position.
Print Assumptions c02_reads_keep_listing.
Print Assumptions c02_len.
Print Assumptions c02_get_none.
Print Assumptions c02_get_no_panic.

(** Non-vacuity: integer ranks form a total preorder; a concrete history crossing the move limit. *)
Example c02_Z_order : (forall a b, Z.leb a b = true \/ Z.leb b a = true) /\
                      (forall a b c, Z.leb a b = true -> Z.leb b c = true -> Z.leb a c = true).
Proof. split; intros; lia. Qed.

Definition zs (lo n : nat) : list Z := map Z.of_nat (seq lo n).

Example c02_crossing_history :
  let ops := [Append [1000%Z]; Get 0; Append (zs 1 150); Iter] in
  listing_of Z.leb (reached Z.leb false false ops) = zs 1 150 ++ [1000%Z].
Proof. vm_compute. reflexivity. Qed.

(** Regression witness (finding F1): with the spill threshold the code used before the fix
    (ORDERED_SIZE = 300 > MAX_MOVEMENT = 100) the same history is listed out of order. *)
Example c02_refuted_before_fix :
  let ops := [Append [1000%Z]; Get 0; Append (zs 1 150); Iter] in
  listing Z.leb (run Z.leb 100 300 (empty false false) ops) = zs 1 100 ++ [1000%Z] ++ zs 101 50.
Proof. vm_compute. reflexivity. Qed.
