(** C18 — The query editor is a text buffer with cursor, kill buffer and history.
    Statements only.  The reference editor is Model/QuerySpec.v (line = text left of the cursor,
    text right of it; text = left ++ right; cursor column = length left). *)
From SkimV Require Import Common.Base Model.Query Model.QuerySpec Proof.Query.
From Coq Require Import String.

(** For every character classification, every initial query / command query / mode / history
    lists and every sequence of events, the editor state is, under the abstraction
    (before, after) |-> (left, right), the state of the reference editor after the same events. *)
Theorem c18_refines : forall is_ws is_alnum q c interactive hq hc es,
  abs (Query.run is_ws is_alnum (init q c interactive hq hc) es) =
  srun is_ws is_alnum (sinit q c interactive hq hc) (map aev es).
Proof. intros. rewrite run_refines, init_refines. reflexivity. Qed.
Print Assumptions c18_refines.

(** what get_fz_query / get_cmd_query / the drawn cursor column show is the reference editor's
    text and cursor *)
Theorem c18_observables : forall s,
  fz_query s = ltext (e_fz (abs s)) /\ cmd_query s = ltext (e_cmd (abs s)) /\
  List.length (bef s) = lcursor (cur (abs s)).
Proof. exact observe. Qed.
Print Assumptions c18_observables.

(** Cursor movement alone never changes the text (nor the kill buffer, nor the mode). *)
Theorem c18_move_preserves_text : forall is_ws is_alnum e v, is_motion v = true ->
  ltext (cur (sstep is_ws is_alnum e v)) = ltext (cur e) /\
  e_kill (sstep is_ws is_alnum e v) = e_kill e /\ e_mode (sstep is_ws is_alnum e v) = e_mode e.
Proof. exact motion_keeps_text. Qed.
Print Assumptions c18_move_preserves_text.

(** Kill followed by yank restores the line (kill-line, kill-word, unix-line-discard,
    backward-kill-word, unix-word-rubout), and the cursor too for the three backward kills;
    stated for kills that removed something (an empty kill leaves the kill buffer alone). *)
Theorem c18_kill_yank_restores : forall is_ws is_alnum e v, is_kill v = true ->
  ltext (cur (sstep is_ws is_alnum e v)) <> ltext (cur e) ->
  ltext (cur (sstep is_ws is_alnum (sstep is_ws is_alnum e v) SYank)) = ltext (cur e) /\
  (is_backward_kill v = true -> cur (sstep is_ws is_alnum (sstep is_ws is_alnum e v) SYank) = cur e).
Proof. exact kill_yank_restores. Qed.
Print Assumptions c18_kill_yank_restores.

(** Query and command query are independent buffers; toggle-interactive only switches. *)
Theorem c18_buffers_independent : forall is_ws is_alnum e v, v <> SToggleInteractive ->
  other (sstep is_ws is_alnum e v) = other e /\ e_mode (sstep is_ws is_alnum e v) = e_mode e.
Proof. exact buffers_independent. Qed.
Print Assumptions c18_buffers_independent.

Theorem c18_toggle_switches : forall is_ws is_alnum e,
  e_fz (sstep is_ws is_alnum e SToggleInteractive) = e_fz e /\
  e_cmd (sstep is_ws is_alnum e SToggleInteractive) = e_cmd e /\
  e_mode (sstep is_ws is_alnum e SToggleInteractive) <> e_mode e.
Proof. exact toggle_switches. Qed.
Print Assumptions c18_toggle_switches.

(** A bracketed paste inserts its text verbatim at the cursor. *)
Theorem c18_paste_verbatim : forall is_ws is_alnum e t, e_paste e = None ->
  let e' := fold_left (sstep is_ws is_alnum) (SPasteStart :: map SAddChar t ++ [SPasteEnd]) e in
  cur e' = insert (cur e) t /\ e_paste e' = None /\ other e' = other e.
Proof. exact paste_verbatim. Qed.
Print Assumptions c18_paste_verbatim.

(** previous-history replaces the whole line with the entry; previous/next are inverse. *)
Theorem c18_history_replaces_line : forall is_ws is_alnum e h o, older e = h :: o ->
  cur (sstep is_ws is_alnum e SPreviousHistory) = {| lpart := h; rpart := [] |}.
Proof. exact history_replaces. Qed.
Print Assumptions c18_history_replaces_line.

Theorem c18_history_inverse : forall is_ws is_alnum e h o, older e = h :: o ->
  let e2 := sstep is_ws is_alnum (sstep is_ws is_alnum e SPreviousHistory) SNextHistory in
  ltext (cur e2) = ltext (cur e) /\ older e2 = older e /\ newer e2 = newer e.
Proof. exact history_inverse. Qed.
Print Assumptions c18_history_inverse.

Theorem c18_history_inverse_next : forall is_ws is_alnum e h n, newer e = h :: n ->
  let e2 := sstep is_ws is_alnum (sstep is_ws is_alnum e SNextHistory) SPreviousHistory in
  ltext (cur e2) = ltext (cur e) /\ older e2 = older e /\ newer e2 = newer e.
Proof. exact history_inverse'. Qed.
Print Assumptions c18_history_inverse_next.

(** Non-vacuity: "ab cd|ef" kill-line then yank; a history round trip. *)
Example c18_example_kill_yank :
  let ws := fun c => N.eqb c 32 in let al := fun c => negb (N.eqb c 32) in
  let s0 := Query.run ws al (init (codes "ab cdef"%string) [] false [codes "old"%string] []) [BackwardChar; BackwardChar] in
  fz_query s0 = codes "ab cdef"%string /\
  fz_query (Query.run ws al s0 [KillLine]) = codes "ab cd"%string /\
  fz_query (Query.run ws al s0 [KillLine; Yank]) = codes "ab cdef"%string /\
  fz_query (Query.run ws al s0 [PreviousHistory]) = codes "old"%string /\
  fz_query (Query.run ws al s0 [PreviousHistory; NextHistory]) = codes "ab cdef"%string.
Proof. vm_compute. repeat split; reflexivity. Qed.
