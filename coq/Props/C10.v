(** C10 — Multi-selection is a set of items that survives re-filtering (Selection level).
    The selected set is the key set of the selection map; keys are (run number, item_idx), and
    item_idx is the item's position in the input of its command run (shown for the pipeline in
    Props/C15.v: [c15_identity]).  Statements only. *)
From SkimV Require Import Common.Base Model.Selection Proof.Selection Proof.SelectionSet.

(** toggle: insertion/removal of the cursor item's key *)
Theorem c10_toggle : forall s, Good s -> SelInv s -> multi s = true -> (0 < nitems s)%N ->
  exists it s', item_at s (cursor_idx s) = Some it /\ act_toggle s = Some s' /\ SelInv s' /\
    forall k, m_contains (selected s') k = xorb (key_eqb k (run s, mi_idx it)) (m_contains (selected s) k).
Proof. exact toggle_sel. Qed.
Print Assumptions c10_toggle.

(** select-all: union with the keys of all listed items *)
Theorem c10_select_all : forall s, SelInv s -> multi s = true -> (0 < nitems s)%N ->
  SelInv (act_select_all s) /\
  forall k, m_contains (selected (act_select_all s)) k = keyin k (listed_keys s) || m_contains (selected s) k.
Proof. exact select_all_sel. Qed.
Print Assumptions c10_select_all.

(** toggle-all: symmetric difference with the keys of all listed items (pairwise distinct) *)
Theorem c10_toggle_all : forall s, SelInv s -> multi s = true -> (0 < nitems s)%N -> NoDup (listed_keys s) ->
  SelInv (act_toggle_all s) /\
  forall k, m_contains (selected (act_toggle_all s)) k = xorb (keyin k (listed_keys s)) (m_contains (selected s) k).
Proof. exact toggle_all_sel. Qed.
Print Assumptions c10_toggle_all.

(** programmatic selection (append-and-select, pre-selection): insertion, ignored in single mode *)
Theorem c10_select_raw : forall s r idx id, SelInv s ->
  (multi s = false -> act_select_raw_item s r idx id = s) /\
  (multi s = true -> forall k, m_contains (selected (act_select_raw_item s r idx id)) k =
                               key_eqb k (r, idx) || m_contains (selected s) k).
Proof.
  intros s r idx id [W _]. unfold act_select_raw_item. split; intros Hm; rewrite Hm; cbn [negb]; [reflexivity|].
  apply (insert_spec (selected s) (r, idx) id W).
Qed.
Print Assumptions c10_select_raw.

(** deselect-all: the empty set *)
Theorem c10_deselect_all : forall s, selected (act_deselect_all s) = [].
Proof. reflexivity. Qed.
Print Assumptions c10_deselect_all.

(** all of them are ignored in single-selection mode, where the set stays empty *)
Theorem c10_single_mode : forall s, multi s = false ->
  act_toggle s = Some s /\ act_toggle_all s = s /\ act_select_all s = s.
Proof. exact single_mode_ignores. Qed.
Print Assumptions c10_single_mode.

(** the set survives everything that is not a selection action: cursor moves, page jumps, row
    clicks, result updates (re-filtering), clears, redraws, run-number changes -- a result update
    with a selector configured (the pre-select options) being the one exception, stated next *)
Theorem c10_survives : forall s o s', is_sel_action o = false -> no_presel s o = true -> step s o = Some s' ->
  selected s' = selected s /\ multi s' = multi s.
Proof. exact other_ops_keep_selected. Qed.
Print Assumptions c10_survives.

(** with a selector configured, a result update adds exactly the arrivals the selector picks (under
    the current run number), in multi mode only, and only when the list is at least as long as the
    longest one seen since the highest run number arrived (the watermark); nothing is removed *)
Theorem c10_preselect : forall s b, SelInv s ->
  SelInv (append_sorted_items s b) /\
  forall k, m_contains (selected (append_sorted_items s b)) k =
            (presel_applies s b && presel_on s && keyin k (presel_keys s b)) || m_contains (selected s) k.
Proof. exact append_sel. Qed.
Print Assumptions c10_preselect.

(** in particular, below the watermark a result update adds nothing: an item the user deselected is
    not selected again by re-filtering while the list stays shorter than the longest one seen *)
Theorem c10_below_watermark : forall s b, presel_applies s b = false ->
  selected (append_sorted_items s b) = selected s.
Proof. exact below_watermark. Qed.
Print Assumptions c10_below_watermark.

(** whether a selector is configured never changes *)
Theorem c10_selector_fixed : forall ops s s', run_ops s ops = Some s' -> selmod s' = selmod s.
Proof. exact run_selmod. Qed.
Print Assumptions c10_selector_fixed.

(** toggling the same item again (same run, same input position) removes it again *)
Theorem c10_retoggle_removes : forall m k v v', wf m ->
  forall k', m_contains (toggle_key (toggle_key m k v) k v') k' = m_contains m k'.
Proof.
  intros m k v v' W k'. destruct (toggle_key_spec m k v W) as (W1 & C1).
  destruct (toggle_key_spec _ k v' W1) as (_ & C2). rewrite C2, C1.
  destruct (key_eqb k' k), (m_contains m k'); reflexivity.
Qed.
Print Assumptions c10_retoggle_removes.

(** in every reachable state the map is in strict key order, so its length (the [n] counter) is
    the size of the selected set, and single mode keeps it empty *)
Theorem c10_count : forall rev mul k ops s, run_ops (init_sel rev mul k) ops = Some s ->
  SelInv s /\ NoDup (map fst (selected s)).
Proof.
  intros rev mul k ops s E. pose proof (run_SelInv ops _ _ (init_sel_SelInv rev mul k) E) as HI.
  split; [exact HI | apply wf_nodup, HI].
Qed.
Print Assumptions c10_count.

Example c10_example :
  let mk i := {| mi_idx := i; mi_id := 100 + i; mi_rank := Z.of_N i |} in
  option_map (fun s => map fst (selected s))
    (run_ops (init false true) [AppendItems [mk 1; mk 2; mk 3]%N; Toggle; Up 2; Toggle; Clear; AppendItems [mk 2]%N; Toggle; SelectAll])
  = Some [(0, 1); (0, 2); (0, 3)]%N.
Proof. vm_compute. reflexivity. Qed.
