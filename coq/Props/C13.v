(** C13 — The sort key follows the --tiebreak criteria in order.
    Only statements here; every proof is [exact lemma]; assumptions printed beneath. *)
From SkimV Require Import Common.Base Gen.RankTable Model.Rank Proof.Rank.
From Coq Require Import String.
Local Open Scope Z_scope.

(** A word is a criterion iff, lower-cased, it is that criterion's documented name
    (any letter case; everything else is unknown). *)
Theorem c13_names : forall w c, parse_criteria w = Some c <-> lower w = codes (spec_name c).
Proof. exact parse_criteria_spec. Qed.
Print Assumptions c13_names.

(** The option string is split on commas; unknown words are dropped. *)
Theorem c13_option_words : forall ws, ws <> [] -> Forall (fun w => ~ In comma w) ws ->
  parse_tiebreak (join_comma ws) = filter_map parse_criteria ws.
Proof. exact parse_tiebreak_words. Qed.
Print Assumptions c13_option_words.

Theorem c13_unknown_ignored : forall pre w post, parse_criteria w = None ->
  filter_map parse_criteria (pre ++ w :: post) = filter_map parse_criteria (pre ++ post).
Proof. exact unknown_word_ignored. Qed.
Print Assumptions c13_unknown_ignored.

(** Score is prepended exactly when neither score nor -score is listed; adjacent repeats
    collapse (and nothing else changes: the result has no adjacent repeats, the same members,
    and a list without adjacent repeats is kept as is). *)
Theorem c13_score_implicit : forall cs, ~ In CScore cs -> ~ In CNegScore cs ->
  builder_new cs = dedup (CScore :: cs).
Proof. exact builder_new_implicit. Qed.
Print Assumptions c13_score_implicit.

Theorem c13_score_explicit : forall cs, In CScore cs \/ In CNegScore cs -> builder_new cs = dedup cs.
Proof. exact builder_new_explicit. Qed.
Print Assumptions c13_score_explicit.

Theorem c13_dedup_adjacent : forall l,
  no_adjacent (dedup l) /\ (forall c, In c (dedup l) <-> In c l) /\ (no_adjacent l -> dedup l = l).
Proof. intros l. exact (conj (dedup_no_adjacent l) (conj (fun c => dedup_In c l) (dedup_fixed l))). Qed.
Print Assumptions c13_dedup_adjacent.

(** The key is the first four criteria's values, zero padded. *)
Theorem c13_key_is_criteria : forall cs v, in_range v ->
  build_rank cs v = pad 4 (map (spec_key v) (firstn 4 cs)).
Proof. exact build_rank_spec. Qed.
Print Assumptions c13_key_is_criteria.

(** Keys compare lexicographically by the criteria in order, each in its documented direction. *)
Theorem c13_lex : forall cs a b, in_range a -> in_range b ->
  (lex_cmp (build_rank cs a) (build_rank cs b) = Lt <->
   exists i c, nth_error (firstn 4 cs) i = Some c /\ prefers c a b /\
               forall j c', (j < i)%nat -> nth_error (firstn 4 cs) j = Some c' -> ties c' a b).
Proof. exact rank_cmp_lt. Qed.
Print Assumptions c13_lex.

Theorem c13_lex_eq : forall cs a b, in_range a -> in_range b ->
  (lex_cmp (build_rank cs a) (build_rank cs b) = Eq <-> forall c, In c (firstn 4 cs) -> ties c a b).
Proof. exact rank_cmp_eq. Qed.
Print Assumptions c13_lex_eq.

Theorem c13_lex_gt : forall cs a b, in_range a -> in_range b ->
  (lex_cmp (build_rank cs a) (build_rank cs b) = Gt <-> lex_cmp (build_rank cs b) (build_rank cs a) = Lt).
Proof. exact rank_cmp_gt. Qed.
Print Assumptions c13_lex_gt.

(** A later criterion only reorders items that tie on all earlier ones. *)
Theorem c13_later_only_breaks_ties : forall pre post post' a b, in_range a -> in_range b ->
  (exists c, In c pre /\ ~ ties c a b) -> (List.length pre <= 4)%nat ->
  lex_cmp (build_rank (pre ++ post) a) (build_rank (pre ++ post) b) =
  lex_cmp (build_rank (pre ++ post') a) (build_rank (pre ++ post') b).
Proof. exact earlier_criteria_decide. Qed.
Print Assumptions c13_later_only_breaks_ties.

(** Non-vacuity: the hypotheses are met by concrete values, and the default order behaves as documented. *)
Example c13_in_range_inhabited :
  in_range {| v_score := 37; v_begin := 2; v_end := 9; v_length := 30 |}.
Proof. unfold in_range; cbn; lia. Qed.

Example c13_default_example :
  let cs := criteria_of_option None in
  cs = [CScore; CBegin; CEnd] /\
  lex_cmp (build_rank cs {| v_score := 40; v_begin := 5; v_end := 9; v_length := 30 |})
          (build_rank cs {| v_score := 37; v_begin := 2; v_end := 9; v_length := 30 |}) = Lt.
Proof. vm_compute. split; reflexivity. Qed.

Example c13_option_example :
  criteria_of_option (Some (codes "Length,bogus,-BEGIN,-begin,end,score,begin"%string)) =
  [CLength; CNegBegin; CEnd; CScore; CBegin].
Proof. vm_compute. reflexivity. Qed.
