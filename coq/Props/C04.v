(** C04 — Query composition: space = AND, ' | ' = OR of alternatives, '\ ' = literal space.
    Statements only. *)
From SkimV Require Import Common.Base Model.Engine Proof.Engine.
From Coq Require Import String.
From Coq Require Import Permutation.

(** an alternative list matches iff at least one alternative does; a term list matches iff it is
    non-empty and every term matches (no evaluation panicking) *)
Theorem c04_or : forall fz rx rxv cm it es,
  (forall e, In e es -> is_panic (eval fz rx rxv cm e it) = false) ->
  is_match (eval fz rx rxv cm (EOr es) it) = existsb (fun e => is_match (eval fz rx rxv cm e it)) es.
Proof. intros. rewrite eval_or. apply or_verdict. assumption. Qed.
Print Assumptions c04_or.

Theorem c04_and : forall fz rx rxv cm it es,
  is_panic (eval fz rx rxv cm (EAnd es) it) = false ->
  is_match (eval fz rx rxv cm (EAnd es) it) =
  negb (match es with [] => true | _ => false end) && forallb (fun e => is_match (eval fz rx rxv cm e it)) es.
Proof. intros fz rx rxv cm it es H. rewrite eval_and in *. rewrite (and_verdict fz rx rxv cm it es [] false H). reflexivity. Qed.
Print Assumptions c04_and.

(** the verdict does not depend on the order of alternatives nor of the terms inside one *)
Theorem c04_order_free : forall (f : engine -> bool) l l', Permutation l l' ->
  existsb f l = existsb f l' /\ forallb f l = forallb f l'.
Proof. intros f l l' H. split; [apply existsb_perm | apply forallb_perm]; exact H. Qed.
Print Assumptions c04_order_free.

(** a query with a non-blank character is an OR over its ` | `-separated pieces of an AND over the
    blank-separated terms of each piece (edges trimmed of blanks and bars, empty terms dropped,
    an escaped blank kept inside its term) *)
Theorem c04_shape : forall em q, all_blank q = false ->
  parse_query em q = EOr (map (parse_and em) (split_or (List.length (mask q)) (mask q) [])) /\
  forall piece, parse_and em piece =
    EAnd (map (decode_term em) (filter (fun w => negb (is_nilt w))
            (map (fun w => unmask (trim_sep w)) (split_sp (List.length piece) (trim_sep piece) [])))).
Proof. intros em q H. unfold parse_query. rewrite H. split; reflexivity. Qed.
Print Assumptions c04_shape.

(** Non-vacuity: the unit test's query, an escaped blank, stray bars and blanks. *)
Example c04_example :
  parse_query false (codes "'abc | def ^gh ij | kl mn"%string) =
    EOr [EAnd [EExact (codes "abc"%string) false false false];
         EAnd [EFuzzy (codes "def"%string); EExact (codes "gh"%string) true false false; EFuzzy (codes "ij"%string)];
         EAnd [EFuzzy (codes "kl"%string); EFuzzy (codes "mn"%string)]] /\
  parse_query false (codes " a\ b  c |  | d| "%string) =
    EOr [EAnd [EFuzzy (codes "a b"%string); EFuzzy (codes "c"%string)]; EAnd [EFuzzy (codes "d"%string)]].
Proof. vm_compute. split; reflexivity. Qed.
