(** C01 — Streaming filter: at quiescence the candidate list is exactly the matching items.
    Statements only.  The pipeline is the transition system of Model/Pipeline.v: the reader thread,
    one matcher thread, the refresh timer and the event loop (heartbeat, restart_matcher, query /
    mode change, command change, the -1/-0 decision) interleave step by step; [run (init ...) ls] is
    the state after the label sequence [ls], for any [ls].  [nres] is --header-lines, [ncie] is
    --no-clear-if-empty, [mp q x] says whether item x matches query/mode q (C03). *)
From SkimV Require Import Common.Base Gen.PipelineOrder Model.PipelineOrder Model.Pipeline Model.PipelineAbs Proof.Pipeline Proof.PipelineLive Proof.Fair Proof.PipelineProgress.
From Coq Require Import Permutation.

(** the invariant holds in every reachable state, whatever the interleaving and edit history *)
Theorem c01_invariant : forall nres ncie mp source q0 a b c ls s,
  run nres ncie mp (init source q0 a b c) ls = Some s -> Inv nres ncie mp s.
Proof. exact reachable_inv. Qed.
Print Assumptions c01_invariant.

(** Quiescence (event loop idle, no matcher run outstanding, source ended, buffer moved, pool
    fully handed out): the list is a permutation of the matching items of the current command's
    source after the header lines, each with its own pool position -- every matching item once, no
    other item, nothing from an earlier query, mode or command. *)
Theorem c01_quiescent_exact : forall nres mp source q0 a b c ls s,
  run nres false mp (init source q0 a b c) ls = Some s -> quiescent s ->
  Permutation (L s) (complete nres mp s).
Proof.
  intros nres mp source q0 a b c ls s Hr Hq.
  exact (quiescent_exact nres false mp s (reachable_inv _ _ _ _ _ _ _ _ _ _ Hr) Hq eq_refl).
Qed.
Print Assumptions c01_quiescent_exact.

(** with --no-clear-if-empty as well: either the same, or the current command matched nothing and
    the previous list was deliberately kept *)
Theorem c01_quiescent_general : forall nres ncie mp source q0 a b c ls s,
  run nres ncie mp (init source q0 a b c) ls = Some s -> quiescent s ->
  settled ncie s /\
  resv s = firstn nres (s0 s) /\ pl s = skipn nres (s0 s) /\
  (cs s = DontClear -> Permutation (L s) (complete nres mp s)) /\
  (cs s = ClearIfNotNull -> complete nres mp s = []).
Proof.
  intros nres ncie mp source q0 a b c ls s Hr Hq.
  exact (quiescent_complete nres ncie mp s (reachable_inv _ _ _ _ _ _ _ _ _ _ Hr) Hq).
Qed.
Print Assumptions c01_quiescent_general.

(** each listed item is identified by its position in the source (after the header lines), and
    no position is listed twice; every matching item is listed *)
Theorem c01_listed_identity : forall nres ncie mp source q0 a b c ls s x i,
  run nres ncie mp (init source q0 a b c) ls = Some s -> quiescent s -> cs s = DontClear ->
  In (x, i) (L s) -> nth_error (skipn nres (s0 s)) i = Some x /\ mp (q s) x = true.
Proof.
  intros nres ncie mp source q0 a b c ls s x i Hr. apply (listed_identity nres ncie mp). exact (reachable_inv _ _ _ _ _ _ _ _ _ _ Hr).
Qed.
Print Assumptions c01_listed_identity.

Theorem c01_listed_once : forall nres ncie mp source q0 a b c ls s,
  run nres ncie mp (init source q0 a b c) ls = Some s -> quiescent s -> cs s = DontClear ->
  NoDup (map snd (L s)).
Proof.
  intros nres ncie mp source q0 a b c ls s Hr. apply (listed_once nres ncie mp). exact (reachable_inv _ _ _ _ _ _ _ _ _ _ Hr).
Qed.
Print Assumptions c01_listed_once.

Theorem c01_listed_all : forall nres ncie mp source q0 a b c ls s k x,
  run nres ncie mp (init source q0 a b c) ls = Some s -> quiescent s -> cs s = DontClear ->
  nth_error (skipn nres (s0 s)) k = Some x -> mp (q s) x = true -> In (x, k) (L s).
Proof.
  intros nres ncie mp source q0 a b c ls s k x Hr. apply (listed_all nres ncie mp). exact (reachable_inv _ _ _ _ _ _ _ _ _ _ Hr).
Qed.
Print Assumptions c01_listed_all.

(** "reached without a further keystroke" (partial: no lost wake-up, not termination): whenever the
    event loop is idle and work is outstanding -- a matcher run to harvest, or items not yet read or
    not yet handed to a matcher -- a heartbeat is queued, the refresh timer is armed, or the running
    matcher has yet to send its notification; and an idle loop with none of these is quiescent. *)
Theorem c01_no_lost_wakeup_partial : forall nres ncie mp source q0 a b c ls s,
  run nres ncie mp (init source q0 a b c) ls = Some s -> pc s = [] -> needs s ->
  0 < hbq s \/ timer s = true \/ prenotify s = true.
Proof. exact no_lost_wakeup. Qed.
Print Assumptions c01_no_lost_wakeup_partial.

Theorem c01_idle_is_quiescent : forall nres ncie mp source q0 a b c ls s,
  run nres ncie mp (init source q0 a b c) ls = Some s ->
  pc s = [] -> hbq s = 0 -> timer s = false -> prenotify s = false -> quiescent s.
Proof. exact idle_is_quiescent. Qed.
Print Assumptions c01_idle_is_quiescent.


(** ... and once the source has ended, its items are in the pool and all handed to a matcher, with
    no heartbeat still holding a stale "reader not done" (in particular: whenever the loop is idle in
    such a state), no step other than a keystroke restarts the matcher or changes the pool: the
    pipeline only winds down (one outstanding harvest at most). *)
Theorem c01_winds_down_partial : forall nres ncie mp ls s s',
  calm s -> Forall internal ls -> run nres ncie mp s ls = Some s' ->
  calm s' /\ pl s' = pl s /\ resv s' = resv s.
Proof. exact calm_run. Qed.
Print Assumptions c01_winds_down_partial.

Theorem c01_idle_done_is_calm : forall s, pc s = [] -> rdone s = true -> consumed s = true -> calm s.
Proof. exact idle_done_calm. Qed.
Print Assumptions c01_idle_done_is_calm.

(** "reached without a further keystroke", in full for the transition system.  An execution is an
    infinite sequence of instants at each of which an internal step is taken -- a step of the matcher
    thread, the exit of a harvested thread, the refresh timer firing, the next operation of the event
    loop, the dispatch of a QUEUED heartbeat: no keystroke, no further input, no heartbeat out of
    nowhere -- or nothing happens.  It is weakly fair if no such step stays enabled for ever without
    being taken (every thread, the timer and the event loop get their turn).  Then: from any reachable
    state in which the source has ended and no command change is in flight, EVERY weakly fair
    execution reaches a quiescent state with no heartbeat queued and no timer armed, in which the list
    is exactly the matching items, and a pending -1 / -0 / sync has been decided.  (The ranking behind
    it is synthesised over a finite abstraction of the transition system and checked over all of its
    9738 reachable abstract states: Proof/PipelineProgress.v.) *)
Theorem c01_fair_quiescence : forall nres ncie mp source q0 a b c ls s0 (sigma : nat -> st) (lam : nat -> option label),
  run nres ncie mp (init source q0 a b c) ls = Some s0 -> alive s0 = false -> no_cmd (map amop_of (pc s0)) = true ->
  sigma 0 = s0 ->
  exec st label (step nres ncie mp) inner sigma lam -> wfair st label (step nres ncie mp) inner sigma lam ->
  exists t, quiescent (sigma t) /\ hbq (sigma t) = 0 /\ timer (sigma t) = false /\
            (ncie = false -> Permutation (L (sigma t)) (complete nres mp (sigma t))) /\
            (a || b || c = true -> decided (sigma t) <> None).
Proof. exact fair_quiescence. Qed.
Print Assumptions c01_fair_quiescence.

(** ... and the same from ANY reachable state, the source still producing: with the reader thread's
    steps among those considered (pushes and the end of input; still no keystroke, no command change
    in flight), every weakly fair execution sees the source end and then comes to rest as above. *)
Theorem c01_fair_quiescence_any : forall nres ncie mp source q0 a b c ls s0 (sigma : nat -> st) (lam : nat -> option label),
  run nres ncie mp (init source q0 a b c) ls = Some s0 -> no_cmd (map amop_of (pc s0)) = true ->
  sigma 0 = s0 ->
  exec st label (step nres ncie mp) inner2 sigma lam -> wfair st label (step nres ncie mp) inner2 sigma lam ->
  exists t, quiescent (sigma t) /\ hbq (sigma t) = 0 /\ timer (sigma t) = false /\
            (ncie = false -> Permutation (L (sigma t)) (complete nres mp (sigma t))) /\
            (a || b || c = true -> decided (sigma t) <> None).
Proof. exact fair_quiescence_any. Qed.
Print Assumptions c01_fair_quiescence_any.

(** the steps considered keep the region, never raise the rank, and the helpful one is enabled and
    lowers it (the premises of the rule, stated for the pipeline) *)
Theorem c01_helpful_step_enabled : forall nres ncie mp s,
  in_region s -> at_rest s = false -> inner s (phelp s) /\ exists s', step nres ncie mp s (phelp s) = Some s'.
Proof. exact help_enabled. Qed.
Print Assumptions c01_helpful_step_enabled.

Theorem c01_rank_never_rises : forall nres ncie mp s l s',
  in_region s -> at_rest s = false -> inner s l -> step nres ncie mp s l = Some s' ->
  in_region s' /\ (at_rest s' = true \/ prank s' < prank s \/ (l <> phelp s /\ prank s' = prank s /\ phelp s' = phelp s)).
Proof. exact inner_step. Qed.
Print Assumptions c01_rank_never_rises.

(** the code still has the skeleton the transition system stands for: in the event loop, matcher, reader and pool, the
    shared-state operations extracted from the Rust sources on this run (Gen/PipelineOrder.v) are
    the ones, in the order, that the model's steps were written for (Model/PipelineOrder.v) *)
Theorem c01_code_skeleton :
  same_rows c01_rows code_order model_order = true.
Proof. vm_compute. reflexivity. Qed.
Print Assumptions c01_code_skeleton.

(** Non-vacuity: a concrete interleaving -- two items arrive before the first heartbeat, a third
    and the end of input while the first matcher runs, then a query change, a restart, a harvest --
    ends quiescent with the matching items listed. *)
Definition ex_mp (qq : N) (x : item) : bool := if (qq =? 0)%N then N.even x else N.odd x.
Definition ex_labels : list label :=
  [LPush; LPush; LHb; LMain; LMain; LMain; LMain; LMain; LMain; LMain;    (* first heartbeat: restart, S1 *)
   LMLoad; LMTake; LPush; LEof; LMPublish; LMNotify; LMFlag; LMExit;
   LHb; LMain; LMain; LMain; LMain; LMain; LMain; LMain; LMain;           (* harvest, restart *)
   LQuery 1%N; LMain; LMLoad; LMTake; LMPublish; LMNotify; LMFlag; LMExit; LMain; LMain;  (* kill, join, reset, restart *)
   LMLoad; LMTake; LMPublish; LMNotify; LMFlag; LMExit;
   LHb; LMain; LMain; LMain; LMain; LMain; LMain; LMain].
Example c01_example :
  exists s, run 0 false ex_mp (init [1; 2; 3]%N 0%N false false false) ex_labels = Some s /\
            quiescent s /\ L s = [(1%N, 0); (3%N, 2)] /\ q s = 1%N.
Proof. eexists. split; [vm_compute; reflexivity|]. unfold quiescent. cbn. repeat split; reflexivity. Qed.

(** Non-vacuity of c01_fair_quiescence: such executions exist.  Three items and the end of input
    arrive before the first heartbeat; from there the internal steps below, continued by doing
    nothing, form an execution that is weakly fair (in its last state no internal step is enabled),
    and it ends at rest with the matching item listed and --select-1 decided. *)
Definition fq_pre : list label := [LPush; LPush; LPush; LEof].
Definition fq_post : list label :=
  [LHb; LMain; LMain; LMain; LMain; LMain; LMain; LMain;
   LMLoad; LMTake; LMPublish; LMNotify; LMFlag; LMExit;
   LHb; LMain; LMain; LMain; LMain; LMain; LMain; LMain;
   LTimer; LHb; LMain; LMain; LMain; LMain; LMain; LMain].
Example c01_fair_example :
  exists s0 s1,
    run 0 false ex_mp (init [1; 2; 3]%N 0%N true true false) fq_pre = Some s0 /\ alive s0 = false /\
    no_cmd (map amop_of (pc s0)) = true /\
    run 0 false ex_mp s0 fq_post = Some s1 /\
    exec st label (step 0 false ex_mp) inner (state_at 0 false ex_mp fq_post s0) (nth_error fq_post) /\
    wfair st label (step 0 false ex_mp) inner (state_at 0 false ex_mp fq_post s0) (nth_error fq_post) /\
    at_rest s1 = true /\ L s1 = [(2%N, 1)] /\ decided s1 = Some Accept.
Proof.
  eexists. eexists. split; [vm_compute; reflexivity|]. split; [reflexivity|]. split; [reflexivity|].
  split; [vm_compute; reflexivity|].
  split; [apply finite_exec; vm_compute; reflexivity|].
  split; [|vm_compute; auto].
  eapply finite_fair; [vm_compute; reflexivity|].
  intros l Hl. destruct l; cbn in Hl; try contradiction; try (vm_compute; reflexivity). inversion Hl.
Qed.

(** ... and from the very first state: the whole session of the example above, reader included *)
Example c01_fair_example_any :
  exists s1,
    run 0 false ex_mp (init [1; 2; 3]%N 0%N true true false) (fq_pre ++ fq_post) = Some s1 /\
    exec st label (step 0 false ex_mp) inner2 (state_at 0 false ex_mp (fq_pre ++ fq_post) (init [1; 2; 3]%N 0%N true true false)) (nth_error (fq_pre ++ fq_post)) /\
    wfair st label (step 0 false ex_mp) inner2 (state_at 0 false ex_mp (fq_pre ++ fq_post) (init [1; 2; 3]%N 0%N true true false)) (nth_error (fq_pre ++ fq_post)) /\
    at_rest s1 = true /\ L s1 = [(2%N, 1)].
Proof.
  eexists. split; [vm_compute; reflexivity|].
  split; [apply finite_exec2; vm_compute; reflexivity|].
  split; [|vm_compute; auto].
  eapply finite_fair2; [vm_compute; reflexivity|].
  intros l Hl. destruct l; cbn in Hl; try contradiction; try (vm_compute; reflexivity). inversion Hl.
Qed.
