(** Model of src/engine/*: term decoding (ExactOrFuzzyEngineFactory), the exact / fuzzy / regex /
    match-all engines with the per-range (--nth) loop, the and/or factory and combinators.
    Definitions only.

    Texts are lists of characters; byte offsets are computed with the UTF-8 length of each
    character, and slicing at an offset that is not a character boundary (or with start > end) is
    [Panic], as in Rust.  The fuzzy-matcher library and the regex crate (for regex-mode queries)
    are oracles: [fz pattern slice] is the library's index vector (character indices inside the
    slice) or None; [rx pattern slice] is the leftmost match's byte span inside the slice. *)
From SkimV Require Import Common.Base.

Inductive casem := Respect | Ignore | Smart.
Inductive algo := SkimV1 | SkimV2 | Clangd.

Inductive mrange := RBytes (s e : N) | RChars (l : list N).
Inductive result := Panic | NoMatch | Match (r : mrange).

(** * UTF-8 geometry *)
Definition clen (c : char) : N :=
  if (c <? 128)%N then 1%N else if (c <? 2048)%N then 2%N else if (c <? 65536)%N then 3%N else 4%N.
Fixpoint blen (t : text) : N := match t with [] => 0%N | c :: r => (clen c + blen r)%N end.

(** split at a byte offset; None when the offset is inside a character or past the end *)
Fixpoint split_at (t : text) (off : N) : option (text * text) :=
  if (off =? 0)%N then Some ([], t)
  else match t with
       | [] => None
       | c :: r => if (clen c <=? off)%N
                   then match split_at r (off - clen c) with
                        | Some (a, b) => Some (c :: a, b)
                        | None => None
                        end
                   else None
       end.

(** &text[s..e]: (the characters before s, the slice) *)
Definition slice (t : text) (s e : N) : option (text * text) :=
  if (e <? s)%N then None
  else match split_at t s with
       | Some (pre, rest) => match split_at rest (e - s) with
                             | Some (m, _) => Some (pre, m)
                             | None => None
                             end
       | None => None
       end.

(** * case *)
Definition is_upper (c : char) : bool := (65 <=? c)%N && (c <=? 90)%N.
(** simple case folding as the regex crate's (?i) applies it, on the characters the checks use:
    ASCII letters, Latin-1 letters (U+00C0..U+00DE except the multiplication sign), KELVIN SIGN *)
Definition fold_ascii (c : char) : char :=
  if is_upper c then (c + 32)%N
  else if (192 <=? c)%N && (c <=? 222)%N && negb (c =? 215)%N then (c + 32)%N
  else if (c =? 8490)%N then 107%N
  else c.
Definition contains_upper (t : text) : bool := existsb is_upper t.
Definition case_sensitive (cm : casem) (pat : text) : bool :=
  match cm with Respect => true | Ignore => false | Smart => contains_upper pat end.
Definition ceq (sens : bool) (a b : char) : bool :=
  if sens then (a =? b)%N else (fold_ascii a =? fold_ascii b)%N.

(** * exact matching: leftmost occurrence *)
Fixpoint prefix_match (sens : bool) (pat t : text) : bool :=
  match pat, t with
  | [], _ => true
  | p :: pr, c :: cr => ceq sens p c && prefix_match sens pr cr
  | _ :: _, [] => false
  end.

(** character index of the leftmost occurrence of pat in t (as the regex built from the escaped
    pattern finds it); [anchored_start]: only at 0; [anchored_end]: must end at the end of t *)
Fixpoint find_from (sens : bool) (pat : text) (a_start a_end : bool) (t : text) (i : nat) : option nat :=
  let here := prefix_match sens pat t && (negb a_end || Nat.eqb (length t) (length pat)) in
  if here then Some i
  else if a_start then None
  else match t with
       | [] => None
       | _ :: r => find_from sens pat a_start a_end r (S i)
       end.

Definition exact_in_slice (sens : bool) (pat : text) (pre post : bool) (sl : text) : option (N * N) :=
  match find_from sens pat pre post sl 0 with
  | Some i => let b := blen (firstn i sl) in Some (b, b + blen (firstn (length pat) (skipn i sl)))%N
  | None => None
  end.

(** * engines *)
Inductive engine :=
| EFuzzy (pat : text)
| EExact (pat : text) (pre post inv : bool)
| EAll
| ERegex (pat : text)
| EAnd (es : list engine)
| EOr (es : list engine).

Section Eval.
  Variable fz : text -> text -> option (list N).       (* fuzzy-matcher: pattern, choice *)
  Variable rx : text -> text -> option (N * N).        (* regex crate, regex mode: pattern, haystack *)
  Variable rx_valid : text -> bool.                    (* does the regex-mode pattern compile *)
  Variable cm : casem.

  (** an item: its text and its matching ranges (--nth), byte offsets *)
  Record item := { i_text : text; i_ranges : option (list (N * N)) }.

  Definition item_ranges (it : item) : list (N * N) :=
    match i_ranges it with Some l => l | None => [(0%N, blen (i_text it))] end.

  (** FuzzyEngine::fuzzy_match *)
  Definition fuzzy_match (choice pat : text) : option (list N) :=
    match pat with
    | [] => Some []
    | _ => match choice with [] => None | _ => fz pat choice end
    end.

  (** the `for &(start, end) in ranges` loop of the fuzzy engine *)
  Fixpoint fuzzy_loop (t : text) (pat : text) (rs : list (N * N)) : result :=
    match rs with
    | [] => NoMatch
    | (s, e) :: r =>
        let len := blen t in
        match slice t (N.min s len) (N.min e len) with
        | None => Panic
        | Some (pre, sl) =>
            match fuzzy_match sl pat with
            | Some idx => Match (RChars (if (N.min s len =? 0)%N then idx
                                         else map (fun x => x + N.of_nat (length pre))%N idx))
            | None => fuzzy_loop t pat r
            end
        end
    end.

  (** the loop of the exact engine; [pat = []] stands for `query_regex.is_none()` *)
  Fixpoint exact_loop (t : text) (pat : text) (pre post inv : bool) (rs : list (N * N)) : result :=
    match rs with
    | [] => NoMatch
    | (s, e) :: r =>
        let len := blen t in
        match slice t (N.min s len) (N.min e len) with
        | None => Panic
        | Some (_, sl) =>
            match pat with
            | [] => Match (RBytes 0 0)
            | _ =>
                let m := option_map (fun se : N * N => (fst se + N.min s len, snd se + N.min s len)%N)
                                    (exact_in_slice (case_sensitive cm pat) pat pre post sl) in
                let m := if inv then match m with Some _ => None | None => Some (0%N, 0%N) end else m in
                match m with
                | Some (b, e') => Match (RBytes b e')
                | None => exact_loop t pat pre post inv r
                end
            end
        end
    end.

  Fixpoint regex_loop (t : text) (pat : text) (rs : list (N * N)) : result :=
    match rs with
    | [] => NoMatch
    | (s, e) :: r =>
        let len := blen t in
        match slice t (N.min s len) (N.min e len) with
        | None => Panic
        | Some (_, sl) =>
            if negb (rx_valid pat) then Match (RBytes 0 0)
            else match rx pat sl with
                 | Some (b, e') => Match (RBytes (b + N.min s len) (e' + N.min s len))
                 | None => regex_loop t pat r
                 end
        end
    end.

  (** MatchResult::range_char_indices *)
  Definition char_indices (t : text) (r : mrange) : option (list N) :=
    match r with
    | RChars l => Some l
    | RBytes s e =>
        match slice t s e with
        | Some (pre, m) => Some (map (fun k => N.of_nat (length pre + k)) (seq 0 (length m)))
        | None => None
        end
    end.

  Fixpoint insert_N (x : N) (l : list N) : list N :=
    match l with [] => [x] | y :: r => if (x <=? y)%N then x :: l else y :: insert_N x r end.
  Definition sort_N (l : list N) : list N := fold_right insert_N [] l.
  Fixpoint dedup_N (l : list N) : list N :=
    match l with
    | x :: ((y :: _) as r) => if (x =? y)%N then dedup_N r else x :: dedup_N r
    | _ => l
    end.

  Fixpoint eval (e : engine) (it : item) {struct e} : result :=
    match e with
    | EFuzzy pat => fuzzy_loop (i_text it) pat (item_ranges it)
    | EExact pat pre post inv => exact_loop (i_text it) pat pre post inv (item_ranges it)
    | EAll => Match (RBytes 0 0)
    | ERegex pat => regex_loop (i_text it) pat (item_ranges it)
    | EOr es =>
        (fix first (l : list engine) : result :=
           match l with
           | [] => NoMatch
           | x :: r => match eval x it with NoMatch => first r | other => other end
           end) es
    | EAnd es =>
        (* every engine must match; positions are merged as character indices *)
        (fix all (l : list engine) (acc : list N) (any : bool) : result :=
           match l with
           | [] => if any then Match (RChars (dedup_N (sort_N acc))) else NoMatch
           | x :: r => match eval x it with
                       | Match m => match char_indices (i_text it) m with
                                    | Some idx => all r (acc ++ idx) true
                                    | None => Panic
                                    end
                       | other => other
                       end
           end) es [] false
    end.
End Eval.

(** * term decoding: ExactOrFuzzyEngineFactory::create_engine_with_case *)
Definition Q : char := 39%N.   (* ' *)
Definition BANG : char := 33%N.
Definition CARET : char := 94%N.
Definition DOLLAR : char := 36%N.

Definition strip_last (t : text) : text := removelast t.
Definition ends_with_char (t : text) (c : char) : bool := match rev t with x :: _ => (x =? c)%N | [] => false end.

Definition decode_term (exact_mode : bool) (q : text) : engine :=
  match q with
  | c :: r => if (c =? Q)%N && exact_mode then EFuzzy r
              else
                let '(q1, exact1) := if (c =? Q)%N then (r, true) else (q, false) in
                let '(q2, exact2, inv) := match q1 with
                                          | c2 :: r2 => if (c2 =? BANG)%N then (r2, true, true) else (q1, exact1, false)
                                          | [] => (q1, exact1, false)
                                          end in
                match q2 with
                | [] => EAll
                | _ =>
                    let '(q3, exact3, pre) := match q2 with
                                              | c3 :: r3 => if (c3 =? CARET)%N then (r3, true, true) else (q2, exact2, false)
                                              | [] => (q2, exact2, false)
                                              end in
                    let '(q4, exact4, post) := if ends_with_char q3 DOLLAR then (strip_last q3, true, true) else (q3, exact3, false) in
                    if exact4 || exact_mode then EExact q4 pre post inv else EFuzzy q4
                end
  | [] => EAll
  end.

(** * AndOrEngineFactory *)
Definition SPC : char := 32%N.
Definition BAR : char := 124%N.
Definition BSL : char := 92%N.

(** mask_escape_space: "\ " -> NUL *)
Fixpoint mask (t : text) : text :=
  match t with
  | a :: ((b :: r) as r1) => if (a =? BSL)%N && (b =? SPC)%N then 0%N :: mask r else a :: mask r1
  | _ => t
  end.
Definition unmask (t : text) : text := map (fun c => if (c =? 0)%N then SPC else c) t.

Fixpoint span_sp (t : text) : text * text :=
  match t with c :: r => if (c =? SPC)%N then let (a, b) := span_sp r in (c :: a, b) else ([], t) | [] => ([], []) end.

(** split on RE_OR = ` +\| +` (leftmost, non-overlapping); fuel = length *)
Fixpoint split_or (fuel : nat) (t : text) (cur : text) : list text :=
  match fuel with
  | O => [rev cur]
  | S f =>
      match t with
      | [] => [rev cur]
      | c :: r =>
          if (c =? SPC)%N then
            let (sp, rest) := span_sp t in
            match rest with
            | b :: r2 =>
                if (b =? BAR)%N then
                  let (sp2, rest2) := span_sp r2 in
                  match sp2 with
                  | [] => split_or f r (c :: cur)            (* no blank after the bar: no match starting here *)
                  | _ => rev cur :: split_or f rest2 []
                  end
                else split_or f r (c :: cur)
            | [] => split_or f r (c :: cur)
            end
          else split_or f r (c :: cur)
      end
  end.

Definition is_sep (c : char) : bool := (c =? SPC)%N || (c =? BAR)%N.
Fixpoint ltrim_sep (t : text) : text := match t with c :: r => if is_sep c then ltrim_sep r else t | [] => [] end.
Definition trim_sep (t : text) : text := rev (ltrim_sep (rev (ltrim_sep t))).

(** split on runs of blanks (the only alternative of RE_AND that can fire on a piece without ` | `) *)
Fixpoint split_sp (fuel : nat) (t : text) (cur : text) : list text :=
  match fuel with
  | O => [rev cur]
  | S f =>
      match t with
      | [] => [rev cur]
      | c :: r => if (c =? SPC)%N then rev cur :: split_sp f (snd (span_sp t)) [] else split_sp f r (c :: cur)
      end
  end.

Definition is_nilt (t : text) : bool := match t with [] => true | _ => false end.

Definition parse_and (exact_mode : bool) (piece : text) : engine :=
  let terms := map (fun w => unmask (trim_sep w)) (split_sp (length piece) (trim_sep piece) []) in
  EAnd (map (decode_term exact_mode) (filter (fun w => negb (is_nilt w)) terms)).

Definition all_blank (t : text) : bool := forallb (fun c => (c =? SPC)%N || (c =? 9)%N || (c =? 10)%N) t.

Definition parse_query (exact_mode : bool) (q : text) : engine :=
  if all_blank q then decode_term exact_mode q
  else let m := mask q in EOr (map (parse_and exact_mode) (split_or (length m) m [])).

(** the engine's Display form *)
Fixpoint join_with (sep : text) (l : list text) : text :=
  match l with [] => [] | [x] => x | x :: r => x ++ sep ++ join_with sep r end.
