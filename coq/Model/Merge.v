(** Model of src/ansi.rs: merge_fragments (the two-pointer loop) and AnsiStringIterator's
    per-character rule.  Definitions only.  A fragment is (attr, (start, end)) over character
    indices, end exclusive; the attribute type is a parameter. *)
From SkimV Require Import Common.Base.

Section Merge.
  Context {A : Type}.
  Local Notation frag := (A * (N * N))%type.

  (** the `while i < old.len() && j < new.len()` loop with its epilogue; [os] as in the code.
      The fourth branch consumes nothing, hence the fuel. *)
  Fixpoint merge_go (fuel : nat) (os : N) (old new : list frag) : option (list frag) :=
    match fuel with
    | O => None
    | S f =>
        match old, new with
        | (oa, (o_start, oe)) :: old', (na, (ns, ne)) :: new' =>
            let os := N.max os o_start in
            if (ns <=? os)%N && (oe <=? ne)%N then merge_go f os old' new
            else if (ns <=? os)%N then option_map (cons (na, (ns, ne))) (merge_go f ne old new')
            else if (oe <=? ns)%N then option_map (cons (oa, (os, oe))) (merge_go f os old' new)
            else option_map (cons (oa, (os, ns))) (merge_go f ns old new)
        | _, _ =>
            Some (map (fun x : frag => let '(oa, (s, e)) := x in (oa, (N.max os s, e))) old ++ new)
        end
    end.

  Definition merge_fuel (old new : list frag) : nat := 2 * (length old + length new) + 2.
  Definition merge_fragments (old new : list frag) : option (list frag) :=
    merge_go (merge_fuel old new) 0 old new.

  (** AnsiStringIterator: `fragment_idx` only advances; the fragments before it are dropped here *)
  Fixpoint advance (l : list frag) (k : N) : list frag :=
    match l with
    | [] => []
    | (_, (_, e)) :: r => if (k <? e)%N then l else advance r k
    end.
  Fixpoint iter_go (l : list frag) (k : N) (n : nat) : list (option A) :=
    match n with
    | O => []
    | S n' =>
        let l' := advance l k in
        let v := match l' with
                 | [] => None                                         (* Attr::default() *)
                 | (a, (s, e)) :: _ => if (s <=? k)%N && (k <? e)%N then Some a else None
                 end in
        v :: iter_go l' (k + 1) n'
    end.
  (** attributes of the first n characters; None = the default attribute *)
  Definition iter_attrs (l : list frag) (n : nat) : list (option A) := iter_go l 0 n.

  (** AnsiString::override_attrs on the fragment option *)
  Definition override_attrs (cur : option (list frag)) (attrs : list frag) : option (option (list frag)) :=
    match attrs, cur with
    | [], _ => Some cur
    | _, None => Some (Some attrs)
    | _, Some c => option_map Some (merge_fragments c attrs)
    end.
End Merge.
