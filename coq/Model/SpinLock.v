(** Model of src/spinlock.rs: any number of threads contend for the lock with compare-and-swap
    (`lock`: CAS false->true in a loop; guard drop: CAS true->false) and, while holding it, do a
    non-atomic read-modify-write of the protected datum.  Sequentially consistent interleaving
    (the code uses Ordering::SeqCst).  Definitions only. *)
From SkimV Require Import Common.Base.

Inductive tstate := TIdle | TWant | THold | TRead (v : nat) | TWrote.
Record lk := { locked : bool; data : nat; completed : nat; thr : list tstate }.

Fixpoint upd {A} (i : nat) (x : A) (l : list A) : list A :=
  match l, i with
  | [], _ => []
  | _ :: r, O => x :: r
  | y :: r, S j => y :: upd j x r
  end.

Definition holding (t : tstate) : bool := match t with THold | TRead _ | TWrote => true | _ => false end.

(** thread i takes its next step *)
Definition lstep (s : lk) (i : nat) : option lk :=
  match nth_error (thr s) i with
  | None => None
  | Some TIdle => Some {| locked := locked s; data := data s; completed := completed s; thr := upd i TWant (thr s) |}
  | Some TWant =>
      if locked s then Some s        (* compare_exchange(false, true) failed: spin *)
      else Some {| locked := true; data := data s; completed := completed s; thr := upd i THold (thr s) |}
  | Some THold => Some {| locked := locked s; data := data s; completed := completed s; thr := upd i (TRead (data s)) (thr s) |}
  | Some (TRead v) => Some {| locked := locked s; data := S v; completed := S (completed s); thr := upd i TWrote (thr s) |}
  | Some TWrote => Some {| locked := false; data := data s; completed := completed s; thr := upd i TIdle (thr s) |}
  end.

Fixpoint lrun (s : lk) (sched : list nat) : option lk :=
  match sched with
  | [] => Some s
  | i :: r => match lstep s i with Some s' => lrun s' r | None => None end
  end.

Definition linit (n : nat) : lk := {| locked := false; data := 0; completed := 0; thr := repeat TIdle n |}.
