(** Model of src/input.rs and src/event.rs: parse_event (over the generated action table), the
    binding grammar `key:action[(arg)|[arg]|"arg"|'arg'|:arg][+action...][,...]` as a
    deterministic scanner standing for the two regexes on well-formed specifications, Input::bind /
    parse_keymaps / parse_expect_keys / translate_event, and the if-* arms of the event loop.
    Definitions only.  Keys are identified by tuikit's Debug form; `from_keyname` is an oracle. *)
From SkimV Require Import Common.Base Gen.EventTable Gen.DefaultKeymap.
From Coq Require Import String.

(** an event: constructor name and argument *)
Inductive marg := MNone | MOptStr (o : option text) | MInt (z : Z) | MStr (s : text) | MChar (c : char) | MKey (k : text).
Definition mev := (text * marg)%type.
Definition chain := list mev.

(** str::parse::<i32>: optional sign, at least one digit, in range *)
Definition is_digit (c : char) : bool := (48 <=? c)%N && (c <=? 57)%N.
Definition digits_val (d : text) : Z := fold_left (fun acc c => acc * 10 + Z.of_N (c - 48))%Z d 0%Z.
Definition parse_i32 (t : text) : option Z :=
  let '(neg, d) := match t with
                   | 45%N :: r => (true, r)
                   | 43%N :: r => (false, r)
                   | _ => (false, t)
                   end in
  match d with
  | [] => None
  | _ => if forallb is_digit d
         then let v := if neg then (- digits_val d)%Z else digits_val d in
              if (-2147483648 <=? v)%Z && (v <=? 2147483647)%Z then Some v else None
         else None
  end.

Inductive pres {A} := Panics | Ok (a : A).
Arguments pres : clear implicits.

Definition ev_table : list (text * (text * arg_kind)) :=
  map (fun e => (codes (fst (fst e)), (codes (snd (fst e)), snd e))) event_table.

(** parse_event(action, arg) *)
Definition parse_event (action : text) (arg : option text) : pres (option mev) :=
  match assoc text_eqb action ev_table with
  | None => Ok None
  | Some (ctor, k) =>
      match k with
      | KNone => Ok (Some (ctor, MNone))
      | KOptStr => Ok (Some (ctor, MOptStr arg))
      | KInt d => Ok (Some (ctor, MInt (match arg with
                                        | Some s => match parse_i32 s with Some v => v | None => d end
                                        | None => d
                                        end)))
      | KStr => match arg with Some s => Ok (Some (ctor, MStr s)) | None => Panics end
      end
  end.

(** * the binding grammar *)
Definition COLON : char := 58%N.
Definition COMMA : char := 44%N.
Definition PLUSC : char := 43%N.

Fixpoint span (p : char -> bool) (t : text) : text * text :=
  match t with
  | c :: r => if p c then let (a, b) := span p r in (c :: a, b) else ([], t)
  | [] => ([], [])
  end.

(** [a-z-] under the regexes' case-insensitive flag *)
Definition is_name_char (c : char) : bool := ((97 <=? c)%N && (c <=? 122)%N) || ((65 <=? c)%N && (c <=? 90)%N) || (c =? 45)%N.
Definition neq (x : char) (c : char) : bool := negb (c =? x)%N.
Definition colon_arg_char (c : char) : bool := negb ((c =? COLON)%N || (c =? COMMA)%N || (c =? PLUSC)%N).

(** the argument after an action name: (argument, rest) *)
Definition scan_arg (t : text) : option (option text * text) :=
  let bracket (close : char) (r : text) :=
    let (a, r') := span (neq close) r in
    match r' with
    | c :: r'' => Some (Some a, r'')        (* c is the closing delimiter *)
    | [] => None
    end in
  match t with
  | 40%N :: r => bracket 41%N r             (* ( ) *)
  | 91%N :: r => bracket 93%N r             (* [ ] *)
  | 34%N :: r => bracket 34%N r             (* " " *)
  | 39%N :: r => bracket 39%N r             (* ' ' *)
  | 58%N :: r => let (a, r') := span colon_arg_char r in Some (Some a, r')
  | _ => Some (None, t)
  end.

Definition action := (text * option text)%type.

Fixpoint scan_actions (fuel : nat) (t : text) : option (list action * text) :=
  match fuel with
  | O => None
  | S f =>
      let (name, t1) := span is_name_char t in
      match name with
      | [] => None
      | _ =>
          match scan_arg t1 with
          | None => None
          | Some (arg, t2) =>
              match t2 with
              | 43%N :: t3 => match scan_actions f t3 with
                              | Some (rest, t4) => Some ((name, arg) :: rest, t4)
                              | None => None
                              end
              | _ => Some ([(name, arg)], t2)
              end
          end
      end
  end.

Fixpoint scan_bindings (fuel : nat) (t : text) : list (text * list action) :=
  match fuel with
  | O => []
  | S f =>
      let (key, t1) := span (neq COLON) t in
      match key, t1 with
      | _ :: _, _ :: t2 =>                   (* non-empty key, then the colon *)
          match scan_actions (S (List.length t2)) t2 with
          | Some (acts, t3) =>
              match t3 with
              | [] => [(key, acts)]
              | 44%N :: t4 => (key, acts) :: scan_bindings f t4
              | _ => [(key, acts)]
              end
          | None => []
          end
      | _, _ => []
      end
  end.

(** parse_key_action on a well-formed specification *)
Definition parse_key_action (t : text) : list (text * list action) := scan_bindings (S (List.length t)) t.

(** * the key map *)
Definition keymap := list (text * chain).      (* key (Debug form) -> chain; first entry wins *)

Definition dk_to_marg (a : dk_arg) : marg :=
  match a with ANone => MNone | AOptStr o => MOptStr (option_map codes o) | AInt z => MInt z end.
Definition default_map : keymap :=
  map (fun e => (codes (fst e), map (fun x => (codes (fst x), dk_to_marg (snd x))) (snd e))) default_keymap.

Definition lookup (m : keymap) (k : text) : option chain := assoc text_eqb k m.
Fixpoint remove_key (m : keymap) (k : text) : keymap :=
  match m with
  | [] => []
  | (k', c) :: r => if text_eqb k k' then remove_key r k else (k', c) :: remove_key r k
  end.

Section Keys.
  (** tuikit::key::from_keyname: key name -> Debug form of the key *)
  Variable keyof : text -> option text.

  (** Input::bind *)
  Definition bind (m : keymap) (keyname : text) (c : chain) : keymap :=
    match keyof keyname, c with
    | None, _ => m
    | _, [] => m
    | Some k, _ => (k, c) :: remove_key m k
    end.

  (** the chain of one parsed binding; Panics if an action that needs an argument has none *)
  Fixpoint chain_of (acts : list action) : pres chain :=
    match acts with
    | [] => Ok []
    | (name, arg) :: r =>
        match parse_event name arg, chain_of r with
        | Panics, _ | _, Panics => Panics
        | Ok (Some e), Ok c => Ok (e :: c)
        | Ok None, Ok c => Ok c
        end
    end.

  (** Input::parse_keymap / parse_keymaps *)
  Definition parse_keymap (m : pres keymap) (spec : text) : pres keymap :=
    fold_left (fun acc (b : text * list action) =>
                 match acc with
                 | Panics => Panics
                 | Ok m' => match chain_of (snd b) with
                            | Panics => Panics
                            | Ok c => Ok (bind m' (fst b) c)
                            end
                 end) (parse_key_action spec) m.
  Definition parse_keymaps (m : keymap) (specs : list text) : pres keymap := fold_left parse_keymap specs (Ok m).

  (** str::split(',') *)
  Fixpoint split_comma (t : text) : list text :=
    match t with
    | [] => [[]]
    | c :: r => if (c =? COMMA)%N then [] :: split_comma r
                else match split_comma r with w :: ws => (c :: w) :: ws | [] => [[c]] end
    end.

  Definition accept_ctor : text := codes "EvActAccept".

  (** Input::parse_expect_keys *)
  Definition parse_expect_keys (m : keymap) (keys : option text) : keymap :=
    match keys with
    | None => m
    | Some ks => fold_left (fun acc k => bind acc k [(accept_ctor, MOptStr (Some k))]) (split_comma ks) m
    end.

  (** Input::translate_event for a key event: the key's Debug form and, for Key::Char, its character *)
  Definition translate_key (m : keymap) (k : text) (ch : option char) : chain :=
    match lookup m k with
    | Some c => c
    | None => match ch with
              | Some c => [(codes "EvActAddChar", MChar c)]
              | None => [(codes "EvInputKey", MKey k)]
              end
    end.
End Keys.

(** parse_action_arg: the first action of `fake_key:<arg>` *)
Definition parse_action_arg (arg : text) : pres (option mev) :=
  match parse_key_action (codes "fake_key:" ++ arg) with
  | (_, (name, a) :: _) :: _ => parse_event name a
  | _ => Ok None
  end.

(** the if-query-empty / if-query-not-empty / if-non-matched arms: the event handled next, if any *)
Definition handle_if (cond : bool) (arg : text) : pres (option mev) :=
  if cond then parse_action_arg arg else Ok None.
