(** Model of src/previewer.rs: the front end's change detection (on_item_change), the worker loop
    (`run`: receive, kill and join the previous waiter, drain the channel to the newest request,
    handle it), the waiter thread (`wait`: output of a normally exited child is shown, a
    signal-terminated one is dropped), and vertical scrolling (act_scroll_down).  Requests are
    numbered by the front end in the order they are sent.  Definitions only; [pstep] is a function. *)
From SkimV Require Import Common.Base.

Inductive pkind := KCmd | KText | KNoop.
Definition preq := (nat * pkind)%type.                (* request number, kind *)
Inductive cstat := Running | ExitedOk | Killed.
Record waiter := { w_no : nat; w_stat : cstat; w_done : bool }.
Inductive wphase := WIdle | WGot (e : preq) | WJoined (e : preq) | WHandle (e : preq).

Record pst := {
  chan : list preq;                 (* the mpsc channel, oldest first *)
  wk : wphase;                      (* where the worker loop is *)
  wt : option waiter;               (* the waiter thread of the last spawned command and its child *)
  content : option nat;             (* whose output the pane shows *)
  shown : list nat;                 (* ghost: every assignment of the content, in order *)
  handled : option preq;            (* ghost: the last request the worker handled *)
  next : nat                        (* the number the next request gets *)
}.

Inductive plabel :=
| PSend (k : pkind)                 (* the front end sends a request *)
| PRecv | PKill | PJoin | PDrain | PHandle      (* worker loop *)
| PChildExit                        (* the child process ends by itself *)
| PWaiter.                          (* the waiter thread returns: callback or silent *)

Definition pinit : pst := {| chan := []; wk := WIdle; wt := None; content := None; shown := []; handled := None; next := 0 |}.

Definition pstep (s : pst) (l : plabel) : option pst :=
  match l with
  | PSend k =>
      Some {| chan := chan s ++ [(next s, k)]; wk := wk s; wt := wt s; content := content s; shown := shown s;
              handled := handled s; next := S (next s) |}
  | PRecv =>
      match wk s, chan s with
      | WIdle, e :: r => Some {| chan := r; wk := WGot e; wt := wt s; content := content s; shown := shown s; handled := handled s; next := next s |}
      | _, _ => None
      end
  | PKill =>
      (* `stopped` not yet raised: SIGKILL; it only has an effect on a child that is still running *)
      match wk s, wt s with
      | WGot e, Some w =>
          match w_stat w, w_done w with
          | Running, false =>
              Some {| chan := chan s; wk := wk s; wt := Some {| w_no := w_no w; w_stat := Killed; w_done := false |};
                      content := content s; shown := shown s; handled := handled s; next := next s |}
          | _, _ => None
          end
      | _, _ => None
      end
  | PJoin =>
      match wk s with
      | WGot e =>
          match wt s with
          | Some w => if w_done w
                      then Some {| chan := chan s; wk := WJoined e; wt := None; content := content s; shown := shown s; handled := handled s; next := next s |}
                      else None
          | None => Some {| chan := chan s; wk := WJoined e; wt := None; content := content s; shown := shown s; handled := handled s; next := next s |}
          end
      | _ => None
      end
  | PDrain =>
      match wk s with
      | WJoined e => Some {| chan := []; wk := WHandle (last (chan s) e); wt := wt s; content := content s; shown := shown s; handled := handled s; next := next s |}
      | _ => None
      end
  | PHandle =>
      match wk s with
      | WHandle e =>
          match snd e with
          | KCmd => Some {| chan := chan s; wk := WIdle; wt := Some {| w_no := fst e; w_stat := Running; w_done := false |};
                            content := content s; shown := shown s; handled := Some e; next := next s |}
          | KText => Some {| chan := chan s; wk := WIdle; wt := wt s; content := Some (fst e); shown := shown s ++ [fst e];
                             handled := Some e; next := next s |}
          | KNoop => Some {| chan := chan s; wk := WIdle; wt := wt s; content := content s; shown := shown s; handled := Some e; next := next s |}
          end
      | _ => None
      end
  | PChildExit =>
      match wt s with
      | Some w =>
          match w_stat w, w_done w with
          | Running, false => Some {| chan := chan s; wk := wk s; wt := Some {| w_no := w_no w; w_stat := ExitedOk; w_done := false |};
                                      content := content s; shown := shown s; handled := handled s; next := next s |}
          | _, _ => None
          end
      | None => None
      end
  | PWaiter =>
      match wt s with
      | Some w =>
          if w_done w then None else
          match w_stat w with
          | Running => None
          | ExitedOk => Some {| chan := chan s; wk := wk s; wt := Some {| w_no := w_no w; w_stat := ExitedOk; w_done := true |};
                                content := Some (w_no w); shown := shown s ++ [w_no w]; handled := handled s; next := next s |}
          | Killed => Some {| chan := chan s; wk := wk s; wt := Some {| w_no := w_no w; w_stat := Killed; w_done := true |};
                              content := content s; shown := shown s; handled := handled s; next := next s |}
          end
      | None => None
      end
  end.

Fixpoint prun (s : pst) (ls : list plabel) : option pst :=
  match ls with
  | [] => Some s
  | l :: r => match pstep s l with Some s' => prun s' r | None => None end
  end.

(** nothing left to do: channel empty, worker blocked in recv, no waiter still to report *)
Definition psettled (s : pst) : Prop :=
  chan s = [] /\ wk s = WIdle /\ match wt s with Some w => w_done w = true | None => True end.

(** * the front end: change detection of on_item_change *)
Record pfront := { f_item : option N; f_query : option text; f_cmdq : option text; f_nsel : nat }.
Definition pfront0 : pfront := {| f_item := None; f_query := None; f_cmdq := None; f_nsel := 0 |}.

Definition opt_changed {A} (eqb : A -> A -> bool) (a b : option A) : bool :=
  match a, b with
  | None, None => false
  | Some x, Some y => negb (eqb x y)
  | _, _ => true
  end.

(** does a request go out, and the remembered state afterwards *)
Definition on_item_change (f : pfront) (item : option N) (q cq : option text) (nsel : nat) (force : bool) : bool * pfront :=
  let changed := force || opt_changed N.eqb (f_item f) item || opt_changed text_eqb (f_query f) q
                 || opt_changed text_eqb (f_cmdq f) cq || negb (Nat.eqb (f_nsel f) nsel) in
  if changed then (true, {| f_item := item; f_query := q; f_cmdq := cq; f_nsel := nsel |}) else (false, f).

(** * act_scroll_down: offset (from 1), signed distance, number of content lines *)
Definition scroll_down (off : nat) (diff : Z) (len : nat) : nat :=
  let n := if (0 <? diff)%Z then off + Z.to_nat diff else off - Nat.min (Z.to_nat (- diff)) off in
  Nat.max (Nat.min n (Nat.max len 1 - 1)) 1.

(** the position a preview asks for (v_scroll, with v_offset 0), kept inside its content *)
Definition scroll_init (req len : nat) : nat := Nat.min (Nat.max 1 req) (Nat.max (Nat.max len 1 - 1) 1).
