(** A POSIX-shell word lexer (token recognition, XCU 2.2/2.3, without expansions): the reference
    against which "one literal word" is stated in C07.  Definitions only.
    A word in progress is a list of *parts*; a part is a literal character or an expansion
    trigger ($ or backquote, possibly inside double quotes).  Operators and blanks end words. *)
From SkimV Require Import Common.Base.

Inductive mode := Unq | Sq | Dq | UnqEsc | DqEsc.      (* unquoted / '...' / "..." / after a backslash *)
Inductive part := L (c : char) | Expand (c : char).
Inductive token := Word (w : list part) | Op (c : char).

Record lst := { md : mode; cur : option (list part); out : list token }.

Definition is_blank (c : char) : bool := (c =? 32)%N || (c =? 9)%N || (c =? 10)%N.
Definition is_op (c : char) : bool :=
  (c =? 59)%N || (c =? 124)%N || (c =? 38)%N || (c =? 60)%N || (c =? 62)%N || (c =? 40)%N || (c =? 41)%N.
Definition is_expand (c : char) : bool := (c =? 36)%N || (c =? 96)%N.     (* $ ` *)

Definition add (s : lst) (p : part) : lst :=
  {| md := md s; cur := Some (match cur s with Some w => w ++ [p] | None => [p] end); out := out s |}.
Definition with_mode (s : lst) (m : mode) : lst := {| md := m; cur := cur s; out := out s |}.
(** entering quotes starts a word even if nothing follows ('' is an empty word) *)
Definition touch (s : lst) : lst :=
  {| md := md s; cur := Some (match cur s with Some w => w | None => [] end); out := out s |}.
Definition flush (s : lst) : lst :=
  {| md := md s; cur := None; out := match cur s with Some w => out s ++ [Word w] | None => out s end |}.

Definition step (s : lst) (c : char) : lst :=
  match md s with
  | Unq =>
      if (c =? 39)%N then with_mode (touch s) Sq
      else if (c =? 34)%N then with_mode (touch s) Dq
      else if (c =? 92)%N then with_mode s UnqEsc
      else if is_blank c then flush s
      else if is_op c then let s' := flush s in {| md := Unq; cur := None; out := out s' ++ [Op c] |}
      else if is_expand c then add s (Expand c)
      else add s (L c)
  | UnqEsc => if (c =? 10)%N then with_mode s Unq            (* line continuation *)
              else with_mode (add s (L c)) Unq
  | Sq => if (c =? 39)%N then with_mode s Unq else add s (L c)
  | Dq =>
      if (c =? 34)%N then with_mode s Unq
      else if (c =? 92)%N then with_mode s DqEsc
      else if is_expand c then add s (Expand c)
      else add s (L c)
  | DqEsc =>
      if is_expand c || (c =? 34)%N || (c =? 92)%N then with_mode (add s (L c)) Dq
      else if (c =? 10)%N then with_mode s Dq
      else with_mode (add (add s (L 92%N)) (L c)) Dq
  end.

Definition lex_from (s : lst) (t : text) : lst := fold_left step t s.
Definition start : lst := {| md := Unq; cur := None; out := [] |}.
Definition lex (t : text) : list token := out (flush (lex_from start t)).
