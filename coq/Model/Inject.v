(** Model of src/util.rs: escape_single_quote, the placeholder scanner standing for RE_FIELDS
    (`\\?(\{ *-?[0-9.,cq+n]*? *})`, leftmost non-overlapping matches) and the replacement closure of
    inject_command.  Definitions only.  Texts are lists of characters; the delimiter's matches inside
    each item text enter as data (spans in character offsets), as in Model/Field.v. *)
From SkimV Require Import Common.Base Gen.Regexes Model.Field.

Definition SQ : char := 39%N.        (* ' *)
Definition BS : char := 92%N.        (* \ *)
Definition NUL : char := 0%N.
Definition SP : char := 32%N.
Definition LB : char := 123%N.       (* { *)
Definition RB : char := 125%N.       (* } *)
Definition MINUS : char := 45%N.
Definition PLUS : char := 43%N.

(** escape_single_quote: ' -> '\''   NUL -> \0 *)
Fixpoint escape_single_quote (t : text) : text :=
  match t with
  | [] => []
  | c :: r =>
      if (c =? SQ)%N then SQ :: BS :: SQ :: SQ :: escape_single_quote r
      else if (c =? NUL)%N then BS :: 48%N :: escape_single_quote r
      else c :: escape_single_quote r
  end.
Definition quote (t : text) : text := SQ :: escape_single_quote t ++ [SQ].

(** the character class of RE_FIELDS, regenerated from the regex literal in the source *)
Definition in_class (c : char) : bool := existsb (N.eqb c) re_fields_class.

Fixpoint span (p : char -> bool) (t : text) : text * text :=
  match t with
  | c :: r => if p c then let (a, b) := span p r in (c :: a, b) else ([], t)
  | [] => ([], [])
  end.

(** after an opening brace: ` *-?[class]*? *}`; returns (the text between the braces, rest) *)
Definition scan_body (t : text) : option (text * text) :=
  let (sp1, t1) := span (fun c => (c =? SP)%N) t in
  let (neg, t2) := match t1 with c :: r => if (c =? MINUS)%N then ([MINUS], r) else ([], t1) | [] => ([], []) end in
  let (cls, t3) := span in_class t2 in
  let (sp2, t4) := span (fun c => (c =? SP)%N) t3 in
  match t4 with
  | c :: rest => if (c =? RB)%N then Some (sp1 ++ neg ++ cls ++ sp2, rest) else None
  | [] => None
  end.

Inductive seg :=
| Lit (c : char)                 (* a character outside every match: copied *)
| Ph (body : text)               (* {body}: replaced *)
| Escaped (body : text).         (* \{body}: the whole match is copied *)

(** leftmost, non-overlapping matches; fuel = length of the text (every step consumes) *)
Fixpoint scan (fuel : nat) (t : text) : list seg :=
  match fuel with
  | O => []
  | S f =>
      match t with
      | [] => []
      | c :: r =>
          if (c =? BS)%N then
            match r with
            | c2 :: r2 =>
                if (c2 =? LB)%N then
                  match scan_body r2 with
                  | Some (body, rest) => Escaped body :: scan f rest
                  | None => Lit c :: scan f r
                  end
                else Lit c :: scan f r
            | [] => [Lit c]
            end
          else if (c =? LB)%N then
            match scan_body r with
            | Some (body, rest) => Ph body :: scan f rest
            | None => Lit c :: scan f r
            end
          else Lit c :: scan f r
      end
  end.
Definition segments (t : text) : list seg := scan (length t) t.

(** the source text of a segment *)
Definition seg_source (s : seg) : text :=
  match s with
  | Lit c => [c]
  | Ph body => LB :: body ++ [RB]
  | Escaped body => BS :: LB :: body ++ [RB]
  end.

(** an item text with the delimiter's matches inside it *)
Record item := { it_text : text; it_ms : list (N * N) }.

Record ctx := {
  current_index : N; current : item;
  indices : list N; selections : list item;
  query : text; cmd_query : text
}.

(** str::trim on a body that can only contain blanks as white space *)
Fixpoint ltrim (t : text) : text := match t with c :: r => if (c =? SP)%N then ltrim r else t | [] => [] end.
Definition trim (t : text) : text := rev (ltrim (rev (ltrim t))).

(** format!("{}", n) *)
Fixpoint dec_digits (fuel : nat) (n : N) (acc : text) : text :=
  match fuel with
  | O => acc
  | S f => let acc' := (48 + n mod 10)%N :: acc in
           if (n / 10 =? 0)%N then acc' else dec_digits f (n / 10)%N acc'
  end.
Definition decimal (n : N) : text := dec_digits 25 n [].

Definition slice (t : text) (b e : N) : text := firstn (N.to_nat (e - b)) (skipn (N.to_nat b) t).

(** get_string_by_range(delimiter, text, range).unwrap_or("") *)
Definition field_text (it : item) (range : text) : text :=
  match from_str range with
  | Some f =>
      match get_string_by_field (it_ms it) (N.of_nat (length (it_text it))) f with
      | Some (b, e) => slice (it_text it) b e
      | None => []
      end
  | None => []
  end.

Definition is_n (t : text) : bool := text_eqb t [110%N].
Definition is_q (t : text) : bool := text_eqb t [113%N].
Definition is_cq (t : text) : bool := text_eqb t [99%N; 113%N].

(** the values a placeholder stands for *)
Definition values (body : text) (c : ctx) : list text :=
  let range := trim body in
  match range with
  | p :: rest =>
      if (p =? PLUS)%N then
        let sels := match selections c with [] => [current c] | l => l end in
        let idxs := match indices c with [] => [current_index c] | l => l end in
        map (fun si : item * N =>
               let (s, i) := si in
               match rest with
               | [] => it_text s
               | _ => if is_n rest then decimal i else field_text s rest
               end) (combine sels idxs)
      else
        [ if is_n range then decimal (current_index c)
          else if is_q range then query c
          else if is_cq range then cmd_query c
          else field_text (current c) range ]
  | [] => [it_text (current c)]
  end.

Fixpoint join_sp (l : list text) : text :=
  match l with [] => [] | [x] => x | x :: r => x ++ SP :: join_sp r end.

Definition render (c : ctx) (s : seg) : text :=
  match s with
  | Lit ch => [ch]
  | Escaped body => BS :: LB :: body ++ [RB]
  | Ph body => join_sp (map quote (values body c))
  end.

Definition inject_command (cmd : text) (c : ctx) : text := flat_map (render c) (segments cmd).
