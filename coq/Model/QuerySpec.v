(** The plain reference editor C18 compares the query editor with: a line is the text lpart of the
    cursor and the text rpart of it, both in reading order (text = lpart ++ rpart, cursor column =
    length lpart); plus a kill buffer, the mode, one history zipper per buffer and the paste
    buffer.  Independent of Model/Query.v and of the generated constants. *)
From SkimV Require Import Common.Base.

Section Spec.
  Variables is_ws is_alnum : char -> bool.

  Fixpoint take_while (p : char -> bool) (l : text) : text :=
    match l with [] => [] | c :: r => if p c then c :: take_while p r else [] end.
  Fixpoint drop_while (p : char -> bool) (l : text) : text :=
    match l with [] => [] | c :: r => if p c then drop_while p r else l end.
  (** remove the longest suffix all of whose characters satisfy p *)
  Definition drop_while_end (p : char -> bool) (l : text) : text := rev (drop_while p (rev l)).

  Record line := { lpart : text; rpart : text }.
  Definition ltext (l : line) : text := lpart l ++ rpart l.
  Definition lcursor (l : line) : nat := length (lpart l).

  Inductive smode := SQuery | SCmd.

  Record ed := {
    e_fz : line; e_cmd : line; e_kill : text; e_mode : smode;
    e_fz_older : list text; e_fz_newer : list text;      (* most recent first / next first *)
    e_cmd_older : list text; e_cmd_newer : list text;
    e_paste : option text
  }.

  Definition cur (e : ed) : line := match e_mode e with SQuery => e_fz e | SCmd => e_cmd e end.
  Definition with_cur (e : ed) (l : line) : ed :=
    match e_mode e with
    | SQuery => {| e_fz := l; e_cmd := e_cmd e; e_kill := e_kill e; e_mode := e_mode e;
                   e_fz_older := e_fz_older e; e_fz_newer := e_fz_newer e;
                   e_cmd_older := e_cmd_older e; e_cmd_newer := e_cmd_newer e; e_paste := e_paste e |}
    | SCmd => {| e_fz := e_fz e; e_cmd := l; e_kill := e_kill e; e_mode := e_mode e;
                 e_fz_older := e_fz_older e; e_fz_newer := e_fz_newer e;
                 e_cmd_older := e_cmd_older e; e_cmd_newer := e_cmd_newer e; e_paste := e_paste e |}
    end.
  (** a kill of the empty text leaves the kill buffer alone *)
  Definition with_kill (e : ed) (k : text) : ed :=
    match k with
    | [] => e
    | _ => {| e_fz := e_fz e; e_cmd := e_cmd e; e_kill := k; e_mode := e_mode e;
              e_fz_older := e_fz_older e; e_fz_newer := e_fz_newer e;
              e_cmd_older := e_cmd_older e; e_cmd_newer := e_cmd_newer e; e_paste := e_paste e |}
    end.
  Definition with_paste (e : ed) (p : option text) : ed :=
    {| e_fz := e_fz e; e_cmd := e_cmd e; e_kill := e_kill e; e_mode := e_mode e;
       e_fz_older := e_fz_older e; e_fz_newer := e_fz_newer e;
       e_cmd_older := e_cmd_older e; e_cmd_newer := e_cmd_newer e; e_paste := p |}.
  Definition with_mode (e : ed) (m : smode) : ed :=
    {| e_fz := e_fz e; e_cmd := e_cmd e; e_kill := e_kill e; e_mode := m;
       e_fz_older := e_fz_older e; e_fz_newer := e_fz_newer e;
       e_cmd_older := e_cmd_older e; e_cmd_newer := e_cmd_newer e; e_paste := e_paste e |}.
  Definition older (e : ed) := match e_mode e with SQuery => e_fz_older e | SCmd => e_cmd_older e end.
  Definition newer (e : ed) := match e_mode e with SQuery => e_fz_newer e | SCmd => e_cmd_newer e end.
  Definition with_hist (e : ed) (o n : list text) : ed :=
    match e_mode e with
    | SQuery => {| e_fz := e_fz e; e_cmd := e_cmd e; e_kill := e_kill e; e_mode := e_mode e;
                   e_fz_older := o; e_fz_newer := n;
                   e_cmd_older := e_cmd_older e; e_cmd_newer := e_cmd_newer e; e_paste := e_paste e |}
    | SCmd => {| e_fz := e_fz e; e_cmd := e_cmd e; e_kill := e_kill e; e_mode := e_mode e;
                 e_fz_older := e_fz_older e; e_fz_newer := e_fz_newer e;
                 e_cmd_older := o; e_cmd_newer := n; e_paste := e_paste e |}
    end.

  Definition insert (l : line) (t : text) : line := {| lpart := lpart l ++ t; rpart := rpart l |}.

  (** where a backward word motion stops: skip the characters satisfying p1, then those satisfying p2 *)
  Definition back_stop (p1 p2 : char -> bool) (lft : text) : text :=
    drop_while_end p2 (drop_while_end p1 lft).
  Definition fwd_stop (p1 p2 : char -> bool) (rgt : text) : text :=
    drop_while p2 (drop_while p1 rgt).
  (** the part of [lft] rpart of its prefix [keep] / the part of [rgt] lpart of its suffix [keep] *)
  Definition cut_back (lft keep : text) : text := skipn (length keep) lft.
  Definition cut_fwd (rgt keep : text) : text := firstn (length rgt - length keep) rgt.

  Definition nalnum c := negb (is_alnum c).
  Definition nws c := negb (is_ws c).

  Inductive sev :=
  | SAddChar (c : char) | SDeleteChar | SBackwardChar | SBackwardDeleteChar
  | SBackwardKillWord | SBackwardWord | SBeginningOfLine | SEndOfLine | SForwardChar | SForwardWord
  | SKillLine | SKillWord | SPreviousHistory | SNextHistory | SUnixLineDiscard | SUnixWordRubout
  | SYank | SToggleInteractive | SPasteStart | SPasteEnd | SOther.

  Definition sstep (e : ed) (v : sev) : ed :=
    let l := cur e in
    match v with
    | SAddChar c => match e_paste e with
                    | Some p => with_paste e (Some (p ++ [c]))
                    | None => with_cur e (insert l [c])
                    end
    | SDeleteChar => with_cur e {| lpart := lpart l; rpart := tl (rpart l) |}
    | SBackwardDeleteChar => with_cur e {| lpart := removelast (lpart l); rpart := rpart l |}
    | SBackwardChar =>
        match rev (lpart l) with
        | [] => e
        | c :: _ => with_cur e {| lpart := removelast (lpart l); rpart := c :: rpart l |}
        end
    | SForwardChar =>
        match rpart l with
        | [] => e
        | c :: r => with_cur e {| lpart := lpart l ++ [c]; rpart := r |}
        end
    | SBeginningOfLine => with_cur e {| lpart := []; rpart := ltext l |}
    | SEndOfLine => with_cur e {| lpart := ltext l; rpart := [] |}
    | SBackwardWord =>
        let keep := back_stop nalnum is_alnum (lpart l) in
        with_cur e {| lpart := keep; rpart := cut_back (lpart l) keep ++ rpart l |}
    | SForwardWord =>
        let keep := fwd_stop is_ws nws (rpart l) in
        with_cur e {| lpart := lpart l ++ cut_fwd (rpart l) keep; rpart := keep |}
    | SBackwardKillWord =>
        let keep := back_stop nalnum is_alnum (lpart l) in
        with_kill (with_cur e {| lpart := keep; rpart := rpart l |}) (cut_back (lpart l) keep)
    | SUnixWordRubout =>
        let keep := back_stop is_ws nws (lpart l) in
        with_kill (with_cur e {| lpart := keep; rpart := rpart l |}) (cut_back (lpart l) keep)
    | SKillWord =>
        let keep := fwd_stop nalnum is_alnum (rpart l) in
        with_kill (with_cur e {| lpart := lpart l; rpart := keep |}) (cut_fwd (rpart l) keep)
    | SKillLine => with_kill (with_cur e {| lpart := lpart l; rpart := [] |}) (rpart l)
    | SUnixLineDiscard => with_kill (with_cur e {| lpart := []; rpart := rpart l |}) (lpart l)
    | SYank => with_cur e (insert l (e_kill e))
    | SPreviousHistory =>
        match older e with
        | [] => e
        | h :: o => with_cur (with_hist e o (ltext l :: newer e)) {| lpart := h; rpart := [] |}
        end
    | SNextHistory =>
        match newer e with
        | [] => e
        | h :: n => with_cur (with_hist e (ltext l :: older e) n) {| lpart := h; rpart := [] |}
        end
    | SToggleInteractive => with_mode e (match e_mode e with SQuery => SCmd | SCmd => SQuery end)
    | SPasteStart => with_paste e (Some [])
    | SPasteEnd =>
        let e' := with_paste e None in
        with_cur e' (insert (cur e') (match e_paste e with Some p => p | None => [] end))
    | SOther => e
    end.

  Definition srun (e : ed) (vs : list sev) : ed := fold_left sstep vs e.

  Definition sinit (q c : text) (interactive : bool) (hq hc : list text) : ed :=
    {| e_fz := {| lpart := q; rpart := [] |}; e_cmd := {| lpart := c; rpart := [] |}; e_kill := [];
       e_mode := if interactive then SCmd else SQuery;
       e_fz_older := rev hq; e_fz_newer := []; e_cmd_older := rev hc; e_cmd_newer := [];
       e_paste := None |}.
End Spec.
