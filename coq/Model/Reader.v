(** Model of src/helper/item_reader.rs (both read loops): framing of a byte stream into records
    with BufRead::read_until, terminator stripping, one item per record; and of bin/main.rs
    `filter`: what is printed.  Definitions only.  Bytes are N < 256. *)
From SkimV Require Import Common.Base.

Definition byte := N.
Definition LF : byte := 10%N.
Definition CR : byte := 13%N.

(** read_until(term): the record up to and including the first terminator, and the rest *)
Fixpoint read_until (term : byte) (bs : list byte) : list byte * list byte :=
  match bs with
  | [] => ([], [])
  | b :: r => if (b =? term)%N then ([b], r)
              else let (rec, rest) := read_until term r in (b :: rec, rest)
  end.

(** the read loop: records until `n == 0`; fuel = number of bytes + 1 *)
Fixpoint records_go (fuel : nat) (term : byte) (bs : list byte) : list (list byte) :=
  match fuel with
  | O => []
  | S f => match bs with
           | [] => []
           | _ => let (rec, rest) := read_until term bs in rec :: records_go f term rest
           end
  end.
Definition records (term : byte) (bs : list byte) : list (list byte) := records_go (S (length bs)) term bs.

Definition ends_with (l suffix : list byte) : bool :=
  list_eqb N.eqb (skipn (length l - length suffix) l) suffix && Nat.leb (length suffix) (length l).
Definition drop_last (n : nat) (l : list byte) : list byte := firstn (length l - n) l.

(** terminator stripping *)
Definition strip (term : byte) (rec : list byte) : list byte :=
  if (term =? LF)%N && ends_with rec [CR; LF] then drop_last 2 rec
  else if ends_with rec [term] then drop_last 1 rec
  else rec.

(** the byte content of the items, in order *)
Definition items (term : byte) (bs : list byte) : list (list byte) := map (strip term) (records term bs).

(** filter mode: for each item that matches, its output followed by the output ending *)
Definition filter_out {Item} (matches : Item -> bool) (output : Item -> list byte) (ending : list byte)
           (its : list Item) : list byte :=
  flat_map (fun it => output it ++ ending) (filter matches its).

(** The same read over a source that hands out its bytes in pieces (BufRead::read_until's
    fill_buf / consume loop): [chunks] are the successive non-empty buffers, no more chunks = end of
    the source.  Returns the record and the chunks left (the rest of the current buffer first). *)
Definition has_term (term : byte) (c : list byte) : bool := existsb (fun b => (b =? term)%N) c.
Fixpoint read_until_chunks (term : byte) (chunks : list (list byte)) : list byte * list (list byte) :=
  match chunks with
  | [] => ([], [])
  | c :: cs =>
      if has_term term c
      then let (rec, rest) := read_until term c in (rec, match rest with [] => cs | _ => rest :: cs end)
      else let (rec', cs') := read_until_chunks term cs in (c ++ rec', cs')
  end.
Fixpoint records_chunks_go (fuel : nat) (term : byte) (chunks : list (list byte)) : list (list byte) :=
  match fuel with
  | O => []
  | S f => match chunks with
           | [] => []
           | _ => let (rec, cs') := read_until_chunks term chunks in rec :: records_chunks_go f term cs'
           end
  end.
Definition records_chunks (term : byte) (chunks : list (list byte)) : list (list byte) :=
  records_chunks_go (S (length (concat chunks))) term chunks.
