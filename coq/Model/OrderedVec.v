(** Model of src/orderedvec.rs (OrderedVec<T>), function for function.  Definitions only.

    Representation notes (the only liberties taken):
    - [sorted] is the Rust vector `sorted` in index order;
    - each element of [subs] is one Rust sub-vector stored *reversed*: its head is the vector's
      last element (the one `pop()` removes), so `v.last()`/`v.pop()` are head/tail here;
    - `par_sort()` is modelled by insertion sort on the element order (any sort producing an
      ordered permutation is indistinguishable once ties are canonicalised, see Corr/C02.v).
    The two tuning constants are parameters: MAX (MAX_MOVEMENT) and THRESH (the constant the
    number of moved items is compared with to decide the spill). *)
From SkimV Require Import Common.Base.

Section OrderedVec.
  Context {T : Type}.
  Variable le : T -> T -> bool.         (* Ord::cmp(a, b) != Greater *)
  Variables MAX THRESH : nat.

  Record ov := { sorted : list T; subs : list (list T); tac : bool; nosort : bool }.

  Definition empty (t n : bool) : ov := {| sorted := []; subs := []; tac := t; nosort := n |}.

  (** compare_item(a, b) != Greater  /  == Less *)
  Definition ele (s : ov) (a b : T) : bool := if tac s then le b a else le a b.
  Definition elt (s : ov) (a b : T) : bool := negb (ele s b a).

  Fixpoint insert (x : T) (l : list T) : list T :=
    match l with
    | [] => [x]
    | y :: r => if le x y then x :: l else y :: insert x r
    end.
  Fixpoint isort (l : list T) : list T :=
    match l with [] => [] | x :: r => insert x (isort r) end.

  (** sort_vector(vec, asc) *)
  Definition sort_vector (s : ov) (l : list T) (asc : bool) : list T :=
    if xorb asc (tac s) then isort l else rev (isort l).

  Definition last_opt (l : list T) : option T :=
    match rev l with [] => None | x :: _ => Some x end.

  (** the `while items_smaller.len() < MAX_MOVEMENT && !items.is_empty() && items.last() < sorted.last()`
      loop; [ritems] is `items` reversed (head = items.last()) *)
  Fixpoint move_loop (fuel : nat) (lastS : T) (s : ov) (ritems : list T) : list T * list T :=
    match fuel, ritems with
    | S f, x :: r =>
        if elt s x lastS then let (m, rest) := move_loop f lastS s r in (x :: m, rest)
        else ([], ritems)
    | _, _ => ([], ritems)
    end.

  Definition is_nil (l : list T) : bool := match l with [] => true | _ => false end.

  Definition append (s : ov) (items : list T) : ov :=
    if nosort s then {| sorted := sorted s ++ items; subs := subs s; tac := tac s; nosort := nosort s |}
    else
      let ritems := rev (sort_vector s items false) in
      let '(moved, rest) :=
        match last_opt (sorted s) with
        | None => ([], ritems)
        | Some lastS => move_loop MAX lastS s ritems
        end in
      let subs1 := if is_nil rest then subs s else subs s ++ [rest] in
      let too_many := Nat.leb THRESH (length moved) in
      let sorted1 := sorted s ++ moved in
      if too_many
      then {| sorted := []; subs := subs1 ++ [rev (sort_vector s sorted1 false)]; tac := tac s; nosort := nosort s |}
      else {| sorted := sort_vector s sorted1 true; subs := subs1; tac := tac s; nosort := nosort s |}.

  (** index and value of the first minimal `last()` among the non-empty sub-vectors (Iterator::min_by) *)
  Fixpoint min_from (s : ov) (i : nat) (best : option (nat * T)) (l : list (list T)) : option (nat * T) :=
    match l with
    | [] => best
    | [] :: r => min_from s (S i) best r
    | (x :: _) :: r =>
        match best with
        | None => min_from s (S i) (Some (i, x)) r
        | Some (_, y) => if elt s x y then min_from s (S i) (Some (i, x)) r else min_from s (S i) best r
        end
    end.

  (** vectors[k].pop(); remove the vector when it became empty *)
  Fixpoint pop_at (k : nat) (l : list (list T)) : list (list T) :=
    match k, l with
    | _, [] => []
    | O, v :: r => match v with [] | [_] => r | _ :: v' => v' :: r end
    | S k', v :: r => v :: pop_at k' r
    end.

  Fixpoint merge_loop (fuel : nat) (index : nat) (s : ov) : ov :=
    match fuel with
    | O => s
    | S f =>
        if Nat.ltb index (length (sorted s)) then s
        else match min_from s 0 None (subs s) with
             | None => s
             | Some (k, x) =>
                 merge_loop f index {| sorted := sorted s ++ [x]; subs := pop_at k (subs s);
                                       tac := tac s; nosort := nosort s |}
             end
    end.

  Definition len (s : ov) : nat := length (sorted s) + length (concat (subs s)).

  (** the loop runs at most once per element outside `sorted`: that many units of fuel suffice
      (proved in Proof/OrderedVec.v: more fuel changes nothing) *)
  Definition merge_till (index : nat) (s : ov) : ov := merge_loop (S (length (concat (subs s)))) index s.

  Inductive res := RNone | RSome (x : T) | RPanic.

  Definition get (s : ov) (index : nat) : ov * res :=
    let s1 := merge_till index s in
    if Nat.leb (len s1) index then (s1, RNone)
    else
      let i := if tac s1 && nosort s1 then len s1 - index - 1 else index in
      match nth_error (sorted s1) i with
      | Some x => (s1, RSome x)
      | None => (s1, RPanic)               (* `&list[index]` out of bounds *)
      end.

  Definition clear (s : ov) : ov := {| sorted := []; subs := []; tac := tac s; nosort := nosort s |}.

  (** iter(): merge_till(len) then get(0), get(1), ... until None *)
  Fixpoint iter_from (fuel : nat) (i : nat) (s : ov) : ov * list res :=
    match fuel with
    | O => (s, [])
    | S f => match get s i with
             | (s1, RNone) => (s1, [])
             | (s1, r) => let (s2, rs) := iter_from f (S i) s1 in (s2, r :: rs)
             end
    end.
  Definition iter (s : ov) : ov * list res :=
    let s1 := merge_till (len s) s in iter_from (S (len s1)) 0 s1.

  (** histories *)
  Inductive op := Append (items : list T) | Get (i : nat) | Len | Iter | Clear.

  Definition step (s : ov) (o : op) : ov :=
    match o with
    | Append l => append s l
    | Get i => fst (get s i)
    | Len => s
    | Iter => fst (iter s)
    | Clear => clear s
    end.

  Definition run (s : ov) (ops : list op) : ov := fold_left step ops s.

  (** what was appended since the last clear, in arrival order *)
  Definition since_clear_step (acc : list T) (o : op) : list T :=
    match o with Append l => acc ++ l | Clear => [] | _ => acc end.
  Definition since_clear (ops : list op) : list T := fold_left since_clear_step ops [].
End OrderedVec.

Arguments ov : clear implicits.
Arguments op : clear implicits.
Arguments res : clear implicits.
