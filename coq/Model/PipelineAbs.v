(** A finite abstraction of the pipeline transition system (Model/Pipeline.v), for the progress
    argument: every list is abstracted to "empty or not", the pool to "fully handed out or not",
    the heartbeat queue to "empty or not", the matcher to its phase and kill flag, the three -1/-0/sync
    flags to their disjunction.  [astep] returns the finite set of possible successors.  The set of
    abstract states reachable from the initial ones is computed here ([reach]); that it is closed
    under [astep] and that [astep] simulates [step] are proved in Proof/PipelineAbs.v.
    Definitions only. *)
From SkimV Require Import Common.Base Model.Pipeline.
From Coq Require Import FMapPositive.

Inductive amop :=
| AHbReadS | AHbReadR (sv : bool) | AHbHarvest (r : bool) | AHbReadC (r : bool) | ARestart
| AS1ReadC | AS1ReadR (c : bool) | AS1Decide (c r : bool) | AKillQ | AJoinQ | AKillC | AJoinC.

Inductive alabel :=
| ALPush | ALEof | ALMLoad | ALMTake | ALMPublish | ALMNotify | ALMFlag | ALMExit | ALLingerExit
| ALTimer | ALMain | ALHb | ALQuery | ALCmd.

Record ast := {
  a_alive : bool; a_src : bool; a_rbuf : bool;      (* reader alive; source / buffer non-empty *)
  a_cons : bool;                                      (* pool fully handed out *)
  a_mt : option (mphase * bool);                      (* phase, killed *)
  a_linger : bool;
  a_pc : list amop;
  a_hb : bool; a_timer : bool;                        (* a heartbeat is queued; the timer is armed *)
  a_flags : bool; a_dec : bool                        (* -1 / -0 / sync pending; a decision was taken *)
}.

Definition amop_of (o : mop) : amop :=
  match o with
  | HbReadS => AHbReadS | HbReadR b => AHbReadR b | HbHarvest r => AHbHarvest r | HbReadC r => AHbReadC r
  | Restart => ARestart | S1ReadC => AS1ReadC | S1ReadR c => AS1ReadR c | S1Decide c r => AS1Decide c r
  | KillQ => AKillQ | JoinQ => AJoinQ | KillC _ => AKillC | JoinC _ => AJoinC
  end.

Definition alab (l : label) : alabel :=
  match l with
  | LPush => ALPush | LEof => ALEof | LMLoad => ALMLoad | LMTake => ALMTake | LMPublish => ALMPublish
  | LMNotify => ALMNotify | LMFlag => ALMFlag | LMExit => ALMExit | LLingerExit => ALLingerExit
  | LTimer => ALTimer | LMain => ALMain | LHb => ALHb | LQuery _ => ALQuery | LCmd _ => ALCmd
  end.

Definition nonempty {A} (l : list A) : bool := match l with [] => false | _ => true end.

Section Abs.
  Variable nres : nat.
  Variable ncie : bool.
  Variable mp : N -> item -> bool.

  Definition alpha (s : st) : ast :=
    {| a_alive := alive s; a_src := nonempty (src s); a_rbuf := nonempty (rbuf s);
       a_cons := consumed s;
       a_mt := match mt s with Some m => Some (ph m, killed m) | None => None end;
       a_linger := linger s;
       a_pc := map amop_of (pc s);
       a_hb := (0 <? hbq s)%nat; a_timer := timer s;
       a_flags := f1 s || f0 s || fsync s;
       a_dec := match decided s with Some _ => true | None => false end |}.
End Abs.

Definition aflag (m : mphase * bool) : bool :=
  snd m || match fst m with PFlagged | PExited => true | _ => false end.
Definition aholds (m : mphase * bool) : bool :=
  match fst m with PTook | PPublished | PNotified | PFlagged => true | _ => false end.
Definition alocked (a : ast) : bool :=
  a_linger a || match a_mt a with Some m => aholds m | None => false end.
Definition ardone (a : ast) : bool := negb (a_alive a) && negb (a_rbuf a).

Definition set_mt (a : ast) (m : option (mphase * bool)) : ast :=
  {| a_alive := a_alive a; a_src := a_src a; a_rbuf := a_rbuf a; a_cons := a_cons a; a_mt := m; a_linger := a_linger a;
     a_pc := a_pc a; a_hb := a_hb a; a_timer := a_timer a; a_flags := a_flags a; a_dec := a_dec a |}.
Definition set_pc (a : ast) (p : list amop) : ast :=
  {| a_alive := a_alive a; a_src := a_src a; a_rbuf := a_rbuf a; a_cons := a_cons a; a_mt := a_mt a; a_linger := a_linger a;
     a_pc := p; a_hb := a_hb a; a_timer := a_timer a; a_flags := a_flags a; a_dec := a_dec a |}.
Definition set_hb (a : ast) (h : bool) : ast :=
  {| a_alive := a_alive a; a_src := a_src a; a_rbuf := a_rbuf a; a_cons := a_cons a; a_mt := a_mt a; a_linger := a_linger a;
     a_pc := a_pc a; a_hb := h; a_timer := a_timer a; a_flags := a_flags a; a_dec := a_dec a |}.

Definition astep_matcher (a : ast) (l : alabel) : list ast :=
  match a_mt a with
  | None => []
  | Some (p, k) =>
      match l, p with
      | ALMLoad, PSpawned => [set_mt a (Some (PLoaded, k))]
      | ALMTake, PLoaded =>
          if alocked a then [] else
          [{| a_alive := a_alive a; a_src := a_src a; a_rbuf := a_rbuf a; a_cons := true; a_mt := Some (PTook, k); a_linger := a_linger a;
              a_pc := a_pc a; a_hb := a_hb a; a_timer := a_timer a; a_flags := a_flags a; a_dec := a_dec a |}]
      | ALMPublish, PTook => [set_mt a (Some (PPublished, k))]
      | ALMNotify, PPublished => [set_hb (set_mt a (Some (PNotified, k))) true]
      | ALMFlag, PNotified => [set_mt a (Some (PFlagged, k))]
      | ALMExit, PFlagged => [set_mt a (Some (PExited, k))]
      | _, _ => []
      end
  end.

Definition both (f : bool -> ast) : list ast := [f true; f false].

Definition aexec_main (a : ast) : list ast :=
  match a_pc a with
  | [] => []
  | op :: rest =>
      match op with
      | AHbReadS =>
          let sv := match a_mt a with Some m => aflag m | None => false end in
          [set_pc a (AHbReadR sv :: rest)]
      | AHbReadR sv =>
          let r := ardone a in
          [set_pc a ((if sv then [AHbHarvest r] else []) ++ AHbReadC r :: rest)]
      | AHbHarvest r =>
          match a_mt a with
          | None => []
          | Some m =>
              if aflag m then
                [{| a_alive := a_alive a; a_src := a_src a; a_rbuf := a_rbuf a; a_cons := a_cons a; a_mt := None;
                    a_linger := a_linger a || aholds m; a_pc := rest; a_hb := a_hb a; a_timer := a_timer a;
                    a_flags := a_flags a; a_dec := a_dec a |}]
              else []
          end
      | AHbReadC r =>
          let processed := r && a_cons a in
          let restart := negb processed && match a_mt a with None => true | Some _ => false end in
          let arm := restart || match a_mt a with Some _ => true | None => false end || negb processed in
          [{| a_alive := a_alive a; a_src := a_src a; a_rbuf := a_rbuf a; a_cons := a_cons a; a_mt := a_mt a; a_linger := a_linger a;
              a_pc := (if restart then [ARestart] else []) ++ AS1ReadC :: rest;
              a_hb := a_hb a; a_timer := a_timer a || arm; a_flags := a_flags a; a_dec := a_dec a |}]
      | ARestart =>
          match a_mt a with
          | Some _ => []
          | None =>
              if ardone a then
                [{| a_alive := a_alive a; a_src := a_src a; a_rbuf := a_rbuf a; a_cons := a_cons a; a_mt := Some (PSpawned, false);
                    a_linger := a_linger a; a_pc := rest; a_hb := true; a_timer := a_timer a; a_flags := a_flags a; a_dec := a_dec a |}]
              else if alocked a then []
              else
                let mk c := {| a_alive := a_alive a; a_src := a_src a; a_rbuf := false; a_cons := c; a_mt := Some (PSpawned, false);
                               a_linger := a_linger a; a_pc := rest; a_hb := true; a_timer := a_timer a; a_flags := a_flags a; a_dec := a_dec a |} in
                if a_rbuf a then [mk (a_cons a); mk false] else [mk (a_cons a)]
          end
      | AS1ReadC => [set_pc a (AS1ReadR (a_cons a) :: rest)]
      | AS1ReadR c => [set_pc a (AS1Decide c (ardone a) :: rest)]
      | AS1Decide c r =>
          if negb (a_flags a) then [set_pc a rest] else
          let processed := r && c && match a_mt a with None => true | Some _ => false end in
          if processed then
            both (fun fl => {| a_alive := a_alive a; a_src := a_src a; a_rbuf := a_rbuf a; a_cons := a_cons a; a_mt := a_mt a;
                               a_linger := a_linger a; a_pc := rest; a_hb := a_hb a; a_timer := a_timer a;
                               a_flags := fl; a_dec := true |})
          else [set_pc a rest]
      | AKillQ =>
          let a' := set_pc a (AJoinQ :: rest) in
          [match a_mt a with Some (p, _) => set_mt a' (Some (p, true)) | None => a' end]
      | AKillC =>
          let a' := set_pc a (AJoinC :: rest) in
          [match a_mt a with Some (p, _) => set_mt a' (Some (p, true)) | None => a' end]
      | AJoinQ =>
          let joined := match a_mt a with Some (PExited, _) => true | Some _ => false | None => true end in
          if joined && negb (a_linger a) then
            both (fun c => {| a_alive := a_alive a; a_src := a_src a; a_rbuf := a_rbuf a; a_cons := c; a_mt := None; a_linger := false;
                              a_pc := ARestart :: rest; a_hb := a_hb a; a_timer := a_timer a; a_flags := a_flags a; a_dec := a_dec a |})
          else []
      | AJoinC =>
          let joined := match a_mt a with Some (PExited, _) => true | Some _ => false | None => true end in
          if joined && negb (a_linger a) then
            both (fun sr => {| a_alive := true; a_src := sr; a_rbuf := false; a_cons := true; a_mt := None; a_linger := false;
                               a_pc := ARestart :: rest; a_hb := a_hb a; a_timer := a_timer a; a_flags := a_flags a; a_dec := a_dec a |})
          else []
      end
  end.

Definition astep (a : ast) (l : alabel) : list ast :=
  match l with
  | ALPush =>
      if a_alive a && a_src a then
        both (fun sr => {| a_alive := true; a_src := sr; a_rbuf := true; a_cons := a_cons a; a_mt := a_mt a; a_linger := a_linger a;
                           a_pc := a_pc a; a_hb := a_hb a; a_timer := a_timer a; a_flags := a_flags a; a_dec := a_dec a |})
      else []
  | ALEof =>
      if a_alive a && negb (a_src a) then
        [{| a_alive := false; a_src := false; a_rbuf := a_rbuf a; a_cons := a_cons a; a_mt := a_mt a; a_linger := a_linger a;
            a_pc := a_pc a; a_hb := a_hb a; a_timer := a_timer a; a_flags := a_flags a; a_dec := a_dec a |}]
      else []
  | ALMLoad | ALMTake | ALMPublish | ALMNotify | ALMFlag | ALMExit => astep_matcher a l
  | ALLingerExit =>
      if a_linger a then
        [{| a_alive := a_alive a; a_src := a_src a; a_rbuf := a_rbuf a; a_cons := a_cons a; a_mt := a_mt a; a_linger := false;
            a_pc := a_pc a; a_hb := a_hb a; a_timer := a_timer a; a_flags := a_flags a; a_dec := a_dec a |}]
      else []
  | ALTimer =>
      if a_timer a then
        [{| a_alive := a_alive a; a_src := a_src a; a_rbuf := a_rbuf a; a_cons := a_cons a; a_mt := a_mt a; a_linger := a_linger a;
            a_pc := a_pc a; a_hb := true; a_timer := false; a_flags := a_flags a; a_dec := a_dec a |}]
      else []
  | ALMain => aexec_main a
  | ALHb => match a_pc a with [] => [set_hb (set_pc a [AHbReadS]) false] | _ => [] end
  | ALQuery => match a_pc a with [] => [set_pc a [AKillQ]] | _ => [] end
  | ALCmd => match a_pc a with [] => [set_pc a [AKillC]] | _ => [] end
  end.

Definition alabels : list alabel :=
  [ALPush; ALEof; ALMLoad; ALMTake; ALMPublish; ALMNotify; ALMFlag; ALMExit; ALLingerExit; ALTimer; ALMain; ALHb; ALQuery; ALCmd].

(** * decidable equality and a hash, for the reachable set *)
Definition bN (b : bool) : N := if b then 1%N else 0%N.
Definition phN (p : mphase) : N :=
  match p with PSpawned => 0 | PLoaded => 1 | PTook => 2 | PPublished => 3 | PNotified => 4 | PFlagged => 5 | PExited => 6 end%N.
Definition amopN (o : amop) : N :=
  match o with
  | AHbReadS => 0 | AHbReadR b => 1 + bN b | AHbHarvest b => 3 + bN b | AHbReadC b => 5 + bN b | ARestart => 7
  | AS1ReadC => 8 | AS1ReadR c => 9 + bN c | AS1Decide c r => 11 + 2 * bN c + bN r | AKillQ => 15 | AJoinQ => 16 | AKillC => 17 | AJoinC => 18
  end%N.
Definition amop_eqb (x y : amop) : bool := (amopN x =? amopN y)%N.
Definition mt_eqb (x y : option (mphase * bool)) : bool :=
  match x, y with
  | None, None => true
  | Some (p, k), Some (p', k') => (phN p =? phN p')%N && Bool.eqb k k'
  | _, _ => false
  end.
Definition ast_eqb (x y : ast) : bool :=
  Bool.eqb (a_alive x) (a_alive y) && Bool.eqb (a_src x) (a_src y) && Bool.eqb (a_rbuf x) (a_rbuf y) &&
  Bool.eqb (a_cons x) (a_cons y) && mt_eqb (a_mt x) (a_mt y) && Bool.eqb (a_linger x) (a_linger y) &&
  list_eqb amop_eqb (a_pc x) (a_pc y) && Bool.eqb (a_hb x) (a_hb y) && Bool.eqb (a_timer x) (a_timer y) &&
  Bool.eqb (a_flags x) (a_flags y) && Bool.eqb (a_dec x) (a_dec y).

(** a numeric code used as hash key (equal states have equal codes; nothing else is needed of it) *)
Definition pcN (p : list amop) : N := fold_left (fun acc o => acc * 19 + amopN o + 1)%N p 0%N.
Definition mtN (m : option (mphase * bool)) : N :=
  match m with None => 0 | Some (p, k) => 1 + 2 * phN p + bN k end%N.
Definition code (a : ast) : positive :=
  N.succ_pos
    (bN (a_alive a) + 2 * (bN (a_src a) + 2 * (bN (a_rbuf a) + 2 * (bN (a_cons a) + 2 * (bN (a_linger a) + 2 * (bN (a_hb a) +
     2 * (bN (a_timer a) + 2 * (bN (a_flags a) + 2 * (bN (a_dec a) + 2 * (mtN (a_mt a) + 16 * pcN (a_pc a)))))))))))%N.

(** * the reachable set, by exploration with fuel: [seen] maps a code to the states found with that
    code, [todo] holds those whose successors are still to be added *)
Definition aset := PositiveMap.t (list ast).
Definition bucket (x : ast) (m : aset) : list ast := match PositiveMap.find (code x) m with Some b => b | None => [] end.
Definition amem (x : ast) (m : aset) : bool := existsb (ast_eqb x) (bucket x m).
Definition aadd (x : ast) (m : aset) : aset := PositiveMap.add (code x) (x :: bucket x m) m.
Definition elems (m : aset) : list ast := flat_map snd (PositiveMap.elements m).

Definition succs (a : ast) : list ast := flat_map (astep a) alabels.

Fixpoint add_new (xs : list ast) (seen : aset) (todo : list ast) : aset * list ast :=
  match xs with
  | [] => (seen, todo)
  | x :: r => if amem x seen then add_new r seen todo else add_new r (aadd x seen) (x :: todo)
  end.

Fixpoint explore (fuel : nat) (seen : aset) (todo : list ast) : aset * list ast :=
  match fuel with
  | O => (seen, todo)
  | S k =>
      match todo with
      | [] => (seen, [])
      | a :: rest => let (seen', todo') := add_new (succs a) seen rest in explore k seen' todo'
      end
  end.

Definition ainit (sr fl : bool) : ast :=
  {| a_alive := true; a_src := sr; a_rbuf := false; a_cons := true; a_mt := None; a_linger := false; a_pc := [];
     a_hb := true; a_timer := false; a_flags := fl; a_dec := false |}.
Definition ainits : list ast := [ainit true true; ainit true false; ainit false true; ainit false false].

(** fuel: 2^15 exploration steps (the set has fewer than 10 000 states; [reach_todo] below is empty) *)
Definition fuel15 : nat := Nat.pow 2 15.
Definition reach_pair : aset * list ast :=
  Eval vm_compute in explore fuel15 (fold_right aadd (PositiveMap.empty _) ainits) ainits.
Definition reach : aset := fst reach_pair.
Definition reach_list : list ast := Eval vm_compute in elems reach.

(** * progress: a ranking of the abstract states after the end of the source
    Internal steps: those of the matcher thread, the exit of a harvested thread, the timer, the event
    loop's operations and the dispatch of a QUEUED heartbeat (no keystroke, no spurious heartbeat). *)
Definition ilabels : list alabel := [ALMLoad; ALMTake; ALMPublish; ALMNotify; ALMFlag; ALMExit; ALLingerExit; ALTimer; ALMain; ALHb].
Definition istep (a : ast) (l : alabel) : list ast :=
  match l with
  | ALPush | ALEof | ALQuery | ALCmd => []
  | ALHb => if a_hb a then astep a l else []
  | _ => astep a l
  end.
Definition alabel_eqb (x y : alabel) : bool :=
  match x, y with
  | ALPush, ALPush | ALEof, ALEof | ALMLoad, ALMLoad | ALMTake, ALMTake | ALMPublish, ALMPublish | ALMNotify, ALMNotify
  | ALMFlag, ALMFlag | ALMExit, ALMExit | ALLingerExit, ALLingerExit | ALTimer, ALTimer | ALMain, ALMain | ALHb, ALHb
  | ALQuery, ALQuery | ALCmd, ALCmd => true
  | _, _ => false
  end.

(** at rest: the event loop idle, nothing queued or armed, no matcher, the source ended and moved,
    the pool handed out *)
Definition agood (a : ast) : bool :=
  match a_pc a with [] => true | _ => false end && match a_mt a with None => true | _ => false end &&
  negb (a_alive a) && negb (a_rbuf a) && a_cons a && negb (a_hb a) && negb (a_timer a).

(** the ranking does not look at the -1/-0 flags *)
Definition strip (a : ast) : ast :=
  {| a_alive := a_alive a; a_src := a_src a; a_rbuf := a_rbuf a; a_cons := a_cons a; a_mt := a_mt a; a_linger := a_linger a;
     a_pc := a_pc a; a_hb := a_hb a; a_timer := a_timer a; a_flags := false; a_dec := false |}.

Definition rtable := PositiveMap.t (list (ast * (nat * alabel))).
Definition rlookup (a : ast) (t : rtable) : option (nat * alabel) :=
  match PositiveMap.find (code a) t with
  | Some b => match find (fun e => ast_eqb a (fst e)) b with Some e => Some (snd e) | None => None end
  | None => None
  end.
Definition radd (a : ast) (v : nat * alabel) (t : rtable) : rtable :=
  PositiveMap.add (code a) ((a, v) :: match PositiveMap.find (code a) t with Some b => b | None => [] end) t.

(** synthesis of the ranking (its result is checked in Proof/PipelineAbs.v; nothing is assumed of
    the procedure): at each level, for a label h, the largest set X of unranked states in which h is
    enabled, every h-successor is already ranked (or at rest), and every other successor is ranked or in X *)
Definition rk_done (t : rtable) (a : ast) : bool := agood a || match rlookup a t with Some _ => true | None => false end.

Fixpoint gfp (fuel : nat) (h : alabel) (t : rtable) (cand : list ast) : list ast :=
  match fuel with
  | O => cand
  | S k =>
      let xs := fold_right aadd (PositiveMap.empty _) cand in
      let ok a := forallb (fun l => alabel_eqb l h || forallb (fun a' => rk_done t a' || amem a' xs) (istep a l)) ilabels in
      let cand' := filter ok cand in
      if (List.length cand' =? List.length cand)%nat then cand else gfp k h t cand'
  end.

Fixpoint try_labels (ls : list alabel) (u : list ast) (t : rtable) : option (alabel * list ast) :=
  match ls with
  | [] => None
  | h :: r =>
      let cand := filter (fun a => nonempty (istep a h) && forallb (rk_done t) (istep a h)) u in
      match gfp (List.length cand) h t cand with
      | [] => try_labels r u t
      | x => Some (h, x)
      end
  end.

Fixpoint synth (fuel level : nat) (u : list ast) (t : rtable) : rtable * list ast :=
  match fuel with
  | O => (t, u)
  | S k =>
      match u with
      | [] => (t, [])
      | _ =>
          match try_labels ilabels u t with
          | Some (h, x) =>
              let xs := fold_right aadd (PositiveMap.empty _) x in
              synth k (S level) (filter (fun a => negb (amem a xs)) u) (fold_right (fun a => radd a (level, h)) t x)
          | None => (t, u)
          end
      end
  end.

(** the region: the source has ended and no command change is in flight *)
Definition no_cmd (p : list amop) : bool := forallb (fun o => match o with AKillC | AJoinC => false | _ => true end) p.
Definition region (a : ast) : bool := negb (a_alive a) && no_cmd (a_pc a).
Definition work_list : list ast :=
  Eval vm_compute in filter (fun a => region a && negb (agood a) && negb (a_flags a) && negb (a_dec a)) reach_list.

Definition rank_pair : rtable * list ast := Eval vm_compute in synth 2000 1 work_list (PositiveMap.empty _).
Definition rank_table : rtable := fst rank_pair.
Definition arank (a : ast) : nat := match rlookup (strip a) rank_table with Some (r, _) => r | None => 0 end.
Definition ahelp (a : ast) : alabel := match rlookup (strip a) rank_table with Some (_, h) => h | None => ALPush end.

(** what the ranking has to satisfy at a state of the region that is not at rest: the helpful label
    is enabled; every internal successor stays in the region and is at rest, or ranks lower, or (for
    a label other than the helpful one) ranks equal with the same helpful label *)
Definition rank_ok (a : ast) : bool :=
  negb (region a) || agood a ||
  (nonempty (istep a (ahelp a)) &&
   forallb (fun l => forallb (fun a' => region a' &&
                                        (agood a' || (arank a' <? arank a)%nat ||
                                         (negb (alabel_eqb l (ahelp a)) && (arank a' =? arank a)%nat && alabel_eqb (ahelp a') (ahelp a))))
                             (istep a l)) ilabels).

(** with -1/-0/sync pending, a state at rest has taken the decision *)
Definition decided_ok (a : ast) : bool := negb (agood a && a_flags a) || a_dec a.
