(** Model of src/selection.rs (the result list widget): cursor arithmetic, selection map,
    accept output.  Definitions only.

    - [items] is the listing of the underlying OrderedVec in position order (C02 shows that
      get(i) is element i of one rank-ordered permutation of what was appended since the last
      clear; that listing is what this model keeps);
    - `selected : BTreeMap<(u32,u32), Arc<dyn SkimItem>>` is a list of (key, object id) kept in
      key order;
    - i32 arithmetic is checked: every operation that would overflow, and every cast of a negative
      value to usize, is [None] (a panic or a wrap-around in the implementation).  usize -> i32
      casts of values >= 2^31 are [None] as well (outside the property's window).
    - the run number (global::current_run_num) is a field set by [SetRun]. *)
From SkimV Require Import Common.Base.

Record mitem := { mi_idx : N; mi_id : N; mi_rank : Z }.

Definition key := (N * N)%type.           (* (run number, item_idx) *)

Record sel := {
  items : list mitem;
  selected : list (key * N);
  ic : N;                                  (* item_cursor *)
  lc : N;                                  (* line_cursor *)
  height : N;                              (* last height stored by draw_item; 0 = never drawn *)
  reverse : bool;
  multi : bool;
  run : N;
  selmod : N;                              (* the configured selector: 0 = none; k > 0 = "item_idx is a multiple of k" *)
  wm : N;                                  (* pre_selected_watermark *)
  latest : N                               (* latest_select_run_num *)
}.

Definition init_sel (rev mul : bool) (k : N) : sel :=
  {| items := []; selected := []; ic := 0; lc := 0; height := 0; reverse := rev; multi := mul; run := 0;
     selmod := k; wm := 0; latest := 0 |}.
Definition init (rev mul : bool) : sel := init_sel rev mul 0.

Definition with_cursor (s : sel) (i l : N) : sel :=
  {| items := items s; selected := selected s; ic := i; lc := l; height := height s;
     reverse := reverse s; multi := multi s; run := run s; selmod := selmod s; wm := wm s; latest := latest s |}.
Definition with_items (s : sel) (it : list mitem) : sel :=
  {| items := it; selected := selected s; ic := ic s; lc := lc s; height := height s;
     reverse := reverse s; multi := multi s; run := run s; selmod := selmod s; wm := wm s; latest := latest s |}.
Definition with_selected (s : sel) (m : list (key * N)) : sel :=
  {| items := items s; selected := m; ic := ic s; lc := lc s; height := height s;
     reverse := reverse s; multi := multi s; run := run s; selmod := selmod s; wm := wm s; latest := latest s |}.
Definition with_height (s : sel) (h : N) : sel :=
  {| items := items s; selected := selected s; ic := ic s; lc := lc s; height := h;
     reverse := reverse s; multi := multi s; run := run s; selmod := selmod s; wm := wm s; latest := latest s |}.
Definition with_run (s : sel) (r : N) : sel :=
  {| items := items s; selected := selected s; ic := ic s; lc := lc s; height := height s;
     reverse := reverse s; multi := multi s; run := r; selmod := selmod s; wm := wm s; latest := latest s |}.

Definition nitems (s : sel) : N := N.of_nat (length (items s)).

(** * checked i32 arithmetic *)
Definition i32_ok (z : Z) : bool := (-2147483648 <=? z)%Z && (z <=? 2147483647)%Z.
Definition chk (z : Z) : option Z := if i32_ok z then Some z else None.
Definition to_i32 (n : N) : option Z := chk (Z.of_N n).
Definition to_usize (z : Z) : option N := if (0 <=? z)%Z then Some (Z.to_N z) else None.

Definition bind {A B} (o : option A) (f : A -> option B) : option B :=
  match o with Some x => f x | None => None end.
Notation "'do' x <- o ; f" := (bind o (fun x => f)) (at level 200, x name, o at level 100, f at level 200).

(** act_move_line_cursor(diff): > 0 moves up *)
Definition move_line_cursor (s : sel) (diff : Z) : option sel :=
  do diff <- (if reverse s then chk (- diff) else Some diff);
  do line0 <- to_i32 (lc s);
  do item0 <- to_i32 (ic s);
  do len <- to_i32 (nitems s);
  do h <- to_i32 (N.max (height s) 1);
  do line <- chk (line0 + diff);
  do r <-
    (if (h <=? line)%Z then
       do t1 <- chk (line - h);
       do t2 <- chk (t1 + 1);
       do i1 <- chk (item0 + t2);
       do lh <- chk (len - h);
       let i2 := Z.max 0 (Z.min i1 lh) in
       do t3 <- chk (len - i2);
       do t4 <- chk (t3 - 1);
       Some (i2, Z.min (h - 1) t4)
     else if (line <? 0)%Z then
       do i1 <- chk (item0 + line);
       Some (Z.max i1 0, 0%Z)
     else
       do t1 <- chk (len - 1);
       do t2 <- chk (t1 - item0);
       Some (item0, Z.min line t2));
  let '(i, l) := r in
  let l := Z.max 0 l in
  do iu <- to_usize i;
  do lu <- to_usize l;
  Some (with_cursor s iu lu).

(** act_select_screen_row(rows_to_top) *)
Definition select_screen_row (s : sel) (row : N) : option sel :=
  do r <- to_i32 row;
  do l <- to_i32 (lc s);
  do h <- to_i32 (height s);
  do diff <-
    (if reverse s then chk (l - r)
     else do t1 <- chk (h - r); do t2 <- chk (t1 - 1); chk (t2 - l));
  move_line_cursor s diff.

(** the EventHandler arms for the page moves *)
Definition page (s : sel) (up : bool) (k : Z) (half : bool) : option sel :=
  do h <- to_i32 (height s);
  do hh <- chk (if up then h - 1 else 1 - h);
  do m <- chk (hh * k);
  move_line_cursor s (if half then Z.quot m 2 else m).

(** * the listing *)
Fixpoint insert_rank (x : mitem) (l : list mitem) : list mitem :=
  match l with
  | [] => [x]
  | y :: r => if (mi_rank x <? mi_rank y)%Z then x :: l else y :: insert_rank x r
  end.
(** merge a batch into the listing by rank (equal ranks keep arrival order) *)
Definition merge_batch (l batch : list mitem) : list mitem :=
  fold_left (fun acc x => insert_rank x acc) batch l.

Definition clear (s : sel) : sel := with_items s [].

(** Draw::draw: the height is stored by draw_item, i.e. only when at least one row is drawn *)
Definition draws_a_row (s : sel) (h : N) : bool := (ic s <? N.min (ic s + h) (nitems s))%N.
Definition draw_height (s : sel) (h : N) : sel := if draws_a_row s h then with_height s h else s.

(** * the selection map (BTreeMap in key order) *)
Definition key_eqb (a b : key) : bool := N.eqb (fst a) (fst b) && N.eqb (snd a) (snd b).
Definition key_ltb (a b : key) : bool :=
  N.ltb (fst a) (fst b) || (N.eqb (fst a) (fst b) && N.ltb (snd a) (snd b)).

Fixpoint m_contains (m : list (key * N)) (k : key) : bool :=
  match m with [] => false | (k', _) :: r => key_eqb k k' || m_contains r k end.
Fixpoint m_insert (m : list (key * N)) (k : key) (v : N) : list (key * N) :=
  match m with
  | [] => [(k, v)]
  | (k', v') :: r =>
      if key_eqb k k' then (k, v) :: r
      else if key_ltb k k' then (k, v) :: m
      else (k', v') :: m_insert r k v
  end.
Fixpoint m_remove (m : list (key * N)) (k : key) : list (key * N) :=
  match m with
  | [] => []
  | (k', v') :: r => if key_eqb k k' then r else (k', v') :: m_remove r k
  end.

Definition cursor_idx (s : sel) : N := (ic s + lc s)%N.
Definition item_at (s : sel) (i : N) : option mitem := nth_error (items s) (N.to_nat i).

Definition toggle_key (m : list (key * N)) (k : key) (v : N) : list (key * N) :=
  if m_contains m k then m_remove m k else m_insert m k v.

(** act_toggle *)
Definition act_toggle (s : sel) : option sel :=
  if negb (multi s) || (nitems s =? 0)%N then Some s
  else match item_at s (cursor_idx s) with
       | None => None                                   (* panic!("model:act_toggle: failed to get item") *)
       | Some it => Some (with_selected s (toggle_key (selected s) (run s, mi_idx it) (mi_id it)))
       end.

Definition act_toggle_all (s : sel) : sel :=
  if negb (multi s) || (nitems s =? 0)%N then s
  else with_selected s (fold_left (fun m it => toggle_key m (run s, mi_idx it) (mi_id it)) (items s) (selected s)).

Definition act_select_all (s : sel) : sel :=
  if negb (multi s) || (nitems s =? 0)%N then s
  else with_selected s (fold_left (fun m it => m_insert m (run s, mi_idx it) (mi_id it)) (items s) (selected s)).

Definition act_deselect_all (s : sel) : sel := with_selected s [].

(** act_select_raw_item(run_num, item_index, item) and act_select_matched (which delegates to it) *)
Definition act_select_raw_item (s : sel) (r idx id : N) : sel :=
  if negb (multi s) then s else with_selected s (m_insert (selected s) (r, idx) id).


(** * pre-selection (a Selector configured): Selection::pre_select, and the watermark bookkeeping of
    append_sorted_items.  A batch is pre-selected only if the list is at least as long as the longest
    list seen so far in this (highest) command run. *)
Definition with_marks (s : sel) (w l : N) : sel :=
  {| items := items s; selected := selected s; ic := ic s; lc := lc s; height := height s;
     reverse := reverse s; multi := multi s; run := run s; selmod := selmod s; wm := w; latest := l |}.
Definition should_select (k idx : N) : bool := negb (k =? 0)%N && (idx mod k =? 0)%N.
Definition pre_select (s : sel) (batch : list mitem) : list (key * N) :=
  if negb (selmod s =? 0)%N && multi s
  then fold_left (fun m it => if should_select (selmod s) (mi_idx it) then m_insert m (run s, mi_idx it) (mi_id it) else m) batch (selected s)
  else selected s.

(** append_sorted_items *)
Definition append_sorted_items (s : sel) (batch : list mitem) : sel :=
  let fresh := negb (match batch with [] => true | _ => false end) && (latest s <? run s)%N in
  let lt := if fresh then run s else latest s in
  let w0 := if fresh then 0%N else wm s in
  let sl := if (w0 <=? nitems s)%N then pre_select s batch else selected s in
  let it := merge_batch (items s) batch in
  let n := N.of_nat (length it) in
  let s1 := with_marks (with_selected s sl) (N.max w0 n) lt in
  let h := N.max (height s) 1 in
  let l1 := if (n <=? lc s)%N then (N.max (N.min n h) 1 - 1)%N else lc s in
  if (n <=? l1 + ic s)%N
  then with_cursor (with_items s1 it) (N.max n h - h)%N (N.min l1 (h - 1)%N)
  else with_cursor (with_items s1 it) (ic s) l1.

(** get_selected_indices_and_items: (indices, object ids) *)
Definition output (s : sel) : option (list N * list N) :=
  let select_cursor := negb (multi s) || match selected s with [] => true | _ => false end in
  let ids := map snd (selected s) in
  let idxs := map (fun kv => snd (fst kv)) (selected s) in
  if select_cursor && negb (nitems s =? 0)%N then
    match item_at s (cursor_idx s) with
    | None => None                                      (* panic!("model:act_output: failed to get item") *)
    | Some it => Some (idxs ++ [cursor_idx s], ids ++ [mi_id it])
    end
  else Some (idxs, ids).

(** get_current_item *)
Definition current_item (s : sel) : option N := option_map mi_id (item_at s (cursor_idx s)).

(** * histories *)
Inductive op :=
| Up (k : Z) | Down (k : Z) | PageUp (k : Z) | PageDown (k : Z) | HalfPageUp (k : Z) | HalfPageDown (k : Z)
| SelectRow (r : N) | AppendItems (b : list mitem) | Clear | Draw (h : N)
| Toggle | ToggleAll | SelectAll | DeselectAll | SetRun (r : N)
| SelectRaw (r idx id : N) | SelectMatched (r idx id : N).

Definition step (s : sel) (o : op) : option sel :=
  match o with
  | Up k => move_line_cursor s k
  | Down k => do k' <- chk (- k); move_line_cursor s k'
  | PageUp k => page s true k false
  | PageDown k => page s false k false
  | HalfPageUp k => page s true k true
  | HalfPageDown k => page s false k true
  | SelectRow r => select_screen_row s r
  | AppendItems b => Some (append_sorted_items s b)
  | Clear => Some (clear s)
  | Draw h => Some (draw_height s h)
  | Toggle => act_toggle s
  | ToggleAll => Some (act_toggle_all s)
  | SelectAll => Some (act_select_all s)
  | DeselectAll => Some (act_deselect_all s)
  | SetRun r => Some (with_run s r)
  | SelectRaw r idx id => Some (act_select_raw_item s r idx id)
  | SelectMatched r idx id => Some (act_select_raw_item s r idx id)
  end.

Fixpoint run_ops (s : sel) (ops : list op) : option sel :=
  match ops with
  | [] => Some s
  | o :: r => match step s o with Some s' => run_ops s' r | None => None end
  end.
