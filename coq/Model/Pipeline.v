(** Model of the streaming pipeline: src/reader.rs (collector thread and its buffer), src/item.rs
    (ItemPool: pool, taken mark, reserved header lines, the pool lock), src/matcher.rs (one matcher
    thread: load num_taken, take, filter, publish, notify, raise `stopped`, release the pool lock) and
    the event loop of src/model.rs (act_heart_beat, restart_matcher, on_query_change / act_rotate_mode,
    on_cmd_query_change, handle_select1_or_exit0), as a labelled transition system.  The main thread
    runs a list of micro-operations, one per read of state that another thread can change; everything
    between two such reads is one step.  Definitions only; executable ([step] is a function). *)
From SkimV Require Import Common.Base.

Definition item := N.
Inductive cstrat := DontClear | Clear | ClearIfNotNull.
Inductive mphase := PSpawned | PLoaded | PTook | PPublished | PNotified | PFlagged | PExited.
Inductive decision := Accept | Abort | Interactive.

Record matcher := {
  mq : N;                       (* the query (and mode) this run evaluates *)
  ph : mphase;
  mn : nat;                     (* num_taken as loaded before take *)
  mlo : nat; mhi : nat;         (* the slice pool[mlo..mhi) handed out by take *)
  mres : list (item * nat);     (* published result: (item, item_idx) *)
  killed : bool                 (* kill() stored `stopped` *)
}.

(** micro-operations of the event loop *)
Inductive mop :=
| HbReadS                       (* matcher_control.stopped() *)
| HbReadR (s : bool)            (* reader is_done(), read once per heartbeat *)
| HbHarvest (r : bool)          (* into_items, clear strategy, append to the list *)
| HbReadC (r : bool)            (* num_not_taken() == 0; then restart / re-arm *)
| Restart                       (* restart_matcher: move the reader buffer, spawn *)
| S1ReadC | S1ReadR (c : bool) | S1Decide (c r : bool)
| KillQ | JoinQ                 (* query change / mode rotation *)
| KillC (s : list item) | JoinC (s : list item).   (* command change with its new source *)

Record st := {
  src : list item; alive : bool; rbuf : list item;            (* reader *)
  pl : list item; taken : nat; resv : list item;               (* item pool *)
  mt : option matcher; linger : bool;                          (* matcher_control; a harvested thread still holding the pool lock *)
  L : list (item * nat); cs : cstrat; q : N;                  (* the list, env.clear_selection, current query *)
  pc : list mop;
  hbq : nat; timer : bool;                                     (* queued heartbeats, armed refresh timer *)
  f1 : bool; f0 : bool; fsync : bool; decided : option decision;
  s0 : list item;                                              (* ghost: the whole source of the current command *)
  handed : list (nat * nat)                                    (* ghost: slices taken since the last reset / clear *)
}.

Inductive label :=
| LPush | LEof                                  (* reader thread *)
| LMLoad | LMTake | LMPublish | LMNotify | LMFlag | LMExit | LLingerExit   (* matcher thread *)
| LTimer                                        (* refresh timer fires *)
| LMain                                         (* the event loop runs its next micro-operation *)
| LHb | LQuery (q' : N) | LCmd (s : list item). (* the event loop dispatches an event *)

Section Pipeline.
  Variable nres : nat.                 (* --header-lines *)
  Variable ncie : bool.                (* --no-clear-if-empty *)
  Variable mp : N -> item -> bool.     (* does the item match the query *)

  (** results of matching xs, the items at pool positions lo, lo+1, ... *)
  Definition fres (qq : N) (lo : nat) (xs : list item) : list (item * nat) :=
    filter (fun p => mp qq (fst p)) (combine xs (seq lo (List.length xs))).
  Definition slice (lo hi : nat) (xs : list item) : list item := firstn (hi - lo) (skipn lo xs).

  (** ItemPool::append *)
  Definition pool_append (p r xs : list item) : list item * list item :=
    let to_reserve := nres - List.length r in
    if (0 <? to_reserve)%nat
    then let k := Nat.min to_reserve (List.length xs) in (p ++ skipn k xs, r ++ firstn k xs)
    else (p ++ xs, r).

  Definition flag (m : matcher) : bool :=
    killed m || match ph m with PFlagged | PExited => true | _ => false end.
  Definition holds (m : matcher) : bool :=
    match ph m with PTook | PPublished | PNotified | PFlagged => true | _ => false end.
  Definition locked (s : st) : bool :=
    linger s || match mt s with Some m => holds m | None => false end.
  Definition rdone (s : st) : bool := negb (alive s) && match rbuf s with [] => true | _ => false end.
  Definition consumed (s : st) : bool := (List.length (pl s) - taken s =? 0)%nat.

  Definition upd_mt (s : st) (m : option matcher) : st :=
    {| src := src s; alive := alive s; rbuf := rbuf s; pl := pl s; taken := taken s; resv := resv s;
       mt := m; linger := linger s; L := L s; cs := cs s; q := q s; pc := pc s; hbq := hbq s; timer := timer s;
       f1 := f1 s; f0 := f0 s; fsync := fsync s; decided := decided s; s0 := s0 s; handed := handed s |}.
  Definition upd_pc (s : st) (p : list mop) : st :=
    {| src := src s; alive := alive s; rbuf := rbuf s; pl := pl s; taken := taken s; resv := resv s;
       mt := mt s; linger := linger s; L := L s; cs := cs s; q := q s; pc := p; hbq := hbq s; timer := timer s;
       f1 := f1 s; f0 := f0 s; fsync := fsync s; decided := decided s; s0 := s0 s; handed := handed s |}.
  Definition set_ph (m : matcher) (p : mphase) : matcher :=
    {| mq := mq m; ph := p; mn := mn m; mlo := mlo m; mhi := mhi m; mres := mres m; killed := killed m |}.

  (** * the matcher thread *)
  Definition step_matcher (s : st) (l : label) : option st :=
    match mt s with
    | None => None
    | Some m =>
        match l, ph m with
        | LMLoad, PSpawned =>
            Some (upd_mt s (Some {| mq := mq m; ph := PLoaded; mn := taken s; mlo := mlo m; mhi := mhi m; mres := mres m; killed := killed m |}))
        | LMTake, PLoaded =>
            if locked s then None else
            let m' := {| mq := mq m; ph := PTook; mn := mn m; mlo := taken s; mhi := List.length (pl s); mres := mres m; killed := killed m |} in
            Some {| src := src s; alive := alive s; rbuf := rbuf s; pl := pl s; taken := List.length (pl s); resv := resv s;
                    mt := Some m'; linger := linger s; L := L s; cs := cs s; q := q s; pc := pc s; hbq := hbq s; timer := timer s;
                    f1 := f1 s; f0 := f0 s; fsync := fsync s; decided := decided s; s0 := s0 s;
                    handed := handed s ++ [(taken s, List.length (pl s))] |}
        | LMPublish, PTook =>
            (* item_idx = num_taken (as loaded) + index in the slice *)
            Some (upd_mt s (Some {| mq := mq m; ph := PPublished; mn := mn m; mlo := mlo m; mhi := mhi m;
                                    mres := fres (mq m) (mn m) (slice (mlo m) (mhi m) (pl s)); killed := killed m |}))
        | LMNotify, PPublished =>
            let s' := upd_mt s (Some (set_ph m PNotified)) in
            Some {| src := src s'; alive := alive s'; rbuf := rbuf s'; pl := pl s'; taken := taken s'; resv := resv s';
                    mt := mt s'; linger := linger s'; L := L s'; cs := cs s'; q := q s'; pc := pc s'; hbq := S (hbq s'); timer := timer s';
                    f1 := f1 s'; f0 := f0 s'; fsync := fsync s'; decided := decided s'; s0 := s0 s'; handed := handed s' |}
        | LMFlag, PNotified => Some (upd_mt s (Some (set_ph m PFlagged)))
        | LMExit, PFlagged => Some (upd_mt s (Some (set_ph m PExited)))
        | _, _ => None
        end
    end.

  (** * the event loop *)
  Definition new_matcher (qq : N) : matcher :=
    {| mq := qq; ph := PSpawned; mn := 0; mlo := 0; mhi := 0; mres := []; killed := false |}.

  Definition exec_main (s : st) : option st :=
    match pc s with
    | [] => None
    | op :: rest =>
        match op with
        | HbReadS =>
            let sv := match mt s with Some m => flag m | None => false end in
            Some (upd_pc s (HbReadR sv :: rest))
        | HbReadR sv =>
            let r := rdone s in
            Some (upd_pc s ((if sv then [HbHarvest r] else []) ++ HbReadC r :: rest))
        | HbHarvest r =>
            match mt s with
            | None => None
            | Some m =>
                if flag m then
                  let res := mres m in
                  let clr := match cs s with
                             | DontClear => false
                             | Clear => true
                             | ClearIfNotNull => (negb ncie && r) || negb (match res with [] => true | _ => false end)
                             end in
                  Some {| src := src s; alive := alive s; rbuf := rbuf s; pl := pl s; taken := taken s; resv := resv s;
                          mt := None; linger := linger s || holds m;
                          L := (if clr then [] else L s) ++ res;
                          cs := if clr then DontClear else cs s;
                          q := q s; pc := rest; hbq := hbq s; timer := timer s;
                          f1 := f1 s; f0 := f0 s; fsync := fsync s; decided := decided s; s0 := s0 s; handed := handed s |}
                else None
            end
        | HbReadC r =>
            let processed := r && consumed s in
            let restart := negb processed && match mt s with None => true | Some _ => false end in
            (* the timer is re-armed if a matcher exists after the optional restart, or not processed *)
            let arm := restart || match mt s with Some _ => true | None => false end || negb processed in
            Some {| src := src s; alive := alive s; rbuf := rbuf s; pl := pl s; taken := taken s; resv := resv s;
                    mt := mt s; linger := linger s; L := L s; cs := cs s; q := q s;
                    pc := (if restart then [Restart] else []) ++ S1ReadC :: rest;
                    hbq := hbq s; timer := timer s || arm;
                    f1 := f1 s; f0 := f0 s; fsync := fsync s; decided := decided s; s0 := s0 s; handed := handed s |}
        | Restart =>
            match mt s with
            | Some _ => None
            | None =>
                if rdone s then
                  Some {| src := src s; alive := alive s; rbuf := rbuf s; pl := pl s; taken := taken s; resv := resv s;
                          mt := Some (new_matcher (q s)); linger := linger s; L := L s; cs := cs s; q := q s; pc := rest;
                          hbq := S (hbq s); timer := timer s;
                          f1 := f1 s; f0 := f0 s; fsync := fsync s; decided := decided s; s0 := s0 s; handed := handed s |}
                else if locked s then None
                else
                  let (p', r') := pool_append (pl s) (resv s) (rbuf s) in
                  Some {| src := src s; alive := alive s; rbuf := []; pl := p'; taken := taken s; resv := r';
                          mt := Some (new_matcher (q s)); linger := linger s; L := L s; cs := cs s; q := q s; pc := rest;
                          hbq := S (hbq s); timer := timer s;
                          f1 := f1 s; f0 := f0 s; fsync := fsync s; decided := decided s; s0 := s0 s; handed := handed s |}
            end
        | S1ReadC => Some (upd_pc s (S1ReadR (consumed s) :: rest))
        | S1ReadR c => Some (upd_pc s (S1Decide c (rdone s) :: rest))
        | S1Decide c r =>
            if negb (f1 s || f0 s || fsync s) then Some (upd_pc s rest) else
            let processed := r && c && match mt s with None => true | Some _ => false end in
            if processed then
              let n := List.length (L s) in
              let d := if (n =? 1)%nat && f1 s then Accept else if (n =? 0)%nat && f0 s then Abort else Interactive in
              Some {| src := src s; alive := alive s; rbuf := rbuf s; pl := pl s; taken := taken s; resv := resv s;
                      mt := mt s; linger := linger s; L := L s; cs := cs s; q := q s; pc := rest; hbq := hbq s; timer := timer s;
                      f1 := match d with Interactive => false | _ => f1 s end;
                      f0 := match d with Interactive => false | _ => f0 s end;
                      fsync := match d with Interactive => false | _ => fsync s end;
                      decided := Some d; s0 := s0 s; handed := handed s |}
            else Some (upd_pc s rest)
        | KillQ =>
            let s' := upd_pc s (JoinQ :: rest) in
            Some (match mt s with
                  | Some m => upd_mt s' (Some {| mq := mq m; ph := ph m; mn := mn m; mlo := mlo m; mhi := mhi m; mres := mres m; killed := true |})
                  | None => s'
                  end)
        | KillC sr =>
            let s' := upd_pc s (JoinC sr :: rest) in
            Some (match mt s with
                  | Some m => upd_mt s' (Some {| mq := mq m; ph := ph m; mn := mn m; mlo := mlo m; mhi := mhi m; mres := mres m; killed := true |})
                  | None => s'
                  end)
        | JoinQ =>
            let joined := match mt s with Some m => match ph m with PExited => true | _ => false end | None => true end in
            if joined && negb (linger s) then
              Some {| src := src s; alive := alive s; rbuf := rbuf s; pl := pl s; taken := 0; resv := resv s;
                      mt := None; linger := false; L := L s; cs := Clear; q := q s; pc := Restart :: rest; hbq := hbq s; timer := timer s;
                      f1 := f1 s; f0 := f0 s; fsync := fsync s; decided := decided s; s0 := s0 s; handed := [] |}
            else None
        | JoinC sr =>
            let joined := match mt s with Some m => match ph m with PExited => true | _ => false end | None => true end in
            if joined && negb (linger s) then
              Some {| src := sr; alive := true; rbuf := []; pl := []; taken := 0; resv := [];
                      mt := None; linger := false; L := L s; cs := ClearIfNotNull; q := q s; pc := Restart :: rest; hbq := hbq s; timer := timer s;
                      f1 := f1 s; f0 := f0 s; fsync := fsync s; decided := decided s; s0 := sr; handed := [] |}
            else None
        end
    end.

  Definition set_q (s : st) (qq : N) (p : list mop) : st :=
    {| src := src s; alive := alive s; rbuf := rbuf s; pl := pl s; taken := taken s; resv := resv s;
       mt := mt s; linger := linger s; L := L s; cs := cs s; q := qq; pc := p; hbq := hbq s; timer := timer s;
       f1 := f1 s; f0 := f0 s; fsync := fsync s; decided := decided s; s0 := s0 s; handed := handed s |}.

  Definition step (s : st) (l : label) : option st :=
    match l with
    | LPush =>
        match alive s, src s with
        | true, x :: r =>
            Some {| src := r; alive := true; rbuf := rbuf s ++ [x]; pl := pl s; taken := taken s; resv := resv s;
                    mt := mt s; linger := linger s; L := L s; cs := cs s; q := q s; pc := pc s; hbq := hbq s; timer := timer s;
                    f1 := f1 s; f0 := f0 s; fsync := fsync s; decided := decided s; s0 := s0 s; handed := handed s |}
        | _, _ => None
        end
    | LEof =>
        match alive s, src s with
        | true, [] =>
            Some {| src := []; alive := false; rbuf := rbuf s; pl := pl s; taken := taken s; resv := resv s;
                    mt := mt s; linger := linger s; L := L s; cs := cs s; q := q s; pc := pc s; hbq := hbq s; timer := timer s;
                    f1 := f1 s; f0 := f0 s; fsync := fsync s; decided := decided s; s0 := s0 s; handed := handed s |}
        | _, _ => None
        end
    | LMLoad | LMTake | LMPublish | LMNotify | LMFlag | LMExit => step_matcher s l
    | LLingerExit =>
        if linger s then
          Some {| src := src s; alive := alive s; rbuf := rbuf s; pl := pl s; taken := taken s; resv := resv s;
                  mt := mt s; linger := false; L := L s; cs := cs s; q := q s; pc := pc s; hbq := hbq s; timer := timer s;
                  f1 := f1 s; f0 := f0 s; fsync := fsync s; decided := decided s; s0 := s0 s; handed := handed s |}
        else None
    | LTimer =>
        if timer s then
          Some {| src := src s; alive := alive s; rbuf := rbuf s; pl := pl s; taken := taken s; resv := resv s;
                  mt := mt s; linger := linger s; L := L s; cs := cs s; q := q s; pc := pc s; hbq := S (hbq s); timer := false;
                  f1 := f1 s; f0 := f0 s; fsync := fsync s; decided := decided s; s0 := s0 s; handed := handed s |}
        else None
    | LMain => exec_main s
    | LHb =>
        (* a heartbeat is dispatched (queued ones are drained; a spurious one is allowed) *)
        match pc s with
        | [] => Some {| src := src s; alive := alive s; rbuf := rbuf s; pl := pl s; taken := taken s; resv := resv s;
                        mt := mt s; linger := linger s; L := L s; cs := cs s; q := q s; pc := [HbReadS]; hbq := 0; timer := timer s;
                        f1 := f1 s; f0 := f0 s; fsync := fsync s; decided := decided s; s0 := s0 s; handed := handed s |}
        | _ => None
        end
    | LQuery q' => match pc s with [] => Some (set_q s q' [KillQ]) | _ => None end
    | LCmd sr => match pc s with [] => Some (upd_pc s [KillC sr]) | _ => None end
    end.

  (** the state in which Model::start enters its loop: reader running over the source, empty pool,
      no matcher, the first heartbeat already queued (`next_event`) *)
  Definition init (source : list item) (q0 : N) (sel1 ex0 sy : bool) : st :=
    {| src := source; alive := true; rbuf := []; pl := []; taken := 0; resv := [];
       mt := None; linger := false; L := []; cs := DontClear; q := q0; pc := []; hbq := 1; timer := false;
       f1 := sel1; f0 := ex0; fsync := sy; decided := None; s0 := source; handed := [] |}.

  Fixpoint run (s : st) (ls : list label) : option st :=
    match ls with
    | [] => Some s
    | l :: r => match step s l with Some s' => run s' r | None => None end
    end.

  (** nothing left to do without a keystroke *)
  Definition quiescent (s : st) : Prop :=
    pc s = [] /\ mt s = None /\ alive s = false /\ rbuf s = [] /\ taken s = List.length (pl s).
End Pipeline.
