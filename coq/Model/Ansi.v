(** Model of src/ansi.rs: skim's implementation of vte::Perform as a fold over the *callback
    sequence* the vte tokeniser produces (vte itself is a library: its callback sequence for the
    run's bytes is recorded by the harness and fed to this model), ANSIParser::parse_ansi,
    AnsiString::{new_string, iter, has_attrs, stripped}.  Definitions only.
    The SGR match arms come from Gen/SgrTable.v (regenerated from the source). *)
From SkimV Require Import Common.Base Gen.SgrTable Model.Merge.

Inductive color := CDefault | CAnsi (v : N) | CRgb (r g b : N).
Record attr := { fg : color; bg : color; eff : N }.
Definition default_attr : attr := {| fg := CDefault; bg := CDefault; eff := 0%N |}.

Definition color_eqb (a b : color) : bool :=
  match a, b with
  | CDefault, CDefault => true
  | CAnsi x, CAnsi y => N.eqb x y
  | CRgb r g b, CRgb r' g' b' => N.eqb r r' && N.eqb g g' && N.eqb b b'
  | _, _ => false
  end.
Definition attr_eqb (a b : attr) : bool :=
  color_eqb (fg a) (fg b) && color_eqb (bg a) (bg b) && N.eqb (eff a) (eff b).

Definition with_fg (a : attr) (c : color) : attr := {| fg := c; bg := bg a; eff := eff a |}.
Definition with_bg (a : attr) (c : color) : attr := {| fg := fg a; bg := c; eff := eff a |}.
Definition with_eff (a : attr) (e : N) : attr := {| fg := fg a; bg := bg a; eff := e |}.

(** the callbacks of vte::Perform that the parser receives *)
Inductive cb :=
| Print (c : char)
| Execute (b : N)
| Csi (params : list (list N)) (action : char)     (* each parameter with its sub-parameters *)
| Esc
| Ignored.                                          (* hook / put / unhook / osc_dispatch *)

Definition u8 (n : N) : N := (n mod 256)%N.
Definition first (p : list N) : N := hd 0%N p.      (* code[0] *)

Fixpoint find_action (t : list (N * N * sgr_action)) (code : N) : option sgr_action :=
  match t with
  | [] => None
  | (lo, hi, act) :: r => if (lo <=? code)%N && (code <=? hi)%N then Some act else find_action r code
  end.

Definition is_single (p : list N) (v : N) : bool := match p with [x] => N.eqb x v | _ => false end.

(** the `while let Some(code) = iter.next()` loop of csi_dispatch *)
Fixpoint sgr (ps : list (list N)) (a : attr) {struct ps} : attr :=
  match ps with
  | [] => a
  | code :: rest =>
      let c := first code in
      match find_action sgr_table c with
      | Some AReset => sgr rest default_attr
      | Some (AOrEffect m) => sgr rest (with_eff a (N.lor (eff a) m))
      | Some (AFgAnsi k) => sgr rest (with_fg a (CAnsi (u8 (c - k)%N)))
      | Some (ABgAnsi k) => sgr rest (with_bg a (CAnsi (u8 (c - k)%N)))
      | Some AFgDefault => sgr rest (with_fg a CDefault)
      | Some ABgDefault => sgr rest (with_bg a CDefault)
      | Some AExtended =>
          let setc := fun col => if (if N.eqb c 38%N then ext38_is_fg else ext48_is_fg) then with_fg a col else with_bg a col in
          match rest with
          | [] => a
          | p :: rest2 =>
              if is_single p 2%N then
                match rest2 with
                | r :: g :: b :: rest3 => sgr rest3 (setc (CRgb (u8 (first r)) (u8 (first g)) (u8 (first b))))
                | _ => a            (* the three next() calls drain the iterator; `continue` ends the loop *)
                end
              else if is_single p 5%N then
                match rest2 with
                | col :: rest3 => sgr rest3 (setc (CAnsi (u8 (first col))))
                | [] => a
                end
              else sgr rest2 a
          end
      | None => sgr rest a
      end
  end.

(** ANSIParser.  [partial] is `partial_str` reversed (head = last character pushed). *)
Record pst := {
  partial : text;
  last_attr : attr;
  stripped : text;
  count : N;
  frags : list (attr * (N * N))
}.
Definition fresh : pst := {| partial := []; last_attr := default_attr; stripped := []; count := 0%N; frags := [] |}.

Definition save_str (s : pst) : pst :=
  match partial s with
  | [] => s
  | _ =>
      let n := N.of_nat (length (partial s)) in
      {| partial := []; last_attr := last_attr s; stripped := stripped s ++ rev (partial s);
         count := (count s + n)%N; frags := frags s ++ [(last_attr s, (count s, (count s + n)%N))] |}
  end.

Definition attr_change (s : pst) (a : attr) : pst :=
  if attr_eqb a (last_attr s) then s
  else let s1 := save_str s in
       {| partial := partial s1; last_attr := a; stripped := stripped s1; count := count s1; frags := frags s1 |}.

Definition push (s : pst) (c : char) : pst :=
  {| partial := c :: partial s; last_attr := last_attr s; stripped := stripped s; count := count s; frags := frags s |}.
Definition pop (s : pst) : pst :=
  {| partial := tl (partial s); last_attr := last_attr s; stripped := stripped s; count := count s; frags := frags s |}.

Definition handle (s : pst) (c : cb) : pst :=
  match c with
  | Print ch => push s ch
  | Execute b =>
      if N.eqb b 8%N then pop s
      else if N.eqb b 0%N || N.eqb b 13%N || N.eqb b 10%N || N.eqb b 9%N then push s b
      else s
  | Csi params action =>
      if negb (N.eqb action 109%N) then s            (* 'm' *)
      else attr_change s (sgr params (match params with [] => default_attr | _ => last_attr s end))
  | Esc => push (push s 34%N) 91%N                      (* a double quote, then an opening bracket *)
  | Ignored => s
  end.

(** AnsiString: stripped text and Option<fragments> *)
Record ansi := { a_text : text; a_frags : option (list (attr * (N * N))) }.

Definition new_string (t : text) (f : list (attr * (N * N))) : ansi :=
  {| a_text := t;
     a_frags := match f with
                | [] => None
                | [(a, _)] => if attr_eqb a default_attr then None else Some f
                | _ => Some f
                end |}.

(** parse_ansi on the callbacks of one text: the string and the parser afterwards *)
Definition parse_ansi (s : pst) (cbs : list cb) : ansi * pst :=
  let s1 := save_str (fold_left handle cbs s) in
  (new_string (stripped s1) (frags s1),
   {| partial := partial s1; last_attr := last_attr s1; stripped := []; count := 0%N; frags := [] |}).

Definition has_attrs (x : ansi) : bool := match a_frags x with Some _ => true | None => false end.

(** iter(): (char, attr) for every character *)
Definition iter (x : ansi) : list (char * attr) :=
  match a_frags x with
  | None => map (fun c => (c, default_attr)) (a_text x)
  | Some f => combine (a_text x)
                      (map (fun o => match o with Some a => a | None => default_attr end)
                           (iter_attrs f (length (a_text x))))
  end.
