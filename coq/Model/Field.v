(** Model of src/field.rs: FieldRange::{from_str, to_index_pair, translate_neg},
    get_ranges_by_delimiter (taking the delimiter's match spans as input: the regex engine is a
    library), get_string_by_field, parse_matching_fields, parse_transform_fields.
    Definitions only.  Offsets are byte offsets into the line. *)
From SkimV Require Import Common.Base.

Inductive frange := Single (n : Z) | LeftInf (n : Z) | RightInf (n : Z) | Both (l r : Z).

(** * from_str: the scanner for ^(-?\d+)?(\.\.)?(-?\d+)?$ *)
Definition is_digit (c : char) : bool := (48 <=? c)%N && (c <=? 57)%N.
Fixpoint take_digits (t : text) : text * text :=
  match t with
  | c :: r => if is_digit c then let (d, rest) := take_digits r in (c :: d, rest) else ([], t)
  | [] => ([], [])
  end.
Definition digits_val (d : text) : Z := fold_left (fun acc c => acc * 10 + Z.of_N (c - 48))%Z d 0%Z.
Definition i32_fits (z : Z) : bool := (-2147483648 <=? z)%Z && (z <=? 2147483647)%Z.
(** an optional signed number at the head of [t]: (value if it fits in i32, else None is reported as
    `parse()` failing), rest *)
Definition take_int (t : text) : option (option Z) * text :=
  match t with
  | 45%N :: r =>                                   (* '-' *)
      match take_digits r with
      | ([], _) => (None, t)
      | (d, rest) => let v := (- digits_val d)%Z in (Some (if i32_fits v then Some v else None), rest)
      end
  | _ =>
      match take_digits t with
      | ([], _) => (None, t)
      | (d, rest) => let v := digits_val d in (Some (if i32_fits v then Some v else None), rest)
      end
  end.
Definition take_sep (t : text) : bool * text :=
  match t with 46%N :: 46%N :: r => (true, r) | _ => (false, t) end.

Definition from_str (t : text) : option frange :=
  let (ol, t1) := take_int t in
  let (sep, t2) := take_sep t1 in
  let (or_, t3) := take_int t2 in
  match t3 with
  | _ :: _ => None
  | [] =>
      let lft := option_map (fun p => match p with Some v => v | None => 1%Z end) ol in
      let rgt := option_map (fun p => match p with Some v => v | None => (-1)%Z end) or_ in
      match lft, rgt with
      | None, None => Some (RightInf 0)
      | Some l, None => Some (if sep then RightInf l else Single l)
      | None, Some r => Some (if sep then LeftInf r else Single r)
      | Some l, Some r => Some (Both l r)
      end
  end.

(** * to_index_pair *)
Definition translate_neg (idx : Z) (length : N) : N :=
  let len := Z.of_N length in
  Z.to_N (Z.max 0 (if (idx <? 0)%Z then idx + len + 1 else idx)%Z).

Definition to_index_pair (r : frange) (length : N) : option (N * N) :=
  match r with
  | Single n =>
      let num := translate_neg n length in
      if (num =? 0)%N || (length <? num)%N then None else Some (num - 1, num)%N
  | LeftInf r0 =>
      let rgt := translate_neg r0 length in
      if (length =? 0)%N || (rgt =? 0)%N then None else Some (0%N, N.min rgt length)
  | RightInf l0 =>
      let lft := translate_neg l0 length in
      if (length =? 0)%N || (length <? lft)%N then None else Some (N.max lft 1 - 1, length)%N
  | Both l0 r0 =>
      let lft := translate_neg l0 length in
      let rgt := translate_neg r0 length in
      if (length =? 0)%N || (rgt =? 0)%N || (rgt <? lft)%N || (length <? lft)%N then None
      else Some (N.max lft 1 - 1, N.min rgt length)%N
  end.

(** * fields *)
(** get_ranges_by_delimiter: [ms] are the delimiter's matches (start, end) in order *)
Fixpoint ranges_from (last : N) (ms : list (N * N)) (len : N) : list (N * N) :=
  match ms with
  | [] => [(last, len)]
  | (s, e) :: r => (last, s) :: ranges_from e r len
  end.
Definition ranges_by_delimiter (ms : list (N * N)) (len : N) : list (N * N) := ranges_from 0 ms len.

Definition nthr (l : list (N * N)) (i : N) (d : N * N) : N * N := nth (N.to_nat i) l d.

(** get_string_by_field: byte range of the returned slice *)
Definition get_string_by_field (ms : list (N * N)) (len : N) (f : frange) : option (N * N) :=
  let ranges := ranges_by_delimiter ms len in
  match to_index_pair f (N.of_nat (length ranges)) with
  | Some (start, stop) => Some (fst (nthr ranges start (0, 0)), snd (nthr ranges (stop - 1) (len, 0)))%N
  | None => None
  end.

(** parse_matching_fields / parse_transform_fields: one byte range per field range that selects something *)
Definition field_span (ranges : list (N * N)) (len : N) (f : frange) : option (N * N) :=
  match to_index_pair f (N.of_nat (length ranges)) with
  | Some (start, stop) => Some (fst (nthr ranges start (0, 0)), fst (nthr ranges stop (len, 0)))%N
  | None => None
  end.
Definition parse_matching_fields (ms : list (N * N)) (len : N) (fs : list frange) : list (N * N) :=
  filter_map (field_span (ranges_by_delimiter ms len) len) fs.
(** parse_transform_fields returns the concatenation of the slices with these ranges, in order *)
Definition parse_transform_fields (ms : list (N * N)) (len : N) (fs : list frange) : list (N * N) :=
  parse_matching_fields ms len fs.
