(** Model of what Selection draws (src/selection.rs Draw::draw, draw_item; src/util.rs
    accumulate_text_width, reshape_string, LinePrinter, print_item; the per-character highlight of
    src/helper/item.rs display for items without ANSI colours).  A cell is (column, character, tag);
    the tag stands for the attribute: which theme attribute the implementation combined.
    Definitions only.  Arithmetic that can underflow or index out of range in the Rust code is
    checked here ([None] = the implementation panics). *)
From SkimV Require Import Common.Base.

Definition TAB : char := 9%N.
Definition BSP : char := 8%N.
Definition DOT : char := 46%N.
Definition SPC : char := 32%N.
Definition GT : char := 62%N.

(** tags: 0 plain, 1 matched (both relative to the row's default attribute); label and markers *)
Definition tag := N.
Definition cell := (nat * (char * tag))%type.

Section Draw.
  Variable cw : char -> nat.              (* UnicodeWidthChar::width().unwrap_or(2) *)

  (** accumulate_text_width *)
  Fixpoint acc_from (w tabstop : nat) (t : text) : list nat :=
    match t with
    | [] => []
    | c :: r =>
        let w' := w + (if (c =? TAB)%N then tabstop - w mod tabstop else cw c) in
        w' :: acc_from w' tabstop r
    end.
  Definition acc_widths (tabstop : nat) (t : text) : list nat := acc_from 0 tabstop t.

  Definition csub (a b : nat) : option nat := if (b <=? a)%nat then Some (a - b) else None.

  (** reshape_string: (shift, full width); None where the code would panic *)
  Definition reshape (t : text) (cwid ms me tabstop : nat) : option (nat * nat) :=
    match t with
    | [] => Some (0, 0)
    | _ =>
        let acc := acc_widths tabstop t in
        let full := last acc 0 in
        if (full <=? cwid)%nat then Some (0, full) else
        match (match ms with O => Some 0 | S k => nth_error acc k end) with
        | None => None
        | Some w1 =>
            match (if (List.length acc <=? me)%nat then csub full w1
                   else match nth_error acc me with Some a => csub a w1 | None => None end) with
            | None => None
            | Some w2 =>
                match csub full w1 with
                | None => None
                | Some fw1 =>
                    match csub fw1 w2 with
                    | None => None
                    | Some w3 =>
                        if ((w3 <? w1)%nat && (w2 + w3 <=? cwid)%nat) || (w3 <=? 2)%nat
                        then match csub full cwid with Some s => Some (s, full) | None => None end
                        else if (w1 <=? w3)%nat && (w1 + w2 <=? cwid)%nat then Some (0, full)
                        else match nth_error acc me with
                             | Some a => match csub a cwid with Some s => Some (s + 2, full) | None => None end
                             | None => None
                             end
                    end
                end
            end
        end
    end.

  (** * LinePrinter *)
  Record lp := { l_start : nat; l_end : nat; l_pos : nat; l_scol : nat; l_tw : nat; l_tab : nat }.

  Definition lp_init (col cwid shift : nat) (hoff : Z) (tw tabstop : nat) : lp :=
    let st := Z.to_nat (Z.max (Z.of_nat shift + hoff) 0) in
    {| l_start := st; l_end := st + cwid; l_pos := 0; l_scol := col; l_tw := tw; l_tab := tabstop |}.

  Fixpoint dots (n col : nat) (tg : tag) : list cell :=
    match n with O => [] | S k => (col, (DOT, tg)) :: dots k (S col) tg end.

  (** print_char_raw *)
  Definition print_raw (p : lp) (c : char) (tg : tag) : lp * list cell :=
    let w := cw c in
    let cur := l_pos p in
    let adv (sc : nat) := {| l_start := l_start p; l_end := l_end p; l_pos := cur + w; l_scol := sc; l_tw := l_tw p; l_tab := l_tab p |} in
    if (cur <? l_start p)%nat || (l_end p <=? cur)%nat then (adv (l_scol p), [])
    else if (cur <? l_start p + 2)%nat && (0 <? l_start p)%nat then
      let k := Nat.min (Nat.min w (cur - l_start p + 1)) (l_end p - cur) in (adv (l_scol p + k), dots k (l_scol p) tg)
    else if (l_end p - cur <=? 2)%nat && (l_end p <? l_tw p)%nat then
      let k := Nat.min w (l_end p - cur) in (adv (l_scol p + k), dots k (l_scol p) tg)
    else (adv (l_scol p + w), [(l_scol p, (c, tg))]).

  Fixpoint print_spaces (n : nat) (p : lp) (tg : tag) : lp * list cell :=
    match n with
    | O => (p, [])
    | S k => let (p1, c1) := print_raw p SPC tg in let (p2, c2) := print_spaces k p1 tg in (p2, c1 ++ c2)
    end.

  (** print_char *)
  Definition print_char (p : lp) (c : char) (tg : tag) : lp * list cell :=
    if (c =? BSP)%N then (p, [])
    else if (c =? TAB)%N then print_spaces (l_tab p - l_pos p mod l_tab p) p tg
    else print_raw p c tg.

  (** print_item over characters paired with their tags *)
  Fixpoint print_item (p : lp) (cs : list (char * tag)) : list cell :=
    match cs with
    | [] => []
    | (c, tg) :: r => let (p', out) := print_char p c tg in out ++ print_item p' r
    end.

  (** * draw_item *)
  Inductive mrange := MChars (v : list nat) | MRange (s e : nat) | MNone.   (* character positions *)

  Definition matched_at (m : mrange) (k : nat) : bool :=
    match m with
    | MChars v => existsb (Nat.eqb k) v
    | MRange s e => (s <=? k)%nat && (k <? e)%nat
    | MNone => false
    end.
  Definition match_span (m : mrange) : nat * nat :=
    match m with
    | MChars [] => (0, 0)
    | MChars (a :: r) => (a, S (last r a))
    | MRange s e => (s, e)
    | MNone => (0, 0)
    end.

  Fixpoint tagged (m : mrange) (k : nat) (base : tag) (t : text) : list (char * tag) :=
    match t with
    | [] => []
    | c :: r => (c, if matched_at m k then (base + 1)%N else base) :: tagged m (S k) base r
    end.

  Record dopts := { o_tabstop : nat; o_nohscroll : bool; o_keepright : bool; o_skip : nat; o_hoff : Z }.

  (** the cells of one item's text, from column 2; [base] = 0 on ordinary rows, 2 on the cursor row *)
  Definition item_cells (o : dopts) (width : nat) (t : text) (m : mrange) (base : tag) : option (list cell) :=
    let cwid := width - 2 in
    let (ms, me) := match_span m in
    match reshape t cwid ms me (o_tabstop o) with
    | None => None
    | Some (shift0, full) =>
        let shift := if o_nohscroll o then 0
                     else if (ms =? 0)%nat && (me =? 0)%nat
                          then (if o_keepright o then Nat.max full cwid - cwid else Nat.max 2 (o_skip o) - 2)
                          else shift0 in
        Some (print_item (lp_init 2 cwid shift (o_hoff o) full (o_tabstop o)) (tagged m 0 base t))
    end.

  (** * the list area *)
  Record row := { r_text : text; r_match : mrange; r_selected : bool }.

  (** cells of screen row for the item at line [lc] (0 = first shown): label, marker, text *)
  Definition row_cells (o : dopts) (width : nat) (is_cur : bool) (r : row) : option (list cell) :=
    let base : tag := if is_cur then 2%N else 0%N in
    let label := (0, ((if is_cur then GT else SPC), 4%N)) in
    if (width <? 3)%nat then Some [label] else
    let marker := if r_selected r then (1, (GT, (5 + (if is_cur then 1 else 0))%N)) else (1, (SPC, base)) in
    match item_cells o width (r_text r) (r_match r) base with
    | None => None
    | Some cs => Some (label :: marker :: cs)
    end.

  (** the whole area: screen row number and its cells, for the items item_cursor .. *)
  Fixpoint draw_rows (o : dopts) (width height : nat) (reverse : bool) (line_cursor : nat) (lc : nat) (rows : list row)
    : option (list (nat * list cell)) :=
    match rows with
    | [] => Some []
    | r :: rest =>
        if (height <=? lc)%nat then Some [] else
        match row_cells o width (lc =? line_cursor)%nat r, draw_rows o width height reverse line_cursor (S lc) rest with
        | Some cs, Some more => Some ((if reverse then lc else height - 1 - lc, cs) :: more)
        | _, _ => None
        end
    end.

  (** Draw::draw on a canvas of the given size: [items] from item_cursor on *)
  Definition draw (o : dopts) (width height : nat) (reverse : bool) (line_cursor : nat) (items : list row) :=
    draw_rows o width height reverse line_cursor 0 items.
  (** * the header widget (src/header.rs): --header lines, then the reserved --header-lines items,
      one per row from the top (reverse layouts) or from the bottom; no scrolling, no dots; tag 7 *)
  Definition header_line (width tabstop : nat) (t : text) : list cell :=
    print_item (lp_init 2 (width - 2) 0 0 (width - 2) tabstop) (tagged MNone 0 7%N t).

  Fixpoint header_from (width height tabstop : nat) (reverse : bool) (idx : nat) (lines : list text) : list (nat * list cell) :=
    match lines with
    | [] => []
    | t :: r => ((if reverse then idx else height - idx - 1), header_line width tabstop t)
                :: header_from width height tabstop reverse (S idx) r
    end.

  (** None: the widget refuses to draw (too narrow or too low) *)
  Definition header_rows (width height tabstop : nat) (reverse : bool) (fixed reserved : list text) : option (list (nat * list cell)) :=
    if (width <? 3)%nat then None
    else if (height <? List.length fixed + List.length reserved)%nat then None
    else Some (header_from width height tabstop reverse 0 (fixed ++ reserved)).
End Draw.
