(** Model of src/item.rs: parse_criteria, RankBuilder::new, RankBuilder::build_rank, and of
    src/model.rs: the --tiebreak option split.  Definitions only (executable). The tables and the
    match arms come from Gen/RankTable.v, regenerated from the source on every run. *)
From SkimV Require Import Common.Base Gen.RankTable.
From Coq Require Import String.

(** i32 arithmetic: two's-complement wrap, written out (the theorems assume the in-range
    hypotheses under which it is the identity). *)
Definition wrap32 (z : Z) : Z := ((z + 2147483648) mod 4294967296 - 2147483648)%Z.
Definition neg32 (z : Z) : Z := wrap32 (- z).
(** `x as i32` for a usize x *)
Definition cast32 (n : N) : Z := wrap32 (Z.of_N n).

(** str::to_lowercase restricted to what can produce an ASCII letter: ASCII upper-case letters
    and U+212A KELVIN SIGN (-> k).  U+0130 lowers to two characters, none an ASCII letter of a
    criteria name followed by nothing, so it can never complete a table entry; it is kept as is. *)
Definition lower_char (c : char) : char :=
  if (65 <=? c)%N && (c <=? 90)%N then (c + 32)%N
  else if (c =? 8490)%N then 107%N else c.
Definition lower (t : text) : text := map lower_char t.

Definition criteria_eqb (a b : criteria) : bool :=
  match a, b with
  | CScore, CScore | CBegin, CBegin | CEnd, CEnd | CNegScore, CNegScore
  | CNegBegin, CNegBegin | CNegEnd, CNegEnd | CLength, CLength | CNegLength, CNegLength => true
  | _, _ => false
  end.

Definition code_table : list (text * criteria) := map (fun p => (codes (fst p), snd p)) name_table.

Definition parse_criteria (w : text) : option criteria := assoc text_eqb (lower w) code_table.

(** str::split(',') : always at least one piece *)
Fixpoint split_on (sep : char) (t : text) : list text :=
  match t with
  | [] => [[]]
  | c :: r =>
      if (c =? sep)%N then [] :: split_on sep r
      else match split_on sep r with
           | [] => [[c]]          (* unreachable: split_on never returns [] *)
           | w :: ws => (c :: w) :: ws
           end
  end.

Definition comma : char := 44%N.
Definition parse_tiebreak (t : text) : list criteria := filter_map parse_criteria (split_on comma t).

(** Vec::dedup: collapse runs of adjacent equal elements *)
Fixpoint dedup (l : list criteria) : list criteria :=
  match l with
  | [] => []
  | x :: r => match r with
              | [] => [x]
              | y :: _ => if criteria_eqb x y then dedup r else x :: dedup r
              end
  end.

Definition mem (c : criteria) (l : list criteria) : bool := existsb (criteria_eqb c) l.

(** RankBuilder::new *)
Definition builder_new (cs : list criteria) : list criteria :=
  dedup (if existsb (fun s => mem s cs) implicit_suppressors then cs else implicit_criterion :: cs).

(** Model::new: Some(option string) -> split/filter_map, None -> DEFAULT_CRITERION *)
Definition criteria_of_option (o : option text) : list criteria :=
  builder_new (match o with Some t => parse_tiebreak t | None => default_criteria end).

Record vals := { v_score : Z; v_begin : N; v_end : N; v_length : N }.

Fixpoint pad (n : nat) (l : list Z) : list Z :=
  match n with
  | O => []
  | S n' => match l with [] => 0%Z :: pad n' [] | x :: r => x :: pad n' r end
  end.

(** RankBuilder::build_rank *)
Definition build_rank (cs : list criteria) (v : vals) : list Z :=
  pad rank_slots
      (map (fun c => key_of neg32 c (v_score v) (cast32 (v_begin v)) (cast32 (v_end v)) (cast32 (v_length v)))
           (firstn rank_take cs)).

(** Ord on [i32; 4]: lexicographic *)
Fixpoint lex_cmp (a b : list Z) : comparison :=
  match a, b with
  | [], [] => Eq
  | [], _ :: _ => Lt
  | _ :: _, [] => Gt
  | x :: a', y :: b' => match (x ?= y)%Z with Eq => lex_cmp a' b' | c => c end
  end.
