(** The code skeleton the pipeline transition system (Model/Pipeline.v) stands for: for every
    function the model splits into steps, the shared-state operations it performs, in order.  The
    translator regenerates Gen/PipelineOrder.v from the Rust sources on every run; Props/C01, C14 and
    C15 require the two to coincide, so that moving, duplicating or dropping one of these operations
    breaks an obligation.  Each row names the model step(s) it justifies. *)
From Coq Require Import String List Bool.
Import ListNotations.
Open Scope string_scope.

Definition model_order : list (string * list string) :=
  [ (* LMLoad; LMTake; LMPublish; LMNotify; LMFlag - in this order, the flag last *)
    ("matcher_thread", ["load_num_taken"; "take"; "publish"; "notify"; "raise_stopped"]);
    (* KillQ / KillC set the flag, JoinQ / JoinC wait for PExited *)
    ("matcher_kill", ["raise_stopped"; "join"]);
    (* HbHarvest is enabled only when the flag is up *)
    ("matcher_into_items", ["wait_stopped"; "items"]);
    (* init / JoinC: the reader is counted (alive) before Reader::run returns; LPush; LEof *)
    ("reader_thread", ["count_component"; "release_parent"; "push"; "uncount_component"]);
    (* rdone = no live component and an empty buffer, read under the buffer lock *)
    ("reader_is_done", ["lock_buffer"; "no_component"; "buffer_empty"]);
    (* HbReadS; HbReadR (one read); HbHarvest; HbReadC; Restart; timer *)
    ("heart_beat", ["read_stopped"; "read_reader_done"; "harvest"; "read_consumed"; "restart"; "arm_timer"]);
    (* S1ReadC; S1ReadR; S1Decide with `mt = None` (not the stopped flag) *)
    ("decide", ["read_consumed"; "read_reader_done"; "matcher_none"]);
    (* KillQ; JoinQ (clear strategy, reset); Restart *)
    ("query_change", ["kill"; "set_clear"; "reset_pool"; "restart"]);
    ("rotate_mode", ["kill"; "set_clear"; "reset_pool"; "restart"]);
    (* KillC (reader, matcher); JoinC (clear strategy, clear pool, new reader); Restart *)
    ("cmd_change", ["kill"; "kill"; "set_clear_if_not_null"; "clear_pool"; "new_reader"; "restart"]);
    (* Restart: done?; move the buffer; queue a heartbeat; spawn (whose callback queues another) *)
    ("restart_matcher", ["kill"; "read_reader_done"; "take_buffer"; "append_pool"; "queue_heartbeat"; "spawn"; "queue_heartbeat"]);
    (* LHb runs the heartbeat handler, then the decision *)
    ("event_loop_heartbeat", ["heart_beat"; "decide"]);
    (* LMTake: the mark is swapped under the pool lock *)
    ("pool_take", ["lock"; "swap_taken"]);
    (* pool_append: header first, then the pool (two branches), length published last, under the lock *)
    ("pool_append", ["lock"; "reserve_header"; "extend_pool"; "extend_pool"; "publish_length"]);
    ("pool_reset", ["lock"; "zero_taken"]);
    ("pool_clear", ["lock"; "clear_pool"; "clear_header"; "zero_taken"; "zero_length"]);
    (* consumed: length first, then taken (both only grow towards each other, see c15_partition) *)
    ("pool_num_not_taken", ["load_length"; "load_taken"]);
    (* Model/SpinLock.v: TWant -> THold by CAS false->true; TWrote -> TIdle by CAS true->false; SeqCst *)
    ("spin_lock", ["cas_false_true_seqcst"]);
    ("spin_unlock", ["cas_true_false_seqcst"]) ].

Fixpoint lookup (n : string) (l : list (string * list string)) : option (list string) :=
  match l with
  | [] => None
  | (k, v) :: r => if String.eqb n k then Some v else lookup n r
  end.

Definition same_rows (names : list string) (a b : list (string * list string)) : bool :=
  forallb (fun n => match lookup n a, lookup n b with
                    | Some x, Some y => if list_eq_dec string_dec x y then true else false
                    | _, _ => false
                    end) names.

(** the rows each property's transition-system statements rest on *)
Definition c01_rows : list string := ["matcher_thread"; "matcher_kill"; "matcher_into_items"; "reader_thread"; "reader_is_done"; "heart_beat"; "query_change"; "rotate_mode"; "cmd_change"; "restart_matcher"; "event_loop_heartbeat"; "pool_take"; "pool_append"; "pool_reset"; "pool_clear"; "pool_num_not_taken"].
Definition c14_rows : list string := ["decide"; "heart_beat"; "event_loop_heartbeat"; "matcher_thread"; "matcher_kill"; "matcher_into_items"; "reader_thread"; "reader_is_done"; "restart_matcher"; "query_change"; "rotate_mode"; "cmd_change"; "pool_take"; "pool_reset"].
Definition c15_rows : list string := ["pool_take"; "pool_append"; "pool_reset"; "pool_clear"; "pool_num_not_taken"; "matcher_thread"; "query_change"; "rotate_mode"; "cmd_change"; "spin_lock"; "spin_unlock"].
