(** Model of src/query.rs (the query editor), action for action.  Definitions only.

    Representation of the Rust vectors (the only liberty taken):
    - `*_before : Vec<char>` is used as a stack at its end; here [bef] is that vector *reversed*
      (head = last element = the character just left of the cursor);
    - `*_after : Vec<char>` holds the text right of the cursor reversed and is used as a stack at
      its end; here [aft] is that vector reversed, i.e. the text right of the cursor in text order
      (head = last element of the vector = the character under the cursor);
    - history vectors (stacks at their end) are stored reversed likewise (head = top);
    - `yank` and `pasted` are kept in vector / string order.
    The `reverse` flags passed to save_yank by the five kill actions are taken from
    Gen/QueryConst.v (regenerated from the source). *)
From SkimV Require Import Common.Base Gen.QueryConst.

Section Query.
  (** char::is_whitespace / char::is_alphanumeric (supplied by the real library for the run's alphabet) *)
  Variables is_ws is_alnum : char -> bool.

  Inductive mode := MQuery | MCmd.

  Record st := {
    fzb : text; fza : text;            (* fz_query_before (reversed), fz_query_after (reversed) *)
    cmb : text; cma : text;            (* cmd_before (reversed), cmd_after (reversed) *)
    yank : text;
    md : mode;
    hfb : list text; hfa : list text;  (* fz_query_history_before / _after, head = top *)
    hcb : list text; hca : list text;  (* cmd_history_before / _after, head = top *)
    pasted : option text
  }.

  Definition bef (s : st) : text := match md s with MQuery => fzb s | MCmd => cmb s end.
  Definition aft (s : st) : text := match md s with MQuery => fza s | MCmd => cma s end.

  (** write the current mode's pair of stacks (get_query_ref) *)
  Definition set_ba (s : st) (b a : text) : st :=
    match md s with
    | MQuery => {| fzb := b; fza := a; cmb := cmb s; cma := cma s; yank := yank s; md := md s;
                   hfb := hfb s; hfa := hfa s; hcb := hcb s; hca := hca s; pasted := pasted s |}
    | MCmd => {| fzb := fzb s; fza := fza s; cmb := b; cma := a; yank := yank s; md := md s;
                 hfb := hfb s; hfa := hfa s; hcb := hcb s; hca := hca s; pasted := pasted s |}
    end.
  Definition set_yank (s : st) (y : text) : st :=
    {| fzb := fzb s; fza := fza s; cmb := cmb s; cma := cma s; yank := y; md := md s;
       hfb := hfb s; hfa := hfa s; hcb := hcb s; hca := hca s; pasted := pasted s |}.
  Definition set_mode (s : st) (m : mode) : st :=
    {| fzb := fzb s; fza := fza s; cmb := cmb s; cma := cma s; yank := yank s; md := m;
       hfb := hfb s; hfa := hfa s; hcb := hcb s; hca := hca s; pasted := pasted s |}.
  Definition set_pasted (s : st) (p : option text) : st :=
    {| fzb := fzb s; fza := fza s; cmb := cmb s; cma := cma s; yank := yank s; md := md s;
       hfb := hfb s; hfa := hfa s; hcb := hcb s; hca := hca s; pasted := p |}.
  Definition hist_b (s : st) : list text := match md s with MQuery => hfb s | MCmd => hcb s end.
  Definition hist_a (s : st) : list text := match md s with MQuery => hfa s | MCmd => hca s end.
  Definition set_hist (s : st) (hb ha : list text) : st :=
    match md s with
    | MQuery => {| fzb := fzb s; fza := fza s; cmb := cmb s; cma := cma s; yank := yank s; md := md s;
                   hfb := hb; hfa := ha; hcb := hcb s; hca := hca s; pasted := pasted s |}
    | MCmd => {| fzb := fzb s; fza := fza s; cmb := cmb s; cma := cma s; yank := yank s; md := md s;
                 hfb := hfb s; hfa := hfa s; hcb := hb; hca := ha; pasted := pasted s |}
    end.

  (** get_fz_query / get_cmd_query / get_query *)
  Definition fz_query (s : st) : text := rev (fzb s) ++ fza s.
  Definition cmd_query (s : st) : text := rev (cmb s) ++ cma s.
  Definition cur_query (s : st) : text := rev (bef s) ++ aft s.

  (** save_yank(yank, reverse) *)
  Definition save_yank (s : st) (y : text) (reverse : bool) : st :=
    match y with
    | [] => s
    | _ => set_yank s (if reverse then rev y else y)
    end.

  (** `while !v.is_empty() && p(v[v.len()-1]) { out.push(v.pop()) }`: (popped, in pop order; rest) *)
  Fixpoint pop_while (p : char -> bool) (v : text) : text * text :=
    match v with
    | [] => ([], [])
    | c :: r => if p c then let (o, r') := pop_while p r in (c :: o, r') else ([], v)
    end.

  (** `while !src.is_empty() && p(src.last()) { dst.push(src.pop()) }` *)
  Fixpoint move_while (p : char -> bool) (src dst : text) : text * text :=
    match src with
    | [] => ([], dst)
    | c :: r => if p c then move_while p r (c :: dst) else (src, dst)
    end.

  Definition act_add_char (s : st) (c : char) : st := set_ba s (c :: bef s) (aft s).
  Definition act_backward_delete_char (s : st) : st := set_ba s (tl (bef s)) (aft s).
  Definition act_delete_char (s : st) : st := set_ba s (bef s) (tl (aft s)).
  Definition act_backward_char (s : st) : st :=
    match bef s with [] => s | c :: b => set_ba s b (c :: aft s) end.
  Definition act_forward_char (s : st) : st :=
    match aft s with [] => s | c :: a => set_ba s (c :: bef s) a end.

  Definition act_unix_word_rubout (s : st) : st :=
    let (y1, b1) := pop_while is_ws (bef s) in
    let (y2, b2) := pop_while (fun c => negb (is_ws c)) b1 in
    save_yank (set_ba s b2 (aft s)) (y1 ++ y2) YANK_REV_WORD_RUBOUT.

  Definition act_backward_kill_word (s : st) : st :=
    let (y1, b1) := pop_while (fun c => negb (is_alnum c)) (bef s) in
    let (y2, b2) := pop_while is_alnum b1 in
    save_yank (set_ba s b2 (aft s)) (y1 ++ y2) YANK_REV_BACKWARD_KILL_WORD.

  Definition act_kill_word (s : st) : st :=
    let (y1, a1) := pop_while (fun c => negb (is_alnum c)) (aft s) in
    let (y2, a2) := pop_while is_alnum a1 in
    save_yank (set_ba s (bef s) a2) (y1 ++ y2) YANK_REV_KILL_WORD.

  Definition act_backward_word (s : st) : st :=
    let (b1, a1) := move_while (fun c => negb (is_alnum c)) (bef s) (aft s) in
    let (b2, a2) := move_while is_alnum b1 a1 in
    set_ba s b2 a2.

  Definition act_forward_word (s : st) : st :=
    let (a1, b1) := move_while is_ws (aft s) (bef s) in
    let (a2, b2) := move_while (fun c => negb (is_ws c)) a1 b1 in
    set_ba s b2 a2.

  Definition act_beginning_of_line (s : st) : st :=
    let (b, a) := move_while (fun _ => true) (bef s) (aft s) in set_ba s b a.
  Definition act_end_of_line (s : st) : st :=
    let (a, b) := move_while (fun _ => true) (aft s) (bef s) in set_ba s b a.

  (** the vector handed to save_yank is `after` itself, i.e. the text right of the cursor reversed *)
  Definition act_kill_line (s : st) : st :=
    save_yank (set_ba s (bef s) []) (rev (aft s)) YANK_REV_KILL_LINE.
  (** the vector handed to save_yank is `before` itself, i.e. the text left of the cursor *)
  Definition act_line_discard (s : st) : st :=
    save_yank (set_ba s [] (aft s)) (rev (bef s)) YANK_REV_LINE_DISCARD.

  Definition act_yank (s : st) : st := fold_left act_add_char (yank s) s.

  (** previous_history / next_history *)
  Definition replace_line (s : st) (h : text) : st :=
    set_ba s (rev h) (if HISTORY_CLEARS_AFTER then [] else aft s).

  Definition previous_history (s : st) : st :=
    let cur := cur_query s in
    match hist_b s with
    | [] => s
    | h :: hb => replace_line (set_hist s hb (cur :: hist_a s)) h
    end.
  Definition next_history (s : st) : st :=
    let cur := cur_query s in
    match hist_a s with
    | [] => s
    | h :: ha => replace_line (set_hist s (cur :: hist_b s) ha) h
    end.

  Definition toggle_interactive (s : st) : st :=
    set_mode s (match md s with MQuery => MCmd | MCmd => MQuery end).

  (** the events Query::handle reacts to *)
  Inductive ev :=
  | AddChar (c : char) | DeleteChar | DeleteCharEOF | BackwardChar | BackwardDeleteChar
  | BackwardKillWord | BackwardWord | BeginningOfLine | EndOfLine | ForwardChar | ForwardWord
  | KillLine | KillWord | PreviousHistory | NextHistory | UnixLineDiscard | UnixWordRubout
  | Yank | ToggleInteractive | PasteStart | PasteEnd | Other.

  Definition handle (s : st) (e : ev) : st :=
    match e with
    | AddChar c => match pasted s with
                   | Some p => set_pasted s (Some (p ++ [c]))
                   | None => act_add_char s c
                   end
    | DeleteChar | DeleteCharEOF => act_delete_char s
    | BackwardChar => act_backward_char s
    | BackwardDeleteChar => act_backward_delete_char s
    | BackwardKillWord => act_backward_kill_word s
    | BackwardWord => act_backward_word s
    | BeginningOfLine => act_beginning_of_line s
    | EndOfLine => act_end_of_line s
    | ForwardChar => act_forward_char s
    | ForwardWord => act_forward_word s
    | KillLine => act_kill_line s
    | KillWord => act_kill_word s
    | PreviousHistory => previous_history s
    | NextHistory => next_history s
    | UnixLineDiscard => act_line_discard s
    | UnixWordRubout => act_unix_word_rubout s
    | Yank => act_yank s
    | ToggleInteractive => toggle_interactive s
    | PasteStart => set_pasted s (Some [])
    | PasteEnd => fold_left act_add_char (match pasted s with Some p => p | None => [] end)
                            (set_pasted s None)
    | Other => s
    end.

  Definition run (s : st) (es : list ev) : st := fold_left handle es s.

  (** Query::from_options: initial query / cmd query left of the cursor, histories given oldest first *)
  Definition init (q c : text) (interactive : bool) (hq hc : list text) : st :=
    {| fzb := rev q; fza := []; cmb := rev c; cma := []; yank := [];
       md := if interactive then MCmd else MQuery;
       hfb := rev hq; hfa := []; hcb := rev hc; hca := []; pasted := None |}.
End Query.
