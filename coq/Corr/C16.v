(** Correspondence for C16: a case is one ANSIParser fed several lines in turn (attribute
    carry-over); per line the vte callback sequence recorded by the harness on the same bytes, and
    what the real parse_ansi returned (stripped text, has_attrs, per-character attributes). *)
From SkimV Require Export Common.Base Gen.SgrTable Model.Merge Model.Ansi.

Record line := {
  l_cbs : list cb;
  i_text : text;
  i_has_attrs : bool;
  i_attrs : list attr          (* attribute of every character, from iter() *)
}.
Record case := {
  c_lines : list line;        (* one parser fed the lines in turn *)
  c_items : list line         (* the same lines read as input items through SkimItemReader (--ansi): each starts afresh *)
}.

Fixpoint play (s : pst) (ls : list line) : bool :=
  match ls with
  | [] => true
  | l :: r =>
      let (x, s') := parse_ansi s (l_cbs l) in
      text_eqb (a_text x) (i_text l) && Bool.eqb (has_attrs x) (i_has_attrs l) &&
      list_eqb attr_eqb (map snd (iter x)) (i_attrs l) &&
      text_eqb (map fst (iter x)) (i_text l) && play s' r
  end.

Definition check (c : case) : bool :=
  play fresh (c_lines c) && forallb (fun l => play fresh [l]) (c_items c).
