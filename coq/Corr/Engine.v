(** Correspondence for the match engines (serves C03, C04, C08): a real engine built by the public
    factories matched a real item (with or without --nth ranges).  The fuzzy-matcher library's
    answers for the candidate (pattern, slice) pairs and the regex crate's answers for regex-mode
    queries are handed over as tables. *)
From SkimV Require Export Common.Base Model.Engine.

Record case := {
  c_exact : bool; c_case : casem; c_regex : bool;
  c_query : text; c_text : text; c_ranges : option (list (N * N));
  c_fz : list (text * text * option (list N));
  c_rx : option (bool * list (text * option (N * N)));   (* regex mode: (does the pattern compile, answers per slice) *)
  i_result : result
}.

Definition lookup_fz (tbl : list (text * text * option (list N))) (pat sl : text) : option (list N) :=
  match find (fun e => text_eqb (fst (fst e)) pat && text_eqb (snd (fst e)) sl) tbl with
  | Some e => snd e
  | None => Some [4294967295%N]       (* not in the table: force a difference *)
  end.

Definition lookup_rx (tbl : list (text * option (N * N))) (sl : text) : option (N * N) :=
  match find (fun e => text_eqb (fst e) sl) tbl with
  | Some e => snd e
  | None => Some (4294967295%N, 4294967295%N)
  end.

Definition mrange_eqb (a b : mrange) : bool :=
  match a, b with
  | RBytes s e, RBytes s' e' => N.eqb s s' && N.eqb e e'
  | RChars l, RChars l' => list_eqb N.eqb l l'
  | _, _ => false
  end.
Definition result_eqb (a b : result) : bool :=
  match a, b with
  | Panic, Panic | NoMatch, NoMatch => true
  | Match x, Match y => mrange_eqb x y
  | _, _ => false
  end.

Definition model_result (c : case) : result :=
  let it := {| i_text := c_text c; i_ranges := c_ranges c |} in
  match c_rx c with
  | Some (valid, tbl) =>
      eval (fun _ _ => None) (fun _ sl => lookup_rx tbl sl) (fun _ => valid) (c_case c) (ERegex (c_query c)) it
  | None =>
      eval (lookup_fz (c_fz c)) (fun _ _ => None) (fun _ => true) (c_case c) (parse_query (c_exact c) (c_query c)) it
  end.

Definition check (c : case) : bool := result_eqb (model_result c) (i_result c).
