(** Correspondence for the pipeline (C01, C14, C15): a recorded session of the real event loop,
    linearised by the harness into labels of Model/Pipeline.v, is replayed through [step]; every
    value the implementation read or produced at a trace point must be the value the model computes
    at that step, every label must be enabled, and the final list / decision must agree.  Component
    cases drive the real ItemPool against the pool functions of the model. *)
From SkimV Require Export Common.Base Model.Pipeline Model.Draw.

Definition b2n (b : bool) : N := if b then 1%N else 0%N.
Definition n2n (n : nat) : N := N.of_nat n.

Section Replay.
  Variable nres : nat.
  Variable ncie : bool.
  Variable mp : N -> item -> bool.

  (** what the implementation's trace point reports at this step *)
  Definition obs (s : st) (l : label) (s' : st) : list N :=
    match l with
    | LMain =>
        match pc s with
        | HbReadS :: _ => [b2n (match mt s with Some m => flag m | None => false end); b2n (match mt s with Some _ => true | None => false end)]
        | HbReadR _ :: _ => [b2n (rdone s)]
        | HbHarvest _ :: _ =>
            [n2n (match mt s with Some m => List.length (mres m) | None => 0 end);
             b2n (match cs s' with DontClear => true | _ => false end)]
        | HbReadC r :: _ =>
            (* also whether the refresh timer is (re-)armed at the end of this heartbeat *)
            let processed := r && consumed s in
            let restart := negb processed && match mt s with None => true | Some _ => false end in
            [b2n (consumed s); b2n (restart || match mt s with Some _ => true | None => false end || negb processed)]
        | Restart :: _ =>
            if rdone s then [1%N] else [0%N; n2n (List.length (rbuf s)); n2n (List.length (pl s'))]
        | S1ReadC :: _ => [b2n (consumed s)]
        | S1ReadR _ :: _ => [b2n (rdone s)]
        | S1Decide _ _ :: _ => [b2n (match mt s with None => true | Some _ => false end); n2n (List.length (L s))]
        | _ => []
        end
    | LMLoad => [n2n (taken s)]
    | LMTake => [n2n (List.length (pl s) - taken s); n2n (List.length (pl s))]
    | LMPublish => [n2n (match mt s' with Some m => List.length (mres m) | None => 0 end)]
    | _ => []
    end.

  Definition ns_eqb : list N -> list N -> bool := list_eqb N.eqb.

  (** replay: None = a label was not enabled or an observation differs (with the step index) *)
  Fixpoint replay (s : st) (i : N) (steps : list (label * list N)) : st + N :=
    match steps with
    | [] => inl s
    | (l, o) :: r =>
        match step nres ncie mp s l with
        | None => inr i
        | Some s' =>
            match o with
            | [] => replay s' (N.succ i) r
            | _ => if ns_eqb o (obs s l s') then replay s' (N.succ i) r else inr i
            end
        end
    end.
End Replay.

(** insertion sort of the list by item index *)
Fixpoint ins (p : item * nat) (l : list (item * nat)) : list (item * nat) :=
  match l with
  | [] => [p]
  | x :: r => if (snd p <=? snd x)%nat then p :: l else x :: ins p r
  end.
Definition by_index (l : list (item * nat)) : list (item * nat) := fold_right ins [] l.

Definition dec_code (d : option decision) : N :=
  match d with None => 0 | Some Accept => 1 | Some Abort => 2 | Some Interactive => 3 end%N.

(** pool component operations *)
Inductive pop := PAppend (xs : list item) | PTake | PReset | PClear.
(** observation after each operation: (len, taken, reserved length, slice handed out by take) *)
Definition pool_run (nres : nat) (ops : list pop) : list (list N) :=
  (fix go (p r : list item) (tk : nat) (ops : list pop) : list (list N) :=
     match ops with
     | [] => []
     | PAppend xs :: t =>
         let (p', r') := pool_append nres p r xs in
         (n2n (List.length p') :: n2n tk :: n2n (List.length r') :: []) :: go p' r' tk t
     | PTake :: t =>
         (n2n (List.length p) :: n2n (List.length p) :: n2n (List.length r) :: skipn tk p) :: go p r (List.length p) t
     | PReset :: t => (n2n (List.length p) :: 0%N :: n2n (List.length r) :: []) :: go p r 0 t
     | PClear :: t => (0%N :: 0%N :: 0%N :: []) :: go [] [] 0 t
     end) [] [] 0 ops.

Inductive case :=
| KSession (nres : nat) (ncie : bool) (table : list (list bool)) (src0 : list item) (q0 : N)
           (sel1 ex0 sy : bool)
           (segs : list (N * list (label * list N)))   (* run-length encoded steps: (count, block) *)
           (final : option (list N))            (* accepted output: item ids in index order *)
           (dec : N)                             (* 0 none, 1 accept, 2 abort, 3 interactive *)
| KPool (nres : nat) (ops : list pop) (seen : list (list N))
(* the header widget drawn over --header lines and the pool's reserved items: recorded rows (None: refused to draw) *)
| KHeader (width height tab : nat) (reverse : bool) (fixed reserved : list text) (widths : list (char * nat))
          (rows : option (list (nat * list (nat * (char * N))))).

Definition table_mp (table : list (list bool)) (qq : N) (x : item) : bool :=
  nth (N.to_nat x) (nth (N.to_nat qq) table []) false.

(** result of one case: [] = agreement; otherwise a code and the step index *)
Definition check_detail (c : case) : list N :=
  match c with
  | KSession nres ncie table src0 q0 a b sy segs final dec =>
      let steps := concat (map (fun sg => concat (repeat (snd sg) (N.to_nat (fst sg)))) segs) in
      match replay nres ncie (table_mp table) (init src0 q0 a b sy) 0%N steps with
      | inr i => [1%N; i]
      | inl s =>
          let okf := match final with
                     | None => true
                     | Some ids => list_eqb N.eqb ids (map fst (by_index (L s)))
                     end in
          if negb okf then [2%N]
          else if negb (N.eqb dec (dec_code (decided s))) then [3%N; dec_code (decided s)]
          else []
      end
  | KPool nres ops seen =>
      if list_eqb (list_eqb N.eqb) seen (pool_run nres ops) then [] else [4%N]
  | KHeader width height tab reverse fixed reserved widths rows =>
      let cw (c : char) := match assoc N.eqb c widths with Some w => w | None => 1 end in
      let ceq (a b : nat * (char * N)) := Nat.eqb (fst a) (fst b) && N.eqb (fst (snd a)) (fst (snd b)) && N.eqb (snd (snd a)) (snd (snd b)) in
      let req (a b : nat * list (nat * (char * N))) := Nat.eqb (fst a) (fst b) && list_eqb ceq (snd a) (snd b) in
      if option_eqb (list_eqb req) (header_rows cw width height tab reverse fixed reserved) rows then [] else [5%N]
  end.

Definition check (c : case) : bool := match check_detail c with [] => true | _ => false end.
