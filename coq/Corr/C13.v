(** Correspondence for C13: the harness writes one [case] per real call of
    parse_criteria / RankBuilder::new / build_rank / Ord on [i32;4]; [check] re-computes each
    on the model. *)
From SkimV Require Export Common.Base Gen.RankTable Model.Rank.

Record rcase := {
  c_opt : option text;          (* the --tiebreak string, None = option absent *)
  c_a : Z * N * N * N;          (* score, begin, end, length *)
  c_b : Z * N * N * N;
  i_criteria : list N;          (* implementation: criteria after RankBuilder::new, as enum ordinals *)
  i_rank_a : list Z;            (* implementation: build_rank on a, b *)
  i_rank_b : list Z;
  i_cmp : Z                     (* implementation: rank_a.cmp(rank_b) as -1/0/1 *)
}.

Definition ordinal (c : criteria) : N :=
  match c with
  | CScore => 0 | CBegin => 1 | CEnd => 2 | CNegScore => 3
  | CNegBegin => 4 | CNegEnd => 5 | CLength => 6 | CNegLength => 7
  end%N.

Definition mkvals (t : Z * N * N * N) : vals :=
  let '(s, b, e, l) := t in {| v_score := s; v_begin := b; v_end := e; v_length := l |}.

Definition cmp_code (c : comparison) : Z := match c with Lt => -1 | Eq => 0 | Gt => 1 end%Z.

Definition model_out (c : rcase) :=
  let cs := criteria_of_option (c_opt c) in
  let ra := build_rank cs (mkvals (c_a c)) in
  let rb := build_rank cs (mkvals (c_b c)) in
  (map ordinal cs, ra, rb, cmp_code (lex_cmp ra rb)).

Definition check_r (c : rcase) : bool :=
  let '(cs, ra, rb, o) := model_out c in
  list_eqb N.eqb cs (i_criteria c) && list_eqb Z.eqb ra (i_rank_a c) &&
  list_eqb Z.eqb rb (i_rank_b c) && Z.eqb o (i_cmp c).

(** Engine-level cases: a real engine (exact / fuzzy / regex / match-all, with or without --nth
    ranges) matched a real item; [e_begin]/[e_end] are the start/end of the match *as reported in
    matched_range* (first/last character index for fuzzy, byte span otherwise), [e_len] the text's
    byte length, [e_score] the score recovered from the rank produced under "-score".  The rank the
    engine produced must be build_rank of exactly these. *)
Record ecase := {
  e_opt : option text;
  e_score : Z; e_begin : N; e_end : N; e_len : N;
  e_rank : list Z
}.

Definition check_e (c : ecase) : bool :=
  let cs := criteria_of_option (e_opt c) in
  list_eqb Z.eqb
    (build_rank cs {| v_score := e_score c; v_begin := e_begin c; v_end := e_end c; v_length := e_len c |})
    (e_rank c).

Inductive case := KRank (c : rcase) | KEngine (c : ecase).
Definition check (c : case) : bool := match c with KRank r => check_r r | KEngine e => check_e e end.
