(** Correspondence for C20: a recorded run of the real Previewer (front-end calls, worker and
    waiter threads), linearised by the harness into labels of Model/Preview.v, is replayed through
    [pstep]: every label must be enabled, the sequence of content assignments (which request's
    output was put into the pane, observed in the previewer's own callback) and the final content
    must be the model's; the front end's send / no-send decisions and the scroll arithmetic are
    compared with the model's functions. *)
From SkimV Require Export Common.Base Model.Preview.

Inductive fcall := FCall (item : option N) (q cq : option text) (nsel : nat) (force : bool).

Inductive case :=
| KRun (labels : list plabel) (outputs : list nat)   (* request number -> id of the text its preview prints *)
       (seen : list nat) (final : option nat)       (* ids of the texts put into the pane, in order; the final one *)
| KFront (calls : list fcall) (sent : list bool)
| KScroll (off : nat) (diff : Z) (len : nat) (got : nat)
| KScrollInit (req len got : nat).

Fixpoint front_run (f : pfront) (cs : list fcall) : list bool :=
  match cs with
  | [] => []
  | FCall it q cq n fo :: r => let (b, f') := on_item_change f it q cq n fo in b :: front_run f' r
  end.

Definition check (c : case) : bool :=
  match c with
  | KRun labels outputs seen final =>
      match prun pinit labels with
      | None => false
      | Some s =>
          let out (k : nat) := nth k outputs 0 in
          list_eqb Nat.eqb (map out (shown s)) seen && option_eqb Nat.eqb (option_map out (content s)) final
      end
  | KFront calls sent => list_eqb Bool.eqb (front_run pfront0 calls) sent
  | KScroll off diff len got => Nat.eqb (scroll_down off diff len) got
  | KScrollInit req len got => Nat.eqb (scroll_init req len) got
  end.
