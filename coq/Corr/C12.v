(** Correspondence for C12: the public functions of skim::field on random lines, delimiter
    regexes (whose match spans are computed by the regex crate and handed over) and range strings. *)
From SkimV Require Export Common.Base Model.Field.

Record case := {
  c_len : N; c_ms : list (N * N);
  c_range : text; i_parsed : option frange;
  c_k : N; i_pair : option (N * N);             (* to_index_pair(c_k) of the parsed range *)
  i_get : option (N * N);                       (* get_string_by_field: byte range of the slice *)
  c_fields : list text; i_match : list (N * N)  (* parse_matching_fields over the parsed list *)
}.

Definition fr_eqb (a b : frange) : bool :=
  match a, b with
  | Single x, Single y | LeftInf x, LeftInf y | RightInf x, RightInf y => Z.eqb x y
  | Both a1 a2, Both b1 b2 => Z.eqb a1 b1 && Z.eqb a2 b2
  | _, _ => false
  end.
Definition pr_eqb := pair_eqb N.eqb N.eqb.

Definition check (c : case) : bool :=
  let p := from_str (c_range c) in
  option_eqb fr_eqb p (i_parsed c) &&
  match p with
  | Some r => option_eqb pr_eqb (to_index_pair r (c_k c)) (i_pair c) &&
              option_eqb pr_eqb (get_string_by_field (c_ms c) (c_len c) r) (i_get c)
  | None => true
  end &&
  list_eqb pr_eqb (parse_matching_fields (c_ms c) (c_len c) (filter_map from_str (c_fields c))) (i_match c).
