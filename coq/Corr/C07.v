(** Correspondence for C07: the real inject_command on random templates and contexts; the
    delimiter's matches inside each item text are computed by the regex crate (character offsets). *)
From SkimV Require Export Common.Base Gen.Regexes Model.Field Model.Inject.

Record case := {
  c_cmd : text;
  c_ctx : ctx;
  i_out : text;            (* inject_command(cmd, ctx) *)
  i_depends : bool         (* depends_on_items(cmd): does RE_ITEMS match anywhere *)
}.

(** depends_on_items: RE_ITEMS has the same shape with its own class *)
Definition check (c : case) : bool := text_eqb (inject_command (c_cmd c) (c_ctx c)) (i_out c).
