(** Correspondence for C02: one case = one history run on the real OrderedVec<Elem>
    (Elem ordered by rank only, like MatchedItem), with what every read returned. *)
From SkimV Require Export Common.Base Gen.OrderedVecConst Model.OrderedVec.

Definition elem := (Z * N)%type.               (* rank, id *)
Definition ele_le (a b : elem) : bool := Z.leb (fst a) (fst b).

Inductive cop :=
| CAppend (l : list elem)
| CGet (i : N) (r : option Z)                  (* implementation: rank at position i / None *)
| CLen (n : N)
| CIter (l : list elem)                        (* implementation: the full listing *)
| CClear.

Record case := { c_tac : bool; c_nosort : bool; c_ops : list cop }.

Definition MAXn := N.to_nat MOVE_LIMIT.
Definition THRn := N.to_nat SPILL_THRESHOLD.
Definition st := ov elem.

Definition m_append := @append elem ele_le MAXn THRn.
Definition m_get := @get elem ele_le.
Definition m_iter := @iter elem ele_le.

Definition pair_le (a b : elem) : bool :=
  if Z.ltb (fst a) (fst b) then true else if Z.ltb (fst b) (fst a) then false else N.leb (snd a) (snd b).
Definition elem_eqb (a b : elem) : bool := Z.eqb (fst a) (fst b) && N.eqb (snd a) (snd b).

Definition res_rank (r : res elem) : option (option Z) :=
  match r with RNone => Some None | RSome x => Some (Some (fst x)) | RPanic => None end.

Fixpoint res_elems (l : list (res elem)) : option (list elem) :=
  match l with
  | [] => Some []
  | RSome x :: r => match res_elems r with Some xs => Some (x :: xs) | None => None end
  | _ :: _ => None
  end.

(** canonicalisation: order among equal ranks is free, so a listing is compared as
    (sequence of ranks, multiset of (rank, id)) *)
Definition same_listing (a b : list elem) : bool :=
  list_eqb Z.eqb (map fst a) (map fst b) &&
  list_eqb elem_eqb (isort pair_le a) (isort pair_le b).

Fixpoint play (s : st) (ops : list cop) : bool :=
  match ops with
  | [] => true
  | CAppend l :: r => play (m_append s l) r
  | CGet i want :: r =>
      let (s1, g) := m_get s (N.to_nat i) in
      match res_rank g with
      | Some got => option_eqb Z.eqb got want && play s1 r
      | None => false
      end
  | CLen n :: r => N.eqb (N.of_nat (len s)) n && play s r
  | CIter want :: r =>
      let (s1, rs) := m_iter s in
      match res_elems rs with
      | Some got => same_listing got want && play s1 r
      | None => false
      end
  | CClear :: r => play (clear s) r
  end.

Definition check (c : case) : bool := play (empty (c_tac c) (c_nosort c)) (c_ops c).
