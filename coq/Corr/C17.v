(** Correspondence for C17: real merge_fragments / override_attrs + iter on the same fragment
    lists; attributes are numbered (each test fragment has its own attribute). *)
From SkimV Require Export Common.Base Model.Merge.

Definition fr := (N * (N * N))%type.
Record case := {
  c_old : list fr; c_new : list fr; c_n : N;        (* text length in characters *)
  i_merged : list fr;                               (* implementation: merge_fragments(old, new) *)
  i_attrs : list (option N)                         (* implementation: attribute ids from iter() after override_attrs *)
}.

Definition fr_eqb (a b : fr) : bool :=
  N.eqb (fst a) (fst b) && N.eqb (fst (snd a)) (fst (snd b)) && N.eqb (snd (snd a)) (snd (snd b)).

Definition check (c : case) : bool :=
  match merge_fragments (c_old c) (c_new c) with
  | Some r => list_eqb fr_eqb r (i_merged c) &&
              list_eqb (option_eqb N.eqb) (iter_attrs r (N.to_nat (c_n c))) (i_attrs c)
  | None => false
  end.
