(** Correspondence for C18: one case = one event sequence handled by the real Query
    (Query::from_options, EventHandler::handle), with get_fz_query / get_cmd_query / mode / cursor
    column observed after every event.  The character classes come from Rust's char methods. *)
From SkimV Require Export Common.Base Model.Query.

Record obs := { o_fz : text; o_cmd : text; o_query_mode : bool; o_cursor : N }.

Record case := {
  c_ws : list N; c_alnum : list N;          (* the alphabet's whitespace / alphanumeric characters *)
  c_q : text; c_c : text; c_interactive : bool;
  c_hq : list text; c_hc : list text;
  c_evs : list (ev * obs)
}.

Definition memN (l : list N) (c : N) : bool := existsb (N.eqb c) l.

Definition obs_ok (s : st) (o : obs) : bool :=
  text_eqb (fz_query s) (o_fz o) && text_eqb (cmd_query s) (o_cmd o) &&
  Bool.eqb (match md s with MQuery => true | MCmd => false end) (o_query_mode o) &&
  N.eqb (N.of_nat (length (bef s))) (o_cursor o).

Fixpoint play (ws al : char -> bool) (s : st) (l : list (ev * obs)) : bool :=
  match l with
  | [] => true
  | (e, o) :: r => let s' := handle ws al s e in obs_ok s' o && play ws al s' r
  end.

Definition check (c : case) : bool :=
  play (memN (c_ws c)) (memN (c_alnum c))
       (init (c_q c) (c_c c) (c_interactive c) (c_hq c) (c_hc c)) (c_evs c).
