(** Correspondence for C06: byte streams read through the real SkimItemReader (both read loops);
    the texts of the items, as bytes, for streams that are valid UTF-8. *)
From SkimV Require Export Common.Base Model.Reader.

Record case := { c_term : N; c_bytes : list N; i_items : list (list N) }.
Definition check (c : case) : bool :=
  list_eqb (list_eqb N.eqb) (items (c_term c) (c_bytes c)) (i_items c).
