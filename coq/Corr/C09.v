(** Correspondence for the Selection widget (serves C09, C10, C05): one case = one history of
    events / updates / redraws on the real Selection; after every operation the implementation's
    get_current_item_idx, get_num_options, get_current_item, get_num_selected and
    get_selected_indices_and_items are recorded. *)
From SkimV Require Export Common.Base Model.Selection.

Record obs := {
  o_idx : N;                         (* get_current_item_idx() *)
  o_n : N;                           (* get_num_options() *)
  o_cur : option N;                  (* id of get_current_item() *)
  o_nsel : N;                        (* get_num_selected() *)
  o_out : option (list N * list N)   (* get_selected_indices_and_items(): indices, ids; None = panicked *)
}.

Record case := {
  c_reverse : bool; c_multi : bool; c_selmod : N;
  c_ops : list (op * option obs)     (* None = the operation itself panicked *)
}.

Definition lN_eqb := list_eqb N.eqb.

Definition obs_ok (s : sel) (o : obs) : bool :=
  N.eqb (cursor_idx s) (o_idx o) && N.eqb (nitems s) (o_n o) &&
  option_eqb N.eqb (current_item s) (o_cur o) &&
  N.eqb (N.of_nat (length (selected s))) (o_nsel o) &&
  option_eqb (pair_eqb lN_eqb lN_eqb) (output s) (o_out o).

Fixpoint play (s : sel) (l : list (op * option obs)) : bool :=
  match l with
  | [] => true
  | (o, want) :: r =>
      match step s o, want with
      | Some s', Some w => obs_ok s' w && play s' r
      | None, None => true                      (* both stop here *)
      | _, _ => false
      end
  end.

Definition check (c : case) : bool := play (init_sel (c_reverse c) (c_multi c) (c_selmod c)) (c_ops c).
