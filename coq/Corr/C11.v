(** Correspondence for C11: the real Selection drawn on a recording canvas against Model/Draw.v.
    A case gives the canvas size, the options, the line cursor, the items from item_cursor on (text,
    match range in character positions, selected?), the widths of the characters used, and what
    was recorded: for each item row the screen row and the cells put, in call order (None = the
    draw panicked). *)
From SkimV Require Export Common.Base Model.Draw.

(** the selected-marker attribute on the cursor row (tag 6) and on other rows (tag 5) coincide in the
    theme the harness draws with (the marker's own colours override both): compared as one tag *)
Definition canon (t : tag) : tag := if (t =? 6)%N then 5%N else t.
Definition cell_eqb (a b : cell) : bool :=
  Nat.eqb (fst a) (fst b) && N.eqb (fst (snd a)) (fst (snd b)) && N.eqb (canon (snd (snd a))) (canon (snd (snd b))).
Definition rowc_eqb (a b : nat * list cell) : bool :=
  Nat.eqb (fst a) (fst b) && list_eqb cell_eqb (snd a) (snd b).

Record case := {
  c_width : nat; c_height : nat; c_reverse : bool; c_opts : dopts; c_line_cursor : nat;
  c_rows : list row; c_widths : list (char * nat);
  i_rows : option (list (nat * list cell))
}.

Definition cw_of (tbl : list (char * nat)) (c : char) : nat :=
  match assoc N.eqb c tbl with Some w => w | None => 1 end.

Definition model_rows (c : case) := draw (cw_of (c_widths c)) (c_opts c) (c_width c) (c_height c) (c_reverse c) (c_line_cursor c) (c_rows c).

Definition check (c : case) : bool := option_eqb (list_eqb rowc_eqb) (model_rows c) (i_rows c).
