(** Correspondence for C19: --bind specifications generated from the grammar (and a malformed
    stream for the oracle only), through the real parse_key_action, Input::{new, parse_keymaps,
    parse_expect_keys, translate_event} and parse_action_arg.  from_keyname's answers for the key
    names in use are handed over. *)
From SkimV Require Export Common.Base Gen.EventTable Gen.DefaultKeymap Model.Keymap.

Record case := {
  c_keys : list (text * option text);                       (* key name -> Debug form of the key, None = unknown name *)
  c_specs : list text;                                      (* the --bind strings, in order *)
  c_expect : option text;
  i_parsed : list (list (text * list (text * option text)));(* parse_key_action of each spec *)
  c_probes : list (text * option N);                        (* key events: Debug form, character for Key::Char *)
  i_chains : option (list chain);                           (* translate_event of each probe; None = building the map panicked *)
  c_ifargs : list text; i_ifevs : list (option (option mev))(* parse_action_arg; None = panicked *)
}.

Definition keyof_tbl (tbl : list (text * option text)) (name : text) : option text :=
  match assoc text_eqb name tbl with Some r => r | None => None end.

Definition marg_eqb (a b : marg) : bool :=
  match a, b with
  | MNone, MNone => true
  | MOptStr x, MOptStr y => option_eqb text_eqb x y
  | MInt x, MInt y => Z.eqb x y
  | MStr x, MStr y => text_eqb x y
  | MChar x, MChar y => N.eqb x y
  | MKey x, MKey y => text_eqb x y
  | _, _ => false
  end.
Definition mev_eqb (a b : mev) : bool := text_eqb (fst a) (fst b) && marg_eqb (snd a) (snd b).
Definition action_eqb (a b : action) : bool := text_eqb (fst a) (fst b) && option_eqb text_eqb (snd a) (snd b).
Definition binding_eqb (a b : text * list action) : bool := text_eqb (fst a) (fst b) && list_eqb action_eqb (snd a) (snd b).

Definition pres_opt {A} (p : pres A) : option A := match p with Ok a => Some a | Panics => None end.

Definition check (c : case) : bool :=
  let keyof := keyof_tbl (c_keys c) in
  list_eqb (list_eqb binding_eqb) (map parse_key_action (c_specs c)) (i_parsed c) &&
  option_eqb (list_eqb (list_eqb mev_eqb))
    (option_map (fun m => let m' := parse_expect_keys keyof m (c_expect c) in
                          map (fun p : text * option N => translate_key m' (fst p) (snd p)) (c_probes c))
                (pres_opt (parse_keymaps keyof default_map (c_specs c))))
    (i_chains c) &&
  list_eqb (option_eqb (option_eqb mev_eqb)) (map (fun a => pres_opt (parse_action_arg a)) (c_ifargs c)) (i_ifevs c).
