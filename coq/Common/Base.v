(** Common definitions shared by every model: characters as code points, strings as lists,
    decidable equalities used by the correspondence files, the mismatch collector. *)
From Coq Require Export List NArith ZArith Lia Bool.
From Coq Require Import String Ascii.
Export ListNotations.

Global Arguments N.add : simpl never.
Global Arguments N.sub : simpl never.
Global Arguments N.mul : simpl never.
Global Arguments N.eqb : simpl never.
Global Arguments N.ltb : simpl never.
Global Arguments N.leb : simpl never.
Global Arguments Z.add : simpl never.
Global Arguments Z.sub : simpl never.
Global Arguments Z.mul : simpl never.
Global Arguments Z.opp : simpl never.
Global Arguments Z.eqb : simpl never.
Global Arguments Z.ltb : simpl never.
Global Arguments Z.leb : simpl never.

(** A character is its Unicode scalar value; a text is a list of characters. *)
Definition char := N.
Definition text := list char.

Fixpoint codes (s : string) : text :=
  match s with
  | EmptyString => []
  | String a r => N_of_ascii a :: codes r
  end.

(** Generic boolean equality on lists. *)
Fixpoint list_eqb {A} (eqb : A -> A -> bool) (a b : list A) : bool :=
  match a, b with
  | [], [] => true
  | x :: a', y :: b' => eqb x y && list_eqb eqb a' b'
  | _, _ => false
  end.

Lemma list_eqb_spec {A} (eqb : A -> A -> bool) :
  (forall x y, eqb x y = true <-> x = y) ->
  forall a b, list_eqb eqb a b = true <-> a = b.
Proof.
  intros H a; induction a as [|x a IH]; intros [|y b]; cbn [list_eqb]; split; intros E;
    try reflexivity; try discriminate.
  - apply andb_true_iff in E as [E1 E2]. apply H in E1. apply IH in E2. congruence.
  - inversion E; subst. apply andb_true_iff; split; [apply H | apply IH]; reflexivity.
Qed.

Definition text_eqb : text -> text -> bool := list_eqb N.eqb.
Lemma text_eqb_spec a b : text_eqb a b = true <-> a = b.
Proof. apply list_eqb_spec. intros; apply N.eqb_eq. Qed.

Definition option_eqb {A} (eqb : A -> A -> bool) (a b : option A) : bool :=
  match a, b with
  | None, None => true
  | Some x, Some y => eqb x y
  | _, _ => false
  end.

Definition pair_eqb {A B} (ea : A -> A -> bool) (eb : B -> B -> bool) (a b : A * B) : bool :=
  ea (fst a) (fst b) && eb (snd a) (snd b).

(** Correspondence files evaluate [mismatches check cases]: the indices (from 0) of the cases
    on which the model disagrees with what the implementation produced. *)
Fixpoint mismatches_from {A} (chk : A -> bool) (i : N) (l : list A) : list N :=
  match l with
  | [] => []
  | c :: r => if chk c then mismatches_from chk (N.succ i) r
              else i :: mismatches_from chk (N.succ i) r
  end.
Definition mismatches {A} (chk : A -> bool) (l : list A) : list N := mismatches_from chk 0%N l.

(** Association lookup with a boolean key equality. *)
Fixpoint assoc {K V} (eqb : K -> K -> bool) (k : K) (l : list (K * V)) : option V :=
  match l with
  | [] => None
  | (k', v) :: r => if eqb k k' then Some v else assoc eqb k r
  end.

Fixpoint filter_map {A B} (f : A -> option B) (l : list A) : list B :=
  match l with
  | [] => []
  | x :: r => match f x with Some y => y :: filter_map f r | None => filter_map f r end
  end.

Lemma nth_error_rev {A} (l : list A) n :
  (n < List.length l)%nat -> nth_error (rev l) n = nth_error l (List.length l - S n).
Proof.
  induction l as [|a l IH]; intros Hn; cbn [List.length] in *; [lia|].
  cbn [rev]. destruct (Nat.eq_dec n (List.length l)) as [->|Hne].
  - rewrite nth_error_app2 by (rewrite rev_length; lia).
    rewrite rev_length, !Nat.sub_diag. reflexivity.
  - rewrite nth_error_app1 by (rewrite rev_length; lia).
    rewrite IH by lia. replace (S (List.length l) - S n)%nat with (S (List.length l - S n)) by lia. reflexivity.
Qed.

Lemma nth_error_ext_lists {A} (l1 l2 : list A) :
  (forall k, nth_error l1 k = nth_error l2 k) -> l1 = l2.
Proof.
  revert l2; induction l1 as [|x l1 IH]; intros [|y l2] H.
  - reflexivity.
  - specialize (H 0%nat). discriminate.
  - specialize (H 0%nat). discriminate.
  - f_equal; [specialize (H 0%nat); inversion H; reflexivity|].
    apply IH. intros k. exact (H (S k)).
Qed.

Lemma nth_error_seq0 n k : nth_error (seq 0 n) k = if Nat.ltb k n then Some k else None.
Proof.
  destruct (Nat.ltb_spec k n) as [H|H].
  - rewrite (nth_error_nth' _ 0%nat) by (rewrite seq_length; exact H). rewrite seq_nth by exact H. reflexivity.
  - apply nth_error_None. rewrite seq_length. exact H.
Qed.
