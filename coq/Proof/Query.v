(** Refinement: the model of src/query.rs behaves as the plain reference editor of
    Model/QuerySpec.v under the abstraction (before-stack, after-stack) |-> (lpart, rpart).  The
    five save_yank flags and the history flag come from Gen/QueryConst.v; the proofs use their
    values by computation, so a changed flag in the source breaks the corresponding lemma. *)
From SkimV Require Import Common.Base Gen.QueryConst Model.Query Model.QuerySpec.

Section Refinement.
  Variables is_ws is_alnum : char -> bool.

  Notation st := Query.st.
  Notation handle := (Query.handle is_ws is_alnum).
  Notation sstep := (QuerySpec.sstep is_ws is_alnum).

  Definition abs_line (b a : text) : line := {| lpart := rev b; rpart := a |}.
  Definition amode (m : mode) : smode := match m with MQuery => SQuery | MCmd => SCmd end.
  Definition abs (s : st) : ed :=
    {| e_fz := abs_line (fzb s) (fza s); e_cmd := abs_line (cmb s) (cma s); e_kill := yank s;
       e_mode := amode (md s);
       e_fz_older := hfb s; e_fz_newer := hfa s; e_cmd_older := hcb s; e_cmd_newer := hca s;
       e_paste := pasted s |}.

  Definition aev (e : ev) : sev :=
    match e with
    | AddChar c => SAddChar c | DeleteChar | DeleteCharEOF => SDeleteChar
    | BackwardChar => SBackwardChar | BackwardDeleteChar => SBackwardDeleteChar
    | BackwardKillWord => SBackwardKillWord | BackwardWord => SBackwardWord
    | BeginningOfLine => SBeginningOfLine | EndOfLine => SEndOfLine
    | ForwardChar => SForwardChar | ForwardWord => SForwardWord
    | KillLine => SKillLine | KillWord => SKillWord
    | PreviousHistory => SPreviousHistory | NextHistory => SNextHistory
    | UnixLineDiscard => SUnixLineDiscard | UnixWordRubout => SUnixWordRubout
    | Yank => SYank | ToggleInteractive => SToggleInteractive
    | PasteStart => SPasteStart | PasteEnd => SPasteEnd | Other => SOther
    end.

  Ltac dst s := destruct s as [? ? ? ? ? [|] ? ? ? ? ?].

  (** * record plumbing *)
  Lemma cur_abs s : cur (abs s) = abs_line (bef s) (aft s).
  Proof. dst s; reflexivity. Qed.
  Lemma abs_set_ba s b a : abs (set_ba s b a) = with_cur (abs s) (abs_line b a).
  Proof. dst s; reflexivity. Qed.
  Lemma bef_set_ba s b a : bef (set_ba s b a) = b.
  Proof. dst s; reflexivity. Qed.
  Lemma aft_set_ba s b a : aft (set_ba s b a) = a.
  Proof. dst s; reflexivity. Qed.
  Lemma abs_set_pasted s p : abs (set_pasted s p) = with_paste (abs s) p.
  Proof. dst s; reflexivity. Qed.
  Lemma abs_set_hist s hb ha : abs (set_hist s hb ha) = with_hist (abs s) hb ha.
  Proof. dst s; reflexivity. Qed.
  Lemma abs_set_mode s m : abs (set_mode s m) = with_mode (abs s) (amode m).
  Proof. dst s; reflexivity. Qed.
  Lemma older_abs s : older (abs s) = hist_b s.
  Proof. dst s; reflexivity. Qed.
  Lemma newer_abs s : newer (abs s) = hist_a s.
  Proof. dst s; reflexivity. Qed.
  Lemma paste_abs s : e_paste (abs s) = pasted s.
  Proof. reflexivity. Qed.
  Lemma kill_abs s : e_kill (abs s) = yank s.
  Proof. reflexivity. Qed.
  Lemma cur_query_abs s : cur_query s = ltext (cur (abs s)).
  Proof. dst s; reflexivity. Qed.

  Lemma rev_nil_iff (y : text) : rev y = [] <-> y = [].
  Proof. split; intros H; [rewrite <- (rev_involutive y), H | rewrite H]; reflexivity. Qed.

  Lemma abs_save_yank s y r :
    abs (save_yank s y r) = with_kill (abs s) (if r then rev y else y).
  Proof.
    unfold save_yank. destruct y as [|c y].
    - destruct r; reflexivity.
    - destruct r; cbn [QuerySpec.with_kill].
      + destruct (rev (c :: y)) eqn:E; [apply (proj1 (rev_nil_iff _)) in E; discriminate E|]. reflexivity.
      + reflexivity.
  Qed.

  Lemma with_cur_with_cur e l1 l2 : with_cur (with_cur e l1) l2 = with_cur e l2.
  Proof. destruct e as [? ? ? [|] ? ? ? ? ?]; reflexivity. Qed.
  Lemma cur_with_cur e l : cur (with_cur e l) = l.
  Proof. destruct e as [? ? ? [|] ? ? ? ? ?]; reflexivity. Qed.
  Lemma with_cur_cur e : with_cur e (cur e) = e.
  Proof. destruct e as [? ? ? [|] ? ? ? ? ?]; reflexivity. Qed.

  (** * the loops *)
  Lemma pop_while_spec p v : pop_while p v = (take_while p v, drop_while p v).
  Proof.
    induction v as [|c r IH]; cbn [pop_while take_while drop_while]; [reflexivity|].
    destruct (p c); [rewrite IH|]; reflexivity.
  Qed.

  Lemma move_while_spec p : forall src dst,
    move_while p src dst = (drop_while p src, rev (take_while p src) ++ dst).
  Proof.
    induction src as [|c r IH]; intros dst; cbn [move_while take_while drop_while]; [reflexivity|].
    destruct (p c); [|reflexivity]. rewrite IH. cbn [rev]. rewrite <- app_assoc. reflexivity.
  Qed.

  Lemma take_drop p v : take_while p v ++ drop_while p v = v.
  Proof. induction v as [|c r IH]; cbn; [reflexivity|]. destruct (p c); cbn; [rewrite IH|]; reflexivity. Qed.

  Lemma take_while_all v : take_while (fun _ => true) v = v.
  Proof. induction v as [|c r IH]; cbn; [|rewrite IH]; reflexivity. Qed.
  Lemma drop_while_all v : drop_while (fun _ => true) v = [].
  Proof. induction v as [|c r IH]; cbn; [reflexivity | exact IH]. Qed.

  Lemma drop_while_end_rev p b : drop_while_end p (rev b) = rev (drop_while p b).
  Proof. unfold drop_while_end. rewrite rev_involutive. reflexivity. Qed.

  Lemma skipn_app_exact {A} (a b : list A) : skipn (length a) (a ++ b) = b.
  Proof. induction a; cbn; [reflexivity | assumption]. Qed.
  Lemma firstn_app_exact {A} (a b : list A) : firstn (length (a ++ b) - length b) (a ++ b) = a.
  Proof.
    rewrite app_length. replace (length a + length b - length b) with (length a) by lia.
    induction a; cbn; [destruct b; reflexivity | f_equal; assumption].
  Qed.

  (** two successive pops from a stack [v]: v = y1 ++ y2 ++ rest *)
  Lemma two_pops p1 p2 v :
    let y1 := take_while p1 v in let v1 := drop_while p1 v in
    let y2 := take_while p2 v1 in let v2 := drop_while p2 v1 in
    v = (y1 ++ y2) ++ v2.
  Proof. cbn zeta. rewrite <- app_assoc, take_drop, take_drop. reflexivity. Qed.

  Lemma back_stop_rev p1 p2 b :
    back_stop p1 p2 (rev b) = rev (drop_while p2 (drop_while p1 b)).
  Proof. unfold back_stop. rewrite !drop_while_end_rev. reflexivity. Qed.

  Lemma cut_back_rev p1 p2 b :
    cut_back (rev b) (rev (drop_while p2 (drop_while p1 b))) =
    rev (take_while p1 b ++ take_while p2 (drop_while p1 b)).
  Proof.
    unfold cut_back. set (k := rev (drop_while p2 (drop_while p1 b))).
    assert (E : rev b = k ++ rev (take_while p1 b ++ take_while p2 (drop_while p1 b))).
    { unfold k. rewrite <- rev_app_distr. f_equal. apply two_pops. }
    rewrite E. apply skipn_app_exact.
  Qed.

  Lemma cut_fwd_spec p1 p2 a :
    cut_fwd a (drop_while p2 (drop_while p1 a)) = take_while p1 a ++ take_while p2 (drop_while p1 a).
  Proof.
    unfold cut_fwd. set (keep := drop_while p2 (drop_while p1 a)).
    set (ys := take_while p1 a ++ take_while p2 (drop_while p1 a)).
    assert (E : a = ys ++ keep) by apply two_pops.
    clearbody keep ys. subst a. apply firstn_app_exact.
  Qed.

  (** * each action refines its specification *)
  Lemma removelast_rev (c : char) b : removelast (rev (c :: b)) = rev b.
  Proof. cbn [rev]. apply removelast_last. Qed.

  Lemma flags :
    YANK_REV_WORD_RUBOUT = true /\ YANK_REV_BACKWARD_KILL_WORD = true /\ YANK_REV_KILL_WORD = false /\
    YANK_REV_KILL_LINE = true /\ YANK_REV_LINE_DISCARD = false /\ HISTORY_CLEARS_AFTER = true.
  Proof. repeat split; reflexivity. Qed.

  Lemma add_chars_abs : forall t s,
    abs (fold_left act_add_char t s) = with_cur (abs s) (insert (cur (abs s)) t).
  Proof.
    induction t as [|c t IH]; intros s; cbn [fold_left].
    - unfold insert. rewrite app_nil_r. destruct (cur (abs s)) as [l0 r0] eqn:E. cbn [lpart rpart]. rewrite <- E. symmetry. apply with_cur_cur.
    - rewrite IH. unfold act_add_char. rewrite abs_set_ba, with_cur_with_cur, cur_with_cur, cur_abs.
      unfold insert, abs_line; cbn [lpart rpart rev]. rewrite <- app_assoc. reflexivity.
  Qed.

  Theorem handle_refines s e : abs (handle s e) = sstep (abs s) (aev e).
  Proof.
    destruct flags as (F1 & F2 & F3 & F4 & F5 & F6).
    destruct e; cbn [Query.handle aev QuerySpec.sstep].
    - (* AddChar *)
      rewrite paste_abs. destruct (pasted s); [apply abs_set_pasted|].
      unfold act_add_char. rewrite abs_set_ba, cur_abs. unfold insert, abs_line; cbn [lpart rpart rev]. reflexivity.
    - unfold act_delete_char. rewrite abs_set_ba, cur_abs. reflexivity.
    - unfold act_delete_char. rewrite abs_set_ba, cur_abs. reflexivity.
    - (* BackwardChar *)
      unfold act_backward_char. rewrite cur_abs. unfold abs_line at 1; cbn [lpart]. rewrite rev_involutive.
      destruct (bef s) as [|c b] eqn:E; [reflexivity|].
      rewrite abs_set_ba. unfold abs_line; cbn [lpart rpart]. rewrite removelast_rev. reflexivity.
    - (* BackwardDeleteChar *)
      unfold act_backward_delete_char. rewrite abs_set_ba, cur_abs. unfold abs_line; cbn [lpart rpart].
      destruct (bef s) as [|c b]; [reflexivity|]. rewrite removelast_rev. reflexivity.
    - (* BackwardKillWord *)
      unfold act_backward_kill_word. rewrite !pop_while_spec, abs_save_yank, abs_set_ba, cur_abs, F2.
      unfold abs_line; cbn [lpart rpart]. rewrite back_stop_rev, cut_back_rev. reflexivity.
    - (* BackwardWord *)
      unfold act_backward_word. rewrite !move_while_spec, abs_set_ba, cur_abs.
      unfold abs_line; cbn [lpart rpart]. rewrite back_stop_rev, cut_back_rev, rev_app_distr, <- app_assoc. reflexivity.
    - (* BeginningOfLine *)
      unfold act_beginning_of_line. rewrite move_while_spec, take_while_all, drop_while_all, abs_set_ba, cur_abs. reflexivity.
    - (* EndOfLine *)
      unfold act_end_of_line. rewrite move_while_spec, take_while_all, drop_while_all, abs_set_ba, cur_abs.
      unfold abs_line, ltext; cbn [lpart rpart]. rewrite rev_app_distr, rev_involutive. reflexivity.
    - (* ForwardChar *)
      unfold act_forward_char. rewrite cur_abs. unfold abs_line at 1; cbn [rpart].
      destruct (aft s) as [|c a] eqn:E; [reflexivity|]. rewrite abs_set_ba. reflexivity.
    - (* ForwardWord *)
      unfold act_forward_word. rewrite !move_while_spec, abs_set_ba, cur_abs.
      unfold abs_line; cbn [lpart rpart]. unfold fwd_stop. rewrite cut_fwd_spec.
      rewrite !rev_app_distr, !rev_involutive, <- app_assoc. reflexivity.
    - (* KillLine *)
      unfold act_kill_line. rewrite abs_save_yank, abs_set_ba, cur_abs, F4, rev_involutive. reflexivity.
    - (* KillWord *)
      unfold act_kill_word. rewrite !pop_while_spec, abs_save_yank, abs_set_ba, cur_abs, F3.
      unfold abs_line; cbn [lpart rpart]. unfold fwd_stop. rewrite cut_fwd_spec. reflexivity.
    - (* PreviousHistory *)
      unfold previous_history. rewrite older_abs. destruct (hist_b s) as [|h hb] eqn:E; [reflexivity|].
      unfold replace_line. rewrite F6, abs_set_ba, abs_set_hist, newer_abs, cur_query_abs.
      unfold abs_line. rewrite rev_involutive. reflexivity.
    - (* NextHistory *)
      unfold next_history. rewrite newer_abs. destruct (hist_a s) as [|h ha] eqn:E; [reflexivity|].
      unfold replace_line. rewrite F6, abs_set_ba, abs_set_hist, older_abs, cur_query_abs.
      unfold abs_line. rewrite rev_involutive. reflexivity.
    - (* UnixLineDiscard *)
      unfold act_line_discard. rewrite abs_save_yank, abs_set_ba, cur_abs, F5. reflexivity.
    - (* UnixWordRubout *)
      unfold act_unix_word_rubout. rewrite !pop_while_spec, abs_save_yank, abs_set_ba, cur_abs, F1.
      unfold abs_line; cbn [lpart rpart]. rewrite back_stop_rev, cut_back_rev. reflexivity.
    - (* Yank *)
      unfold act_yank. rewrite add_chars_abs. reflexivity.
    - (* ToggleInteractive *)
      unfold toggle_interactive. rewrite abs_set_mode. dst s; reflexivity.
    - apply abs_set_pasted.
    - (* PasteEnd *)
      rewrite add_chars_abs, abs_set_pasted. reflexivity.
    - reflexivity.
  Qed.

  Theorem run_refines : forall es s,
    abs (Query.run is_ws is_alnum s es) = srun is_ws is_alnum (abs s) (map aev es).
  Proof.
    induction es as [|e es IH]; intros s; [reflexivity|].
    unfold Query.run, srun in *. cbn [fold_left map]. rewrite IH, handle_refines. reflexivity.
  Qed.

  Lemma init_refines q c i hq hc : abs (init q c i hq hc) = sinit q c i hq hc.
  Proof. unfold abs, init, sinit, abs_line; cbn. rewrite !rev_involutive. destruct i; reflexivity. Qed.

  (** what the implementation exposes: the two texts and the cursor column *)
  Lemma observe s :
    fz_query s = ltext (e_fz (abs s)) /\ cmd_query s = ltext (e_cmd (abs s)) /\
    length (bef s) = lcursor (cur (abs s)).
  Proof.
    repeat split; try reflexivity. rewrite cur_abs. unfold lcursor, abs_line; cbn [lpart]. rewrite rev_length. reflexivity.
  Qed.
End Refinement.

(** * Consequences, stated on the reference editor *)
Section Consequences.
  Variables is_ws is_alnum : char -> bool.
  Notation sstep := (QuerySpec.sstep is_ws is_alnum).

  Definition is_motion (v : sev) : bool :=
    match v with
    | SBackwardChar | SForwardChar | SBackwardWord | SForwardWord | SBeginningOfLine | SEndOfLine => true
    | _ => false
    end.

  Lemma with_cur_text e l : ltext (cur (with_cur e l)) = ltext l.
  Proof. rewrite cur_with_cur. reflexivity. Qed.

  Lemma removelast_snoc_rev (l : text) c r : rev l = c :: r -> removelast l ++ [c] = l.
  Proof.
    intros H. rewrite <- (rev_involutive l), H. cbn [rev]. rewrite removelast_last. reflexivity.
  Qed.

  Lemma drop_while_end_prefix p l : exists suf, l = drop_while_end p l ++ suf.
  Proof.
    unfold drop_while_end. exists (rev (take_while p (rev l))).
    rewrite <- rev_app_distr, take_drop, rev_involutive. reflexivity.
  Qed.

  Lemma back_stop_prefix p1 p2 l : exists suf, l = back_stop p1 p2 l ++ suf.
  Proof.
    unfold back_stop. destruct (drop_while_end_prefix p1 l) as (s1 & E1).
    destruct (drop_while_end_prefix p2 (drop_while_end p1 l)) as (s2 & E2).
    exists (s2 ++ s1). rewrite app_assoc, <- E2, <- E1. reflexivity.
  Qed.

  Lemma cut_back_ok p1 p2 l : back_stop p1 p2 l ++ cut_back l (back_stop p1 p2 l) = l.
  Proof.
    destruct (back_stop_prefix p1 p2 l) as (suf & E). unfold cut_back.
    set (k := back_stop p1 p2 l) in *. clearbody k. subst l. rewrite skipn_app_exact. reflexivity.
  Qed.

  Lemma drop_while_suffix p l : exists pre, l = pre ++ drop_while p l.
  Proof. exists (take_while p l). symmetry. apply take_drop. Qed.

  Lemma fwd_stop_suffix p1 p2 l : exists pre, l = pre ++ fwd_stop p1 p2 l.
  Proof.
    unfold fwd_stop. destruct (drop_while_suffix p1 l) as (a & Ea).
    destruct (drop_while_suffix p2 (drop_while p1 l)) as (b & Eb).
    exists (a ++ b). rewrite <- app_assoc, <- Eb, <- Ea. reflexivity.
  Qed.

  Lemma cut_fwd_ok p1 p2 l : cut_fwd l (fwd_stop p1 p2 l) ++ fwd_stop p1 p2 l = l.
  Proof.
    destruct (fwd_stop_suffix p1 p2 l) as (pre & E). unfold cut_fwd.
    set (k := fwd_stop p1 p2 l) in *. clearbody k. subst l. rewrite firstn_app_exact. reflexivity.
  Qed.

  (** cursor movement alone never changes the text (nor anything but the cursor) *)
  Lemma motion_keeps_text e v : is_motion v = true ->
    ltext (cur (sstep e v)) = ltext (cur e) /\ e_kill (sstep e v) = e_kill e /\
    e_mode (sstep e v) = e_mode e.
  Proof.
    assert (K : forall l, e_kill (with_cur e l) = e_kill e /\ e_mode (with_cur e l) = e_mode e)
      by (intros; destruct e as [? ? ? [|] ? ? ? ? ?]; auto).
    destruct v; cbn [is_motion]; try discriminate; intros _; cbn [QuerySpec.sstep].
    - destruct (rev (lpart (cur e))) as [|c r] eqn:E; [auto|]. split; [|apply K].
      rewrite with_cur_text. unfold ltext; cbn [lpart rpart].
      change (removelast (lpart (cur e)) ++ c :: rpart (cur e)) with (removelast (lpart (cur e)) ++ [c] ++ rpart (cur e)).
      rewrite app_assoc, (removelast_snoc_rev _ _ _ E). reflexivity.
    - split; [|apply K]. rewrite with_cur_text. unfold ltext; cbn [lpart rpart]. rewrite app_assoc, cut_back_ok. reflexivity.
    - split; [|apply K]. rewrite with_cur_text. reflexivity.
    - split; [|apply K]. rewrite with_cur_text. unfold ltext; cbn [lpart rpart]. rewrite app_nil_r. reflexivity.
    - destruct (rpart (cur e)) as [|c r] eqn:E; [auto|]. split; [|apply K].
      rewrite with_cur_text. unfold ltext; cbn [lpart rpart]. rewrite E, <- app_assoc. reflexivity.
    - split; [|apply K]. rewrite with_cur_text. unfold ltext; cbn [lpart rpart]. rewrite <- app_assoc, cut_fwd_ok. reflexivity.
  Qed.

  Definition is_kill (v : sev) : bool :=
    match v with
    | SKillLine | SUnixLineDiscard | SKillWord | SBackwardKillWord | SUnixWordRubout => true
    | _ => false
    end.
  Definition is_backward_kill (v : sev) : bool :=
    match v with SUnixLineDiscard | SBackwardKillWord | SUnixWordRubout => true | _ => false end.

  Lemma cur_with_kill e k : cur (with_kill e k) = cur e.
  Proof. destruct k; [reflexivity|]. destruct e as [? ? ? [|] ? ? ? ? ?]; reflexivity. Qed.
  Lemma kill_with_kill e k : k <> [] -> e_kill (with_kill e k) = k.
  Proof. destruct k; [congruence | reflexivity]. Qed.
  Lemma kill_with_kill_nil e : with_kill e [] = e.
  Proof. reflexivity. Qed.
  Lemma kill_with_cur e l : e_kill (with_cur e l) = e_kill e.
  Proof. destruct e as [? ? ? [|] ? ? ? ? ?]; reflexivity. Qed.

  (** a kill that removed something, followed by yank, restores the line; the backward kills
      restore the cursor too *)
  Definition yank_step (e : ed) : ed := sstep e SYank.

  Lemma kill_yank_restores e v : is_kill v = true -> ltext (cur (sstep e v)) <> ltext (cur e) ->
    ltext (cur (sstep (sstep e v) SYank)) = ltext (cur e) /\
    (is_backward_kill v = true -> cur (sstep (sstep e v) SYank) = cur e).
  Proof.
    change (sstep (sstep e v) SYank) with (yank_step (sstep e v)).
    assert (G : forall l' k, (k = [] -> ltext l' = ltext (cur e)) ->
              forall (Hl : ltext (insert l' k) = ltext (cur e)),
              ltext (cur (with_kill (with_cur e l') k)) <> ltext (cur e) ->
              ltext (cur (yank_step (with_kill (with_cur e l') k))) = ltext (cur e) /\
              cur (yank_step (with_kill (with_cur e l') k)) = insert l' k).
    { intros l' k Hnil Hl Hne. unfold yank_step. cbn [QuerySpec.sstep]. rewrite cur_with_cur, cur_with_kill, cur_with_cur.
      destruct k as [|c k].
      - exfalso. apply Hne. rewrite kill_with_kill_nil, cur_with_cur. apply Hnil. reflexivity.
      - rewrite kill_with_kill by discriminate. split; [exact Hl | reflexivity]. }
    destruct v; cbn [is_kill]; try discriminate; intros _ Hne; cbn [QuerySpec.sstep] in Hne |- *.
    - (* BackwardKillWord *)
      match goal with |- context [with_kill (with_cur e ?l) ?k] => destruct (G l k) as [G1 G2] end.
      + intros Hk. unfold ltext; cbn [lpart rpart]. rewrite <- (cut_back_ok (nalnum is_alnum) is_alnum (lpart (cur e))) at 2.
        rewrite Hk, app_nil_r. reflexivity.
      + unfold ltext, insert; cbn [lpart rpart]. rewrite cut_back_ok. reflexivity.
      + exact Hne.
      + split; [exact G1|]. intros _. rewrite G2. unfold insert; cbn [lpart rpart]. rewrite cut_back_ok.
        destruct (cur e); reflexivity.
    - (* KillLine *)
      match goal with |- context [with_kill (with_cur e ?l) ?k] => destruct (G l k) as [G1 G2] end.
      + intros Hk. unfold ltext; cbn [lpart rpart]. rewrite Hk. reflexivity.
      + unfold ltext, insert; cbn [lpart rpart]. rewrite app_nil_r. reflexivity.
      + exact Hne.
      + split; [exact G1 | discriminate].
    - (* KillWord *)
      match goal with |- context [with_kill (with_cur e ?l) ?k] => destruct (G l k) as [G1 G2] end.
      + intros Hk. unfold ltext; cbn [lpart rpart].
        rewrite <- (cut_fwd_ok (nalnum is_alnum) is_alnum (rpart (cur e))) at 2. rewrite Hk. reflexivity.
      + unfold ltext, insert; cbn [lpart rpart]. rewrite <- app_assoc, cut_fwd_ok. reflexivity.
      + exact Hne.
      + split; [exact G1 | discriminate].
    - (* UnixLineDiscard *)
      match goal with |- context [with_kill (with_cur e ?l) ?k] => destruct (G l k) as [G1 G2] end.
      + intros Hk. unfold ltext; cbn [lpart rpart]. rewrite Hk. reflexivity.
      + unfold ltext, insert; cbn [lpart rpart]. reflexivity.
      + exact Hne.
      + split; [exact G1|]. intros _. rewrite G2. unfold insert; cbn [lpart rpart]. destruct (cur e); reflexivity.
    - (* UnixWordRubout *)
      match goal with |- context [with_kill (with_cur e ?l) ?k] => destruct (G l k) as [G1 G2] end.
      + intros Hk. unfold ltext; cbn [lpart rpart]. rewrite <- (cut_back_ok is_ws (nws is_ws) (lpart (cur e))) at 2.
        rewrite Hk, app_nil_r. reflexivity.
      + unfold ltext, insert; cbn [lpart rpart]. rewrite cut_back_ok. reflexivity.
      + exact Hne.
      + split; [exact G1|]. intros _. rewrite G2. unfold insert; cbn [lpart rpart]. rewrite cut_back_ok.
        destruct (cur e); reflexivity.
  Qed.

  (** the other buffer is never touched by an event; toggle-interactive only switches *)
  Definition other (e : ed) : line := match e_mode e with SQuery => e_cmd e | SCmd => e_fz e end.
  Lemma other_with_cur e l : other (with_cur e l) = other e /\ e_mode (with_cur e l) = e_mode e.
  Proof. destruct e as [? ? ? [|] ? ? ? ? ?]; auto. Qed.
  Lemma other_with_kill e k : other (with_kill e k) = other e /\ e_mode (with_kill e k) = e_mode e.
  Proof. destruct k; [auto|]. destruct e as [? ? ? [|] ? ? ? ? ?]; auto. Qed.
  Lemma other_with_paste e p : other (with_paste e p) = other e /\ e_mode (with_paste e p) = e_mode e.
  Proof. destruct e as [? ? ? [|] ? ? ? ? ?]; auto. Qed.
  Lemma other_with_hist e o n : other (with_hist e o n) = other e /\ e_mode (with_hist e o n) = e_mode e.
  Proof. destruct e as [? ? ? [|] ? ? ? ? ?]; auto. Qed.

  Lemma buffers_independent e v : v <> SToggleInteractive -> other (sstep e v) = other e /\ e_mode (sstep e v) = e_mode e.
  Proof.
    intros Hv.
    assert (C : forall l, other (with_cur e l) = other e /\ e_mode (with_cur e l) = e_mode e) by (intros; apply other_with_cur).
    assert (CK : forall l k, other (with_kill (with_cur e l) k) = other e /\ e_mode (with_kill (with_cur e l) k) = e_mode e).
    { intros l k. destruct (other_with_kill (with_cur e l) k) as [A B]. destruct (C l) as [A' B']. split; congruence. }
    destruct v; try congruence; cbn [QuerySpec.sstep]; try apply C; try apply CK; try (split; reflexivity).
    - destruct (e_paste e); [apply other_with_paste | apply C].
    - destruct (rev (lpart (cur e))); [auto | apply C].
    - destruct (rpart (cur e)); [auto | apply C].
    - destruct (older e); [auto|].
      destruct (other_with_cur (with_hist e l (ltext (cur e) :: newer e)) {| lpart := t; rpart := [] |}) as [A B].
      destruct (other_with_hist e l (ltext (cur e) :: newer e)) as [A' B']. split; congruence.
    - destruct (newer e); [auto|].
      destruct (other_with_cur (with_hist e (ltext (cur e) :: older e) l) {| lpart := t; rpart := [] |}) as [A B].
      destruct (other_with_hist e (ltext (cur e) :: older e) l) as [A' B']. split; congruence.
    - destruct (other_with_cur (with_paste e None) (insert (cur (with_paste e None)) match e_paste e with Some p => p | None => [] end)) as [A B].
      destruct (other_with_paste e None) as [A' B']. split; congruence.
  Qed.

  Lemma toggle_switches e :
    e_fz (sstep e SToggleInteractive) = e_fz e /\ e_cmd (sstep e SToggleInteractive) = e_cmd e /\
    e_mode (sstep e SToggleInteractive) <> e_mode e.
  Proof. destruct e as [? ? ? [|] ? ? ? ? ?]; cbn; repeat split; discriminate. Qed.

  (** a bracketed paste inserts its characters verbatim at the cursor *)
  Lemma paste_verbatim e t : e_paste e = None ->
    let e' := fold_left sstep (SPasteStart :: map SAddChar t ++ [SPasteEnd]) e in
    cur e' = insert (cur e) t /\ e_paste e' = None /\ other e' = other e.
  Proof.
    intros Hp. cbn zeta. cbn [fold_left]. rewrite fold_left_app. cbn [fold_left].
    assert (G : forall t acc e0, e_paste e0 = Some acc ->
               fold_left sstep (map SAddChar t) e0 = with_paste e0 (Some (acc ++ t))).
    { induction t0 as [|c t0 IH]; intros acc e0 H0; cbn [map fold_left].
      - rewrite app_nil_r. destruct e0; cbn in *; subst; reflexivity.
      - cbn [QuerySpec.sstep]. rewrite H0. rewrite (IH (acc ++ [c])); [|destruct e0; reflexivity].
        rewrite <- app_assoc. destruct e0; reflexivity. }
    rewrite (G t [] (sstep e SPasteStart)) by (destruct e; reflexivity).
    cbn [QuerySpec.sstep app]. destruct e as [? ? ? [|] ? ? ? ? ?]; cbn in *; auto.
  Qed.

  (** previous-history replaces the whole line by the entry; next-history undoes it *)
  Lemma history_replaces e h o : older e = h :: o ->
    cur (sstep e SPreviousHistory) = {| lpart := h; rpart := [] |}.
  Proof. intros H. cbn [QuerySpec.sstep]. rewrite H, cur_with_cur. reflexivity. Qed.

  Lemma history_inverse e h o : older e = h :: o ->
    let e2 := sstep (sstep e SPreviousHistory) SNextHistory in
    ltext (cur e2) = ltext (cur e) /\ older e2 = older e /\ newer e2 = newer e.
  Proof.
    intros H. cbn zeta. cbn [QuerySpec.sstep]. rewrite H.
    destruct e as [? ? ? [|] ? ? ? ? ?]; cbn in *; subst; cbn; rewrite ?app_nil_r; auto.
  Qed.

  Lemma history_inverse' e h n : newer e = h :: n ->
    let e2 := sstep (sstep e SNextHistory) SPreviousHistory in
    ltext (cur e2) = ltext (cur e) /\ older e2 = older e /\ newer e2 = newer e.
  Proof.
    intros H. cbn zeta. cbn [QuerySpec.sstep]. rewrite H.
    destruct e as [? ? ? [|] ? ? ? ? ?]; cbn in *; subst; cbn; rewrite ?app_nil_r; auto.
  Qed.
End Consequences.
