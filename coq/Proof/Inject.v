(** Lemmas about Model/Inject.v and Model/ShellLex.v (C07): a quoted value is read back by the
    shell lexer as exactly one literal word part sequence; the segmentation covers the template;
    everything outside placeholders is copied verbatim. *)
From SkimV Require Import Common.Base Model.Field Model.Inject Model.ShellLex.

(** how a value reads back: NUL is rendered as the two characters \0 *)
Definition render_val (v : text) : text :=
  flat_map (fun c => if (c =? NUL)%N then [BS; 48%N] else [c]) v.

Definition lits (t : text) : list part := map L t.

Lemma lex_from_app s a b : lex_from s (a ++ b) = lex_from (lex_from s a) b.
Proof. unfold lex_from. apply fold_left_app. Qed.

Lemma step_sq s c : md s = Sq -> step s c = if (c =? 39)%N then with_mode s Unq else add s (L c).
Proof. intros H. unfold step. rewrite H. reflexivity. Qed.
Lemma step_unq_quote s : md s = Unq -> step s SQ = with_mode (touch s) Sq.
Proof. intros H. unfold step. rewrite H. reflexivity. Qed.
Lemma step_unq_bs s : md s = Unq -> step s BS = with_mode s UnqEsc.
Proof. intros H. unfold step. rewrite H. reflexivity. Qed.
Lemma step_esc_quote s : md s = UnqEsc -> step s SQ = with_mode (add s (L SQ)) Unq.
Proof. intros H. unfold step. rewrite H. reflexivity. Qed.
Lemma step_unq_blank s : md s = Unq -> step s SP = flush s.
Proof. intros H. unfold step. rewrite H. reflexivity. Qed.

Lemma lex1 s c : lex_from s [c] = step s c. Proof. reflexivity. Qed.
Lemma lex_cons s c t : lex_from s (c :: t) = lex_from (step s c) t. Proof. reflexivity. Qed.

Lemma add_snoc m w o p : add {| md := m; cur := Some w; out := o |} p = {| md := m; cur := Some (w ++ [p]); out := o |}.
Proof. reflexivity. Qed.

(** inside single quotes *)
Lemma sq_body : forall v s w, md s = Sq -> cur s = Some w ->
  lex_from s (escape_single_quote v ++ [SQ]) =
  {| md := Unq; cur := Some (w ++ lits (render_val v)); out := out s |}.
Proof.
  induction v as [|c v IH]; intros s w Hm Hc.
  - cbn [escape_single_quote app render_val flat_map lits map]. rewrite lex1, step_sq by exact Hm.
    rewrite app_nil_r. destruct s; cbn in *; subst; reflexivity.
  - cbn [escape_single_quote render_val flat_map]. fold (render_val v).
    destruct s as [m cu o]. cbn in Hm, Hc. subst m cu. cbn [out].
    destruct (c =? SQ)%N eqn:E1.
    + apply N.eqb_eq in E1. subst c. change (SQ =? NUL)%N with false. cbn iota.
      cbn [app].
      rewrite lex_cons, step_sq by reflexivity. change (SQ =? 39)%N with true. cbn iota. cbn [with_mode md cur out].
      rewrite lex_cons, step_unq_bs by reflexivity. cbn [with_mode md cur out].
      rewrite lex_cons, step_esc_quote by reflexivity. cbn [with_mode add md cur out].
      rewrite lex_cons, step_unq_quote by reflexivity. cbn [with_mode touch md cur out].
      rewrite (IH _ (w ++ [L SQ])) by reflexivity. cbn [out]. unfold lits. rewrite ?map_app. cbn [map app]. rewrite <- ?app_assoc. reflexivity.
    + destruct (c =? NUL)%N eqn:E2.
      * apply N.eqb_eq in E2. subst c. cbn [app].
        rewrite lex_cons, step_sq by reflexivity. change (BS =? 39)%N with false. cbn iota. rewrite add_snoc.
        rewrite lex_cons, step_sq by reflexivity. change (48 =? 39)%N with false. cbn iota. rewrite add_snoc.
        rewrite (IH _ ((w ++ [L BS]) ++ [L 48%N])) by reflexivity. cbn [out]. unfold lits. rewrite ?map_app. cbn [map app]. rewrite <- ?app_assoc. reflexivity.
      * cbn [app]. rewrite lex_cons. rewrite step_sq by reflexivity. unfold SQ in E1. rewrite E1. rewrite add_snoc.
        rewrite (IH _ (w ++ [L c])) by reflexivity. cbn [out]. unfold lits. rewrite ?map_app. cbn [map app]. rewrite <- ?app_assoc. reflexivity.
Qed.

(** a quoted value, met in unquoted state, appends exactly its rendering to the word in progress
    (starting one if needed) and returns to unquoted state: no word boundary, no operator, no
    expansion trigger *)
Lemma quote_one_word v s : md s = Unq ->
  lex_from s (quote v) =
  {| md := Unq; cur := Some (match cur s with Some w => w | None => [] end ++ lits (render_val v)); out := out s |}.
Proof.
  intros Hm. unfold quote. change (SQ :: escape_single_quote v ++ [SQ]) with ([SQ] ++ (escape_single_quote v ++ [SQ])).
  rewrite lex_from_app.
  assert (Hs : lex_from s [SQ] = {| md := Sq; cur := Some (match cur s with Some w => w | None => [] end); out := out s |}).
  { rewrite lex1, step_unq_quote by exact Hm. reflexivity. }
  rewrite Hs. rewrite (sq_body v _ (match cur s with Some w => w | None => [] end)) by reflexivity. reflexivity.
Qed.

(** the values of one placeholder, quoted and joined by blanks, lex as one word per value *)
Lemma quoted_values_words : forall vals s, md s = Unq -> cur s = None -> vals <> [] ->
  lex_from s (join_sp (map quote vals)) =
  {| md := Unq; cur := Some (lits (render_val (last vals [])));
     out := out s ++ map (fun v => Word (lits (render_val v))) (removelast vals) |}.
Proof.
  induction vals as [|v vals IH]; intros s Hm Hc Hne; [congruence|].
  destruct vals as [|v2 vals].
  - cbn [map join_sp last removelast]. rewrite quote_one_word by exact Hm. rewrite Hc, app_nil_r. reflexivity.
  - change (join_sp (map quote (v :: v2 :: vals))) with (quote v ++ SP :: join_sp (map quote (v2 :: vals))).
    rewrite lex_from_app, quote_one_word by exact Hm. rewrite Hc. cbn [app].
    change (SP :: join_sp (map quote (v2 :: vals))) with ([SP] ++ join_sp (map quote (v2 :: vals))).
    rewrite lex_from_app.
    assert (Hs : lex_from {| md := Unq; cur := Some (lits (render_val v)); out := out s |} [SP] =
                 {| md := Unq; cur := None; out := out s ++ [Word (lits (render_val v))] |}) by (rewrite lex1, step_unq_blank by reflexivity; reflexivity).
    rewrite Hs. rewrite IH by (try reflexivity; discriminate).
    cbn [out]. change (removelast (v :: v2 :: vals)) with (v :: removelast (v2 :: vals)).
    cbn [map]. rewrite <- app_assoc. reflexivity.
Qed.

(** * the segmentation covers the template *)
Lemma span_app p : forall t a b, span p t = (a, b) -> t = a ++ b.
Proof.
  induction t as [|c r IH]; intros a b H; cbn [span] in H; [inversion H; reflexivity|].
  destruct (p c); [|inversion H; reflexivity].
  destruct (span p r) as [a' b'] eqn:E. inversion H; subst. cbn. f_equal. apply IH. reflexivity.
Qed.

Lemma scan_body_source t body rest : scan_body t = Some (body, rest) -> t = body ++ RB :: rest.
Proof.
  unfold scan_body.
  destruct (span (fun c => (c =? SP)%N) t) as [sp1 t1] eqn:E1.
  destruct (match t1 with c :: r => if (c =? MINUS)%N then ([MINUS], r) else ([], t1) | [] => ([], []) end) as [neg t2] eqn:E2.
  destruct (span in_class t2) as [cls t3] eqn:E3.
  destruct (span (fun c => (c =? SP)%N) t3) as [sp2 t4] eqn:E4.
  destruct t4 as [|c rest']; [discriminate|]. destruct (c =? RB)%N eqn:E5; [|discriminate].
  intros H; inversion H; subst; clear H. apply N.eqb_eq in E5. subst c.
  apply span_app in E1. apply span_app in E3. apply span_app in E4.
  assert (Ht1 : t1 = neg ++ t2).
  { destruct t1 as [|c r]; [inversion E2; reflexivity|]. destruct (c =? MINUS)%N eqn:Em; inversion E2; subst; [|reflexivity].
    apply N.eqb_eq in Em. subst. reflexivity. }
  subst. rewrite <- !app_assoc. reflexivity.
Qed.

Lemma scan_covers : forall fuel t, (length t <= fuel)%nat -> flat_map seg_source (scan fuel t) = t.
Proof.
  induction fuel as [|fuel IH]; intros t Hl; [destruct t; [reflexivity | cbn in Hl; lia]|].
  destruct t as [|c r]; [reflexivity|]. cbn [scan]. cbn [length] in Hl.
  assert (Hr : flat_map seg_source (scan fuel r) = r) by (apply IH; lia).
  destruct (c =? BS)%N eqn:Eb.
  - apply N.eqb_eq in Eb. subst c. destruct r as [|c2 r2]; [reflexivity|].
    destruct (c2 =? LB)%N eqn:El; [|cbn [flat_map seg_source app]; rewrite Hr; reflexivity].
    apply N.eqb_eq in El. subst c2.
    destruct (scan_body r2) as [[body rest]|] eqn:Es; [|cbn [flat_map seg_source app]; rewrite Hr; reflexivity].
    apply scan_body_source in Es. cbn [flat_map seg_source]. rewrite IH.
    + subst r2. cbn. rewrite <- app_assoc. reflexivity.
    + subst r2. cbn [length] in Hl. rewrite app_length in Hl. cbn [length] in Hl. lia.
  - destruct (c =? LB)%N eqn:El; [|cbn [flat_map seg_source app]; rewrite Hr; reflexivity].
    apply N.eqb_eq in El. subst c.
    destruct (scan_body r) as [[body rest]|] eqn:Es; [|cbn [flat_map seg_source app]; rewrite Hr; reflexivity].
    apply scan_body_source in Es. cbn [flat_map seg_source]. rewrite IH.
    + subst r. cbn. rewrite <- app_assoc. reflexivity.
    + subst r. rewrite app_length in Hl. cbn [length] in Hl. lia.
Qed.

Lemma segments_cover t : flat_map seg_source (segments t) = t.
Proof. apply scan_covers. lia. Qed.

(** everything that is not a placeholder is copied verbatim *)
Lemma render_verbatim c s : (forall body, s <> Ph body) -> render c s = seg_source s.
Proof. destruct s; intros H; try reflexivity. exfalso. eapply H. reflexivity. Qed.

Lemma render_placeholder c body : render c (Ph body) = join_sp (map quote (values body c)).
Proof. reflexivity. Qed.

Lemma values_nonempty body c : values body c <> [] \/ (exists p rest, trim body = p :: rest /\ (p =? PLUS)%N = true).
Proof.
  unfold values. destruct (trim body) as [|p rest]; [left; discriminate|].
  destruct (p =? PLUS)%N eqn:E; [right; exists p, rest; auto | left; discriminate].
Qed.
