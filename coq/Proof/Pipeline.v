(** Proofs about the pipeline transition system (Model/Pipeline.v): one invariant, preserved by
    every step of every thread, and its consequences at quiescence (C01), at the -1/-0 decision
    (C14) and for the pool hand-off (C15). *)
From SkimV Require Import Common.Base Model.Pipeline.
From Coq Require Import Permutation.

Section Proofs.
  Variable nres : nat.
  Variable ncie : bool.
  Variable mp : N -> item -> bool.

  Local Notation fres := (fres mp).
  Local Notation step := (step nres ncie mp).
  Local Notation exec_main := (exec_main nres ncie).
  Local Notation step_matcher := (step_matcher mp).
  Local Notation run := (run nres ncie mp).

  (** * results *)
  Lemma fres_nil qq lo : fres qq lo [] = [].
  Proof. reflexivity. Qed.

  Lemma fres_app qq lo xs ys :
    fres qq lo (xs ++ ys) = fres qq lo xs ++ fres qq (lo + List.length xs) ys.
  Proof.
    revert lo. induction xs as [|x xs IH]; intros lo.
    - cbn [app List.length]. rewrite Nat.add_0_r. reflexivity.
    - unfold Pipeline.fres in *. cbn [app List.length seq combine filter].
      replace (lo + S (List.length xs)) with (S lo + List.length xs) by lia.
      rewrite IH. destruct (mp qq (fst (x, lo))); reflexivity.
  Qed.

  Lemma fres_in qq lo xs x i :
    In (x, i) (fres qq lo xs) -> lo <= i /\ nth_error xs (i - lo) = Some x /\ mp qq x = true.
  Proof.
    unfold Pipeline.fres. rewrite filter_In. cbn [fst]. intros [Hin Hm].
    revert lo Hin. induction xs as [|y ys IH]; intros lo Hin; [destruct Hin|].
    cbn [List.length seq combine] in Hin. destruct Hin as [E|Hin].
    - inversion E; subst. replace (i - i) with 0 by lia. cbn. auto.
    - apply IH in Hin as (H1 & H2 & H3). split; [lia|]. split; [|exact H3].
      replace (i - lo) with (S (i - S lo)) by lia. exact H2.
  Qed.

  Lemma fres_complete qq lo xs k x :
    nth_error xs k = Some x -> mp qq x = true -> In (x, lo + k) (fres qq lo xs).
  Proof.
    unfold Pipeline.fres. intros Hn Hm. rewrite filter_In. cbn [fst]. split; [|exact Hm].
    revert lo k Hn. induction xs as [|y ys IH]; intros lo k Hn; [destruct k; discriminate|].
    cbn [List.length seq combine]. destruct k as [|k]; cbn in Hn.
    - inversion Hn; subst. left. f_equal. lia.
    - right. replace (lo + S k) with (S lo + k) by lia. apply IH. exact Hn.
  Qed.

  Lemma fres_nodup qq lo xs : NoDup (map snd (fres qq lo xs)).
  Proof.
    unfold Pipeline.fres.
    assert (H : forall l : list (item * nat), NoDup (map snd l) -> NoDup (map snd (filter (fun p => mp qq (fst p)) l))).
    { induction l as [|p l IH]; cbn; intros Hn; [constructor|].
      inversion Hn as [|? ? Hni Hn']; subst. destruct (mp qq (fst p)); cbn.
      - constructor; [|auto]. intros Hin. apply Hni. apply in_map_iff in Hin as (p' & E & Hin).
        apply filter_In in Hin as [Hin _]. apply in_map_iff. exists p'. auto.
      - auto. }
    apply H. clear H.
    assert (E : map snd (combine xs (seq lo (List.length xs))) = seq lo (List.length xs)).
    { revert lo. induction xs as [|y ys IH]; intros lo; cbn; [reflexivity|]. f_equal. apply IH. }
    rewrite E. apply seq_NoDup.
  Qed.

  Lemma firstn_slice (xs : list item) lo hi :
    lo <= hi -> firstn hi xs = firstn lo xs ++ slice lo hi xs.
  Proof.
    intros Hle. unfold slice. replace hi with (lo + (hi - lo)) at 1 by lia.
    generalize (hi - lo) as k. clear Hle. revert xs. induction lo as [|lo IH]; intros xs k.
    - reflexivity.
    - destruct xs as [|x xs]; cbn [Nat.add firstn skipn app].
      + rewrite firstn_nil. reflexivity.
      + rewrite IH. reflexivity.
  Qed.

  Lemma fres_firstn_slice qq (xs : list item) lo hi :
    lo <= hi -> lo <= List.length xs ->
    fres qq 0 (firstn hi xs) = fres qq 0 (firstn lo xs) ++ fres qq lo (slice lo hi xs).
  Proof.
    intros H1 H2. rewrite (firstn_slice xs lo hi H1), fres_app. rewrite firstn_length_le by lia. reflexivity.
  Qed.

  Lemma nth_error_firstn_lt {A} (l : list A) n k : k < n -> nth_error (firstn n l) k = nth_error l k.
  Proof.
    revert n k. induction l as [|x l IH]; intros n k Hk.
    - rewrite firstn_nil. reflexivity.
    - destruct n; [lia|]. destruct k; cbn; [reflexivity|]. apply IH. lia.
  Qed.
  Lemma nth_error_skipn_add {A} (l : list A) n k : nth_error (skipn n l) k = nth_error l (n + k).
  Proof.
    revert l. induction n as [|n IH]; intros l; [reflexivity|].
    destruct l; cbn; [destruct k; reflexivity|]. apply IH.
  Qed.

  (** * the invariant *)
  Definition took (m : matcher) : bool := match ph m with PSpawned | PLoaded => false | _ => true end.
  Definition published (m : matcher) : bool :=
    match ph m with PPublished | PNotified | PFlagged | PExited => true | _ => false end.
  Definition hw (s : st) : nat :=
    match mt s with Some m => if took m then mlo m else taken s | None => taken s end.
  Definition inflight (s : st) : bool :=
    match pc s with (KillQ | JoinQ | KillC _ | JoinC _) :: _ => true | _ => false end.
  Definition flagged (s : st) : bool := match mt s with Some m => flag m | None => false end.
  Definition settled (s : st) : Prop := cs s = DontClear \/ (cs s = ClearIfNotNull /\ ncie = true).

  Definition opfact (s : st) (o : mop) : Prop :=
    match o with
    | HbReadR sv => sv = true -> flagged s = true
    | HbHarvest r => flagged s = true /\ (r = true -> rdone s = true)
    | HbReadC r => r = true -> rdone s = true
    | S1ReadR c => c = true -> consumed s = true
    | S1Decide c r => (c = true -> consumed s = true) /\ (r = true -> rdone s = true)
    | _ => True
    end.

  (** only these operations wait behind the running one *)
  Definition tailok (o : mop) : Prop := match o with HbReadC _ | S1ReadC | Restart => True | _ => False end.

  Fixpoint chain (a : nat) (l : list (nat * nat)) (b : nat) : Prop :=
    match l with
    | [] => a = b
    | (x, y) :: t => a = x /\ x <= y /\ chain y t b
    end.

  Definition Dinv (s : st) : Prop :=
    match cs s with
    | DontClear => Permutation (L s) (fres (q s) 0 (firstn (hw s) (pl s)))
    | Clear => hw s = 0
    | ClearIfNotNull => fres (q s) 0 (firstn (hw s) (pl s)) = []
    end.

  Definition Jinv (s : st) : Prop :=
    mt s = None ->
    match pc s with
    | [] | HbReadS :: _ | HbReadR _ :: _ | S1ReadC :: _ | S1ReadR _ :: _ | S1Decide _ _ :: _ => settled s
    | HbReadC r :: _ => settled s \/ (cs s = ClearIfNotNull /\ r = false)
    | _ => True
    end.

  Record Inv (s : st) : Prop := {
    iA1 : resv s ++ pl s ++ rbuf s ++ src s = s0 s;
    iA2 : List.length (resv s) <= nres /\ (pl s <> [] -> List.length (resv s) = nres);
    iA3 : alive s = false -> src s = [];
    iB : taken s <= List.length (pl s);
    iC : forall m, mt s = Some m ->
           (ph m = PLoaded -> mn m = taken s) /\
           (took m = true -> mn m = mlo m /\ mlo m <= mhi m /\ mhi m = List.length (pl s) /\ taken s = mhi m) /\
           (published m = true -> mres m = fres (mq m) (mlo m) (slice (mlo m) (mhi m) (pl s))) /\
           (inflight s = false -> mq m = q s);
    iD : inflight s = false -> Dinv s;
    iE : forall m, mt s = Some m -> killed m = true -> match pc s with (JoinQ | JoinC _) :: _ => True | _ => False end;
    iF : Forall (opfact s) (pc s);
    iG : forall r tl, pc s = HbHarvest r :: tl -> exists rest, tl = HbReadC r :: rest;
    iG2 : Forall tailok (tl (pc s));
    iG3 : inflight s = true -> tl (pc s) = [];
    iH : chain 0 (handed s) (taken s);
    iJ : Jinv s
  }.

  Lemma chain_app a l b y : chain a l b -> b <= y -> chain a (l ++ [(b, y)]) y.
  Proof.
    revert a. induction l as [|[u v] t IH]; cbn; intros a Hc Hle.
    - subst. auto.
    - destruct Hc as (H1 & H2 & H3). auto.
  Qed.

  Lemma init_inv source q0 a b c : Inv (init source q0 a b c).
  Proof.
    constructor; cbn; auto; try lia.
    - split; [lia|]. intros H; contradiction.
    - intros m H; discriminate.
    - intros m H; discriminate.
    - intros r tl H; discriminate.
    - intros _. left. reflexivity.
  Qed.

  Lemma opfact_weaken s s' o :
    (flagged s = true -> flagged s' = true) -> (rdone s = true -> rdone s' = true) ->
    (consumed s = true -> consumed s' = true) -> opfact s o -> opfact s' o.
  Proof. destruct o; cbn; intuition. Qed.

  Lemma opfact_tail s s' o : tailok o -> (rdone s = true -> rdone s' = true) -> opfact s o -> opfact s' o.
  Proof. destruct o; cbn; intuition. Qed.

  Lemma opfact_tail_all s s' l :
    Forall tailok l -> (rdone s = true -> rdone s' = true) -> Forall (opfact s) l -> Forall (opfact s') l.
  Proof.
    intros Ht Hr. induction 1 as [|o l Ho Hl IH]; constructor; inversion Ht; subst.
    - eapply opfact_tail; eauto.
    - apply IH. assumption.
  Qed.

  Ltac inv_open H := destruct H as [A1 A2 A3 B C D E F G G2 G3 Hh J].

  (** * the reader thread *)
  Lemma step_push_inv s s' : Inv s -> step s LPush = Some s' -> Inv s'.
  Proof.
    intros HI Hs. inv_open HI. cbn in Hs.
    destruct (alive s) eqn:Ha; [|discriminate]. destruct (src s) as [|x r] eqn:Hsrc; [discriminate|].
    inversion Hs; subst s'; clear Hs.
    constructor; cbn; auto.
    - rewrite <- A1. rewrite <- !app_assoc. reflexivity.
    - discriminate.
    - eapply Forall_impl; [|exact F]. intros o. apply opfact_weaken; auto.
      unfold rdone. rewrite Ha. cbn. discriminate.
  Qed.

  Lemma step_eof_inv s s' : Inv s -> step s LEof = Some s' -> Inv s'.
  Proof.
    intros HI Hs. inv_open HI. cbn in Hs.
    destruct (alive s) eqn:Ha; [|discriminate]. destruct (src s) as [|x r] eqn:Hsrc; [|discriminate].
    inversion Hs; subst s'; clear Hs.
    constructor; cbn; auto.
    - eapply Forall_impl; [|exact F]. intros o. apply opfact_weaken; auto.
      unfold rdone. rewrite Ha. cbn. discriminate.
  Qed.

  Lemma step_linger_inv s s' : Inv s -> step s LLingerExit = Some s' -> Inv s'.
  Proof.
    intros HI Hs. inv_open HI. cbn in Hs. destruct (linger s); [|discriminate].
    inversion Hs; subst s'; clear Hs. constructor; cbn; auto.
  Qed.

  Lemma step_timer_inv s s' : Inv s -> step s LTimer = Some s' -> Inv s'.
  Proof.
    intros HI Hs. inv_open HI. cbn in Hs. destruct (timer s); [|discriminate].
    inversion Hs; subst s'; clear Hs. constructor; cbn; auto.
  Qed.

  (** * the matcher thread *)
  Lemma flagged_upd s m : flagged (upd_mt s (Some m)) = flag m.
  Proof. reflexivity. Qed.

  Lemma step_matcher_inv s l s' : Inv s -> step_matcher s l = Some s' -> Inv s'.
  Proof.
    intros HI Hs. inv_open HI. unfold Pipeline.step_matcher in Hs.
    destruct (mt s) as [m|] eqn:Hm; [|discriminate].
    destruct (C m eq_refl) as (C1 & C2 & C3 & C4).
    pose proof (E m eq_refl) as E'.
    unfold took, published in C2, C3.
    destruct l; try discriminate; destruct (ph m) eqn:Hp; try discriminate.
    - (* load *)
      inversion Hs; subst s'; clear Hs. constructor; cbn; auto.
      + intros m0 Em. inversion Em; subst m0; clear Em. cbn. unfold took, published; cbn.
        repeat split; auto; discriminate.
      + intros Hi. specialize (D Hi). unfold Dinv, hw in *. cbn. rewrite Hm in D. unfold took in *. rewrite Hp in D. cbn. exact D.
      + intros m0 Em. inversion Em; subst m0; clear Em. cbn. exact E'.
      + eapply Forall_impl; [|exact F]. intros o. apply opfact_weaken; auto.
        unfold flagged. rewrite Hm. cbn. unfold flag. rewrite Hp. cbn. auto.
      + unfold Jinv. cbn. discriminate.
    - (* take *)
      destruct (locked s); [discriminate|].
      inversion Hs; subst s'; clear Hs. constructor; cbn; auto.
      + intros m0 Em. inversion Em; subst m0; clear Em. cbn. unfold took, published; cbn.
        specialize (C1 eq_refl). repeat split; auto; try discriminate; lia.
      + intros Hi. specialize (D Hi). unfold Dinv, hw in *. cbn. rewrite Hm in D. unfold took in *. rewrite Hp in D. cbn. exact D.
      + intros m0 Em. inversion Em; subst m0; clear Em. cbn. exact E'.
      + eapply Forall_impl; [|exact F]. intros o. apply opfact_weaken; auto.
        * unfold flagged. rewrite Hm. cbn. unfold flag. rewrite Hp. cbn. auto.
        * intros _. unfold consumed. cbn. rewrite Nat.sub_diag. reflexivity.
      + apply chain_app; assumption.
      + unfold Jinv. cbn. discriminate.
    - (* publish *)
      inversion Hs; subst s'; clear Hs. constructor; cbn; auto.
      + intros m0 Em. inversion Em; subst m0; clear Em. cbn. unfold took, published; cbn.
        specialize (C2 eq_refl). destruct C2 as (C2a & C2b & C2c & C2d). rewrite C2a. repeat split; auto; try discriminate; try tauto.
      + intros Hi. specialize (D Hi). unfold Dinv, hw in *. cbn. rewrite Hm in D. unfold took in *. rewrite Hp in D. cbn. exact D.
      + intros m0 Em. inversion Em; subst m0; clear Em. cbn. exact E'.
      + eapply Forall_impl; [|exact F]. intros o. apply opfact_weaken; auto.
        unfold flagged. rewrite Hm. cbn. unfold flag. rewrite Hp. cbn. destruct (killed m); cbn; auto.
      + unfold Jinv. cbn. discriminate.
    - (* notify *)
      inversion Hs; subst s'; clear Hs. constructor; cbn; auto.
      + intros m0 Em. inversion Em; subst m0; clear Em. cbn. unfold took, published; cbn.
        specialize (C2 eq_refl). specialize (C3 eq_refl). repeat split; auto; try discriminate; try tauto.
      + intros Hi. specialize (D Hi). unfold Dinv, hw in *. cbn. rewrite Hm in D. unfold took in *. rewrite Hp in D. cbn. exact D.
      + intros m0 Em. inversion Em; subst m0; clear Em. cbn. exact E'.
      + eapply Forall_impl; [|exact F]. intros o. apply opfact_weaken; auto.
        unfold flagged. rewrite Hm. cbn. unfold flag. rewrite Hp. cbn. destruct (killed m); cbn; auto.
      + unfold Jinv. cbn. discriminate.
    - (* flag *)
      inversion Hs; subst s'; clear Hs. constructor; cbn; auto.
      + intros m0 Em. inversion Em; subst m0; clear Em. cbn. unfold took, published; cbn.
        specialize (C2 eq_refl). specialize (C3 eq_refl). repeat split; auto; try discriminate; try tauto.
      + intros Hi. specialize (D Hi). unfold Dinv, hw in *. cbn. rewrite Hm in D. unfold took in *. rewrite Hp in D. cbn. exact D.
      + intros m0 Em. inversion Em; subst m0; clear Em. cbn. exact E'.
      + eapply Forall_impl; [|exact F]. intros o. apply opfact_weaken; auto.
        unfold flagged. rewrite Hm. cbn. unfold flag. rewrite Hp. cbn. destruct (killed m); cbn; auto.
      + unfold Jinv. cbn. discriminate.
    - (* exit *)
      inversion Hs; subst s'; clear Hs. constructor; cbn; auto.
      + intros m0 Em. inversion Em; subst m0; clear Em. cbn. unfold took, published; cbn.
        specialize (C2 eq_refl). specialize (C3 eq_refl). repeat split; auto; try discriminate; try tauto.
      + intros Hi. specialize (D Hi). unfold Dinv, hw in *. cbn. rewrite Hm in D. unfold took in *. rewrite Hp in D. cbn. exact D.
      + intros m0 Em. inversion Em; subst m0; clear Em. cbn. exact E'.
      + eapply Forall_impl; [|exact F]. intros o. apply opfact_weaken; auto.
        unfold flagged. rewrite Hm. cbn. unfold flag. rewrite Hp. cbn. destruct (killed m); cbn; auto.
      + unfold Jinv. cbn. discriminate.
  Qed.

  (** * the event loop *)
  Lemma firstn_app_le (a b : list item) n : n <= List.length a -> firstn n (a ++ b) = firstn n a.
  Proof.
    intros Hn. rewrite firstn_app. replace (n - List.length a) with 0 by lia. cbn. apply app_nil_r.
  Qed.

  Lemma pool_append_spec (p r xs p' r' : list item) :
    pool_append nres p r xs = (p', r') ->
    List.length r <= nres -> (p <> [] -> List.length r = nres) ->
    r' ++ p' = r ++ p ++ xs /\ List.length r' <= nres /\ (p' <> [] -> List.length r' = nres) /\
    exists e, p' = p ++ e.
  Proof.
    unfold pool_append. intros Hp Hr Hn.
    destruct (0 <? nres - List.length r) eqn:Hlt.
    - apply Nat.ltb_lt in Hlt. inversion Hp; subst; clear Hp.
      assert (p = []) as ->. { destruct p; [reflexivity|]. assert (List.length r = nres) by (apply Hn; discriminate). lia. }
      cbn [app]. split; [|split; [|split]].
      + rewrite <- app_assoc, firstn_skipn. reflexivity.
      + rewrite app_length, firstn_length. lia.
      + intros Hne. rewrite app_length, firstn_length.
        destruct (Nat.le_gt_cases (List.length xs) (Nat.min (nres - List.length r) (List.length xs))) as [Hle|Hgt].
        * exfalso. apply Hne. apply skipn_all2. exact Hle.
        * lia.
      + eexists. reflexivity.
    - apply Nat.ltb_ge in Hlt. inversion Hp; subst; clear Hp. split; [|split; [|split]].
      + reflexivity.
      + exact Hr.
      + intros _. lia.
      + eexists. reflexivity.
  Qed.

  Lemma tailok_noharvest rest r tl0 : Forall tailok rest -> rest = HbHarvest r :: tl0 -> False.
  Proof. intros H E. subst. inversion H as [|? ? H1 H2]. exact H1. Qed.
  Lemma tailok_tl rest : Forall tailok rest -> Forall tailok (tl rest).
  Proof. intros H. destruct rest; [constructor|]. inversion H; assumption. Qed.
  Lemma tailok_notinflight rest :
    Forall tailok rest -> match rest with (KillQ | JoinQ | KillC _ | JoinC _) :: _ => true | _ => false end = false.
  Proof. intros H. destruct rest as [|o rest]; [reflexivity|]. inversion H as [|? ? H1 H2]. destruct o; try reflexivity; destruct H1. Qed.

  Lemma exec_main_inv s s' : Inv s -> exec_main s = Some s' -> Inv s'.
  Proof.
    intros HI Hs. inv_open HI. unfold Pipeline.exec_main in Hs.
    destruct (pc s) as [|op rest] eqn:Hpc; [discriminate|].
    unfold inflight, Jinv in *. rewrite Hpc in *. cbn [tl] in *.
    inversion F as [|? ? F1 F2]; subst.
    destruct op as [ |sv|r|r| | |c|c r| | |sr|sr].
    - (* HbReadS *)
      inversion Hs; subst s'; clear Hs. constructor; cbn; auto; try discriminate; try (unfold Jinv; cbn; auto).
      constructor; [|exact F2]. cbn. unfold flagged. cbn. destruct (mt s); auto.
    - (* HbReadR *)
      inversion Hs; subst s'; clear Hs. cbn in F1. destruct sv.
      + constructor; cbn; auto; try discriminate; try (unfold Jinv; cbn; auto).
        * constructor; [|constructor; [|exact F2]]; cbn; auto.
        * intros r tl0 Hx. inversion Hx; subst. eexists; reflexivity.
        * constructor; [exact I|exact G2].
      + constructor; cbn; auto; try discriminate; try (unfold Jinv; cbn; auto).
        constructor; [|exact F2]; cbn; auto.
    - (* HbHarvest *)
      destruct (mt s) as [m|] eqn:Hm; [|discriminate].
      destruct (flag m) eqn:Hf; [|discriminate].
      destruct (G r rest eq_refl) as [rest' ->].
      assert (Hk : killed m = false).
      { destruct (killed m) eqn:K; [|reflexivity]. destruct (E m eq_refl K). }
      destruct (C m eq_refl) as (C1 & C2 & C3 & C4).
      assert (Hph : ph m = PFlagged \/ ph m = PExited).
      { unfold flag in Hf. rewrite Hk in Hf. cbn in Hf. destruct (ph m); try discriminate; auto. }
      assert (Ht : took m = true) by (unfold took; destruct Hph as [Hph | Hph]; rewrite Hph; reflexivity).
      assert (Hp : published m = true) by (unfold published; destruct Hph as [Hph | Hph]; rewrite Hph; reflexivity).
      destruct (C2 Ht) as (C2a & C2b & C2c & C2d). specialize (C3 Hp). specialize (C4 eq_refl). specialize (D eq_refl).
      cbn in F1. destruct F1 as [_ Fr].
      assert (Hfr : fres (q s) 0 (firstn (taken s) (pl s)) = fres (q s) 0 (firstn (mlo m) (pl s)) ++ mres m).
      { rewrite C3, C4, C2d. apply fres_firstn_slice; lia. }
      unfold Dinv, hw in D. rewrite Hm, Ht in D.
      inversion Hs; subst s'; clear Hs.
      constructor; cbn; auto; try discriminate.
      + intros _. unfold Dinv, hw. cbn [mt taken pl q L cs]. rewrite Hfr. destruct (cs s) eqn:Hcs; cbn [app].
        * apply Permutation_app_tail. exact D.
        * rewrite D. cbn. apply Permutation_refl.
        * rewrite D. cbn. destruct ((negb ncie && r) || negb match mres m with [] => true | _ :: _ => false end) eqn:Hc; cbn.
          -- apply Permutation_refl.
          -- apply orb_false_iff in Hc as [_ Hc]. destruct (mres m); [reflexivity|discriminate].
      + eapply opfact_tail_all; [exact G2| |exact F2]. auto.
      + inversion G2; assumption.
      + unfold Jinv. cbn. intros _. unfold settled. cbn. destruct (cs s) eqn:Hcs; cbn; auto.
        destruct ((negb ncie && r) || negb match mres m with [] => true | _ :: _ => false end) eqn:Hc; cbn; auto.
        apply orb_false_iff in Hc as [Hc _]. destruct ncie; cbn in Hc; auto.
    - (* HbReadC *)
      inversion Hs; subst s'; clear Hs. cbn in F1.
      destruct (negb (r && consumed s) && match mt s with None => true | Some _ => false end) eqn:Hr; cbn [app].
      + constructor; cbn; auto; try discriminate; try (unfold Jinv; cbn; auto).
        * constructor; [exact I|]. constructor; [exact I|exact F2].
        * constructor; [exact I|exact G2].
      + constructor; cbn; auto; try discriminate; try (unfold Jinv; cbn; auto).
        * constructor; [exact I|exact F2].
        * intros Hn. destruct (J Hn) as [Hj | [Hj1 Hj2]]; [exact Hj|].
          subst r. rewrite Hn in Hr. cbn in Hr. discriminate.
    - (* Restart *)
      destruct (mt s) as [m|] eqn:Hm; [discriminate|].
      specialize (D eq_refl). unfold Dinv, hw in D. rewrite Hm in D.
      pose proof (tailok_notinflight rest G2) as Hni.
      destruct (rdone s) eqn:Hrd.
      + inversion Hs; subst s'; clear Hs. constructor; cbn; auto; try discriminate.
        * intros m0 Em. inversion Em; subst m0. cbn. unfold took, published; cbn. repeat split; auto; discriminate.
        * intros m0 Em. inversion Em; subst; cbn; discriminate.
        * eapply opfact_tail_all; [exact G2 | | exact F2]. auto.
        * intros r tl0 Hx. destruct (tailok_noharvest _ _ _ G2 Hx).
        * apply tailok_tl; assumption.
        * unfold inflight. cbn. rewrite Hni. discriminate.
      + destruct (locked s); [discriminate|].
        destruct (pool_append nres (pl s) (resv s) (rbuf s)) as [p' r'] eqn:Hpa.
        destruct A2 as [A2a A2b].
        destruct (pool_append_spec _ _ _ _ _ Hpa A2a A2b) as (P1 & P2 & P3 & [e P4]).
        inversion Hs; subst s'; clear Hs. constructor; cbn; auto; try discriminate.
        * rewrite app_assoc, P1. rewrite <- A1. rewrite <- !app_assoc. reflexivity.
        * rewrite P4, app_length. lia.
        * intros m0 Em. inversion Em; subst m0. cbn. unfold took, published; cbn. repeat split; auto; discriminate.
        * intros _. unfold Dinv, hw. cbn. rewrite P4, firstn_app_le by exact B. exact D.
        * intros m0 Em. inversion Em; subst; cbn; discriminate.
        * eapply opfact_tail_all; [exact G2 | | exact F2]. unfold rdone. cbn. destruct (alive s); cbn; auto.
        * intros r tl0 Hx. destruct (tailok_noharvest _ _ _ G2 Hx).
        * apply tailok_tl; assumption.
        * unfold inflight. cbn. rewrite Hni. discriminate.
    - (* S1ReadC *)
      inversion Hs; subst s'; clear Hs. constructor; cbn; auto; try discriminate; try (unfold Jinv; cbn; auto).
      constructor; [|exact F2]. cbn. auto.
    - (* S1ReadR *)
      inversion Hs; subst s'; clear Hs. cbn in F1. constructor; cbn; auto; try discriminate; try (unfold Jinv; cbn; auto).
      constructor; [|exact F2]. cbn. auto.
    - (* S1Decide *)
      pose proof (tailok_notinflight rest G2) as Hni.
      assert (HJ : mt s = None -> match rest with
                                  | [] | HbReadS :: _ | HbReadR _ :: _ | S1ReadC :: _ | S1ReadR _ :: _ | S1Decide _ _ :: _ => settled s
                                  | HbReadC r0 :: _ => settled s \/ cs s = ClearIfNotNull /\ r0 = false
                                  | _ => True
                                  end).
      { intros Hn. specialize (J Hn). destruct rest as [|o rest']; [exact J|]. destruct o; auto. }
      assert (HI : Inv (upd_pc s rest)).
      { constructor; cbn; auto; try discriminate.
        - intros m Hm. destruct (C m Hm) as (C1 & C2 & C3 & C4). repeat split; auto; try apply C2; auto.
        - intros m Hm Hk. destruct (E m Hm Hk).
        - intros r0 tl0 Hx. destruct (tailok_noharvest _ _ _ G2 Hx).
        - apply tailok_tl; assumption.
        - unfold inflight. cbn. rewrite Hni. discriminate. }
      destruct (negb (f1 s || f0 s || fsync s)); [inversion Hs; subst s'; exact HI|].
      destruct (r && c && match mt s with None => true | Some _ => false end); [|inversion Hs; subst s'; exact HI].
      inversion Hs; subst s'; clear Hs. destruct HI as [A1' A2' A3' B' C' D' E' F' G' G2' G3' Hh' J'].
      constructor; cbn in *; auto.
    - (* KillQ *)
      assert (rest = []) as -> by (apply G3; reflexivity).
      destruct (mt s) as [m|] eqn:Hm; inversion Hs; subst s'; clear Hs.
      + constructor; cbn; auto; try discriminate.
        intros m0 Em. inversion Em; subst m0; cbn. destruct (C m eq_refl) as (C1 & C2 & C3 & _).
          unfold took, published in *; cbn. repeat split; auto; try apply C2; auto; discriminate.
      + constructor; cbn; auto; try discriminate; try (unfold Jinv; cbn; auto).
        intros m0 Em. rewrite Hm in Em. discriminate.
    - (* JoinQ *)
      assert (rest = []) as -> by (apply G3; reflexivity).
      destruct ((match mt s with Some m => match ph m with PExited => true | _ => false end | None => true end) && negb (linger s)); [|discriminate].
      inversion Hs; subst s'; clear Hs. constructor; cbn; auto; try discriminate; try lia; try (unfold Jinv; cbn; auto).
    - (* KillC *)
      assert (rest = []) as -> by (apply G3; reflexivity).
      destruct (mt s) as [m|] eqn:Hm; inversion Hs; subst s'; clear Hs.
      + constructor; cbn; auto; try discriminate.
        intros m0 Em. inversion Em; subst m0; cbn. destruct (C m eq_refl) as (C1 & C2 & C3 & _).
          unfold took, published in *; cbn. repeat split; auto; try apply C2; auto; discriminate.
      + constructor; cbn; auto; try discriminate; try (unfold Jinv; cbn; auto).
        intros m0 Em. rewrite Hm in Em. discriminate.
    - (* JoinC *)
      assert (rest = []) as -> by (apply G3; reflexivity).
      destruct ((match mt s with Some m => match ph m with PExited => true | _ => false end | None => true end) && negb (linger s)); [|discriminate].
      inversion Hs; subst s'; clear Hs. constructor; cbn; auto; try discriminate; try lia; try (unfold Jinv; cbn; auto).
      split; [lia|]. intros Hx. contradiction.
  Qed.

  (** * dispatch of an event *)
  Lemma dispatch_inv s l s' :
    Inv s -> match l with LHb | LQuery _ | LCmd _ => True | _ => False end -> step s l = Some s' -> Inv s'.
  Proof.
    intros HI Hl Hs. inv_open HI. destruct l; try destruct Hl; cbn in Hs;
      destruct (pc s) as [|op rest] eqn:Hpc; try discriminate;
      unfold inflight, Jinv in *; rewrite Hpc in *; inversion Hs; subst s'; clear Hs.
    - (* heartbeat *)
      constructor; cbn; auto; try discriminate; try (unfold Jinv; cbn; auto).
      constructor; [exact I|constructor].
    - (* query change *)
      constructor; cbn; auto; try discriminate; try (unfold Jinv; cbn; auto).
      + intros m Hm. destruct (C m Hm) as (C1 & C2 & C3 & C4). repeat split; auto; try apply C2; auto; discriminate.
      + constructor; [exact I|constructor].
    - (* command change *)
      constructor; cbn; auto; try discriminate; try (unfold Jinv; cbn; auto).
      + intros m Hm. destruct (C m Hm) as (C1 & C2 & C3 & C4). repeat split; auto; try apply C2; auto; discriminate.
      + constructor; [exact I|constructor].
  Qed.

  Theorem step_inv s l s' : Inv s -> step s l = Some s' -> Inv s'.
  Proof.
    intros HI Hs. destruct l.
    - eapply step_push_inv; eauto.
    - eapply step_eof_inv; eauto.
    - eapply step_matcher_inv; eauto.
    - eapply step_matcher_inv; eauto.
    - eapply step_matcher_inv; eauto.
    - eapply step_matcher_inv; eauto.
    - eapply step_matcher_inv; eauto.
    - eapply step_matcher_inv; eauto.
    - eapply step_linger_inv; eauto.
    - eapply step_timer_inv; eauto.
    - eapply exec_main_inv; eauto.
    - eapply dispatch_inv; eauto. exact I.
    - eapply dispatch_inv; eauto. exact I.
    - eapply dispatch_inv; eauto. exact I.
  Qed.

  Theorem run_inv ls : forall s s', Inv s -> run s ls = Some s' -> Inv s'.
  Proof.
    induction ls as [|l ls IH]; cbn; intros s s' HI Hr.
    - inversion Hr; subst; exact HI.
    - destruct (step s l) as [s1|] eqn:Hs; [|discriminate]. eapply IH; [|exact Hr]. eapply step_inv; eauto.
  Qed.

  Theorem reachable_inv source q0 a b c ls s :
    run (init source q0 a b c) ls = Some s -> Inv s.
  Proof. apply run_inv. apply init_inv. Qed.

  (** * consequences *)
  (** header lines: the reserved items are the first [nres] arrived items, the pool holds the rest *)
  Lemma header_split s :
    Inv s -> resv s = firstn nres (resv s ++ pl s) /\ pl s = skipn nres (resv s ++ pl s).
  Proof.
    intros HI. destruct (iA2 _ HI) as [H1 H2]. destruct (pl s) as [|x p] eqn:Hp.
    - rewrite app_nil_r. split; [symmetry; apply firstn_all2; exact H1 | symmetry; apply skipn_all2; exact H1].
    - assert (Hl : List.length (resv s) = nres) by (apply H2; discriminate).
      split.
      + rewrite firstn_app, Hl, Nat.sub_diag. cbn [firstn]. rewrite app_nil_r. symmetry. apply firstn_all2. lia.
      + rewrite skipn_app, Hl, Nat.sub_diag. cbn [skipn]. rewrite skipn_all2 by lia. reflexivity.
  Qed.

  Lemma arrived_prefix s : Inv s -> (resv s ++ pl s) ++ rbuf s ++ src s = s0 s.
  Proof. intros HI. rewrite <- (iA1 _ HI). rewrite <- app_assoc. reflexivity. Qed.

  (** the complete result of the current command and query: the matching items after the header
      lines, each with its position in the pool *)
  Definition complete (s : st) : list (item * nat) := fres (q s) 0 (skipn nres (s0 s)).

  Theorem quiescent_complete s :
    Inv s -> quiescent s ->
    settled s /\
    resv s = firstn nres (s0 s) /\ pl s = skipn nres (s0 s) /\
    (cs s = DontClear -> Permutation (L s) (complete s)) /\
    (cs s = ClearIfNotNull -> complete s = []).
  Proof.
    intros HI (Hpc & Hmt & Hal & Hrb & Htk).
    assert (Hsrc : src s = []) by (apply (iA3 _ HI); exact Hal).
    assert (Hs0 : resv s ++ pl s = s0 s).
    { rewrite <- (arrived_prefix _ HI), Hrb, Hsrc. cbn. rewrite app_nil_r. reflexivity. }
    destruct (header_split _ HI) as [Hr Hp]. rewrite Hs0 in Hr, Hp.
    assert (Hd : Dinv s). { apply (iD _ HI). unfold inflight. rewrite Hpc. reflexivity. }
    unfold Dinv, hw in Hd. rewrite Hmt, Htk, firstn_all in Hd.
    split; [|split; [exact Hr|split; [exact Hp|split]]].
    - pose proof (iJ _ HI Hmt) as Hj. rewrite Hpc in Hj. exact Hj.
    - intros Hc. rewrite Hc in Hd. unfold complete. rewrite <- Hp. exact Hd.
    - intros Hc. rewrite Hc in Hd. unfold complete. rewrite <- Hp. exact Hd.
  Qed.

  Corollary quiescent_exact s :
    Inv s -> quiescent s -> ncie = false -> Permutation (L s) (complete s).
  Proof.
    intros HI Hq Hn. destruct (quiescent_complete s HI Hq) as (Hs & _ & _ & Hd & _).
    apply Hd. destruct Hs as [Hs | [_ Hs]]; [exact Hs|congruence].
  Qed.

  (** every listed item carries its own pool position, and no position is listed twice *)
  Theorem listed_identity s x i :
    Inv s -> quiescent s -> cs s = DontClear -> In (x, i) (L s) ->
    nth_error (skipn nres (s0 s)) i = Some x /\ mp (q s) x = true.
  Proof.
    intros HI Hq Hc Hin. destruct (quiescent_complete s HI Hq) as (_ & _ & _ & Hd & _).
    apply (Permutation_in _ (Hd Hc)) in Hin. apply fres_in in Hin as (_ & Hn & Hm).
    rewrite Nat.sub_0_r in Hn. auto.
  Qed.

  Theorem listed_once s :
    Inv s -> quiescent s -> cs s = DontClear -> NoDup (map snd (L s)).
  Proof.
    intros HI Hq Hc. destruct (quiescent_complete s HI Hq) as (_ & _ & _ & Hd & _).
    eapply Permutation_NoDup; [apply Permutation_map; symmetry; exact (Hd Hc)|]. apply fres_nodup.
  Qed.

  Theorem listed_all s k x :
    Inv s -> quiescent s -> cs s = DontClear ->
    nth_error (skipn nres (s0 s)) k = Some x -> mp (q s) x = true -> In (x, k) (L s).
  Proof.
    intros HI Hq Hc Hn Hm. destruct (quiescent_complete s HI Hq) as (_ & _ & _ & Hd & _).
    apply (Permutation_in _ (Permutation_sym (Hd Hc))). apply (fres_complete (q s) 0 _ k x Hn Hm).
  Qed.

  (** * the -1 / -0 decision *)
  Definition decision_of (n : nat) (sel1 ex0 : bool) : decision :=
    if (n =? 1)%nat && sel1 then Accept else if (n =? 0)%nat && ex0 then Abort else Interactive.

  Theorem decide_complete s s' c r rest d :
    Inv s -> pc s = S1Decide c r :: rest -> exec_main s = Some s' ->
    decided s = None -> decided s' = Some d ->
    (alive s = false /\ rbuf s = [] /\ src s = [] /\ mt s = None /\ taken s = List.length (pl s)) /\
    settled s /\
    (cs s = DontClear -> d = decision_of (List.length (complete s)) (f1 s) (f0 s)).
  Proof.
    intros HI Hpc Hs Hd0 Hd1. unfold Pipeline.exec_main in Hs. rewrite Hpc in Hs.
    destruct (negb (f1 s || f0 s || fsync s)); [inversion Hs; subst s'; cbn in Hd1; congruence|].
    destruct (mt s) as [m|] eqn:Hm.
    { rewrite !andb_false_r in Hs. inversion Hs; subst s'; cbn in Hd1; congruence. }
    destruct r; cbn [andb] in Hs; [|inversion Hs; subst s'; cbn in Hd1; congruence].
    destruct c; cbn [andb] in Hs; [|inversion Hs; subst s'; cbn in Hd1; congruence].
    pose proof (iF _ HI) as HF. rewrite Hpc in HF. inversion HF as [|? ? F1 F2]; subst. cbn in F1.
    destruct F1 as [Fc Fr]. specialize (Fc eq_refl). specialize (Fr eq_refl).
    unfold rdone in Fr. apply andb_true_iff in Fr as [Fr1 Fr2].
    assert (Hal : alive s = false) by (destruct (alive s); [discriminate|reflexivity]).
    assert (Hrb : rbuf s = []) by (destruct (rbuf s); [reflexivity|discriminate]).
    assert (Hsrc : src s = []) by (apply (iA3 _ HI); exact Hal).
    assert (Htk : taken s = List.length (pl s)).
    { unfold consumed in Fc. apply Nat.eqb_eq in Fc. pose proof (iB _ HI). lia. }
    assert (Hs0 : resv s ++ pl s = s0 s).
    { rewrite <- (arrived_prefix _ HI), Hrb, Hsrc. cbn. rewrite app_nil_r. reflexivity. }
    destruct (header_split _ HI) as [_ Hp]. rewrite Hs0 in Hp.
    assert (Hdv : Dinv s). { apply (iD _ HI). unfold inflight. rewrite Hpc. reflexivity. }
    unfold Dinv, hw in Hdv. rewrite Hm, Htk, firstn_all in Hdv.
    split; [auto|]. split.
    - pose proof (iJ _ HI Hm) as Hj. rewrite Hpc in Hj. exact Hj.
    - intros Hc. rewrite Hc in Hdv. unfold complete. rewrite <- Hp. rewrite <- (Permutation_length Hdv).
      inversion Hs; subst s'; cbn in Hd1. inversion Hd1. reflexivity.
  Qed.

  (** * the pool hand-off *)
  Theorem handoff_identity s m :
    Inv s -> mt s = Some m -> took m = true ->
    mn m = mlo m /\ mlo m <= mhi m /\ mhi m = List.length (pl s) /\ taken s = mhi m.
  Proof. intros HI Hm Ht. destruct (iC _ HI m Hm) as (_ & C2 & _). auto. Qed.

  Theorem published_positions s m x i :
    Inv s -> mt s = Some m -> published m = true -> In (x, i) (mres m) ->
    mlo m <= i < mhi m /\ nth_error (pl s) i = Some x /\ mp (mq m) x = true.
  Proof.
    intros HI Hm Hp Hin. destruct (iC _ HI m Hm) as (_ & C2 & C3 & _).
    assert (Ht : took m = true) by (unfold took, published in *; destruct (ph m); try discriminate; reflexivity).
    destruct (C2 Ht) as (_ & Hle & Hhi & _). rewrite (C3 Hp) in Hin.
    apply fres_in in Hin as (H1 & H2 & H3). unfold slice in H2.
    assert (Hlt : i - mlo m < mhi m - mlo m).
    { assert (Hx : nth_error (firstn (mhi m - mlo m) (skipn (mlo m) (pl s))) (i - mlo m) <> None) by congruence.
      apply nth_error_Some in Hx. rewrite firstn_length in Hx. lia. }
    rewrite nth_error_firstn_lt in H2 by exact Hlt. rewrite nth_error_skipn_add in H2.
    replace (mlo m + (i - mlo m)) with i in H2 by lia. repeat split; auto; lia.
  Qed.

  Theorem handed_partition s : Inv s -> chain 0 (handed s) (taken s) /\ taken s <= List.length (pl s).
  Proof. intros HI. split; [apply (iH _ HI)|apply (iB _ HI)]. Qed.
End Proofs.
