(** Lemmas about Model/Selection.v, cursor part (C09): validity of the cursor in every reachable
    state, exact clamped motion, no checked operation fails (within the size window B). *)
From SkimV Require Import Common.Base Model.Selection.
Local Open Scope Z_scope.

Ltac Zify.zify_post_hook ::= Z.to_euclidean_division_equations.

(** the size window: everything below 2^29, heights and page counts below 2^14 *)
Definition B : Z := 536870912.
Definition HB : Z := 16384.
Definition B2 : Z := 1073741824.   (* bound on a single move distance: 2 * B *)

Definition Bounded (s : sel) : Prop :=
  Z.of_N (nitems s) < B /\ Z.of_N (ic s) < B /\ Z.of_N (lc s) < B /\ Z.of_N (height s) <= HB.
(** the cursor designates an existing result *)
Definition Valid (s : sel) : Prop := (0 < nitems s -> ic s + lc s < nitems s)%N.
Definition Good (s : sel) : Prop := Bounded s /\ Valid s.

Lemma chk_ok z : -2147483648 <= z <= 2147483647 -> chk z = Some z.
Proof. intros H. unfold chk, i32_ok. destruct (-2147483648 <=? z) eqn:E1; destruct (z <=? 2147483647) eqn:E2; cbn; try reflexivity; lia. Qed.
Lemma to_i32_ok n : Z.of_N n <= 2147483647 -> to_i32 n = Some (Z.of_N n).
Proof. intros H. unfold to_i32. apply chk_ok. lia. Qed.
Lemma to_usize_ok z : 0 <= z -> to_usize z = Some (Z.to_N z).
Proof. intros H. unfold to_usize. destruct (0 <=? z) eqn:E; [reflexivity | lia]. Qed.

(** the height the cursor code works with (1 before the first draw) *)
Definition eff_h (s : sel) : Z := Z.max (Z.of_N (height s)) 1.
Definition eff_diff (s : sel) (d : Z) : Z := if reverse s then - d else d.

(** the new (item_cursor, line_cursor) of a move, written out *)
Definition mv (s : sel) (d : Z) : Z * Z :=
  let h := eff_h s in let n := Z.of_N (nitems s) in
  let i := Z.of_N (ic s) in let line := Z.of_N (lc s) + eff_diff s d in
  if h <=? line then
    let i2 := Z.max 0 (Z.min (i + (line - h + 1)) (n - h)) in (i2, Z.max 0 (Z.min (h - 1) (n - i2 - 1)))
  else if line <? 0 then (Z.max (i + line) 0, 0)
  else (i, Z.max 0 (Z.min line (n - 1 - i))).

Ltac ok_chk := rewrite chk_ok by lia; cbn [bind].

Lemma move_eq s d : Bounded s -> - B2 < d < B2 ->
  move_line_cursor s d = Some (with_cursor s (Z.to_N (fst (mv s d))) (Z.to_N (snd (mv s d)))).
Proof.
  intros (Hn & Hi & Hl & Hh) Hd. unfold B, HB, B2 in *.
  unfold move_line_cursor, mv, eff_h, eff_diff.
  assert (E0 : (if reverse s then chk (- d) else Some d) = Some (if reverse s then - d else d)).
  { destruct (reverse s); [apply chk_ok; lia | reflexivity]. }
  rewrite E0. cbn [bind].
  rewrite !to_i32_ok by lia. cbn [bind].
  replace (Z.of_N (N.max (height s) 1)) with (Z.max (Z.of_N (height s)) 1) by lia.
  set (dd := if reverse s then - d else d). assert (Hdd : - 1073741824 < dd < 1073741824) by (unfold dd; destruct (reverse s); lia).
  set (h := Z.max (Z.of_N (height s)) 1). assert (Hh1 : 1 <= h <= 16384) by (unfold h; lia).
  set (n := Z.of_N (nitems s)) in *. set (i := Z.of_N (ic s)) in *. set (l := Z.of_N (lc s)) in *.
  assert (Hn0 : 0 <= n) by (unfold n; lia). assert (Hi0 : 0 <= i) by (unfold i; lia). assert (Hl0 : 0 <= l) by (unfold l; lia).
  ok_chk.
  destruct (h <=? l + dd) eqn:E1.
  - repeat ok_chk. cbn [fst snd]. rewrite !to_usize_ok by lia. cbn [bind]. reflexivity.
  - destruct (l + dd <? 0) eqn:E2.
    + repeat ok_chk. cbn [fst snd]. rewrite !to_usize_ok by lia. cbn [bind].
      replace (Z.max 0 0) with 0 by reflexivity. reflexivity.
    + repeat ok_chk. cbn [fst snd]. rewrite !to_usize_ok by lia. cbn [bind]. reflexivity.
Qed.

Definition clamp (x lo hi : Z) : Z := Z.max lo (Z.min x hi).

(** with a valid cursor and a non-empty list a move lands exactly k rows away, clamped *)
Lemma mv_exact s d : Valid s -> (0 < nitems s)%N ->
  let n := Z.of_N (nitems s) in let idx := Z.of_N (ic s) + Z.of_N (lc s) in
  0 <= fst (mv s d) /\ 0 <= snd (mv s d) /\
  fst (mv s d) + snd (mv s d) = clamp (idx + eff_diff s d) 0 (n - 1) /\
  snd (mv s d) < eff_h s.
Proof.
  intros HV Hpos. specialize (HV Hpos). cbn zeta. unfold mv, clamp.
  assert (Hh : 1 <= eff_h s) by (unfold eff_h; lia).
  set (h := eff_h s) in *. set (n := Z.of_N (nitems s)). set (i := Z.of_N (ic s)). set (l := Z.of_N (lc s)).
  set (dd := eff_diff s d).
  assert (Hv : i + l < n) by (unfold i, l, n; lia).
  assert (Hi0 : 0 <= i) by (unfold i; lia). assert (Hl0 : 0 <= l) by (unfold l; lia).
  destruct (h <=? l + dd) eqn:E1; [|destruct (l + dd <? 0) eqn:E2]; cbn [fst snd]; lia.
Qed.

(** with an empty list the cursors stay bounded *)
Lemma mv_bounds s d : Bounded s -> - B2 < d < B2 ->
  0 <= fst (mv s d) < B /\ 0 <= snd (mv s d) < B.
Proof.
  intros (Hn & Hi & Hl & Hh) Hd. unfold mv, B, HB, B2 in *.
  assert (Hh1 : 1 <= eff_h s <= 16384) by (unfold eff_h; lia).
  assert (Hdd : - 1073741824 < eff_diff s d < 1073741824) by (unfold eff_diff; destruct (reverse s); lia).
  set (h := eff_h s) in *. set (n := Z.of_N (nitems s)) in *. set (i := Z.of_N (ic s)) in *. set (l := Z.of_N (lc s)) in *.
  set (dd := eff_diff s d) in *.
  assert (0 <= n /\ 0 <= i /\ 0 <= l) by (unfold n, i, l; lia).
  destruct (h <=? l + dd) eqn:E1; [|destruct (l + dd <? 0) eqn:E2]; cbn [fst snd]; lia.
Qed.

Lemma nitems_with_cursor s i l : nitems (with_cursor s i l) = nitems s.
Proof. reflexivity. Qed.

Lemma move_good s d : Good s -> - B2 < d < B2 ->
  exists s', move_line_cursor s d = Some s' /\ Good s' /\
    nitems s' = nitems s /\ height s' = height s /\ reverse s' = reverse s /\
    items s' = items s /\ selected s' = selected s /\ multi s' = multi s /\ run s' = run s /\
    ((0 < nitems s)%N ->
       Z.of_N (cursor_idx s') = clamp (Z.of_N (cursor_idx s) + eff_diff s d) 0 (Z.of_N (nitems s) - 1) /\
       Z.of_N (lc s') < eff_h s).
Proof.
  intros (HB_ & HV) Hd. eexists. split; [apply move_eq; assumption|].
  destruct (mv_bounds s d HB_ Hd) as ((F0 & F1) & (S0 & S1)).
  destruct HB_ as (Hn & Hi & Hl & Hh).
  split; [split|].
  - unfold Bounded. cbn [with_cursor ic lc height]. rewrite nitems_with_cursor. repeat split; try assumption; lia.
  - unfold Valid. cbn [with_cursor ic lc]. rewrite nitems_with_cursor. intros Hpos.
    destruct (mv_exact s d HV Hpos) as (A0 & A1 & A2 & A3). unfold clamp in A2. lia.
  - cbn [with_cursor height reverse items selected multi run]. rewrite nitems_with_cursor.
    repeat split; try reflexivity.
    + destruct (mv_exact s d HV H) as (A0 & A1 & A2 & A3).
      unfold cursor_idx, clamp in *. cbn [with_cursor ic lc]. lia.
    + destruct (mv_exact s d HV H) as (A0 & A1 & A2 & A3). cbn [with_cursor lc]. lia.
Qed.

(** * page moves, row clicks *)
Lemma page_good s up k half : Good s -> - HB <= k <= HB ->
  exists s' d, page s up k half = Some s' /\ move_line_cursor s d = Some s' /\ - B2 < d < B2 /\
    d = (let m := (if up then Z.of_N (height s) - 1 else 1 - Z.of_N (height s)) * k in if half then Z.quot m 2 else m).
Proof.
  intros HG Hk. destruct HG as ((Hn & Hi & Hl & Hh) & HV). unfold B, HB, B2 in *.
  set (hh := if up then Z.of_N (height s) - 1 else 1 - Z.of_N (height s)).
  assert (Hhh : - 16384 <= hh <= 16384) by (unfold hh; destruct up; lia).
  assert (Hm : - 268435456 <= hh * k <= 268435456) by nia.
  set (d := if half then Z.quot (hh * k) 2 else hh * k).
  assert (Hd : - 1073741824 < d < 1073741824) by (unfold d; destruct half; lia).
  destruct (move_good s d (conj (conj Hn (conj Hi (conj Hl Hh))) HV) Hd) as (s' & Hs' & _).
  exists s', d. split; [|split; [exact Hs' | split; [exact Hd | reflexivity]]].
  unfold page. rewrite to_i32_ok by lia. cbn [bind]. fold hh.
  rewrite (chk_ok hh) by lia. cbn [bind]. rewrite chk_ok by lia. cbn [bind]. exact Hs'.
Qed.

Lemma select_row_good s r : Good s -> Z.of_N r < B ->
  exists s' d, select_screen_row s r = Some s' /\ move_line_cursor s d = Some s' /\ - B2 < d < B2.
Proof.
  intros HG Hr. destruct HG as ((Hn & Hi & Hl & Hh) & HV). unfold B, HB, B2 in *.
  set (d := if reverse s then Z.of_N (lc s) - Z.of_N r else Z.of_N (height s) - Z.of_N r - 1 - Z.of_N (lc s)).
  assert (Hd : - 1073741824 < d < 1073741824) by (unfold d; destruct (reverse s); lia).
  destruct (move_good s d (conj (conj Hn (conj Hi (conj Hl Hh))) HV) Hd) as (s' & Hs' & _).
  exists s', d. split; [|split; [exact Hs' | exact Hd]].
  unfold select_screen_row. rewrite !to_i32_ok by lia. cbn [bind].
  destruct (reverse s) eqn:Er.
  - rewrite chk_ok by lia. cbn [bind]. unfold d in Hs'. exact Hs'.
  - repeat ok_chk. unfold d in Hs'. exact Hs'.
Qed.

(** * updates, clears, redraws *)
Lemma append_good s b : Good s -> Z.of_N (N.of_nat (length (merge_batch (items s) b))) < B ->
  Good (append_sorted_items s b) /\
  (Z.of_N (lc (append_sorted_items s b)) <= Z.of_N (lc s)) /\
  height (append_sorted_items s b) = height s.
Proof.
  intros ((Hn & Hi & Hl & Hh) & HV) Hlen. unfold B, HB in *.
  unfold append_sorted_items.
  set (it := merge_batch (items s) b) in *. set (n := N.of_nat (length it)) in *.
  match goal with |- context [with_items ?x it] => set (s1 := x) end.
  assert (Hs1 : height s1 = height s /\ ic s1 = ic s /\ lc s1 = lc s) by (unfold s1; cbn; auto). destruct Hs1 as (Hs1h & Hs1i & Hs1l).
  set (h := N.max (height s) 1). assert (Hh1 : (1 <= h)%N /\ Z.of_N h <= 16384) by (unfold h; lia).
  set (l1 := if (n <=? lc s)%N then (N.max (N.min n h) 1 - 1)%N else lc s).
  assert (Hl1 : (l1 <= lc s)%N).
  { unfold l1. destruct (n <=? lc s)%N eqn:E; [apply N.leb_le in E; lia | lia]. }
  assert (Hl1n : (0 < n -> l1 < n)%N).
  { intros Hp. unfold l1. destruct (n <=? lc s)%N eqn:E; [lia | apply N.leb_gt in E; lia]. }
  assert (Hnit : forall i l, nitems (with_cursor (with_items s1 it) i l) = n) by reflexivity.
  destruct (n <=? l1 + ic s)%N eqn:E2.
  - apply N.leb_le in E2. split; [split|split].
    + unfold Bounded, B, HB. rewrite Hnit. cbn [with_cursor with_items ic lc height]. rewrite ?Hs1h. repeat split; lia.
    + unfold Valid. rewrite Hnit. cbn [with_cursor with_items ic lc]. intros Hp. specialize (Hl1n Hp). lia.
    + cbn [with_cursor lc]. lia.
    + cbn [with_cursor with_items height]. exact Hs1h.
  - apply N.leb_gt in E2. split; [split|split].
    + unfold Bounded, B, HB. rewrite Hnit. cbn [with_cursor with_items ic lc height]. rewrite ?Hs1h. repeat split; lia.
    + unfold Valid. rewrite Hnit. cbn [with_cursor with_items ic lc]. intros _. lia.
    + cbn [with_cursor lc]. lia.
    + cbn [with_cursor with_items height]. exact Hs1h.
Qed.

Lemma clear_good s : Good s -> Good (clear s).
Proof.
  intros ((Hn & Hi & Hl & Hh) & HV). split.
  - unfold Bounded, clear, nitems. cbn. unfold B in *. repeat split; try assumption; lia.
  - unfold Valid, clear, nitems. cbn. lia.
Qed.

Lemma draw_good s h : Good s -> Z.of_N h <= HB -> Good (draw_height s h).
Proof.
  intros HG Hh. unfold draw_height. destruct (draws_a_row s h); [|exact HG].
  destruct HG as ((Hn & Hi & Hl & Hh') & HV). split; [unfold Bounded; cbn; auto | exact HV].
Qed.

(** * selection actions never fail on a valid cursor and keep the cursor *)
Lemma item_at_valid s : Valid s -> (0 < nitems s)%N -> exists it, item_at s (cursor_idx s) = Some it.
Proof.
  intros HV Hp. specialize (HV Hp). unfold item_at, cursor_idx.
  destruct (nth_error (items s) (N.to_nat (ic s + lc s))) eqn:E; [eexists; reflexivity|].
  apply nth_error_None in E. unfold nitems in HV. lia.
Qed.

Lemma toggle_good s : Good s -> exists s', act_toggle s = Some s' /\ Good s' /\
  items s' = items s /\ ic s' = ic s /\ lc s' = lc s /\ height s' = height s.
Proof.
  intros HG. unfold act_toggle. destruct (negb (multi s) || (nitems s =? 0)%N) eqn:E.
  - exists s. repeat split; try reflexivity; apply HG.
  - apply orb_false_iff in E as [_ E]. apply N.eqb_neq in E.
    destruct (item_at_valid s (proj2 HG) ltac:(lia)) as (it & Hit). rewrite Hit.
    eexists. split; [reflexivity|]. repeat split; try reflexivity; apply HG.
Qed.

Lemma sel_only_good s m : Good s -> Good (with_selected s m).
Proof. intros HG. exact HG. Qed.

Lemma toggle_all_good s : Good s -> Good (act_toggle_all s).
Proof. intros HG. unfold act_toggle_all. destruct (_ || _); [exact HG | apply sel_only_good, HG]. Qed.
Lemma select_all_good s : Good s -> Good (act_select_all s).
Proof. intros HG. unfold act_select_all. destruct (_ || _); [exact HG | apply sel_only_good, HG]. Qed.

(** * histories *)
Definition op_bounded (o : op) : Prop :=
  match o with
  | Up k | Down k => - B < k < B
  | PageUp k | PageDown k | HalfPageUp k | HalfPageDown k => - HB <= k <= HB
  | SelectRow r => Z.of_N r < B
  | Draw h => Z.of_N h <= HB
  | _ => True
  end.

Definition batch_len (o : op) : nat := match o with AppendItems b => length b | _ => 0 end.
Fixpoint total_len (ops : list op) : nat := match ops with [] => 0%nat | o :: r => (batch_len o + total_len r)%nat end.

Lemma insert_rank_length x l : length (insert_rank x l) = S (length l).
Proof. induction l as [|y r IH]; cbn; [reflexivity|]. destruct (mi_rank x <? mi_rank y); cbn; [reflexivity | rewrite IH; reflexivity]. Qed.
Lemma merge_batch_length l b : length (merge_batch l b) = (length l + length b)%nat.
Proof.
  unfold merge_batch. revert l; induction b as [|x b IH]; intros l; cbn [fold_left length]; [lia|].
  rewrite IH, insert_rank_length. lia.
Qed.

Lemma step_good s o : Good s -> op_bounded o ->
  Z.of_nat (length (items s) + batch_len o) < B ->
  exists s', step s o = Some s' /\ Good s' /\ (length (items s') <= length (items s) + batch_len o)%nat.
Proof.
  intros HG Ho Hlen. destruct o; cbn [step op_bounded batch_len] in *.
  - destruct (move_good s k HG ltac:(unfold B, B2 in *; lia)) as (s' & E & G & _ & _ & _ & Hit & _). exists s'. rewrite Hit. split; [assumption | split; [exact G | lia]].
  - assert (Hk : chk (- k) = Some (- k)) by (apply chk_ok; unfold B in *; lia). rewrite Hk. cbn [bind].
    destruct (move_good s (- k) HG ltac:(unfold B, B2 in *; lia)) as (s' & E & G & _ & _ & _ & Hit & _). exists s'. rewrite Hit. split; [assumption | split; [exact G | lia]].
  - destruct (page_good s true k false HG Ho) as (s' & d & E & Em & Hd & _).
    destruct (move_good s d HG Hd) as (s2 & E2 & G & _ & _ & _ & Hit & _). rewrite Em in E2; inversion E2; subst. exists s2. rewrite Hit. split; [assumption | split; [exact G | lia]].
  - destruct (page_good s false k false HG Ho) as (s' & d & E & Em & Hd & _).
    destruct (move_good s d HG Hd) as (s2 & E2 & G & _ & _ & _ & Hit & _). rewrite Em in E2; inversion E2; subst. exists s2. rewrite Hit. split; [assumption | split; [exact G | lia]].
  - destruct (page_good s true k true HG Ho) as (s' & d & E & Em & Hd & _).
    destruct (move_good s d HG Hd) as (s2 & E2 & G & _ & _ & _ & Hit & _). rewrite Em in E2; inversion E2; subst. exists s2. rewrite Hit. split; [assumption | split; [exact G | lia]].
  - destruct (page_good s false k true HG Ho) as (s' & d & E & Em & Hd & _).
    destruct (move_good s d HG Hd) as (s2 & E2 & G & _ & _ & _ & Hit & _). rewrite Em in E2; inversion E2; subst. exists s2. rewrite Hit. split; [assumption | split; [exact G | lia]].
  - destruct (select_row_good s r HG Ho) as (s' & d & E & Em & Hd).
    destruct (move_good s d HG Hd) as (s2 & E2 & G & _ & _ & _ & Hit & _). rewrite Em in E2; inversion E2; subst. exists s2. rewrite Hit. split; [assumption | split; [exact G | lia]].
  - eexists. split; [reflexivity|].
    assert (Hl : length (merge_batch (items s) b) = (length (items s) + length b)%nat) by apply merge_batch_length.
    split; [apply append_good; [exact HG | rewrite Hl; lia]|].
    unfold append_sorted_items. destruct (_ <=? _)%N; cbn [with_cursor with_items items]; rewrite Hl; lia.
  - eexists. split; [reflexivity|]. split; [apply clear_good, HG | cbn; lia].
  - eexists. split; [reflexivity|]. split; [apply draw_good; assumption|].
    unfold draw_height. destruct (draws_a_row s h); cbn; lia.
  - destruct (toggle_good s HG) as (s' & E & G & Hit & _). exists s'. rewrite Hit. split; [assumption | split; [exact G | lia]].
  - eexists. split; [reflexivity|]. split; [apply toggle_all_good, HG|].
    unfold act_toggle_all. destruct (_ || _); cbn; lia.
  - eexists. split; [reflexivity|]. split; [apply select_all_good, HG|].
    unfold act_select_all. destruct (_ || _); cbn; lia.
  - eexists. split; [reflexivity|]. split; [apply sel_only_good, HG | cbn; lia].
  - eexists. split; [reflexivity|]. split; [exact HG | cbn; lia].
  - eexists. split; [reflexivity|]. unfold act_select_raw_item. destruct (negb (multi s)); (split; [exact HG | cbn; lia]).
  - eexists. split; [reflexivity|]. unfold act_select_raw_item. destruct (negb (multi s)); (split; [exact HG | cbn; lia]).
Qed.

Lemma run_good : forall ops s, Good s -> Forall op_bounded ops ->
  Z.of_nat (length (items s) + total_len ops) < B ->
  exists s', run_ops s ops = Some s' /\ Good s'.
Proof.
  induction ops as [|o ops IH]; intros s HG Hb Hlen; cbn [run_ops].
  - exists s. split; [reflexivity | exact HG].
  - inversion Hb as [|? ? Ho Hops]; subst. cbn [total_len] in Hlen.
    destruct (step_good s o HG Ho ltac:(lia)) as (s' & E & G & L). rewrite E.
    apply IH; [exact G | exact Hops | lia].
Qed.

Lemma init_good rev mul : Good (init rev mul).
Proof. split; [unfold Bounded, init, nitems, B, HB; cbn; lia | unfold Valid, init, nitems; cbn; lia]. Qed.

(** * the in-window clause: the line cursor is below the height known at the last cursor move *)
Definition is_move (o : op) : bool :=
  match o with Up _ | Down _ | PageUp _ | PageDown _ | HalfPageUp _ | HalfPageDown _ | SelectRow _ => true | _ => false end.

(** ghost: the (effective) height at the last cursor move, 1 if none yet *)
Fixpoint run_g (s : sel) (g : Z) (ops : list op) : option (sel * Z) :=
  match ops with
  | [] => Some (s, g)
  | o :: r => match step s o with
              | Some s' => run_g s' (if is_move o then eff_h s else g) r
              | None => None
              end
  end.

Lemma run_g_fst : forall ops s g, option_map fst (run_g s g ops) = run_ops s ops.
Proof.
  induction ops as [|o ops IH]; intros s g; cbn [run_g run_ops]; [reflexivity|].
  destruct (step s o); [apply IH | reflexivity].
Qed.

Lemma step_lc s o s' : Good s -> op_bounded o -> step s o = Some s' ->
  if is_move o then ((0 < nitems s)%N -> Z.of_N (lc s') < eff_h s) /\ ((nitems s = 0)%N -> lc s' = 0%N)
  else Z.of_N (lc s') <= Z.of_N (lc s).
Proof.
  intros HG Ho E.
  assert (MV : forall d, - B2 < d < B2 -> move_line_cursor s d = Some s' ->
             ((0 < nitems s)%N -> Z.of_N (lc s') < eff_h s) /\ ((nitems s = 0)%N -> lc s' = 0%N)).
  { intros d Hd Em. rewrite (move_eq s d (proj1 HG) Hd) in Em. inversion Em; subst; clear Em. cbn [with_cursor lc]. split.
    - intros Hp. destruct (mv_exact s d (proj2 HG) Hp) as (_ & A1 & _ & A3). lia.
    - intros Hz. unfold mv. rewrite Hz. cbn [Z.of_N].
      assert (1 <= eff_h s) by (unfold eff_h; lia).
      destruct (eff_h s <=? Z.of_N (lc s) + eff_diff s d); [|destruct (Z.of_N (lc s) + eff_diff s d <? 0)]; cbn [snd]; lia. }
  destruct o; cbn [step is_move op_bounded] in *.
  - apply (MV k); [unfold B, B2 in *; lia | exact E].
  - assert (Hk : chk (- k) = Some (- k)) by (apply chk_ok; unfold B in *; lia). rewrite Hk in E. cbn [bind] in E. apply (MV (- k)); [unfold B, B2 in *; lia | exact E].
  - destruct (page_good s true k false HG Ho) as (s2 & d & E2 & Em & Hd & _). rewrite E in E2; inversion E2; subst. apply (MV d Hd Em).
  - destruct (page_good s false k false HG Ho) as (s2 & d & E2 & Em & Hd & _). rewrite E in E2; inversion E2; subst. apply (MV d Hd Em).
  - destruct (page_good s true k true HG Ho) as (s2 & d & E2 & Em & Hd & _). rewrite E in E2; inversion E2; subst. apply (MV d Hd Em).
  - destruct (page_good s false k true HG Ho) as (s2 & d & E2 & Em & Hd & _). rewrite E in E2; inversion E2; subst. apply (MV d Hd Em).
  - destruct (select_row_good s r HG Ho) as (s2 & d & E2 & Em & Hd). rewrite E in E2; inversion E2; subst. apply (MV d Hd Em).
  - inversion E; subst. unfold append_sorted_items.
    set (n := N.of_nat (length (merge_batch (items s) b))). set (h := N.max (height s) 1).
    set (l1 := if (n <=? lc s)%N then (N.max (N.min n h) 1 - 1)%N else lc s).
    assert (Hl1 : (l1 <= lc s)%N) by (unfold l1; destruct (n <=? lc s)%N eqn:E1; [apply N.leb_le in E1; lia | lia]).
    destruct (n <=? l1 + ic s)%N; cbn [with_cursor lc]; lia.
  - inversion E; subst. cbn. lia.
  - inversion E; subst. unfold draw_height. destruct (draws_a_row s h); cbn; lia.
  - destruct (toggle_good s HG) as (s2 & E2 & _ & _ & _ & Hl & _). rewrite E in E2; inversion E2; subst. lia.
  - inversion E; subst. unfold act_toggle_all. destruct (_ || _); cbn; lia.
  - inversion E; subst. unfold act_select_all. destruct (_ || _); cbn; lia.
  - inversion E; subst. cbn. lia.
  - inversion E; subst. cbn. lia.
  - inversion E; subst. unfold act_select_raw_item. destruct (negb (multi s)); cbn; lia.
  - inversion E; subst. unfold act_select_raw_item. destruct (negb (multi s)); cbn; lia.
Qed.

Lemma run_g_inv : forall ops s g, Good s -> Forall op_bounded ops ->
  Z.of_nat (length (items s) + total_len ops) < B ->
  Z.of_N (lc s) < g -> 1 <= g ->
  exists s' g', run_g s g ops = Some (s', g') /\ Good s' /\ Z.of_N (lc s') < g' /\ 1 <= g'.
Proof.
  induction ops as [|o ops IH]; intros s g HG Hb Hlen Hl Hg; cbn [run_g].
  - exists s, g. auto.
  - inversion Hb as [|? ? Ho Hops]; subst. cbn [total_len] in Hlen.
    destruct (step_good s o HG Ho ltac:(lia)) as (s' & E & G & L). rewrite E.
    pose proof (step_lc s o s' HG Ho E) as SL.
    assert (Heh : 1 <= eff_h s) by (unfold eff_h; lia).
    apply IH; [exact G | exact Hops | lia | | destruct (is_move o); lia].
    destruct (is_move o).
    + destruct SL as [S1 S2]. destruct (N.eq_dec (nitems s) 0) as [Hz|Hz]; [rewrite (S2 Hz); lia | apply S1; lia].
    + lia.
Qed.

(** * exact motion *)
Lemma up_exact s k s' : Good s -> (0 < nitems s)%N -> - B < k < B -> step s (Up k) = Some s' ->
  Z.of_N (cursor_idx s') = clamp (Z.of_N (cursor_idx s) + eff_diff s k) 0 (Z.of_N (nitems s) - 1).
Proof.
  intros HG Hp Hk E. cbn [step] in E.
  destruct (move_good s k HG ltac:(unfold B, B2 in *; lia)) as (s2 & E2 & _ & _ & _ & _ & _ & _ & _ & _ & X).
  rewrite E in E2; inversion E2; subst. apply X, Hp.
Qed.

Lemma down_exact s k s' : Good s -> (0 < nitems s)%N -> - B < k < B -> step s (Down k) = Some s' ->
  Z.of_N (cursor_idx s') = clamp (Z.of_N (cursor_idx s) - eff_diff s k) 0 (Z.of_N (nitems s) - 1).
Proof.
  intros HG Hp Hk E. cbn [step] in E.
  assert (Hc : chk (- k) = Some (- k)) by (apply chk_ok; unfold B in *; lia). rewrite Hc in E. cbn [bind] in E.
  destruct (move_good s (- k) HG ltac:(unfold B, B2 in *; lia)) as (s2 & E2 & _ & _ & _ & _ & _ & _ & _ & _ & X).
  rewrite E in E2; inversion E2; subst. destruct (X Hp) as [X1 _]. rewrite X1.
  unfold eff_diff. destruct (reverse s); f_equal; lia.
Qed.

(** the distance of a page move: (height - 1) * k rows, halved (towards zero) for half pages *)
Definition page_rows (s : sel) (up : bool) (k : Z) (half : bool) : Z :=
  let m := (if up then Z.of_N (height s) - 1 else 1 - Z.of_N (height s)) * k in
  if half then Z.quot m 2 else m.

Lemma page_exact s up k half s' : Good s -> (0 < nitems s)%N -> - HB <= k <= HB -> page s up k half = Some s' ->
  Z.of_N (cursor_idx s') = clamp (Z.of_N (cursor_idx s) + eff_diff s (page_rows s up k half)) 0 (Z.of_N (nitems s) - 1).
Proof.
  intros HG Hp Hk E.
  destruct (page_good s up k half HG Hk) as (s2 & d & E2 & Em & Hd & Hdd).
  rewrite E in E2; inversion E2; subst s2.
  destruct (move_good s d HG Hd) as (s3 & E3 & _ & _ & _ & _ & _ & _ & _ & _ & X).
  rewrite Em in E3; inversion E3; subst s3. destruct (X Hp) as [X1 _]. rewrite X1. unfold page_rows. cbn zeta in Hdd. rewrite <- Hdd. reflexivity.
Qed.
