(** Proofs about the preview worker (Model/Preview.v): content assignments are strictly increasing
    in request number under every interleaving; in a settled state the pane shows the newest request;
    a killed child's output is dropped; unchanged requests are not re-sent; scroll stays in range. *)
From SkimV Require Import Common.Base Model.Preview.
From Coq Require Import Sorted.

Definition wk_req (s : pst) : option preq :=
  match wk s with WIdle => None | WGot e | WJoined e | WHandle e => Some e end.
Definition olist {A} (o : option A) : list A := match o with Some x => [x] | None => [] end.
Definition nums (s : pst) : list nat :=
  map fst (olist (handled s)) ++ map fst (olist (wk_req s)) ++ map fst (chan s).
Definition below (x : nat) (l : list nat) : Prop := Forall (fun y => y < x) l.

Record PInv (s : pst) : Prop := {
  v_sh : StronglySorted lt (shown s);
  v_shn : below (next s) (shown s);
  v_ch : StronglySorted lt (map fst (chan s));
  v_chn : Forall (fun e => fst e < next s /\ below (fst e) (shown s)) (chan s);
  v_wk : forall e, wk_req s = Some e ->
           fst e < next s /\ below (fst e) (shown s) /\ Forall (fun e' => fst e < fst e') (chan s);
  v_wt : forall w, wt s = Some w ->
           w_no w < next s /\
           (w_done w = false -> w_stat w <> Killed -> below (w_no w) (shown s)) /\
           (forall e, wk_req s = Some e -> w_no w < fst e) /\
           Forall (fun e' => w_no w < fst e') (chan s) /\
           (w_done w = true -> w_stat w = ExitedOk -> content s = Some (w_no w)) /\
           (w_done w = true -> w_stat w <> Running);
  v_ct : content s = last (map Some (shown s)) None;
  v_new : next s = 0 \/ In (next s - 1) (nums s);
  v_hlt : forall h, handled s = Some h ->
            (forall e, wk_req s = Some e -> fst h < fst e) /\ Forall (fun e => fst h < fst e) (chan s) /\ fst h < next s;
  v_idle : wk s = WIdle -> forall w, wt s = Some w -> handled s = Some (w_no w, KCmd) /\ w_stat w <> Killed;
  v_cmd : wk s = WIdle -> forall n, handled s = Some (n, KCmd) -> exists w, wt s = Some w /\ w_no w = n;
  v_txt : forall n, handled s = Some (n, KText) -> In n (shown s) /\ (wk s = WIdle -> wt s = None);
  v_nowt : match wk s with WJoined _ | WHandle _ => wt s = None | _ => True end
}.

Lemma below_app x l y : below x l -> y < x -> below x (l ++ [y]).
Proof. intros H Hy. apply Forall_app. split; [exact H|]. constructor; [exact Hy|constructor]. Qed.
Lemma below_weaken x x' l : below x l -> x <= x' -> below x' l.
Proof. intros H Hle. eapply Forall_impl; [|exact H]. cbn. intros; lia. Qed.

Lemma sorted_snoc l x : StronglySorted lt l -> below x l -> StronglySorted lt (l ++ [x]).
Proof.
  induction l as [|y l IH]; intros Hs Hb; cbn.
  - constructor; constructor.
  - inversion Hs as [|? ? Hs' Hy]; subst. inversion Hb as [|? ? Hyx Hb']; subst.
    constructor; [apply IH; assumption|]. apply Forall_app. split; [exact Hy|]. constructor; [exact Hyx|constructor].
Qed.

Lemma last_snoc {A} (l : list A) x d : last (l ++ [x]) d = x.
Proof. apply last_last. Qed.

Lemma last_default {A} (l : list A) d d' : l <> [] -> last l d = last l d'.
Proof.
  induction l as [|y l IH]; intros Hn; [congruence|]. destruct l as [|z l]; [reflexivity|].
  cbn [last]. apply IH. discriminate.
Qed.
Lemma last_cons_ne {A} (x : A) l d d' : l <> [] -> last (x :: l) d = last l d'.
Proof.
  intros Hn. destruct l as [|y l]; [congruence|]. change (last (x :: y :: l) d) with (last (y :: l) d).
  apply last_default. discriminate.
Qed.

Lemma last_app_ne {A} (a b : list A) d : b <> [] -> last (a ++ b) d = last b d.
Proof.
  intros Hn. induction a as [|x a IH]; [reflexivity|]. cbn [app].
  rewrite (last_cons_ne x (a ++ b) d d); [exact IH|]. destruct a; cbn; [exact Hn|discriminate].
Qed.

Lemma pinit_inv : PInv pinit.
Proof.
  constructor; cbn; try (constructor; fail); auto; try discriminate;
    try (intros; discriminate); try (intros ? ? ?; discriminate).
Qed.

Ltac pinv_open H := destruct H as [Vsh Vshn Vch Vchn Vwk Vwt Vct Vnew Vhlt Vidle Vcmd Vtxt Vnowt].

Lemma sorted_map_snoc (l : list preq) x :
  StronglySorted lt (map fst l) -> Forall (fun e => fst e < fst x) l -> StronglySorted lt (map fst (l ++ [x])).
Proof.
  intros Hs Hb. rewrite map_app. cbn. apply sorted_snoc; [exact Hs|].
  unfold below. rewrite Forall_map. exact Hb.
Qed.

Lemma step_send s k s' : PInv s -> pstep s (PSend k) = Some s' -> PInv s'.
Proof.
  intros HI H. pinv_open HI. cbn in H. inversion H; subst s'; clear H.
  constructor; cbn; auto.
  - eapply below_weaken; [exact Vshn|lia].
  - apply sorted_map_snoc; [exact Vch|]. eapply Forall_impl; [|exact Vchn]. cbn. intros e [He _]. exact He.
  - apply Forall_app. split.
    + eapply Forall_impl; [|exact Vchn]. cbn. intros e [H1 H2]. split; [lia|exact H2].
    + constructor; [|constructor]. cbn. split; [lia|exact Vshn].
  - intros e He. destruct (Vwk e He) as (H1 & H2 & H3). split; [lia|]. split; [exact H2|].
    apply Forall_app. split; [exact H3|]. constructor; [cbn; lia|constructor].
  - intros w Hw. destruct (Vwt w Hw) as (H1 & H2 & H3 & H4 & H5 & H6).
    split; [lia|]. split; [exact H2|]. split; [exact H3|]. split; [|split; assumption].
    apply Forall_app. split; [exact H4|]. constructor; [cbn; lia|constructor].
  - right. unfold nums. cbn. rewrite map_app, !in_app_iff. cbn. right. right. right. left. lia.
  - intros h Hh. destruct (Vhlt h Hh) as (H1 & H2 & H3). split; [exact H1|]. split; [|lia].
    apply Forall_app. split; [exact H2|]. constructor; [cbn; lia|constructor].
Qed.

Lemma step_recv s s' : PInv s -> pstep s PRecv = Some s' -> PInv s'.
Proof.
  intros HI H. pinv_open HI. cbn in H. destruct (wk s) eqn:Hwk; try discriminate.
  destruct (chan s) as [|e r] eqn:Hch; [discriminate|]. inversion H; subst s'; clear H.
  cbn in Vch. inversion Vch as [|? ? Vch' Vhd]; subst. inversion Vchn as [|? ? [He1 He2] Vchn']; subst.
  constructor; cbn; auto; try discriminate.
  - intros e0 He0. unfold wk_req in He0. cbn in He0. inversion He0; subst e0. split; [exact He1|]. split; [exact He2|].
    rewrite Forall_map in Vhd. exact Vhd.
  - intros w Hw. destruct (Vwt w Hw) as (H1 & H2 & H3 & H4 & H5 & H6). inversion H4 as [|? ? H4a H4b]; subst.
    split; [exact H1|]. split; [exact H2|]. split; [|split; [exact H4b|split; assumption]].
    intros e0 He0. unfold wk_req in He0. cbn in He0. inversion He0; subst. exact H4a.
  - destruct Vnew as [V|V]; [left; exact V|right]. unfold nums, wk_req in *. rewrite Hwk, Hch in V. cbn in *. exact V.
  - intros h Hh. destruct (Vhlt h Hh) as (H1 & H2 & H3). inversion H2 as [|? ? H2a H2b]; subst.
    split; [|split; [exact H2b|exact H3]]. intros e0 He0. unfold wk_req in He0. cbn in He0. inversion He0; subst. exact H2a.
  - intros n Hn. destruct (Vtxt n Hn) as [H1 _]. split; [exact H1|]. discriminate.
Qed.

Lemma step_kill s s' : PInv s -> pstep s PKill = Some s' -> PInv s'.
Proof.
  intros HI H. pinv_open HI. cbn in H. unfold nums, wk_req in *.
  destruct (wk s) as [|e|e|e] eqn:Hwk; try discriminate.
  destruct (wt s) as [w|] eqn:Hwt; [|discriminate]. destruct (w_stat w) eqn:Hst; try discriminate.
  destruct (w_done w) eqn:Hd; [discriminate|]. inversion H; subst s'; clear H.
  destruct (Vwt w eq_refl) as (H1 & H2 & H3 & H4 & H5 & H6).
  constructor; unfold nums, wk_req; cbn; auto; try discriminate.
  - intros w0 Hw0. inversion Hw0; subst w0; clear Hw0. cbn.
    split; [exact H1|]. split; [intros _ Hx; congruence|]. split; [exact H3|].
    split; [exact H4|]. split; discriminate.
  - intros n Hn. destruct (Vtxt n Hn) as [Ha _]. split; [exact Ha|]. discriminate.
Qed.

Lemma step_join s s' : PInv s -> pstep s PJoin = Some s' -> PInv s'.
Proof.
  intros HI H. pinv_open HI. cbn in H. unfold nums, wk_req in *.
  destruct (wk s) as [|e|e|e] eqn:Hwk; try discriminate.
  assert (Hs' : s' = {| chan := chan s; wk := WJoined e; wt := None; content := content s; shown := shown s; handled := handled s; next := next s |}).
  { destruct (wt s) as [w|]; [destruct (w_done w); [|discriminate]|]; inversion H; reflexivity. }
  subst s'. clear H.
  constructor; unfold nums, wk_req; cbn; auto; try discriminate.
  intros n Hn. destruct (Vtxt n Hn) as [Ha _]. split; [exact Ha|]. discriminate.
Qed.

Lemma last_in_cons {A} (l : list A) d : In (last l d) (d :: l).
Proof.
  revert d. induction l as [|x l IH]; intros d; [left; reflexivity|].
  destruct l as [|y l]; [right; left; reflexivity|]. change (last (x :: y :: l) d) with (last (y :: l) d).
  destruct (IH d) as [E|E]; [left; exact E|right; right; exact E].
Qed.

Lemma step_drain s s' : PInv s -> pstep s PDrain = Some s' -> PInv s'.
Proof.
  intros HI H. pinv_open HI. cbn in H. unfold nums, wk_req in *.
  destruct (wk s) as [|e|e|e] eqn:Hwk; try discriminate.
  inversion H; subst s'; clear H.
  destruct (Vwk e eq_refl) as (W1 & W2 & W3).
  assert (Hlast : fst (last (chan s) e) < next s /\ below (fst (last (chan s) e)) (shown s)).
  { destruct (last_in_cons (chan s) e) as [E|E]; [rewrite <- E; auto|].
    rewrite Forall_forall in Vchn. apply Vchn. exact E. }
  constructor; unfold nums, wk_req; cbn; auto; try discriminate; try (constructor; fail).
  - intros e0 He0. inversion He0; subst e0.
    destruct Hlast as [L1 L2]. split; [exact L1|]. split; [exact L2|constructor].
  - intros w Hw. congruence.
  - destruct Vnew as [V|V]; [left; exact V|right]. cbn [olist map app] in *.
    apply in_app_iff in V. apply in_app_iff. destruct V as [V|V]; [left; exact V|right].
    cbn. left. destruct V as [V|V].
    + (* e is the newest: the channel is empty *)
      destruct (chan s) as [|c r]; [exact V|]. exfalso. inversion W3 as [|? ? Hc _]; subst.
      inversion Vchn as [|? ? [Hn _] _]; subst. lia.
    + (* the newest is in the channel: it is its last element *)
      apply in_map_iff in V as (x & Hx & Hin).
      assert (Hmax : forall l : list preq, StronglySorted lt (map fst l) -> In x l -> Forall (fun e' => fst e' <= fst x) l -> forall d, last l d = x \/ fst (last l d) = fst x).
      { induction l as [|y l IHl]; intros Hs Hi Hf d; [destruct Hi|].
        cbn in Hs. inversion Hs as [|? ? Hs' Hy]; subst. inversion Hf as [|? ? Hy' Hf']; subst.
        destruct l as [|z l].
        - destruct Hi as [->|[]]. left. reflexivity.
        - change (last (y :: z :: l) d) with (last (z :: l) d). destruct Hi as [->|Hi].
          + exfalso. inversion Hy as [|? ? Hz _]; subst. inversion Hf' as [|? ? Hz' _]; subst. cbn in Hz. lia.
          + apply IHl; assumption. }
      assert (Hf : Forall (fun e' => fst e' <= fst x) (chan s)).
      { eapply Forall_impl; [|exact Vchn]. cbn. intros a [Ha _]. lia. }
      destruct (Hmax (chan s) Vch Hin Hf e) as [E|E]; [rewrite E; exact Hx|rewrite E; exact Hx].
  - intros h Hh. destruct (Vhlt h Hh) as (Ha & Hb & Hc). split; [|split; [constructor|exact Hc]].
    intros e0 He0. inversion He0; subst e0.
    destruct (last_in_cons (chan s) e) as [E|E]; [rewrite <- E; apply Ha; reflexivity|].
    rewrite Forall_forall in Hb. apply Hb. exact E.
  - intros n Hn. destruct (Vtxt n Hn) as [Ha _]. split; [exact Ha|]. discriminate.
Qed.

Lemma last_some_snoc (l : list nat) x : last (map Some (l ++ [x])) None = Some x.
Proof. rewrite map_app. cbn. apply last_snoc. Qed.

Ltac inv_some :=
  repeat match goal with
         | |- forall _ : _, Some _ = Some _ -> _ => let H := fresh "E" in intros ? H; inversion H; subst; clear H; cbn [w_no w_stat w_done fst snd]
         | |- forall _ : _, None = Some _ -> _ => intros; discriminate
         | |- WIdle = WIdle -> _ => intros _
         end.

Lemma step_handle s s' : PInv s -> pstep s PHandle = Some s' -> PInv s'.
Proof.
  intros HI H. pinv_open HI. cbn in H. unfold nums, wk_req in *.
  destruct (wk s) as [|e|e|e] eqn:Hwk; try discriminate.
  destruct (Vwk e eq_refl) as (W1 & W2 & W3).
  assert (Hnew : next s = 0 \/ In (next s - 1) (fst e :: map fst (chan s))).
  { destruct Vnew as [V|V]; [left; exact V|right]. apply in_app_iff in V. destruct V as [V|V]; [|exact V].
    exfalso. destruct (handled s) as [h|] eqn:Hh; [|destruct V]. cbn in V. destruct V as [V|[]].
    destruct (Vhlt h eq_refl) as (Ha & _ & _). specialize (Ha e eq_refl). lia. }
  destruct e as [n k]. cbn [fst snd] in *. destruct k; inversion H; subst s'; clear H.
  - (* command: spawn *)
    constructor; unfold nums, wk_req; cbn; auto; try discriminate; inv_some.
    + repeat split; auto; try discriminate; intros; discriminate.
    + repeat split; auto; intros; discriminate.
    + split; [reflexivity|discriminate].
    + eexists. split; reflexivity.
  - (* text: shown at once *)
    constructor; unfold nums, wk_req; cbn; auto; try discriminate; inv_some.
    + apply sorted_snoc; assumption.
    + apply below_app; assumption.
    + rewrite Forall_forall in *. intros x Hx. destruct (Vchn x Hx) as [H1 H2]. split; [exact H1|].
      apply below_app; [exact H2|]. apply (W3 x Hx).
    + intros w Hw. rewrite Vnowt in Hw. discriminate.
    + symmetry. apply last_some_snoc.
    + repeat split; auto; intros; discriminate.
    + intros w Hw. rewrite Vnowt in Hw. discriminate.
    + split; [apply in_app_iff; right; left; reflexivity|]. intros _. exact Vnowt.
  - (* no-op *)
    constructor; unfold nums, wk_req; cbn; auto; try discriminate; inv_some.
    + intros w Hw. rewrite Vnowt in Hw. discriminate.
    + repeat split; auto; intros; discriminate.
    + intros w Hw. rewrite Vnowt in Hw. discriminate.
Qed.

Lemma step_childexit s s' : PInv s -> pstep s PChildExit = Some s' -> PInv s'.
Proof.
  intros HI H. pinv_open HI. cbn in H. unfold nums, wk_req in *.
  destruct (wt s) as [w|] eqn:Hwt; [|discriminate]. destruct (w_stat w) eqn:Hst; try discriminate.
  destruct (w_done w) eqn:Hd; [discriminate|]. inversion H; subst s'; clear H.
  destruct (Vwt w eq_refl) as (H1 & H2 & H3 & H4 & H5 & H6).
  constructor; unfold nums, wk_req; cbn; auto; try discriminate.
  - intros w0 Hw0. inversion Hw0; subst w0; clear Hw0. cbn.
    split; [exact H1|]. split; [intros _ _; apply H2; [exact Hd|congruence]|]. split; [exact H3|].
    split; [exact H4|]. split; discriminate.
  - intros Hi w0 Hw0. inversion Hw0; subst w0; clear Hw0. cbn. destruct (Vidle Hi w eq_refl) as [Ha _]. split; [exact Ha|discriminate].
  - intros Hi n Hn. destruct (Vcmd Hi n Hn) as (w0 & Hw0 & Hn0). inversion Hw0; subst w0. eexists. split; [reflexivity|exact Hn0].
  - intros n Hn. destruct (Vtxt n Hn) as [Ha Hb]. split; [exact Ha|]. intros Hi. specialize (Hb Hi). discriminate.
  - destruct (wk s); auto; discriminate.
Qed.

Lemma step_waiter s s' : PInv s -> pstep s PWaiter = Some s' -> PInv s'.
Proof.
  intros HI H. pinv_open HI. cbn in H. unfold nums, wk_req in *.
  destruct (wt s) as [w|] eqn:Hwt; [|discriminate]. destruct (w_done w) eqn:Hd; [discriminate|].
  destruct (Vwt w eq_refl) as (H1 & H2 & H3 & H4 & H5 & H6).
  assert (Hnj : match wk s with WJoined _ | WHandle _ => False | _ => True end).
  { destruct (wk s); auto; discriminate. }
  destruct (w_stat w) eqn:Hst; try discriminate; inversion H; subst s'; clear H.
  - (* the child exited by itself: its output is shown *)
    assert (Hb : below (w_no w) (shown s)) by (apply H2; [exact Hd|discriminate]).
    constructor; unfold nums, wk_req; cbn; auto; try discriminate.
    + apply sorted_snoc; assumption.
    + apply below_app; assumption.
    + rewrite Forall_forall in *. intros x Hx. destruct (Vchn x Hx) as [Ha Hc]. split; [exact Ha|].
      apply below_app; [exact Hc|]. apply (H4 x Hx).
    + intros e He. destruct (Vwk e He) as (Ha & Hc & Hd'). split; [exact Ha|]. split; [|exact Hd'].
      apply below_app; [exact Hc|]. apply H3. exact He.
    + intros w0 Hw0. inversion Hw0; subst w0; clear Hw0. cbn. repeat split; auto; try discriminate.
    + symmetry. apply last_some_snoc.
    + intros Hi w0 Hw0. inversion Hw0; subst w0; clear Hw0. cbn. destruct (Vidle Hi w eq_refl) as [Ha _]. split; [exact Ha|discriminate].
    + intros Hi n Hn. destruct (Vcmd Hi n Hn) as (w0 & Hw0 & Hn0). inversion Hw0; subst w0. eexists. split; [reflexivity|exact Hn0].
    + intros n Hn. destruct (Vtxt n Hn) as [Ha Hc]. split; [apply in_app_iff; left; exact Ha|]. intros Hi. specialize (Hc Hi). discriminate.
    + destruct (wk s); auto; contradiction.
  - (* killed: nothing is shown *)
    constructor; unfold nums, wk_req; cbn; auto; try discriminate.
    + intros w0 Hw0. inversion Hw0; subst w0; clear Hw0. cbn. repeat split; auto; try discriminate.
    + intros Hi w0 Hw0. exfalso. destruct (Vidle Hi w eq_refl) as [_ Hk]. congruence.
    + intros Hi n Hn. destruct (Vcmd Hi n Hn) as (w0 & Hw0 & Hn0). inversion Hw0; subst w0. eexists. split; [reflexivity|exact Hn0].
    + intros n Hn. destruct (Vtxt n Hn) as [Ha Hc]. split; [exact Ha|]. intros Hi. specialize (Hc Hi). discriminate.
    + destruct (wk s); auto; contradiction.
Qed.

Theorem pstep_inv s l s' : PInv s -> pstep s l = Some s' -> PInv s'.
Proof.
  intros HI H. destruct l.
  - eapply step_send; eauto.
  - eapply step_recv; eauto.
  - eapply step_kill; eauto.
  - eapply step_join; eauto.
  - eapply step_drain; eauto.
  - eapply step_handle; eauto.
  - eapply step_childexit; eauto.
  - eapply step_waiter; eauto.
Qed.

Theorem prun_inv ls : forall s s', PInv s -> prun s ls = Some s' -> PInv s'.
Proof.
  induction ls as [|l ls IH]; cbn; intros s s' HI H.
  - inversion H; subst; exact HI.
  - destruct (pstep s l) as [s1|] eqn:E; [|discriminate]. eapply IH; [eapply pstep_inv; eauto|exact H].
Qed.

(** * consequences *)
Theorem shown_monotone ls s : prun pinit ls = Some s -> StronglySorted lt (shown s).
Proof. intros H. apply (v_sh s). eapply prun_inv; [apply pinit_inv|exact H]. Qed.

Lemma sorted_last_is_max (l : list nat) n :
  StronglySorted lt l -> In n l -> below (S n) l -> last (map Some l) None = Some n.
Proof.
  induction l as [|x l IH]; intros Hs Hi Hb; [destruct Hi|].
  inversion Hs as [|? ? Hs' Hx]; subst. inversion Hb as [|? ? Hxn Hb']; subst.
  destruct l as [|y l].
  - destruct Hi as [->|[]]. reflexivity.
  - change (last (map Some (x :: y :: l)) None) with (last (map Some (y :: l)) None).
    destruct Hi as [->|Hi]; [|apply IH; assumption].
    exfalso. inversion Hx as [|? ? Hy _]; subst. inversion Hb' as [|? ? Hyn _]; subst. lia.
Qed.

Theorem settled_latest ls s :
  prun pinit ls = Some s -> psettled s -> 0 < next s ->
  exists k, handled s = Some (next s - 1, k) /\ (k <> KNoop -> content s = Some (next s - 1)).
Proof.
  intros Hr (Hc & Hw & Hd) Hn.
  pose proof (prun_inv _ _ _ pinit_inv Hr) as HI. pinv_open HI.
  destruct Vnew as [V|V]; [lia|]. unfold nums, wk_req in V. rewrite Hc, Hw in V. cbn in V. rewrite app_nil_r in V.
  destruct (handled s) as [[n k]|] eqn:Hh; [|destruct V]. cbn in V. destruct V as [V|[]]. subst n.
  exists k. split; [reflexivity|]. intros Hk. destruct k; [| |congruence].
  - destruct (Vcmd Hw _ eq_refl) as (w & Hwt & Hno). rewrite Hwt in Hd.
    destruct (Vwt w Hwt) as (_ & _ & _ & _ & H5 & H6). destruct (Vidle Hw w Hwt) as [_ Hk'].
    rewrite <- Hno. apply H5; [exact Hd|]. specialize (H6 Hd). destruct (w_stat w); congruence.
  - destruct (Vtxt _ eq_refl) as [Hin _]. rewrite Vct. apply sorted_last_is_max; auto.
    replace (S (next s - 1)) with (next s) by lia. exact Vshn.
Qed.

Theorem killed_discarded s s' w :
  pstep s PWaiter = Some s' -> wt s = Some w -> w_stat w = Killed -> content s' = content s /\ shown s' = shown s.
Proof.
  intros H Hw Hk. cbn in H. rewrite Hw in H. destruct (w_done w); [discriminate|]. rewrite Hk in H.
  inversion H; subst. cbn. auto.
Qed.

(** a kill is only ever aimed at the waiter of an older request than the one being served *)
Theorem kill_targets_older ls s e w :
  prun pinit ls = Some s -> wk s = WGot e -> wt s = Some w -> w_no w < fst e.
Proof.
  intros Hr Hk Hw. pose proof (prun_inv _ _ _ pinit_inv Hr) as HI.
  destruct (v_wt s HI w Hw) as (_ & _ & H3 & _). apply H3. unfold wk_req. rewrite Hk. reflexivity.
Qed.

Lemma text_eqb_refl t : text_eqb t t = true.
Proof. apply text_eqb_spec. reflexivity. Qed.

Theorem no_rerun f : on_item_change f (f_item f) (f_query f) (f_cmdq f) (f_nsel f) false = (false, f).
Proof.
  unfold on_item_change.
  assert (H1 : opt_changed N.eqb (f_item f) (f_item f) = false) by (destruct (f_item f); cbn; [rewrite N.eqb_refl|]; reflexivity).
  assert (H2 : opt_changed text_eqb (f_query f) (f_query f) = false) by (destruct (f_query f); cbn; [rewrite text_eqb_refl|]; reflexivity).
  assert (H3 : opt_changed text_eqb (f_cmdq f) (f_cmdq f) = false) by (destruct (f_cmdq f); cbn; [rewrite text_eqb_refl|]; reflexivity).
  rewrite H1, H2, H3, Nat.eqb_refl. reflexivity.
Qed.

Theorem rerun_when_changed f item q cq nsel force :
  fst (on_item_change f item q cq nsel force) = true <->
  force = true \/ opt_changed N.eqb (f_item f) item = true \/ opt_changed text_eqb (f_query f) q = true \/
  opt_changed text_eqb (f_cmdq f) cq = true \/ f_nsel f <> nsel.
Proof.
  unfold on_item_change.
  destruct force, (opt_changed N.eqb (f_item f) item), (opt_changed text_eqb (f_query f) q),
    (opt_changed text_eqb (f_cmdq f) cq), (Nat.eqb_spec (f_nsel f) nsel); cbn; intuition congruence.
Qed.

Theorem scroll_in_range off diff len : 1 <= scroll_down off diff len <= Nat.max (len - 1) 1.
Proof. unfold scroll_down. lia. Qed.

Theorem scroll_init_in_range req len : 1 <= scroll_init req len <= Nat.max (len - 1) 1.
Proof. unfold scroll_init. lia. Qed.

(** * progress: after the last request the previewer settles, within a bounded number of steps *)
Definition nosend (l : plabel) : Prop := match l with PSend _ => False | _ => True end.

Definition wk_weight (w : wphase) : nat := match w with WIdle => 0 | WGot _ => 5 | WJoined _ => 4 | WHandle _ => 3 end.
Definition wt_weight (w : option waiter) : nat :=
  match w with
  | None => 0
  | Some w => if w_done w then 0 else match w_stat w with Running => 2 | _ => 1 end
  end.
Definition prank (s : pst) : nat := 6 * List.length (chan s) + wk_weight (wk s) + wt_weight (wt s).

Lemma pstep_rank s l s' : nosend l -> pstep s l = Some s' -> prank s' < prank s.
Proof.
  intros Hn Hs. unfold prank. destruct l; cbn in Hn; try contradiction; cbn in Hs.
  - destruct (wk s) eqn:Hw; try discriminate. destruct (chan s) as [|e r] eqn:Hc; [discriminate|].
    inversion Hs; subst s'; cbn. lia.
  - destruct (wk s) eqn:Hw; try discriminate. destruct (wt s) as [w|] eqn:Hwt; [|discriminate].
    destruct (w_stat w) eqn:Hst; try discriminate. destruct (w_done w) eqn:Hd; [discriminate|].
    inversion Hs; subst s'; cbn; rewrite ?Hw; cbn; rewrite ?Hd, ?Hst; lia.
  - destruct (wk s) eqn:Hw; try discriminate. destruct (wt s) as [w|] eqn:Hwt.
    + destruct (w_done w) eqn:Hd; [|discriminate]. inversion Hs; subst s'; cbn; rewrite ?Hd; lia.
    + inversion Hs; subst s'; cbn. lia.
  - destruct (wk s) eqn:Hw; try discriminate. inversion Hs; subst s'; cbn. lia.
  - destruct (wk s) as [ |e|e|e] eqn:Hw; try discriminate. destruct (snd e); inversion Hs; subst s'; cbn.
    + destruct (wt_weight (wt s)); lia.
    + lia.
    + lia.
  - destruct (wt s) as [w|] eqn:Hwt; [|discriminate]. destruct (w_stat w) eqn:Hst; try discriminate.
    destruct (w_done w) eqn:Hd; [discriminate|]. inversion Hs; subst s'; cbn; rewrite ?Hd, ?Hst; lia.
  - destruct (wt s) as [w|] eqn:Hwt; [|discriminate]. destruct (w_done w) eqn:Hd; [discriminate|].
    destruct (w_stat w) eqn:Hst; try discriminate; inversion Hs; subst s'; cbn; rewrite ?Hd, ?Hst; lia.
Qed.

(** without further requests every run is at most [prank s] steps long *)
Theorem settles_bounded ls : forall s s', Forall nosend ls -> prun s ls = Some s' -> List.length ls + prank s' <= prank s.
Proof.
  induction ls as [|l r IH]; intros s s' Hf Hr; cbn [prun] in Hr; cbn [List.length].
  - inversion Hr; subst. lia.
  - inversion Hf as [|? ? Hl Hr']; subst. destruct (pstep s l) as [s1|] eqn:Hs; [|discriminate].
    pose proof (pstep_rank _ _ _ Hl Hs). specialize (IH _ _ Hr' Hr). lia.
Qed.

(** and a state that is not settled has an enabled step other than a new request (a running
    child's own exit is one of them: the preview command is assumed to terminate) *)
Theorem unsettled_enabled s : ~ psettled s -> exists l s', nosend l /\ pstep s l = Some s'.
Proof.
  intros Hn. destruct (wk s) as [ |e|e|e] eqn:Hw.
  - destruct (chan s) as [|e r] eqn:Hc.
    + destruct (wt s) as [w|] eqn:Hwt.
      * destruct (w_done w) eqn:Hd.
        -- exfalso. apply Hn. unfold psettled. rewrite Hc, Hw, Hwt. auto.
        -- destruct (w_stat w) eqn:Hst.
           ++ exists PChildExit. eexists. split; [exact I|]. cbn. rewrite Hwt, Hst, Hd. reflexivity.
           ++ exists PWaiter. eexists. split; [exact I|]. cbn. rewrite Hwt, Hd, Hst. reflexivity.
           ++ exists PWaiter. eexists. split; [exact I|]. cbn. rewrite Hwt, Hd, Hst. reflexivity.
      * exfalso. apply Hn. unfold psettled. rewrite Hc, Hw, Hwt. auto.
    + exists PRecv. eexists. split; [exact I|]. cbn. rewrite Hw, Hc. reflexivity.
  - destruct (wt s) as [w|] eqn:Hwt.
    + destruct (w_done w) eqn:Hd.
      * exists PJoin. eexists. split; [exact I|]. cbn. rewrite Hw, Hwt, Hd. reflexivity.
      * destruct (w_stat w) eqn:Hst.
        -- exists PKill. eexists. split; [exact I|]. cbn. rewrite Hw, Hwt, Hst, Hd. reflexivity.
        -- exists PWaiter. eexists. split; [exact I|]. cbn. rewrite Hwt, Hd, Hst. reflexivity.
        -- exists PWaiter. eexists. split; [exact I|]. cbn. rewrite Hwt, Hd, Hst. reflexivity.
    + exists PJoin. eexists. split; [exact I|]. cbn. rewrite Hw, Hwt. reflexivity.
  - exists PDrain. eexists. split; [exact I|]. cbn. rewrite Hw. reflexivity.
  - destruct (snd e) eqn:Hk; exists PHandle; eexists; (split; [exact I|]); cbn; rewrite Hw, Hk; reflexivity.
Qed.
