(** merge_fragments: pointwise law, well-formed output, fuel sufficiency (C17). *)
From SkimV Require Import Common.Base Model.Merge.
Local Open Scope N_scope.

Section Proofs.
  Context {A : Type}.
  Local Notation frag := (A * (N * N))%type.

  (** ordered, non-overlapping, each start <= end, all at or after [lo] *)
  Fixpoint wf_from (lo : N) (l : list frag) : Prop :=
    match l with
    | [] => True
    | (_, (s, e)) :: r => lo <= s /\ s <= e /\ wf_from e r
    end.
  Definition WF (l : list frag) : Prop := wf_from 0 l.

  (** the attribute of the fragment containing character k, if any *)
  Fixpoint den (l : list frag) (k : N) : option A :=
    match l with
    | [] => None
    | (a, (s, e)) :: r => if (s <=? k) && (k <? e) then Some a else den r k
    end.

  (** the iterator's rule: skip fragments ending at or before k, test the first remaining one *)
  Fixpoint lookup (l : list frag) (k : N) : option A :=
    match l with
    | [] => None
    | (a, (s, e)) :: r => if k <? e then (if s <=? k then Some a else None) else lookup r k
    end.

  Lemma wf_weaken lo lo' l : wf_from lo l -> lo' <= lo -> wf_from lo' l.
  Proof. destruct l as [|[a [s e]] r]; cbn; [auto|]. intros (H1 & H2 & H3) H. repeat split; try assumption; lia. Qed.

  Lemma den_below lo l k : wf_from lo l -> k < lo -> den l k = None.
  Proof.
    revert lo; induction l as [|[a [s e]] r IH]; intros lo W Hk; cbn [den]; [reflexivity|].
    destruct W as (H1 & H2 & H3).
    assert (E : (s <=? k) = false) by (apply N.leb_gt; lia). rewrite E. cbn. apply (IH e H3). lia.
  Qed.

  Lemma lookup_den lo l k : wf_from lo l -> lookup l k = den l k.
  Proof.
    revert lo; induction l as [|[a [s e]] r IH]; intros lo W; cbn [lookup den]; [reflexivity|].
    destruct W as (H1 & H2 & H3).
    destruct (k <? e) eqn:E1; destruct (s <=? k) eqn:E2; cbn [andb].
    - reflexivity.
    - symmetry. apply (den_below e r k H3). apply N.ltb_lt in E1. apply N.leb_gt in E2. lia.
    - apply (IH e H3).
    - apply (IH e H3).
  Qed.

  (** * the stateful iterator agrees with [lookup] *)
  Lemma advance_lookup : forall (l : list frag) k k', k <= k' -> lookup (advance l k) k' = lookup l k'.
  Proof.
    induction l as [|[a [s e]] r IH]; intros k k' H; cbn [advance]; [reflexivity|].
    destruct (k <? e) eqn:E; [reflexivity|]. apply N.ltb_ge in E.
    cbn [lookup]. assert (E' : (k' <? e) = false) by (apply N.ltb_ge; lia). rewrite E'. apply IH, H.
  Qed.

  Lemma advance_head (l : list frag) k a s e r : advance l k = (a, (s, e)) :: r -> k < e.
  Proof.
    induction l as [|[a0 [s0 e0]] r0 IH]; cbn [advance]; [discriminate|].
    destruct (k <? e0) eqn:E; [intros H; inversion H; subst; apply N.ltb_lt, E | exact IH].
  Qed.

  Lemma iter_go_lookup : forall n (l : list frag) k,
    iter_go l k n = map (lookup l) (map N.of_nat (seq (N.to_nat k) n)).
  Proof.
    induction n as [|n IH]; intros l k; cbn [iter_go seq map]; [reflexivity|].
    rewrite N2Nat.id. f_equal.
    - rewrite <- (advance_lookup l k k) by lia.
      destruct (advance l k) as [|[a [s e]] r] eqn:E; [reflexivity|]. cbn [lookup].
      pose proof (advance_head l k a s e r E) as H. apply N.ltb_lt in H. rewrite H.
      destruct (s <=? k); reflexivity.
    - rewrite IH. replace (N.to_nat (k + 1)) with (S (N.to_nat k)) by lia.
      apply map_ext_in. intros k' Hk'. apply advance_lookup.
      apply in_map_iff in Hk' as (x & <- & Hx). apply in_seq in Hx. lia.
  Qed.

  Lemma iter_attrs_lookup l n : iter_attrs l n = map (lookup l) (map N.of_nat (seq 0 n)).
  Proof. unfold iter_attrs. rewrite iter_go_lookup. reflexivity. Qed.

  (** * the loop *)
  Definition clip (os : N) (l : list frag) : list frag :=
    map (fun x : frag => let '(oa, (s, e)) := x in (oa, (N.max os s, e))) l.

  (** what the rest of the merge must denote *)
  Definition Spec (os : N) (old new : list frag) (k : N) : option A :=
    match den new k with Some a => Some a | None => den (clip os old) k end.

  Lemma den_clip_ext k os os' (l : list frag) :
    (forall a s e, In (a, (s, e)) l -> s <= k -> k < e -> (os <= k <-> os' <= k)) ->
    den (clip os l) k = den (clip os' l) k.
  Proof.
    induction l as [|[a [s e]] r IH]; intros H; cbn [clip map den]; [reflexivity|].
    fold (clip os r). fold (clip os' r).
    rewrite IH by (intros a0 s0 e0 Hin; apply (H a0 s0 e0 (or_intror Hin))).
    specialize (H a s e (or_introl eq_refl)).
    destruct (N.max os s <=? k) eqn:E1; destruct (N.max os' s <=? k) eqn:E2; destruct (k <? e) eqn:E3; cbn [andb]; try reflexivity.
    - apply N.leb_le in E1. apply N.leb_gt in E2. apply N.ltb_lt in E3. lia.
    - apply N.leb_gt in E1. apply N.leb_le in E2. apply N.ltb_lt in E3. lia.
  Qed.

  Lemma clip_id lo os (l : list frag) : wf_from lo l -> os <= lo -> clip os l = l.
  Proof.
    revert lo; induction l as [|[a [s e]] r IH]; intros lo W H; cbn [clip map]; [reflexivity|].
    destruct W as (H1 & H2 & H3). fold (clip os r). rewrite (IH e H3) by lia.
    replace (N.max os s) with s by lia. reflexivity.
  Qed.

  Lemma clip_max lo os ost (l : list frag) : wf_from lo l -> ost <= lo -> clip (N.max os ost) l = clip os l.
  Proof.
    revert lo; induction l as [|[a [s e]] r IH]; intros lo W H; cbn [clip map]; [reflexivity|].
    destruct W as (H1 & H2 & H3). fold (clip (N.max os ost) r). fold (clip os r). rewrite (IH e H3) by lia.
    replace (N.max (N.max os ost) s) with (N.max os s) by lia. reflexivity.
  Qed.

  Lemma wf_In lo (l : list frag) a s e : wf_from lo l -> In (a, (s, e)) l -> lo <= s /\ s <= e.
  Proof.
    revert lo; induction l as [|[a0 [s0 e0]] r IH]; intros lo W Hin; [destruct Hin|].
    destruct W as (H1 & H2 & H3). destruct Hin as [Hin|Hin]; [inversion Hin; subst; lia|].
    destruct (IH e0 H3 Hin). lia.
  Qed.

  Lemma den_none_head (new' : list frag) na ns ne k : ~ (ns <= k < ne) ->
    den ((na, (ns, ne)) :: new') k = den new' k.
  Proof.
    intros H. cbn [den]. destruct (ns <=? k) eqn:E1; destruct (k <? ne) eqn:E2; cbn [andb]; try reflexivity.
    apply N.leb_le in E1. apply N.ltb_lt in E2. lia.
  Qed.

  Lemma den_head_in (r : list frag) a s e k : s <= k < e -> den ((a, (s, e)) :: r) k = Some a.
  Proof.
    intros H. cbn [den]. assert (E1 : (s <=? k) = true) by (apply N.leb_le; lia).
    assert (E2 : (k <? e) = true) by (apply N.ltb_lt; lia). rewrite E1, E2. reflexivity.
  Qed.

  (** iteration measure: the fourth branch is followed by a consuming one *)
  Definition mu (os : N) (old new : list frag) : nat :=
    (2 * (length old + length new) +
     match old, new with
     | (_, (o_start, _)) :: _, (_, (ns, _)) :: _ => if (ns <=? N.max os o_start)%N then 0 else 1
     | _, _ => 0
     end)%nat.

  Lemma mu_le os old new : (mu os old new <= 2 * (length old + length new) + 1)%nat.
  Proof. unfold mu. destruct old as [|[? [? ?]] ?]; destruct new as [|[? [? ?]] ?]; try lia. destruct (_ <=? _); lia. Qed.

  (** lower bound of everything still to be emitted *)
  Definition lowb (os : N) (old new : list frag) : N :=
    match old, new with
    | (_, (o_start, _)) :: _, (_, (ns, _)) :: _ => N.min ns (N.max os o_start)
    | [], (_, (ns, _)) :: _ => ns
    | (_, (o_start, _)) :: _, [] => N.max os o_start
    | [], [] => 0
    end.

  Definition Pre (os : N) (old new : list frag) : Prop :=
    (exists lo, wf_from lo old) /\ (exists lo, wf_from lo new) /\
    match old with
    | [] => True
    | (_, (o_start, oe)) :: _ =>
        os <= oe /\
        match new with [] => True | (_, (ns, _)) :: _ => os <= ns \/ os <= o_start end
    end.

  Lemma spec_congr (d : option A) (x y : option A) :
    (d = None -> x = y) ->
    match d with Some a => Some a | None => x end = match d with Some a => Some a | None => y end.
  Proof. destruct d; [reflexivity | intros H; apply H; reflexivity]. Qed.

  Lemma go_spec : forall fuel os old new, (mu os old new < fuel)%nat -> Pre os old new ->
    exists r, merge_go fuel os old new = Some r /\ wf_from (lowb os old new) r /\
              forall k, den r k = Spec os old new k.
  Proof.
    induction fuel as [|fuel IH]; intros os old new Hmu HP; [lia|].
    destruct old as [|[oa [ost oe]] old'].
    { (* old exhausted *)
      cbn [merge_go map app]. exists new. split; [destruct new; reflexivity|]. split.
      - destruct HP as (_ & (lo & Wn) & _). destruct new as [|[na [ns ne]] new']; [exact I|].
        cbn [lowb]. destruct Wn as (H1 & H2 & H3). cbn. repeat split; try lia. exact H3.
      - intros k. unfold Spec. cbn [clip map den]. destruct (den new k); reflexivity. }
    destruct new as [|[na [ns ne]] new'].
    { (* new exhausted: the rest of old, clipped *)
      cbn [merge_go]. rewrite app_nil_r. eexists. split; [reflexivity|].
      destruct HP as ((lo & Wo) & _ & (Hoe & _)). destruct Wo as (H1 & H2 & H3). split.
      - cbn [lowb map]. cbn. repeat split; try lia.
        fold (clip os old'). rewrite (clip_id oe os old' H3) by lia. exact H3.
      - intros k. unfold Spec. cbn [den]. reflexivity. }
    (* both non-empty *)
    destruct HP as ((loo & Wo) & (lon & Wn) & (Hoe & HI)).
    destruct Wo as (Ho1 & Ho2 & Wo'). destruct Wn as (Hn1 & Hn2 & Wn').
    assert (WnF : wf_from ns ((na, (ns, ne)) :: new')) by (cbn; repeat split; try lia; exact Wn').
    assert (WoF : wf_from ost ((oa, (ost, oe)) :: old')) by (cbn; repeat split; try lia; exact Wo').
    cbn [merge_go]. set (os1 := N.max os ost).
    assert (Hos1 : os1 <= oe) by (unfold os1; lia).
    assert (Hclip : clip os1 old' = clip os old') by (unfold os1; apply (clip_max oe); [exact Wo' | lia]).
    assert (HclipF : forall o, clip o ((oa, (ost, oe)) :: old') = (oa, (N.max o ost, oe)) :: clip o old') by reflexivity.
    (* Pre for the tail of old with os1 *)
    assert (PreTail : Pre os1 old' ((na, (ns, ne)) :: new')).
    { split; [exists oe; exact Wo'|]. split; [exists ns; exact WnF|].
      destruct old' as [|[oa' [ost' oe']] old'']; [exact I|]. destruct Wo' as (T1 & T2 & T3). split; [lia | right; lia]. }
    assert (LowTail : oe <= ns -> oe <= lowb os1 old' ((na, (ns, ne)) :: new')).
    { intros H. destruct old' as [|[oa' [ost' oe']] old'']; cbn [lowb]; [exact H|]. destruct Wo' as (T1 & T2 & T3). lia. }
    assert (LowTail' : N.min ns os1 <= lowb os1 old' ((na, (ns, ne)) :: new')).
    { destruct old' as [|[oa' [ost' oe']] old'']; cbn [lowb]; lia. }
    destruct ((ns <=? os1) && (oe <=? ne)) eqn:B1.
    - (* skip old *)
      apply andb_true_iff in B1 as [B1a B1b]. apply N.leb_le in B1a. apply N.leb_le in B1b.
      destruct (IH os1 old' ((na, (ns, ne)) :: new')) as (r & Er & Wr & Dr).
      { pose proof (mu_le os1 old' ((na, (ns, ne)) :: new')). unfold mu in Hmu. cbn [length] in *.
        fold os1 in Hmu. assert (Ex : (ns <=? os1) = true) by (apply N.leb_le; exact B1a). rewrite Ex in Hmu. lia. }
      { exact PreTail. }
      exists r. split; [exact Er|]. split.
      + cbn [lowb]. fold os1. eapply wf_weaken; [exact Wr | exact LowTail'].
      + intros k. rewrite Dr. unfold Spec. apply spec_congr. intros Dn.
        rewrite HclipF. fold os1. rewrite Hclip.
        cbn [den]. destruct (os1 <=? k) eqn:E1; destruct (k <? oe) eqn:E2; cbn [andb]; try reflexivity.
        apply N.leb_le in E1. apply N.ltb_lt in E2. rewrite den_head_in in Dn by lia. discriminate.
    - destruct (ns <=? os1) eqn:B2.
      + (* emit new *)
        apply N.leb_le in B2. cbn [andb] in B1. apply N.leb_gt in B1.
        destruct (IH ne ((oa, (ost, oe)) :: old') new') as (r & Er & Wr & Dr).
        { pose proof (mu_le ne ((oa, (ost, oe)) :: old') new'). unfold mu in Hmu. cbn [length] in *.
          fold os1 in Hmu. assert (Ex : (ns <=? os1) = true) by (apply N.leb_le; exact B2). rewrite Ex in Hmu. lia. }
        { split; [exists ost; exact WoF|]. split; [exists ne; exact Wn'|]. split; [lia|].
          destruct new' as [|[na' [ns' ne']] new'']; [exact I|]. destruct Wn' as (T1 & T2 & T3). left; lia. }
        rewrite Er. cbn [option_map]. eexists. split; [reflexivity|]. split.
        * cbn [lowb wf_from]. fold os1. split; [lia|]. split; [lia|].
          eapply wf_weaken; [exact Wr|]. cbn [lowb].
          destruct new' as [|[na' [ns' ne']] new'']; [lia|]. destruct Wn' as (T1 & T2 & T3). lia.
        * intros k. unfold Spec.
          destruct (N.le_gt_cases ns k) as [K1|K1]; [destruct (N.lt_ge_cases k ne) as [K2|K2]|].
          -- rewrite !den_head_in by lia. reflexivity.
          -- rewrite !den_none_head by lia. rewrite Dr. unfold Spec. apply spec_congr. intros _.
             apply den_clip_ext. intros a s e Hin Hs He. destruct (wf_In _ _ _ _ _ WoF Hin). split; intros; lia.
          -- rewrite !den_none_head by lia. rewrite Dr. unfold Spec. apply spec_congr. intros _.
             symmetry. apply den_clip_ext. intros a s e Hin Hs He. destruct (wf_In _ _ _ _ _ WoF Hin).
             unfold os1 in B2. split; intros; lia.
      + apply N.leb_gt in B2. destruct (oe <=? ns) eqn:B3.
        * (* emit old *)
          apply N.leb_le in B3.
          destruct (IH os1 old' ((na, (ns, ne)) :: new')) as (r & Er & Wr & Dr).
          { pose proof (mu_le os1 old' ((na, (ns, ne)) :: new')). unfold mu in Hmu. cbn [length] in *.
            fold os1 in Hmu. assert (Ex : (ns <=? os1) = false) by (apply N.leb_gt; exact B2). rewrite Ex in Hmu. lia. }
          { exact PreTail. }
          rewrite Er. cbn [option_map]. eexists. split; [reflexivity|]. split.
          -- cbn [lowb wf_from]. fold os1. split; [lia|]. split; [lia|]. eapply wf_weaken; [exact Wr | apply LowTail, B3].
          -- intros k. unfold Spec. rewrite HclipF. fold os1.
             destruct (N.le_gt_cases os1 k) as [K1|K1]; [destruct (N.lt_ge_cases k oe) as [K2|K2]|].
             ++ rewrite (den_below ns _ k WnF) by lia. rewrite !den_head_in by lia. reflexivity.
             ++ rewrite (den_none_head r oa os1 oe k) by lia. rewrite (den_none_head (clip os old') oa os1 oe k) by lia.
                rewrite Dr. unfold Spec. rewrite Hclip. reflexivity.
             ++ rewrite (den_none_head r oa os1 oe k) by lia. rewrite (den_none_head (clip os old') oa os1 oe k) by lia.
                rewrite Dr. unfold Spec. rewrite Hclip. reflexivity.
        * (* emit the left part of old *)
          apply N.leb_gt in B3.
          destruct (IH ns ((oa, (ost, oe)) :: old') ((na, (ns, ne)) :: new')) as (r & Er & Wr & Dr).
          { unfold mu in *. cbn [length] in *. fold os1 in Hmu.
            assert (Ex : (ns <=? os1) = false) by (apply N.leb_gt; exact B2). rewrite Ex in Hmu.
            assert (Ey : (ns <=? N.max ns ost) = true) by (apply N.leb_le; lia). rewrite Ey. lia. }
          { split; [exists ost; exact WoF|]. split; [exists ns; exact WnF|]. split; [lia | left; lia]. }
          rewrite Er. cbn [option_map]. eexists. split; [reflexivity|]. split.
          -- cbn [lowb wf_from]. fold os1. split; [lia|]. split; [lia|]. eapply wf_weaken; [exact Wr|]. cbn [lowb]. lia.
          -- intros k. unfold Spec. rewrite HclipF. fold os1.
             destruct (N.le_gt_cases os1 k) as [K1|K1]; [destruct (N.lt_ge_cases k ns) as [K2|K2]|].
             ++ rewrite (den_below ns _ k WnF) by lia. rewrite !den_head_in by lia. reflexivity.
             ++ rewrite (den_none_head _ oa os1 ns k) by lia. rewrite Dr. unfold Spec.
                apply spec_congr. intros _.
                change ((oa, (os1, oe)) :: clip os old') with (clip os ((oa, (ost, oe)) :: old')). symmetry. apply den_clip_ext. intros a s e Hin Hs He.
                destruct (wf_In _ _ _ _ _ WoF Hin). unfold os1 in *. split; intros; lia.
             ++ rewrite (den_none_head _ oa os1 ns k) by lia. rewrite Dr. unfold Spec.
                apply spec_congr. intros _.
                change ((oa, (os1, oe)) :: clip os old') with (clip os ((oa, (ost, oe)) :: old')). symmetry. apply den_clip_ext. intros a s e Hin Hs He.
                destruct (wf_In _ _ _ _ _ WoF Hin). unfold os1 in *. split; intros; lia.
  Qed.

  (** * the theorem *)
  Lemma merge_spec old new : WF old -> WF new ->
    exists r, merge_fragments old new = Some r /\ WF r /\
      forall k, lookup r k = match lookup new k with Some a => Some a | None => lookup old k end.
  Proof.
    intros Wo Wn. unfold merge_fragments, merge_fuel.
    destruct (go_spec (2 * (length old + length new) + 2)%nat 0 old new) as (r & Er & Wr & Dr).
    - pose proof (mu_le 0 old new). lia.
    - split; [exists 0; exact Wo|]. split; [exists 0; exact Wn|].
      destruct old as [|[oa [ost oe]] old']; [exact I|]. split; [lia|]. destruct new as [|[na [ns ne]] new']; [exact I | left; lia].
    - exists r. split; [exact Er|]. assert (Wr0 : WF r) by (eapply wf_weaken; [exact Wr | lia]).
      split; [exact Wr0|]. intros k.
      rewrite (lookup_den 0 r k Wr0), (lookup_den 0 new k Wn), (lookup_den 0 old k Wo), Dr. unfold Spec.
      rewrite (clip_id 0 0 old Wo) by lia. reflexivity.
  Qed.
  (** * consequences: what is displayed, repeated and successive highlights, override_attrs *)
  Definition over (hi lo : option A) : option A := match hi with Some a => Some a | None => lo end.

  (** what the character iterator shows for the first n characters of the merged line *)
  Lemma merge_displayed old new n : WF old -> WF new ->
    exists r, merge_fragments old new = Some r /\
      iter_attrs r n = map (fun k => over (lookup new k) (lookup old k)) (map N.of_nat (seq 0 n)).
  Proof.
    intros Wo Wn. destruct (merge_spec old new Wo Wn) as (r & Er & _ & Dr). exists r. split; [exact Er|].
    rewrite iter_attrs_lookup. apply map_ext. intros k. apply Dr.
  Qed.

  (** two successive layers: the later wins, then the earlier, then the colours of the text *)
  Lemma merge_two_layers old h1 h2 : WF old -> WF h1 -> WF h2 ->
    exists r1 r2, merge_fragments old h1 = Some r1 /\ merge_fragments r1 h2 = Some r2 /\ WF r2 /\
      forall k, lookup r2 k = over (lookup h2 k) (over (lookup h1 k) (lookup old k)).
  Proof.
    intros Wo W1 W2. destruct (merge_spec old h1 Wo W1) as (r1 & E1 & Wr1 & D1).
    destruct (merge_spec r1 h2 Wr1 W2) as (r2 & E2 & Wr2 & D2).
    exists r1, r2. split; [exact E1|]. split; [exact E2|]. split; [exact Wr2|].
    intros k. rewrite D2, D1. reflexivity.
  Qed.

  (** laying the same highlights a second time changes no character *)
  Lemma merge_idempotent old new : WF old -> WF new ->
    exists r1 r2, merge_fragments old new = Some r1 /\ merge_fragments r1 new = Some r2 /\
      forall k, lookup r2 k = lookup r1 k.
  Proof.
    intros Wo Wn. destruct (merge_two_layers old new new Wo Wn Wn) as (r1 & r2 & E1 & E2 & _ & D).
    destruct (merge_spec old new Wo Wn) as (r1' & E1' & _ & D1).
    rewrite E1 in E1'. injection E1' as <-.
    exists r1, r2. split; [exact E1|]. split; [exact E2|].
    intros k. rewrite D, D1. unfold over. destruct (lookup new k); reflexivity.
  Qed.

  (** no highlight ranges: nothing changes, character by character; no colours: the highlights alone *)
  Lemma merge_nil_new old : WF old ->
    exists r, merge_fragments old [] = Some r /\ forall k, lookup r k = lookup old k.
  Proof.
    intros Wo. destruct (merge_spec old [] Wo I) as (r & Er & _ & Dr). exists r. split; [exact Er|].
    intros k. rewrite Dr. reflexivity.
  Qed.
  Lemma merge_nil_old new : WF new ->
    exists r, merge_fragments [] new = Some r /\ forall k, lookup r k = lookup new k.
  Proof.
    intros Wn. destruct (merge_spec [] new I Wn) as (r & Er & _ & Dr). exists r. split; [exact Er|].
    intros k. rewrite Dr. cbn. destruct (lookup new k); reflexivity.
  Qed.

  (** AnsiString::override_attrs on the optional fragment list of the string *)
  Definition WFo (c : option (list frag)) : Prop := match c with None => True | Some l => WF l end.
  Definition lookupo (c : option (list frag)) (k : N) : option A :=
    match c with None => None | Some l => lookup l k end.
  Lemma override_spec cur attrs : WFo cur -> WF attrs ->
    exists r, override_attrs cur attrs = Some r /\ WFo r /\
      forall k, lookupo r k = over (lookup attrs k) (lookupo cur k).
  Proof.
    intros Wc Wa. unfold override_attrs. destruct attrs as [|f attrs'].
    - exists cur. split; [reflexivity|]. split; [exact Wc|]. intros k. reflexivity.
    - destruct cur as [c|].
      + destruct (merge_spec c (f :: attrs') Wc Wa) as (r & Er & Wr & Dr).
        exists (Some r). rewrite Er. split; [reflexivity|]. split; [exact Wr|]. exact Dr.
      + exists (Some (f :: attrs')). split; [reflexivity|]. split; [exact Wa|].
        intros k. cbn [lookupo]. unfold over. destruct (lookup (f :: attrs') k); reflexivity.
  Qed.
End Proofs.
