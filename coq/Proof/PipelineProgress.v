(** Progress of the pipeline (the second sentence of C01, the "is eventually taken" side of C14):
    after the source has ended, with no keystroke and no command change in flight, every weakly
    fair execution comes to rest -- event loop idle, nothing queued or armed, no matcher outstanding,
    the pool fully handed out -- and at rest the -1/-0 decision has been taken.  The ranking is the
    one synthesised over the finite abstraction (Model/PipelineAbs.v); what is used of it is checked
    here over every abstract state of the computed reachable set. *)
From SkimV Require Import Common.Base Model.Pipeline Model.PipelineAbs Proof.Pipeline Proof.PipelineAbs Proof.Fair.
From Coq Require Import Permutation.
From Coq Require Import FMapPositive.

Lemma rank_ok_all : forallb rank_ok reach_list = true.
Proof. vm_compute. reflexivity. Qed.

Lemma decided_ok_all : forallb decided_ok reach_list = true.
Proof. vm_compute. reflexivity. Qed.

Lemma rank_left_none : snd rank_pair = [].
Proof. reflexivity. Qed.

Lemma rank_ok_in a : In a reach_list -> rank_ok a = true.
Proof. pose proof rank_ok_all as H. rewrite forallb_forall in H. apply H. Qed.

Lemma alabel_eqb_refl x : alabel_eqb x x = true.
Proof. destruct x; reflexivity. Qed.
Lemma alabel_eqb_eq x y : alabel_eqb x y = true -> x = y.
Proof. destruct x, y; cbn; intros H; try reflexivity; discriminate. Qed.

(** the concrete label of an internal abstract label *)
Definition clab (h : alabel) : label :=
  match h with
  | ALMLoad => LMLoad | ALMTake => LMTake | ALMPublish => LMPublish | ALMNotify => LMNotify | ALMFlag => LMFlag
  | ALMExit => LMExit | ALLingerExit => LLingerExit | ALTimer => LTimer | ALHb => LHb | _ => LMain
  end.

Lemma istep_internal a h : istep a h <> [] -> In h ilabels /\ alab (clab h) = h.
Proof. destruct h; cbn; intros H; try (exfalso; apply H; reflexivity); split; try reflexivity; tauto. Qed.

Section Progress.
  Variable nres : nat.
  Variable ncie : bool.
  Variable mp : N -> item -> bool.
  Local Notation step := (step nres ncie mp).
  Local Notation run := (run nres ncie mp).

  (** the steps considered: no keystroke, no further input, no spurious heartbeat *)
  Definition inner (s : st) (l : label) : Prop :=
    match l with LPush | LEof | LQuery _ | LCmd _ => False | LHb => 0 < hbq s | _ => True end.
  Definition at_rest (s : st) : bool := agood (alpha s).
  Definition in_region (s : st) : Prop := In (alpha s) reach_list /\ region (alpha s) = true.
  Definition prank (s : st) : nat := arank (alpha s).
  Definition phelp (s : st) : label := clab (ahelp (alpha s)).

  Lemma inner_istep s l : inner s l -> istep (alpha s) (alab l) = astep (alpha s) (alab l) /\ In (alab l) ilabels.
  Proof.
    destruct l; cbn [inner alab]; intros H; try contradiction; (split; [|cbn; tauto]); try reflexivity.
    cbn [istep]. replace (a_hb (alpha s)) with true; [reflexivity|].
    symmetry. unfold alpha; cbn. destruct (hbq s); [lia|reflexivity].
  Qed.

  Lemma region_ok s : in_region s -> at_rest s = false ->
    nonempty (istep (alpha s) (ahelp (alpha s))) = true /\
    forall l a', In l ilabels -> In a' (istep (alpha s) l) ->
      region a' = true /\
      (agood a' = true \/ arank a' < arank (alpha s) \/
       (alabel_eqb l (ahelp (alpha s)) = false /\ arank a' = arank (alpha s) /\ ahelp a' = ahelp (alpha s))).
  Proof.
    intros [Hin Hreg] Hg. pose proof (rank_ok_in _ Hin) as H. unfold rank_ok in H. unfold at_rest in Hg.
    rewrite Hreg, Hg in H. cbn [negb orb] in H. apply andb_true_iff in H as [H1 H2]. split; [exact H1|].
    intros l a' Hl Ha. rewrite forallb_forall in H2. specialize (H2 l Hl). rewrite forallb_forall in H2. specialize (H2 a' Ha).
    apply andb_true_iff in H2 as [Hr H2]. split; [exact Hr|].
    apply orb_true_iff in H2 as [H2|H2]; [apply orb_true_iff in H2 as [H2|H2]|].
    - left. exact H2.
    - right. left. apply Nat.ltb_lt. exact H2.
    - right. right. apply andb_true_iff in H2 as [H2 H3]. apply andb_true_iff in H2 as [H2 H4].
      split; [destruct (alabel_eqb l (ahelp (alpha s))); [discriminate|reflexivity]|].
      split; [apply Nat.eqb_eq; exact H4|apply alabel_eqb_eq; exact H3].
  Qed.

  Lemma help_enabled s : in_region s -> at_rest s = false -> inner s (phelp s) /\ exists s', step s (phelp s) = Some s'.
  Proof.
    intros HP Hg. destruct (region_ok s HP Hg) as [Hne _].
    assert (Hn : istep (alpha s) (ahelp (alpha s)) <> []) by (intros E; rewrite E in Hne; discriminate).
    destruct (istep_internal _ _ Hn) as [Hil Hal]. unfold phelp.
    assert (Hinner : inner s (clab (ahelp (alpha s)))).
    { destruct (ahelp (alpha s)) eqn:Hh; cbn; auto.
      cbn [istep] in Hn. destruct (a_hb (alpha s)) eqn:Hb; [|exfalso; apply Hn; reflexivity].
      unfold alpha in Hb; cbn in Hb. destruct (hbq s); [discriminate|lia]. }
    split; [exact Hinner|].
    destruct (step s (clab (ahelp (alpha s)))) as [s'|] eqn:Hs; [exists s'; reflexivity|].
    exfalso. apply enabled_exact in Hs. rewrite Hal in Hs.
    destruct (inner_istep _ _ Hinner) as [He _]. rewrite Hal in He. rewrite He in Hn. apply Hn. exact Hs.
  Qed.

  Lemma inner_step s l s' : in_region s -> at_rest s = false -> inner s l -> step s l = Some s' ->
    in_region s' /\ (at_rest s' = true \/ prank s' < prank s \/ (l <> phelp s /\ prank s' = prank s /\ phelp s' = phelp s)).
  Proof.
    intros HP Hg Hi Hs. destruct (region_ok s HP Hg) as [Hne Hall].
    assert (Hn : istep (alpha s) (ahelp (alpha s)) <> []) by (intros E; rewrite E in Hne; discriminate).
    destruct (istep_internal _ _ Hn) as [_ Hal].
    destruct (inner_istep _ _ Hi) as [He Hl].
    pose proof (sim nres ncie mp _ _ _ Hs) as Hsim. rewrite <- He in Hsim.
    destruct (Hall _ _ Hl Hsim) as [Hr Hc]. split.
    - split; [|exact Hr]. destruct HP as [Hin _]. eapply reach_closed; [exact Hin|]. apply (sim nres ncie mp). exact Hs.
    - unfold at_rest, prank, phelp. destruct Hc as [Hc | [Hc | (Hc1 & Hc2 & Hc3)]]; auto.
      right. right. split; [|split; [exact Hc2|rewrite Hc3; reflexivity]].
      intros E. subst l. rewrite Hal in Hc1. rewrite alabel_eqb_refl in Hc1. discriminate.
  Qed.

  (** Every weakly fair execution of internal steps from a reachable state in which the source has
      ended and no command change is in flight comes to rest. *)
  Theorem comes_to_rest (sigma : nat -> st) (lam : nat -> option label) :
    in_region (sigma 0) -> exec st label step inner sigma lam -> wfair st label step inner sigma lam ->
    exists t, in_region (sigma t) /\ at_rest (sigma t) = true.
  Proof.
    intros HP He Hf.
    exact (fair_reaches st label step at_rest prank phelp in_region inner help_enabled inner_step sigma lam He Hf HP).
  Qed.

  Theorem reachable_region source q0 a b c ls s :
    run (init source q0 a b c) ls = Some s -> alive s = false -> no_cmd (map amop_of (pc s)) = true -> in_region s.
  Proof.
    intros Hr Ha Hc. split; [eapply reachable_abs; exact Hr|].
    unfold region. change (a_alive (alpha s)) with (alive s). change (a_pc (alpha s)) with (map amop_of (pc s)).
    rewrite Ha, Hc. reflexivity.
  Qed.

  (** at rest, with -1 / -0 / sync still pending, the decision has been taken *)
  Theorem rest_decided s : In (alpha s) reach_list -> at_rest s = true -> f1 s || f0 s || fsync s = true -> decided s <> None.
  Proof.
    intros Hin Hg Hf. pose proof decided_ok_all as H. rewrite forallb_forall in H. specialize (H _ Hin).
    unfold decided_ok in H. unfold at_rest in Hg. rewrite Hg in H.
    replace (a_flags (alpha s)) with true in H by (symmetry; exact Hf). cbn in H.
    destruct (decided s); [discriminate|discriminate].
  Qed.

  Theorem reachable_rest_decided source q0 a b c ls s :
    run (init source q0 a b c) ls = Some s -> at_rest s = true -> f1 s || f0 s || fsync s = true -> decided s <> None.
  Proof. intros Hr. apply rest_decided. exact (reachable_abs nres ncie mp _ _ _ _ _ _ _ Hr). Qed.

  Lemma rest_fields s : at_rest s = true ->
    pc s = [] /\ mt s = None /\ alive s = false /\ rbuf s = [] /\ consumed s = true /\ hbq s = 0 /\ timer s = false.
  Proof.
    unfold at_rest, agood, alpha; cbn. intros H.
    repeat (apply andb_true_iff in H; destruct H as [H ?]).
    destruct (pc s); [|discriminate]. destruct (mt s); [discriminate|]. destruct (alive s); [discriminate|].
    destruct (rbuf s); [|discriminate]. destruct (timer s); [discriminate|].
    destruct (hbq s); [|discriminate]. repeat split; auto.
  Qed.

  (** * executions that exist: a finite run of internal steps ending in a state where no internal
      step is enabled, continued by doing nothing, is an execution and is weakly fair *)
  Definition inner_b (s : st) (l : label) : bool :=
    match l with LPush | LEof | LQuery _ | LCmd _ => false | LHb => (0 <? hbq s)%nat | _ => true end.
  Lemma inner_b_ok s l : inner_b s l = true -> inner s l.
  Proof. destruct l; cbn; intros H; try discriminate; auto. apply Nat.ltb_lt. exact H. Qed.

  Fixpoint state_at (ls : list label) (s : st) (t : nat) : st :=
    match t, ls with
    | S t', l :: r => match step s l with Some s' => state_at r s' t' | None => s end
    | _, _ => s
    end.
  Fixpoint all_inner (ls : list label) (s : st) : bool :=
    match ls with
    | [] => true
    | l :: r => inner_b s l && match step s l with Some s' => all_inner r s' | None => false end
    end.
  Definition dead (s : st) : Prop := forall l, inner s l -> step s l = None.

  Lemma finite_exec ls : forall s, all_inner ls s = true ->
    exec st label step inner (state_at ls s) (nth_error ls).
  Proof.
    induction ls as [|l r IH]; intros s Ha t.
    - destruct t; reflexivity.
    - cbn in Ha. apply andb_true_iff in Ha as [Hi Hr]. destruct (step s l) as [s'|] eqn:Hs; [|discriminate].
      destruct t as [|t].
      + cbn. rewrite Hs. split; [apply inner_b_ok; exact Hi|]. destruct r; reflexivity.
      + specialize (IH s' Hr t). cbn [nth_error]. cbn [state_at]. rewrite Hs.
        destruct (nth_error r t) as [l'|] eqn:Hn.
        * destruct IH as [H1 H2]. split; [exact H1|]. rewrite H2. destruct r; [destruct t; discriminate|reflexivity].
        * rewrite <- IH. destruct r; reflexivity.
  Qed.

  Lemma state_at_end ls : forall s s', run s ls = Some s' -> forall t, List.length ls <= t -> state_at ls s t = s'.
  Proof.
    induction ls as [|l r IH]; cbn; intros s s' Hr t Ht.
    - inversion Hr; subst. destruct t; reflexivity.
    - destruct (step s l) as [s1|] eqn:Hs; [|discriminate]. destruct t as [|t]; [lia|]. apply (IH s1 s' Hr). lia.
  Qed.

  Lemma finite_fair ls s s' : run s ls = Some s' -> dead s' -> wfair st label step inner (state_at ls s) (nth_error ls).
  Proof.
    intros Hr Hd l t. exists (Nat.max t (List.length ls)). split; [lia|]. right.
    rewrite (state_at_end ls s s' Hr) by lia. apply Hd.
  Qed.

  (** * along an execution *)
  Lemma exec_inv sigma lam : exec st label step inner sigma lam -> Inv nres ncie mp (sigma 0) -> forall t, Inv nres ncie mp (sigma t).
  Proof.
    intros He H0 t. induction t as [|t IH]; [exact H0|].
    specialize (He t). destruct (lam t) as [l|].
    - destruct He as [_ Hs]. exact (step_inv nres ncie mp _ _ _ IH Hs).
    - rewrite He. exact IH.
  Qed.

  (** the flags change only in the step that records a decision *)
  Lemma step_undecided s l s' : step s l = Some s' -> decided s' = None ->
    decided s = None /\ f1 s' = f1 s /\ f0 s' = f0 s /\ fsync s' = fsync s.
  Proof.
    intros Hs Hd. destruct l; cbn in Hs; unfold step_matcher, exec_main, set_q, upd_pc, upd_mt in Hs;
      repeat match type of Hs with
             | context [match ?x with _ => _ end] => destruct x
             | context [if ?x then _ else _] => destruct x
             end; try discriminate; inversion Hs; subst s'; cbn in *; auto; try discriminate.
  Qed.

  Lemma exec_undecided sigma lam : exec st label step inner sigma lam -> forall t, decided (sigma t) = None ->
    decided (sigma 0) = None /\ f1 (sigma t) = f1 (sigma 0) /\ f0 (sigma t) = f0 (sigma 0) /\ fsync (sigma t) = fsync (sigma 0).
  Proof.
    intros He t. induction t as [|t IH]; intros Hd; [auto|].
    specialize (He t). destruct (lam t) as [l|].
    - destruct He as [_ Hs]. destruct (step_undecided _ _ _ Hs Hd) as (H0 & H1 & H2 & H3).
      destruct (IH H0) as (G0 & G1 & G2 & G3). repeat split; congruence.
    - rewrite He in *. exact (IH Hd).
  Qed.

  Lemma run_undecided ls : forall s s', run s ls = Some s' -> decided s' = None ->
    decided s = None /\ f1 s' = f1 s /\ f0 s' = f0 s /\ fsync s' = fsync s.
  Proof.
    induction ls as [|l r IH]; cbn; intros s s' Hr Hd.
    - inversion Hr; subst. auto.
    - destruct (step s l) as [s1|] eqn:Hs; [|discriminate].
      destruct (IH _ _ Hr Hd) as (H0 & H1 & H2 & H3). destruct (step_undecided _ _ _ Hs H0) as (G0 & G1 & G2 & G3).
      repeat split; congruence.
  Qed.

  Lemma rest_quiescent s : Inv nres ncie mp s -> at_rest s = true -> quiescent s /\ hbq s = 0 /\ timer s = false.
  Proof.
    intros HI Hg. destruct (rest_fields s Hg) as (H1 & H2 & H3 & H4 & H5 & H6 & H7).
    split; [|auto]. unfold quiescent. repeat split; auto.
    pose proof (iB _ _ _ _ HI) as Hb. unfold consumed in H5. apply Nat.eqb_eq in H5. lia.
  Qed.

  (** the whole statement: from a reachable state in which the source has ended (no command change
      in flight), every weakly fair execution without keystrokes reaches a quiescent state with
      nothing queued or armed, where the list is the complete result and a pending -1/-0/sync has
      been decided *)
  Theorem fair_quiescence source q0 a b c ls s0 (sigma : nat -> st) (lam : nat -> option label) :
    run (init source q0 a b c) ls = Some s0 -> alive s0 = false -> no_cmd (map amop_of (pc s0)) = true ->
    sigma 0 = s0 ->
    exec st label step inner sigma lam -> wfair st label step inner sigma lam ->
    exists t, quiescent (sigma t) /\ hbq (sigma t) = 0 /\ timer (sigma t) = false /\
              (ncie = false -> Permutation (L (sigma t)) (complete nres mp (sigma t))) /\
              (a || b || c = true -> decided (sigma t) <> None).
  Proof.
    intros Hr Ha Hc H0 He Hf. subst s0.
    pose proof (reachable_region _ _ _ _ _ _ _ Hr Ha Hc) as HP.
    destruct (comes_to_rest sigma lam HP He Hf) as (t & [Hin _] & Hg).
    pose proof (exec_inv sigma lam He (reachable_inv nres ncie mp _ _ _ _ _ _ _ Hr) t) as HI.
    destruct (rest_quiescent _ HI Hg) as (Hq & Hh & Ht).
    exists t. split; [exact Hq|]. split; [exact Hh|]. split; [exact Ht|]. split.
    - intros Hn. subst ncie. exact (quiescent_exact nres false mp _ HI Hq eq_refl).
    - intros Habc Hd.
      destruct (exec_undecided sigma lam He t Hd) as (D0 & F1 & F2 & F3).
      destruct (run_undecided ls _ _ Hr D0) as (_ & G1 & G2 & G3). cbn in G1, G2, G3.
      apply (rest_decided _ Hin Hg); [|exact Hd]. rewrite F1, F2, F3, G1, G2, G3. exact Habc.
  Qed.

  Corollary fair_decision source q0 a b c ls s0 (sigma : nat -> st) (lam : nat -> option label) :
    run (init source q0 a b c) ls = Some s0 -> alive s0 = false -> no_cmd (map amop_of (pc s0)) = true ->
    sigma 0 = s0 -> a || b || c = true ->
    exec st label step inner sigma lam -> wfair st label step inner sigma lam ->
    exists t, decided (sigma t) <> None.
  Proof.
    intros Hr Ha Hc H0 Habc He Hf.
    destruct (fair_quiescence _ _ _ _ _ _ _ _ _ Hr Ha Hc H0 He Hf) as (t & _ & _ & _ & _ & Hd).
    exists t. exact (Hd Habc).
  Qed.

  (** * the reader as well: from any reachable state (the source still producing), with no keystroke
      and no command change in flight, every weakly fair execution -- the reader thread included --
      first sees the source end and then comes to rest *)
  Definition inner2 (s : st) (l : label) : Prop :=
    match l with LQuery _ | LCmd _ => False | LHb => 0 < hbq s | _ => True end.
  Definition nocmd (s : st) : Prop := no_cmd (map amop_of (pc s)) = true.

  Lemma inner_inner2 s l : inner s l -> inner2 s l.
  Proof. destruct l; cbn; auto. Qed.

  Lemma no_cmd_app a b : no_cmd (a ++ b) = no_cmd a && no_cmd b.
  Proof. unfold no_cmd. apply forallb_app. Qed.

  Lemma step_reader_frame s l s' : nocmd s -> inner2 s l -> step s l = Some s' ->
    nocmd s' /\
    (l = LPush -> alive s = true /\ alive s' = true /\ List.length (src s') < List.length (src s)) /\
    (l = LEof -> alive s = true /\ alive s' = false) /\
    (l <> LPush -> l <> LEof -> alive s' = alive s /\ src s' = src s).
  Proof.
    unfold nocmd. intros Hn Hi Hs. destruct l; cbn in Hi; try contradiction; cbn in Hs.
    - destruct (alive s) eqn:Ha; [|discriminate]. destruct (src s) as [|x r] eqn:Hsr; [discriminate|].
      inversion Hs; subst s'; clear Hs. cbn. repeat split; auto; try congruence; try lia.
    - destruct (alive s) eqn:Ha; [|discriminate]. destruct (src s) as [|x r] eqn:Hsr; [|discriminate].
      inversion Hs; subst s'; clear Hs. cbn. repeat split; auto; try congruence.
    - unfold step_matcher in Hs. destruct (mt s) as [m|]; [|discriminate]. destruct (ph m); try discriminate. inversion Hs; subst; cbn. repeat split; auto; congruence.
    - unfold step_matcher in Hs. destruct (mt s) as [m|]; [|discriminate]. destruct (ph m); try discriminate. destruct (locked s); [discriminate|]. inversion Hs; subst; cbn. repeat split; auto; congruence.
    - unfold step_matcher in Hs. destruct (mt s) as [m|]; [|discriminate]. destruct (ph m); try discriminate. inversion Hs; subst; cbn. repeat split; auto; congruence.
    - unfold step_matcher in Hs. destruct (mt s) as [m|]; [|discriminate]. destruct (ph m); try discriminate. inversion Hs; subst; cbn. repeat split; auto; congruence.
    - unfold step_matcher in Hs. destruct (mt s) as [m|]; [|discriminate]. destruct (ph m); try discriminate. inversion Hs; subst; cbn. repeat split; auto; congruence.
    - unfold step_matcher in Hs. destruct (mt s) as [m|]; [|discriminate]. destruct (ph m); try discriminate. inversion Hs; subst; cbn. repeat split; auto; congruence.
    - destruct (linger s); [|discriminate]. inversion Hs; subst; cbn. repeat split; auto; congruence.
    - destruct (timer s); [|discriminate]. inversion Hs; subst; cbn. repeat split; auto; congruence.
    - (* the event loop: no command change is pending, so the source stays as it is *)
      unfold exec_main in Hs. destruct (pc s) as [|op rest] eqn:Hpc; [discriminate|].
      unfold no_cmd in Hn. cbn [map forallb] in Hn. apply andb_true_iff in Hn as [Hop Hrest].
      assert (Hfin : forall p, forallb (fun o => match o with AKillC | AJoinC => false | _ => true end) (map amop_of p) = true ->
                               no_cmd (map amop_of (p ++ rest)) = true).
      { intros p Hp. unfold no_cmd. rewrite map_app, forallb_app, Hp, Hrest. reflexivity. }
      destruct op as [ |sv|r|r| | |c|c r| | |sr|sr]; cbn [amop_of] in Hop; try discriminate.
      + inversion Hs; subst. split; [apply (Hfin [HbReadR _]); reflexivity|]. cbn. repeat split; auto; congruence.
      + inversion Hs; subst. split; [destruct sv; [apply (Hfin [HbHarvest _; HbReadC _]) | apply (Hfin [HbReadC _])]; reflexivity|]. cbn. repeat split; auto; congruence.
      + destruct (mt s) as [m|]; [|discriminate]. destruct (flag m); [|discriminate]. inversion Hs; subst.
        split; [apply (Hfin []); reflexivity|]. cbn. repeat split; auto; congruence.
      + inversion Hs; subst. split; [|cbn; repeat split; auto; congruence]. cbn [pc].
        destruct (negb (r && consumed s) && match mt s with None => true | Some _ => false end);
          [apply (Hfin [Restart; S1ReadC]) | apply (Hfin [S1ReadC])]; reflexivity.
      + destruct (mt s); [discriminate|]. destruct (rdone s).
        * inversion Hs; subst. split; [apply (Hfin []); reflexivity|]. cbn. repeat split; auto; congruence.
        * destruct (locked s); [discriminate|]. destruct (pool_append nres (pl s) (resv s) (rbuf s)).
          inversion Hs; subst. split; [apply (Hfin []); reflexivity|]. cbn. repeat split; auto; congruence.
      + inversion Hs; subst. split; [apply (Hfin [S1ReadR _]); reflexivity|]. cbn. repeat split; auto; congruence.
      + inversion Hs; subst. split; [apply (Hfin [S1Decide _ _]); reflexivity|]. cbn. repeat split; auto; congruence.
      + destruct (negb (f1 s || f0 s || fsync s)); [inversion Hs; subst; split; [apply (Hfin []); reflexivity|]; cbn; repeat split; auto; congruence|].
        destruct (r && c && match mt s with None => true | Some _ => false end); inversion Hs; subst;
          (split; [apply (Hfin []); reflexivity|]; cbn; repeat split; auto; congruence).
      + destruct (mt s); inversion Hs; subst; (split; [apply (Hfin [JoinQ]); reflexivity|]; cbn; repeat split; auto; congruence).
      + destruct ((match mt s with Some m => match ph m with PExited => true | _ => false end | None => true end) && negb (linger s)); [|discriminate].
        inversion Hs; subst. split; [apply (Hfin [Restart]); reflexivity|]. cbn. repeat split; auto; congruence.
    - destruct (pc s) eqn:Hpc; [|discriminate]. inversion Hs; subst; cbn. repeat split; auto; congruence.
  Qed.

  (** phase 1: the source ends *)
  Definition ended (s : st) : bool := negb (alive s).
  Definition rrank (s : st) : nat := List.length (src s).
  Definition rhelp (s : st) : label := match src s with [] => LEof | _ => LPush end.

  Lemma reader_help s : nocmd s -> ended s = false -> inner2 s (rhelp s) /\ exists s', step s (rhelp s) = Some s'.
  Proof.
    intros _ He. unfold ended in He. apply negb_false_iff in He. unfold rhelp. destruct (src s) as [|x r] eqn:Hs.
    - split; [exact I|]. cbn. rewrite He, Hs. eauto.
    - split; [exact I|]. cbn. rewrite He, Hs. eauto.
  Qed.

  Lemma reader_step s l s' : nocmd s -> ended s = false -> inner2 s l -> step s l = Some s' ->
    nocmd s' /\ (ended s' = true \/ rrank s' < rrank s \/ (l <> rhelp s /\ rrank s' = rrank s /\ rhelp s' = rhelp s)).
  Proof.
    intros Hn He Hi Hs. destruct (step_reader_frame s l s' Hn Hi Hs) as (Hn' & Hpush & Heof & Hoth).
    split; [exact Hn'|]. unfold ended, rrank, rhelp in *.
    destruct l; try (right; right; destruct (Hoth ltac:(discriminate) ltac:(discriminate)) as [Ha Hsr]; rewrite Hsr;
                     split; [destruct (src s); discriminate | split; reflexivity]).
    - right. left. destruct (Hpush eq_refl) as (_ & _ & H). exact H.
    - left. destruct (Heof eq_refl) as (_ & H). rewrite H. reflexivity.
  Qed.

  Lemma exec_nocmd sigma lam : exec st label step inner2 sigma lam -> nocmd (sigma 0) -> forall t, nocmd (sigma t).
  Proof.
    intros He H0 t. induction t as [|t IH]; [exact H0|].
    specialize (He t). destruct (lam t) as [l|].
    - destruct He as [Hi Hs]. exact (proj1 (step_reader_frame _ _ _ IH Hi Hs)).
    - rewrite He. exact IH.
  Qed.

  Lemma exec_ended_stays sigma lam : exec st label step inner2 sigma lam -> nocmd (sigma 0) ->
    forall t u, alive (sigma t) = false -> alive (sigma (t + u)) = false.
  Proof.
    intros He H0 t u Ha. induction u as [|u IH]; [rewrite Nat.add_0_r; exact Ha|].
    replace (t + S u) with (S (t + u)) by lia. pose proof (exec_nocmd sigma lam He H0 (t + u)) as Hn.
    specialize (He (t + u)). destruct (lam (t + u)) as [l|].
    - destruct He as [Hi Hs]. destruct (step_reader_frame _ _ _ Hn Hi Hs) as (_ & Hpush & Heof & Hoth).
      destruct l; try (rewrite (proj1 (Hoth ltac:(discriminate) ltac:(discriminate))); exact IH).
      + destruct (Hpush eq_refl) as (H & _). congruence.
      + destruct (Heof eq_refl) as (_ & H). exact H.
    - rewrite He. exact IH.
  Qed.

  Theorem fair_quiescence_any source q0 a b c ls s0 (sigma : nat -> st) (lam : nat -> option label) :
    run (init source q0 a b c) ls = Some s0 -> no_cmd (map amop_of (pc s0)) = true ->
    sigma 0 = s0 ->
    exec st label step inner2 sigma lam -> wfair st label step inner2 sigma lam ->
    exists t, quiescent (sigma t) /\ hbq (sigma t) = 0 /\ timer (sigma t) = false /\
              (ncie = false -> Permutation (L (sigma t)) (complete nres mp (sigma t))) /\
              (a || b || c = true -> decided (sigma t) <> None).
  Proof.
    intros Hr Hc H0 He Hf. subst s0.
    (* phase 1 *)
    destruct (fair_reaches st label step ended rrank rhelp nocmd inner2 reader_help reader_step sigma lam He Hf Hc) as (t1 & Hn1 & He1).
    unfold ended in He1. apply negb_true_iff in He1.
    (* the state at t1 is reachable: the run so far, then the steps of the execution *)
    assert (Hreach : forall t, exists ls', run (init source q0 a b c) ls' = Some (sigma t)).
    { induction t as [|t [ls' IH]]; [exists ls; exact Hr|].
      pose proof (He t) as E. destruct (lam t) as [l|].
      - destruct E as [_ Hs]. exists (ls' ++ [l]).
        assert (Happ : forall l1 l2 x, run x (l1 ++ l2) = match run x l1 with Some y => run y l2 | None => None end).
        { induction l1 as [|z l1 IH1]; intros l2 x; cbn; [reflexivity|]. destruct (step x z); [apply IH1|reflexivity]. }
        rewrite Happ, IH. cbn. rewrite Hs. reflexivity.
      - exists ls'. rewrite E. exact IH. }
    destruct (Hreach t1) as [ls1 Hr1].
    (* phase 2: the suffix is an execution of internal steps, weakly fair *)
    set (sigma' := fun u => sigma (t1 + u)). set (lam' := fun u => lam (t1 + u)).
    assert (He' : exec st label step inner sigma' lam').
    { intros u. unfold sigma', lam'. pose proof (He (t1 + u)) as E. replace (t1 + S u) with (S (t1 + u)) by lia.
      destruct (lam (t1 + u)) as [l|]; [|exact E]. destruct E as [Hi Hs]. split; [|exact Hs].
      pose proof (exec_ended_stays sigma lam He Hc t1 u He1) as Hal.
      destruct l; cbn in Hi |- *; auto; cbn in Hs; rewrite Hal in Hs; discriminate. }
    assert (Hf' : wfair st label step inner sigma' lam').
    { intros l u. destruct (Hf l (t1 + u)) as (t' & Hle & Hx). exists (t' - t1). split; [lia|].
      unfold sigma', lam'. replace (t1 + (t' - t1)) with t' by lia.
      destruct Hx as [Hx|Hx]; [left; exact Hx|right; intros Hi; apply Hx, inner_inner2, Hi]. }
    assert (H0' : sigma' 0 = sigma t1) by (unfold sigma'; f_equal; lia).
    destruct (fair_quiescence source q0 a b c ls1 (sigma t1) sigma' lam' Hr1 He1 Hn1 H0' He' Hf') as (u & Hq).
    exists (t1 + u). exact Hq.
  Qed.

  (** executions of that kind exist, too (the finite-run construction for [inner2]) *)
  Definition inner2_b (s : st) (l : label) : bool :=
    match l with LQuery _ | LCmd _ => false | LHb => (0 <? hbq s)%nat | _ => true end.
  Lemma inner2_b_ok s l : inner2_b s l = true -> inner2 s l.
  Proof. destruct l; cbn; intros H; try discriminate; auto. apply Nat.ltb_lt. exact H. Qed.
  Fixpoint all_inner2 (ls : list label) (s : st) : bool :=
    match ls with
    | [] => true
    | l :: r => inner2_b s l && match step s l with Some s' => all_inner2 r s' | None => false end
    end.
  Definition dead2 (s : st) : Prop := forall l, inner2 s l -> step s l = None.

  Lemma finite_exec2 ls : forall s, all_inner2 ls s = true ->
    exec st label step inner2 (state_at ls s) (nth_error ls).
  Proof.
    induction ls as [|l r IH]; intros s Ha t.
    - destruct t; reflexivity.
    - cbn in Ha. apply andb_true_iff in Ha as [Hi Hr]. destruct (step s l) as [s'|] eqn:Hs; [|discriminate].
      destruct t as [|t].
      + cbn. rewrite Hs. split; [apply inner2_b_ok; exact Hi|]. destruct r; reflexivity.
      + specialize (IH s' Hr t). cbn [nth_error]. cbn [state_at]. rewrite Hs.
        destruct (nth_error r t) as [l'|] eqn:Hn.
        * destruct IH as [H1 H2]. split; [exact H1|]. rewrite H2. destruct r; [destruct t; discriminate|reflexivity].
        * rewrite <- IH. destruct r; reflexivity.
  Qed.

  Lemma finite_fair2 ls s s' : run s ls = Some s' -> dead2 s' -> wfair st label step inner2 (state_at ls s) (nth_error ls).
  Proof.
    intros Hr Hd l t. exists (Nat.max t (List.length ls)). split; [lia|]. right.
    rewrite (state_at_end ls s s' Hr) by lia. apply Hd.
  Qed.

  Corollary fair_decision_any source q0 a b c ls s0 (sigma : nat -> st) (lam : nat -> option label) :
    run (init source q0 a b c) ls = Some s0 -> no_cmd (map amop_of (pc s0)) = true ->
    sigma 0 = s0 -> a || b || c = true ->
    exec st label step inner2 sigma lam -> wfair st label step inner2 sigma lam ->
    exists t, decided (sigma t) <> None.
  Proof.
    intros Hr Hc H0 Habc He Hf.
    destruct (fair_quiescence_any _ _ _ _ _ _ _ _ _ Hr Hc H0 He Hf) as (t & _ & _ & _ & _ & Hd).
    exists t. exact (Hd Habc).
  Qed.
End Progress.
