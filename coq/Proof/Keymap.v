(** Lemmas about Model/Keymap.v (C19): the binding scanner inverts rendering on well-formed
    specifications; later bindings override earlier ones and defaults, other keys are untouched. *)
From SkimV Require Import Common.Base Gen.EventTable Gen.DefaultKeymap Model.Keymap.
From Coq Require Import String.

(** * well-formed specifications and their rendering *)
Inductive form := FParen | FBracket | FDQuote | FSQuote | FColon.
Definition opener (f : form) : char := match f with FParen => 40 | FBracket => 91 | FDQuote => 34 | FSQuote => 39 | FColon => 58 end%N.
Definition closer (f : form) : option char := match f with FParen => Some 41 | FBracket => Some 93 | FDQuote => Some 34 | FSQuote => Some 39 | FColon => None end%N.

Record sact := { a_name : text; a_arg : option (form * text) }.
Definition sbinding := (text * list sact)%type.

Definition render_arg (a : option (form * text)) : text :=
  match a with
  | None => []
  | Some (f, v) => opener f :: v ++ match closer f with Some c => [c] | None => [] end
  end.
Definition render_act (a : sact) : text := a_name a ++ render_arg (a_arg a).
Fixpoint render_chain (l : list sact) : text :=
  match l with
  | [] => []
  | [a] => render_act a
  | a :: r => render_act a ++ PLUSC :: render_chain r
  end.
Definition render_binding (b : sbinding) : text := fst b ++ COLON :: render_chain (snd b).
Fixpoint render_spec (l : list sbinding) : text :=
  match l with
  | [] => []
  | [b] => render_binding b
  | b :: r => render_binding b ++ COMMA :: render_spec r
  end.

Definition wf_arg (a : option (form * text)) : Prop :=
  match a with
  | None => True
  | Some (f, v) =>
      match closer f with
      | Some c => forallb (neq c) v = true                 (* the argument does not contain its terminator *)
      | None => forallb colon_arg_char v = true            (* colon form: no : , + *)
      end
  end.
Definition wf_act (a : sact) : Prop := a_name a <> [] /\ forallb is_name_char (a_name a) = true /\ wf_arg (a_arg a).
Definition wf_binding (b : sbinding) : Prop :=
  fst b <> [] /\ forallb (neq COLON) (fst b) = true /\ snd b <> [] /\ Forall wf_act (snd b).

Definition strip_act (a : sact) : action := (a_name a, option_map snd (a_arg a)).
Definition strip_binding (b : sbinding) : text * list action := (fst b, map strip_act (snd b)).

(** * span *)
Lemma span_stop p : forall a c r, forallb p a = true -> p c = false -> span p (a ++ c :: r) = (a, c :: r).
Proof.
  induction a as [|x a IH]; intros c r Ha Hc; cbn [app span].
  - rewrite Hc. reflexivity.
  - cbn [forallb] in Ha. apply andb_true_iff in Ha as [Hx Ha]. rewrite Hx, (IH c r Ha Hc). reflexivity.
Qed.
Lemma span_all p : forall a, forallb p a = true -> span p a = (a, []).
Proof.
  induction a as [|x a IH]; intros Ha; cbn [span]; [reflexivity|].
  cbn [forallb] in Ha. apply andb_true_iff in Ha as [Hx Ha]. rewrite Hx, (IH Ha). reflexivity.
Qed.

(** what may follow an action: nothing, or a separator *)
Definition sep_next (t : text) : Prop := match t with [] => True | c :: _ => c = PLUSC \/ c = COMMA end.

Lemma span_then p a rest : forallb p a = true -> (match rest with [] => True | c :: _ => p c = false end) ->
  span p (a ++ rest) = (a, rest).
Proof. intros Ha Hr. destruct rest as [|c r]; [rewrite app_nil_r; apply span_all, Ha | apply span_stop; assumption]. Qed.

Lemma scan_arg_render a rest : wf_arg a -> sep_next rest ->
  scan_arg (render_arg a ++ rest) = Some (option_map snd a, rest).
Proof.
  intros Hw Hs. destruct a as [[f v]|]; cbn [render_arg option_map snd].
  - destruct f; cbn [opener closer wf_arg] in *; cbn [app scan_arg].
    + rewrite <- app_assoc. cbn [app]. rewrite (span_stop (neq 41%N) v 41%N rest Hw eq_refl). reflexivity.
    + rewrite <- app_assoc. cbn [app]. rewrite (span_stop (neq 93%N) v 93%N rest Hw eq_refl). reflexivity.
    + rewrite <- app_assoc. cbn [app]. rewrite (span_stop (neq 34%N) v 34%N rest Hw eq_refl). reflexivity.
    + rewrite <- app_assoc. cbn [app]. rewrite (span_stop (neq 39%N) v 39%N rest Hw eq_refl). reflexivity.
    + rewrite app_nil_r. rewrite span_then; [reflexivity | exact Hw|].
      destruct rest as [|c r]; [exact I|]. destruct Hs as [->| ->]; reflexivity.
  - cbn [app]. destruct rest as [|c r]; [reflexivity|]. destruct Hs as [->| ->]; reflexivity.
Qed.

(** the first character of a rendered argument (or of what follows) is not a name character *)
Lemma after_name_ok a rest : sep_next rest ->
  match render_arg a ++ rest with [] => True | c :: _ => is_name_char c = false end.
Proof.
  intros Hs. destruct a as [[f v]|]; cbn [render_arg].
  - destruct f; reflexivity.
  - cbn [app]. destruct rest as [|c r]; [exact I|]. destruct Hs as [->| ->]; reflexivity.
Qed.

Lemma scan_actions_render : forall acts fuel rest, acts <> [] -> Forall wf_act acts ->
  (match rest with [] => True | c :: _ => c = COMMA end) -> (List.length acts <= fuel)%nat ->
  scan_actions fuel (render_chain acts ++ rest) = Some (map strip_act acts, rest).
Proof.
  induction acts as [|a acts IH]; intros fuel rest Hne Hwf Hrest Hf; [congruence|].
  destruct fuel as [|fuel]; [cbn in Hf; lia|]. inversion Hwf as [|? ? (Hn1 & Hn2 & Ha) Hwf']; subst.
  destruct acts as [|a2 acts].
  - (* last action of the chain *)
    cbn [render_chain scan_actions map]. unfold render_act. rewrite <- app_assoc.
    assert (Hs : sep_next rest) by (destruct rest; [exact I | right; exact Hrest]).
    rewrite (span_then is_name_char (a_name a) _ Hn2 (after_name_ok (a_arg a) rest Hs)).
    destruct (a_name a) as [|n0 nr] eqn:En; [congruence|].
    rewrite (scan_arg_render (a_arg a) rest Ha Hs). unfold strip_act. rewrite En.
    destruct rest as [|c r]; [reflexivity|]. subst c. reflexivity.
  - change (render_chain (a :: a2 :: acts)) with (render_act a ++ PLUSC :: render_chain (a2 :: acts)).
    cbn [scan_actions]. unfold render_act at 1. rewrite <- !app_assoc. cbn [app].
    set (tail := PLUSC :: render_chain (a2 :: acts) ++ rest).
    assert (Hs : sep_next tail) by (left; reflexivity).
    rewrite (span_then is_name_char (a_name a) _ Hn2 (after_name_ok (a_arg a) tail Hs)).
    destruct (a_name a) as [|n0 nr] eqn:En; [congruence|].
    rewrite (scan_arg_render (a_arg a) tail Ha Hs). unfold tail.
    rewrite (IH fuel rest ltac:(discriminate) Hwf' Hrest ltac:(cbn [List.length] in *; lia)).
    change (map strip_act (a :: a2 :: acts)) with (strip_act a :: map strip_act (a2 :: acts)).
    unfold strip_act at 2. rewrite En. reflexivity.
Qed.

Lemma render_chain_length acts : Forall wf_act acts -> (List.length acts <= S (List.length (render_chain acts)))%nat.
Proof.
  induction acts as [|a acts IH]; intros H; [cbn; lia|]. inversion H as [|? ? (Hn & _) H']; subst. specialize (IH H').
  destruct acts as [|a2 acts].
  - cbn. lia.
  - change (render_chain (a :: a2 :: acts)) with (render_act a ++ PLUSC :: render_chain (a2 :: acts)).
    rewrite app_length. cbn [List.length] in *. lia.
Qed.

Lemma scan_bindings_render : forall spec fuel, Forall wf_binding spec -> (List.length spec <= fuel)%nat ->
  scan_bindings fuel (render_spec spec) = map strip_binding spec.
Proof.
  induction spec as [|b spec IH]; intros fuel Hwf Hf.
  - destruct fuel; reflexivity.
  - destruct fuel as [|fuel]; [cbn in Hf; lia|]. inversion Hwf as [|? ? (Hk1 & Hk2 & Ha1 & Ha2) Hwf']; subst.
    destruct b as [key acts]. cbn [fst snd] in *.
    destruct spec as [|b2 spec].
    + cbn [render_spec scan_bindings map]. unfold render_binding. cbn [fst snd].
      rewrite (span_stop (neq COLON) key COLON (render_chain acts) Hk2 eq_refl).
      destruct key as [|k0 kr] eqn:Ek; [congruence|].
      pose proof (scan_actions_render acts (S (List.length (render_chain acts))) [] Ha1 Ha2 I (render_chain_length acts Ha2)) as R.
      rewrite app_nil_r in R. rewrite R. reflexivity.
    + change (render_spec ((key, acts) :: b2 :: spec)) with (render_binding (key, acts) ++ COMMA :: render_spec (b2 :: spec)).
      cbn [scan_bindings]. unfold render_binding. cbn [fst snd]. rewrite <- app_assoc. cbn [app].
      rewrite (span_stop (neq COLON) key COLON _ Hk2 eq_refl).
      destruct key as [|k0 kr] eqn:Ek; [congruence|].
      set (rest := COMMA :: render_spec (b2 :: spec)).
      assert (Hfuel : (List.length acts <= S (List.length (render_chain acts ++ rest)))%nat).
      { pose proof (render_chain_length acts Ha2). rewrite app_length. lia. }
      rewrite (scan_actions_render acts _ rest Ha1 Ha2 eq_refl Hfuel). unfold rest.
      rewrite (IH fuel Hwf' ltac:(cbn [List.length] in *; lia)). reflexivity.
Qed.

Lemma render_spec_length spec : Forall wf_binding spec -> (List.length spec <= S (List.length (render_spec spec)))%nat.
Proof.
  induction spec as [|b spec IH]; intros H; [cbn; lia|]. inversion H as [|? ? (Hk & _) H']; subst. specialize (IH H').
  destruct spec as [|b2 spec].
  - cbn. lia.
  - change (render_spec (b :: b2 :: spec)) with (render_binding b ++ COMMA :: render_spec (b2 :: spec)).
    rewrite app_length. cbn [List.length] in *. lia.
Qed.

Theorem roundtrip spec : Forall wf_binding spec -> parse_key_action (render_spec spec) = map strip_binding spec.
Proof. intros H. unfold parse_key_action. apply scan_bindings_render; [exact H | apply render_spec_length, H]. Qed.

(** * the key map *)
Lemma text_eqb_refl t : text_eqb t t = true.
Proof. apply text_eqb_spec. reflexivity. Qed.

Lemma lookup_remove m k k' : lookup (remove_key m k) k' = if text_eqb k' k then None else lookup m k'.
Proof.
  unfold lookup. induction m as [|[k0 c0] r IH]; cbn [remove_key assoc]; [destruct (text_eqb k' k); reflexivity|].
  destruct (text_eqb k k0) eqn:E.
  - apply text_eqb_spec in E. subst k0. rewrite IH. destruct (text_eqb k' k); reflexivity.
  - cbn [assoc]. rewrite IH. destruct (text_eqb k' k0) eqn:E2; [|reflexivity].
    apply text_eqb_spec in E2. subst k0. destruct (text_eqb k' k) eqn:E3; [|reflexivity].
    apply text_eqb_spec in E3. subst. rewrite text_eqb_refl in E. discriminate.
Qed.

(** binding a key replaces that key's chain and leaves every other key unchanged; unknown key
    names and empty chains are ignored *)
Lemma lookup_bind keyof m name c k' :
  lookup (bind keyof m name c) k' =
  match keyof name, c with
  | Some k, _ :: _ => if text_eqb k' k then Some c else lookup m k'
  | _, _ => lookup m k'
  end.
Proof.
  unfold bind. destruct (keyof name) as [k|]; [|reflexivity]. destruct c as [|e c]; [reflexivity|].
  unfold lookup at 1. cbn [assoc]. fold (lookup (remove_key m k) k'). rewrite lookup_remove.
  destruct (text_eqb k' k); reflexivity.
Qed.

(** an unbound key: the character itself for a character key, the raw key otherwise *)
Lemma translate_unbound m k ch : lookup m k = None ->
  translate_key m k ch = match ch with Some c => [(codes "EvActAddChar"%string, MChar c)] | None => [(codes "EvInputKey"%string, MKey k)] end.
Proof. intros H. unfold translate_key. rewrite H. reflexivity. Qed.
Lemma translate_bound m k ch c : lookup m k = Some c -> translate_key m k ch = c.
Proof. intros H. unfold translate_key. rewrite H. reflexivity. Qed.

(** the conditional actions run their argument action exactly when the condition holds *)
Lemma handle_if_spec cond arg : handle_if cond arg = if cond then parse_action_arg arg else Ok None.
Proof. reflexivity. Qed.
