(** Progress under weak fairness by a ranking with helpful labels (the well-founded response rule),
    for any labelled transition system given as a step function.  Constructive: the rank is a
    natural number and being at rest is a boolean. *)
From Coq Require Import Arith Lia.

Section Fair.
  Variables (S L : Type).
  Variable step : S -> L -> option S.
  Variable good : S -> bool.
  Variable rank : S -> nat.
  Variable help : S -> L.
  Variable P : S -> Prop.                 (* an invariant of the steps considered *)
  Variable allowed : S -> L -> Prop.      (* the steps considered *)

  (** the helpful step is allowed and enabled wherever the system is not at rest *)
  Hypothesis Hhelp : forall s, P s -> good s = false -> allowed s (help s) /\ exists s', step s (help s) = Some s'.
  (** no allowed step raises the rank; the helpful one lowers it; a step that keeps it keeps the helpful label *)
  Hypothesis Hstep : forall s l s', P s -> good s = false -> allowed s l -> step s l = Some s' ->
    P s' /\ (good s' = true \/ rank s' < rank s \/ (l <> help s /\ rank s' = rank s /\ help s' = help s)).

  (** an infinite execution: at each instant an allowed step, or nothing happens *)
  Variable sigma : nat -> S.
  Variable lam : nat -> option L.
  Definition exec : Prop :=
    forall t, match lam t with
              | Some l => allowed (sigma t) l /\ step (sigma t) l = Some (sigma (Datatypes.S t))
              | None => sigma (Datatypes.S t) = sigma t
              end.
  (** weak fairness: no label stays allowed and enabled for ever without being taken *)
  Definition wfair : Prop :=
    forall l t, exists t', t <= t' /\ (lam t' = Some l \/ (allowed (sigma t') l -> step (sigma t') l = None)).

  Hypothesis Hexec : exec.
  Hypothesis Hfair : wfair.

  Lemma walk d : forall t, P (sigma t) -> good (sigma t) = false ->
    (exists u, t <= u /\ P (sigma u) /\ (good (sigma u) = true \/ rank (sigma u) < rank (sigma t))) \/
    (P (sigma (t + d)) /\ good (sigma (t + d)) = false /\ rank (sigma (t + d)) = rank (sigma t) /\ help (sigma (t + d)) = help (sigma t)).
  Proof.
    induction d as [|d IH]; intros t HP Hg.
    - right. rewrite Nat.add_0_r. auto.
    - destruct (IH t HP Hg) as [Hl | (HP' & Hg' & Hr' & Hh')]; [left; exact Hl|].
      replace (t + Datatypes.S d) with (Datatypes.S (t + d)) by lia.
      pose proof (Hexec (t + d)) as He. destruct (lam (t + d)) as [l|].
      + destruct He as [Ha Hs]. destruct (Hstep _ _ _ HP' Hg' Ha Hs) as (HP2 & [Hg2 | [Hr2 | (Hn & Hr2 & Hh2)]]).
        * left. exists (Datatypes.S (t + d)). split; [lia|]. split; [exact HP2|]. left. exact Hg2.
        * left. exists (Datatypes.S (t + d)). split; [lia|]. split; [exact HP2|]. right. lia.
        * destruct (good (sigma (Datatypes.S (t + d)))) eqn:Hg2.
          -- left. exists (Datatypes.S (t + d)). split; [lia|]. split; [exact HP2|]. left. exact Hg2.
          -- right. split; [exact HP2|]. split; [reflexivity|]. split; congruence.
      + right. rewrite He. auto.
  Qed.

  Lemma reaches n : forall t, P (sigma t) -> rank (sigma t) <= n -> exists u, t <= u /\ P (sigma u) /\ good (sigma u) = true.
  Proof.
    induction n as [n IH] using lt_wf_ind. intros t HP Hn.
    destruct (good (sigma t)) eqn:Hg; [exists t; auto|].
    destruct (Hfair (help (sigma t)) t) as (t' & Hle & Hf).
    destruct (walk (t' - t) t HP Hg) as [(u & Hu & HPu & [Hgu | Hru]) | (HP' & Hg' & Hr' & Hh')].
    - exists u. auto.
    - destruct (IH (rank (sigma u)) ltac:(lia) u HPu (Nat.le_refl _)) as (v & Hv & Hgv). exists v. split; [lia|exact Hgv].
    - replace (t + (t' - t)) with t' in * by lia.
      destruct (Hhelp _ HP' Hg') as (Hal & s' & Hen). rewrite Hh' in Hal, Hen.
      destruct Hf as [Hf | Hf]; [|rewrite (Hf Hal) in Hen; discriminate].
      pose proof (Hexec t') as He. rewrite Hf in He. destruct He as [Ha Hs].
      destruct (Hstep _ _ _ HP' Hg' Ha Hs) as (HP2 & [Hg2 | [Hr2 | (Hne & _)]]).
      + exists (Datatypes.S t'). split; [lia|]. split; [exact HP2|exact Hg2].
      + destruct (IH (rank (sigma (Datatypes.S t'))) ltac:(lia) (Datatypes.S t') HP2 (Nat.le_refl _)) as (v & Hv & Hgv).
        exists v. split; [lia|exact Hgv].
      + exfalso. apply Hne. symmetry. exact Hh'.
  Qed.

  (** every weakly fair execution from a state of the invariant comes to rest *)
  Theorem fair_reaches : P (sigma 0) -> exists t, P (sigma t) /\ good (sigma t) = true.
  Proof. intros HP. destruct (reaches (rank (sigma 0)) 0 HP (Nat.le_refl _)) as (u & _ & Hu). exists u. exact Hu. Qed.
End Fair.
