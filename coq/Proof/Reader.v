(** Lemmas about Model/Reader.v (C06): framing is lossless and order preserving; splitting what
    was joined gives the lines back. *)
From SkimV Require Import Common.Base Model.Reader.

Lemma read_until_app term : forall bs rec rest, read_until term bs = (rec, rest) -> bs = rec ++ rest.
Proof.
  induction bs as [|b r IH]; intros rec rest H; cbn [read_until] in H; [inversion H; reflexivity|].
  destruct (b =? term)%N; [inversion H; reflexivity|].
  destruct (read_until term r) as [rec' rest'] eqn:E. inversion H; subst. cbn. f_equal. apply IH. reflexivity.
Qed.

Lemma read_until_nonempty term b r : fst (read_until term (b :: r)) <> [].
Proof. cbn [read_until]. destruct (b =? term)%N; [discriminate|]. destruct (read_until term r); discriminate. Qed.

Lemma read_until_rest_len term : forall bs, bs <> [] -> (length (snd (read_until term bs)) < length bs)%nat.
Proof.
  induction bs as [|b r IH]; intros H; [congruence|]. cbn [read_until].
  destruct (b =? term)%N; [cbn; lia|].
  destruct r as [|b2 r2]; [cbn; lia|].
  specialize (IH ltac:(discriminate)). destruct (read_until term (b2 :: r2)) as [rec' rest'] eqn:E. cbn [snd] in *. cbn [length] in *. lia.
Qed.

(** every byte of the stream is in exactly one record, in order: nothing is dropped or reordered *)
Lemma records_concat term : forall fuel bs, (length bs < fuel)%nat -> concat (records_go fuel term bs) = bs.
Proof.
  induction fuel as [|fuel IH]; intros bs H; [lia|]. cbn [records_go].
  destruct bs as [|b r]; [reflexivity|].
  destruct (read_until term (b :: r)) as [rec rest] eqn:E.
  pose proof (read_until_app term _ _ _ E) as Happ.
  pose proof (read_until_rest_len term (b :: r) ltac:(discriminate)) as Hlen. rewrite E in Hlen. cbn [snd] in Hlen.
  cbn [concat]. rewrite IH by (cbn [length] in *; lia). symmetry. exact Happ.
Qed.

Lemma records_lossless term bs : concat (records term bs) = bs.
Proof. apply records_concat. lia. Qed.

Lemma records_nonempty term : forall fuel bs, Forall (fun r => r <> []) (records_go fuel term bs).
Proof.
  induction fuel as [|fuel IH]; intros bs; cbn [records_go]; [constructor|].
  destruct bs as [|b r]; [constructor|].
  destruct (read_until term (b :: r)) as [rec rest] eqn:E. constructor; [|apply IH].
  pose proof (read_until_nonempty term b r) as H. rewrite E in H. exact H.
Qed.

(** * split (join lines) = lines *)
(** a line with the terminator that follows it; [None] = end of input (only for the last line) *)
Inductive tm := TermLF | TermCRLF | TermByte | NoTerm.

Definition term_bytes (term : byte) (t : tm) : list byte :=
  match t with TermLF => [LF] | TermCRLF => [CR; LF] | TermByte => [term] | NoTerm => [] end.

Definition join (term : byte) (ls : list (list byte * tm)) : list byte :=
  flat_map (fun lt => fst lt ++ term_bytes term (snd lt)) ls.

(** what the property allows: no terminator byte inside a line; CRLF / bare LF only in newline
    mode, and a line followed by a bare LF does not itself end in CR; only the last line may be
    unterminated, and then it is non-empty *)
Definition line_ok (term : byte) (lt : list byte * tm) : Prop :=
  ~ In term (fst lt) /\
  match snd lt with
  | TermLF => term = LF /\ last (fst lt) 0%N <> CR
  | TermCRLF => term = LF
  | TermByte => term <> LF
  | NoTerm => fst lt <> []
  end.
Fixpoint lines_ok (term : byte) (ls : list (list byte * tm)) : Prop :=
  match ls with
  | [] => True
  | [lt] => line_ok term lt
  | lt :: r => line_ok term lt /\ snd lt <> NoTerm /\ lines_ok term r
  end.

Lemma read_until_line term : forall l rest, ~ In term l ->
  read_until term (l ++ term :: rest) = (l ++ [term], rest).
Proof.
  induction l as [|b l IH]; intros rest H; cbn [app read_until].
  - rewrite N.eqb_refl. reflexivity.
  - destruct (b =? term)%N eqn:E; [apply N.eqb_eq in E; subst; exfalso; apply H; left; reflexivity|].
    rewrite IH by (intros Hin; apply H; right; exact Hin). reflexivity.
Qed.

Lemma read_until_eof term : forall l, ~ In term l -> read_until term l = (l, []).
Proof.
  induction l as [|b l IH]; intros H; cbn [read_until]; [reflexivity|].
  destruct (b =? term)%N eqn:E; [apply N.eqb_eq in E; subst; exfalso; apply H; left; reflexivity|].
  rewrite IH by (intros Hin; apply H; right; exact Hin). reflexivity.
Qed.

Lemma skipn_app_len {A} (a b : list A) : skipn (length (a ++ b) - length b) (a ++ b) = b.
Proof. rewrite app_length. replace (length a + length b - length b)%nat with (length a) by lia. rewrite skipn_app, Nat.sub_diag, skipn_all. reflexivity. Qed.
Lemma firstn_app_len {A} (a b : list A) : firstn (length (a ++ b) - length b) (a ++ b) = a.
Proof. rewrite app_length. replace (length a + length b - length b)%nat with (length a) by lia. rewrite firstn_app, Nat.sub_diag, firstn_all. cbn. apply app_nil_r. Qed.

Lemma ends_with_app a suf : ends_with (a ++ suf) suf = true.
Proof.
  unfold ends_with. rewrite skipn_app_len. apply andb_true_iff. split.
  - apply list_eqb_spec; [intros; apply N.eqb_eq | reflexivity].
  - apply Nat.leb_le. rewrite app_length. lia.
Qed.

Lemma list_eqb_N_refl l : list_eqb N.eqb l l = true.
Proof. apply list_eqb_spec; [intros; apply N.eqb_eq | reflexivity]. Qed.

Lemma ends_with_true l suf : ends_with l suf = true -> exists a, l = a ++ suf.
Proof.
  unfold ends_with. intros H. apply andb_true_iff in H as [H1 H2]. apply Nat.leb_le in H2.
  apply list_eqb_spec in H1; [|intros; apply N.eqb_eq]. exists (firstn (length l - length suf) l).
  rewrite <- (firstn_skipn (length l - length suf) l) at 1. rewrite H1. reflexivity.
Qed.

Lemma strip_line term l t : line_ok term (l, t) -> strip term (l ++ term_bytes term t) = l.
Proof.
  intros [Hn Ht]. cbn [fst snd] in *. unfold strip. destruct t; cbn [term_bytes].
  - (* bare LF *)
    destruct Ht as [-> Hcr]. rewrite N.eqb_refl. cbn [andb].
    destruct (ends_with (l ++ [LF]) [CR; LF]) eqn:E.
    + exfalso. apply ends_with_true in E as (a & Ea).
      assert (H2 : l ++ [LF] = (a ++ [CR]) ++ [LF]) by (rewrite <- app_assoc; exact Ea).
      apply app_inj_tail in H2 as [H2 _]. subst l. rewrite last_last in Hcr. congruence.
    + rewrite ends_with_app. unfold drop_last. change 1%nat with (length [LF]). apply firstn_app_len.
  - subst term. rewrite N.eqb_refl. cbn [andb]. rewrite ends_with_app. unfold drop_last. change 2%nat with (length [CR; LF]). apply firstn_app_len.
  - assert (E : (term =? LF)%N = false) by (apply N.eqb_neq; exact Ht). rewrite E. cbn [andb].
    rewrite ends_with_app. unfold drop_last. change 1%nat with (length [term]). apply firstn_app_len.
  - (* unterminated last line: it contains no terminator byte, nothing is stripped *)
    rewrite app_nil_r.
    assert (E2 : ends_with l [term] = false).
    { destruct (ends_with l [term]) eqn:E; [|reflexivity]. exfalso. apply ends_with_true in E as (a & ->). apply Hn. apply in_or_app. right. left. reflexivity. }
    rewrite E2.
    destruct ((term =? LF)%N && ends_with l [CR; LF]) eqn:E1; [|reflexivity].
    exfalso. apply andb_true_iff in E1 as [E1 E3]. apply N.eqb_eq in E1. subst term.
    apply ends_with_true in E3 as (a & ->). apply Hn. apply in_or_app. right. right. left. reflexivity.
Qed.

(** the record read for a terminated line is the line plus its terminator *)
Lemma read_until_terminated term l t rest : line_ok term (l, t) -> t <> NoTerm ->
  read_until term ((l ++ term_bytes term t) ++ rest) = (l ++ term_bytes term t, rest).
Proof.
  intros [Hn Ht] Hne. cbn [fst snd] in *. destruct t; cbn [term_bytes]; try congruence.
  - destruct Ht as [-> _]. rewrite <- app_assoc. cbn [app]. apply read_until_line, Hn.
  - subst term. rewrite <- app_assoc. cbn [app].
    replace (l ++ CR :: LF :: rest) with ((l ++ [CR]) ++ LF :: rest) by (rewrite <- app_assoc; reflexivity).
    rewrite read_until_line.
    + rewrite <- app_assoc. reflexivity.
    + intros Hin. apply in_app_or in Hin as [Hin|[Hin|[]]]; [apply Hn, Hin | discriminate].
  - rewrite <- app_assoc. cbn [app]. apply read_until_line, Hn.
Qed.

Lemma split_join_go term : forall ls fuel, lines_ok term ls -> (length (join term ls) < fuel)%nat ->
  map (strip term) (records_go fuel term (join term ls)) = map fst ls.
Proof.
  induction ls as [|[l t] ls IH]; intros fuel Hok Hf.
  - destruct fuel; reflexivity.
  - destruct fuel as [|fuel]; [lia|].
    assert (Hline : line_ok term (l, t)) by (destruct ls; [exact Hok | apply Hok]).
    change (join term ((l, t) :: ls)) with ((l ++ term_bytes term t) ++ join term ls) in *.
    destruct ls as [|lt2 ls].
    + (* last line *)
      cbn [join flat_map] in *. rewrite app_nil_r in *. cbn [records_go].
      destruct (l ++ term_bytes term t) as [|b0 r0] eqn:Eb.
      * (* empty record is impossible *)
        exfalso. destruct Hline as [_ Ht]. cbn [fst snd] in Ht. destruct t; cbn [term_bytes] in Eb; try (apply app_eq_nil in Eb as [_ Eb]; discriminate).
        rewrite app_nil_r in Eb. congruence.
      * rewrite <- Eb.
        assert (Hdec : t = NoTerm \/ t <> NoTerm) by (destruct t; [right|right|right|left]; congruence).
        destruct Hdec as [->|Hne].
        -- pose proof (strip_line term l NoTerm Hline) as SL. cbn [term_bytes] in *. rewrite app_nil_r in *.
           rewrite read_until_eof by apply Hline.
           assert (Hr : records_go fuel term [] = []) by (destruct fuel; reflexivity). rewrite Hr. cbn [map fst]. rewrite SL. reflexivity.
        -- pose proof (read_until_terminated term l t [] Hline Hne) as R. rewrite app_nil_r in R. rewrite R.
           assert (Hr : records_go fuel term [] = []) by (destruct fuel; reflexivity). rewrite Hr. cbn [map fst].
           rewrite (strip_line term l t Hline). reflexivity.
    + destruct Hok as (_ & Hne & Hrest). cbn [snd] in Hne.
      cbn [records_go].
      destruct ((l ++ term_bytes term t) ++ join term (lt2 :: ls)) as [|b0 r0] eqn:Eb.
      * exfalso. apply app_eq_nil in Eb as [Eb _]. destruct t; cbn [term_bytes] in Eb; try congruence; apply app_eq_nil in Eb as [_ Eb]; discriminate.
      * rewrite <- Eb. rewrite (read_until_terminated term l t _ Hline Hne).
        cbn [map fst]. rewrite (strip_line term l t Hline). f_equal.
        apply IH; [exact Hrest|]. pose proof (f_equal (@length byte) Eb) as Hlen. rewrite app_length in Hlen.
        assert (0 < length (l ++ term_bytes term t))%nat by (destruct t; cbn [term_bytes]; rewrite app_length; cbn; try lia; congruence). lia.
Qed.

(** * the framing does not depend on how the source hands out its bytes *)
Lemma read_until_app_found term : forall a b, has_term term a = true ->
  read_until term (a ++ b) = (fst (read_until term a), snd (read_until term a) ++ b).
Proof.
  induction a as [|x a IH]; intros b H; [discriminate|]. cbn [has_term existsb] in H. cbn [app read_until].
  destruct (x =? term)%N eqn:E; [reflexivity|]. cbn [orb] in H. rewrite (IH b H).
  destruct (read_until term a) as [r1 r2]. reflexivity.
Qed.
Lemma read_until_app_notfound term : forall a b, has_term term a = false ->
  read_until term (a ++ b) = (a ++ fst (read_until term b), snd (read_until term b)).
Proof.
  induction a as [|x a IH]; intros b H; [cbn; destruct (read_until term b); reflexivity|].
  cbn [has_term existsb] in H. apply orb_false_iff in H as [E H]. cbn [app read_until]. rewrite E, (IH b H). reflexivity.
Qed.

Lemma read_until_chunks_spec term : forall chunks, Forall (fun c => c <> []) chunks ->
  read_until term (concat chunks) =
    (fst (read_until_chunks term chunks), concat (snd (read_until_chunks term chunks))) /\
  Forall (fun c => c <> []) (snd (read_until_chunks term chunks)).
Proof.
  induction chunks as [|c cs IH]; intros F; [split; [reflexivity | constructor]|].
  inversion F as [|c' cs' Hc Fcs]; subst. specialize (IH Fcs) as [IH1 IH2].
  cbn [concat read_until_chunks]. destruct (has_term term c) eqn:Ht.
  - rewrite (read_until_app_found term c (concat cs) Ht). destruct (read_until term c) as [rec rest]. cbn [fst snd].
    destruct rest as [|r0 rest]; [split; [reflexivity | exact Fcs]|].
    split; [reflexivity | constructor; [discriminate | exact Fcs]].
  - rewrite (read_until_app_notfound term c (concat cs) Ht), IH1.
    destruct (read_until_chunks term cs) as [rec' cs2]. cbn [fst snd] in *. split; [reflexivity | exact IH2].
Qed.

Lemma records_chunks_go_spec term : forall fuel chunks, Forall (fun c => c <> []) chunks ->
  (length (concat chunks) < fuel)%nat ->
  records_chunks_go fuel term chunks = records_go fuel term (concat chunks).
Proof.
  induction fuel as [|f IH]; intros chunks F L; [lia|]. cbn [records_chunks_go records_go].
  destruct chunks as [|c cs]; [reflexivity|].
  destruct (read_until_chunks_spec term (c :: cs) F) as [E F2].
  assert (NE : concat (c :: cs) <> []).
  { inversion F as [|c' cs' Hc _]; subst. cbn [concat]. destruct c; [congruence | discriminate]. }
  pose proof (read_until_rest_len term (concat (c :: cs)) NE) as RL. rewrite E in *. cbn [snd] in RL.
  destruct (concat (c :: cs)) as [|b0 bs0] eqn:EC; [congruence|].
  destruct (read_until_chunks term (c :: cs)) as [rec cs2]. cbn [fst snd] in *.
  f_equal. apply IH; [exact F2 | lia].
Qed.

(** whatever the pieces: the records are those of the whole stream *)
Lemma records_chunks_spec term chunks : Forall (fun c => c <> []) chunks ->
  records_chunks term chunks = records term (concat chunks).
Proof. intros F. unfold records_chunks, records. apply records_chunks_go_spec; [exact F | lia]. Qed.
