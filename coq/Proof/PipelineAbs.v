(** The finite abstraction of the pipeline simulates it; the computed set of abstract states is
    closed, so it contains the abstraction of every reachable state. *)
From SkimV Require Import Common.Base Model.Pipeline Model.PipelineAbs.
From Coq Require Import FMapPositive.

Lemma amopN_inj x y : amopN x = amopN y -> x = y.
Proof.
  destruct x as [ |[|]|[|]|[|]| | |[|]|[|] [|]| | | | ], y as [ |[|]|[|]|[|]| | |[|]|[|] [|]| | | | ];
    cbn; intros H; try reflexivity; discriminate.
Qed.

Lemma phN_inj x y : phN x = phN y -> x = y.
Proof. destruct x, y; cbn; intros H; try reflexivity; discriminate. Qed.

Lemma amop_list_eq a b : list_eqb amop_eqb a b = true -> a = b.
Proof.
  revert b. induction a as [|x a IH]; destruct b as [|y b]; cbn; intros H; try reflexivity; try discriminate.
  apply andb_true_iff in H as [H1 H2]. unfold amop_eqb in H1. apply N.eqb_eq in H1. apply amopN_inj in H1. subst.
  f_equal. apply IH, H2.
Qed.

Lemma mt_eqb_eq x y : mt_eqb x y = true -> x = y.
Proof.
  destruct x as [[p k]|], y as [[p' k']|]; cbn; intros H; try reflexivity; try discriminate.
  apply andb_true_iff in H as [H1 H2]. apply N.eqb_eq in H1. apply phN_inj in H1. apply Bool.eqb_prop in H2. subst. reflexivity.
Qed.

Lemma ast_eqb_eq x y : ast_eqb x y = true -> x = y.
Proof.
  unfold ast_eqb. intros H.
  repeat (apply andb_true_iff in H; destruct H as [H ?]).
  destruct x, y; cbn in *.
  repeat match goal with E : Bool.eqb _ _ = true |- _ => apply Bool.eqb_prop in E end.
  match goal with E : mt_eqb _ _ = true |- _ => apply mt_eqb_eq in E end.
  match goal with E : list_eqb _ _ _ = true |- _ => apply amop_list_eq in E end.
  subst. reflexivity.
Qed.

Lemma amem_In x m : amem x m = true -> In x (elems m).
Proof.
  unfold amem, bucket, elems. destruct (PositiveMap.find (code x) m) as [b|] eqn:Hf; [|discriminate].
  intros H. apply existsb_exists in H as (y & Hy & He). apply ast_eqb_eq in He. subst y.
  apply in_flat_map. exists (code x, b). split; [|exact Hy].
  apply PositiveMap.elements_correct. exact Hf.
Qed.

Lemma reach_list_eq : reach_list = elems reach.
Proof. vm_compute. reflexivity. Qed.

Lemma reach_closed_b :
  forallb (fun a => forallb (fun l => forallb (fun a' => amem a' reach) (astep a l)) alabels) reach_list = true.
Proof. vm_compute. reflexivity. Qed.

Lemma alabels_all l : In l alabels.
Proof. destruct l; cbn; tauto. Qed.

Lemma reach_closed a l a' : In a reach_list -> In a' (astep a l) -> In a' reach_list.
Proof.
  intros Ha Hs. pose proof reach_closed_b as H. rewrite forallb_forall in H. specialize (H a Ha).
  rewrite forallb_forall in H. specialize (H l (alabels_all l)). rewrite forallb_forall in H. specialize (H a' Hs).
  apply amem_In in H. rewrite reach_list_eq. exact H.
Qed.

Lemma reach_inits : forallb (fun a => amem a reach) ainits = true.
Proof. vm_compute. reflexivity. Qed.

Lemma reach_todo_empty : snd reach_pair = [].
Proof. reflexivity. Qed.

Lemma in_both (f : bool -> ast) b : In (f b) (both f).
Proof. destruct b; cbn; auto. Qed.

Lemma in_both_ex (f : bool -> ast) x : (exists b, x = f b) -> In x (both f).
Proof. intros [b ->]. apply in_both. Qed.

Lemma nonempty_app {A} (l : list A) x : nonempty (l ++ [x]) = true.
Proof. destruct l; reflexivity. Qed.

Section Sim.
  Variable nres : nat.
  Variable ncie : bool.
  Variable mp : N -> item -> bool.
  Local Notation step := (step nres ncie mp).
  Local Notation run := (run nres ncie mp).

  Lemma a_flag m : aflag (ph m, killed m) = flag m.
  Proof. unfold aflag, flag. cbn. reflexivity. Qed.
  Lemma a_holds m : aholds (ph m, killed m) = holds m.
  Proof. reflexivity. Qed.
  Lemma a_locked s : alocked (alpha s) = locked s.
  Proof. unfold alocked, locked, alpha. cbn. destruct (mt s); reflexivity. Qed.
  Lemma a_rdone s : ardone (alpha s) = rdone s.
  Proof. unfold ardone, rdone, alpha. cbn. destruct (rbuf s); reflexivity. Qed.

  Lemma pool_append_len p r xs : List.length p <= List.length (fst (pool_append nres p r xs)).
  Proof.
    unfold pool_append. destruct (0 <? nres - List.length r)%nat; cbn; rewrite app_length; lia.
  Qed.
  Lemma pool_append_nil p r : fst (pool_append nres p r []) = p.
  Proof.
    unfold pool_append. destruct (0 <? nres - List.length r)%nat; cbn.
    - rewrite Nat.min_0_r. cbn. apply app_nil_r.
    - apply app_nil_r.
  Qed.

  Lemma alpha_upd_pc s p : alpha (upd_pc s p) = set_pc (alpha s) (map amop_of p).
  Proof. reflexivity. Qed.
  Lemma a_flagged s :
    match a_mt (alpha s) with Some m => aflag m | None => false end = match mt s with Some m => flag m | None => false end.
  Proof. unfold alpha. cbn. destruct (mt s); reflexivity. Qed.

  Lemma a_mt_alpha s : a_mt (alpha s) = match mt s with Some m => Some (ph m, killed m) | None => None end.
  Proof. reflexivity. Qed.
  Lemma a_flags_alpha s : a_flags (alpha s) = f1 s || f0 s || fsync s.
  Proof. reflexivity. Qed.
  Lemma a_linger_alpha s : a_linger (alpha s) = linger s.
  Proof. reflexivity. Qed.
  Lemma a_rbuf_alpha s : a_rbuf (alpha s) = nonempty (rbuf s).
  Proof. reflexivity. Qed.

  Theorem sim s l s' : step s l = Some s' -> In (alpha s') (astep (alpha s) (alab l)).
  Proof.
    intros Hs. destruct l; cbn [alab]; cbn in Hs.
    - (* push *)
      destruct (alive s) eqn:Ha; [|discriminate]. destruct (src s) as [|x r] eqn:Hsr; [discriminate|].
      inversion Hs; subst s'; clear Hs.
      unfold astep, alpha; cbn. rewrite Ha, Hsr. cbn. rewrite nonempty_app.
      destruct r; cbn; auto.
    - (* eof *)
      destruct (alive s) eqn:Ha; [|discriminate]. destruct (src s) as [|x r] eqn:Hsr; [|discriminate].
      inversion Hs; subst s'; clear Hs.
      unfold astep, alpha; cbn. rewrite Ha, Hsr. cbn. left. reflexivity.
    - (* load *)
      unfold step_matcher in Hs. destruct (mt s) as [m|] eqn:Hm; [|discriminate].
      destruct (ph m) eqn:Hp; try discriminate. inversion Hs; subst s'; clear Hs.
      unfold astep, astep_matcher, alpha; cbn. rewrite Hm, Hp. cbn. left. reflexivity.
    - (* take *)
      unfold step_matcher in Hs. destruct (mt s) as [m|] eqn:Hm; [|discriminate].
      destruct (ph m) eqn:Hp; try discriminate. destruct (locked s) eqn:Hl; [discriminate|].
      inversion Hs; subst s'; clear Hs.
      pose proof (a_locked s) as HL. rewrite Hl in HL.
      unfold astep, astep_matcher. cbn [a_mt alpha]. rewrite Hm, Hp. rewrite HL.
      unfold alpha; cbn. unfold consumed. cbn. rewrite Nat.sub_diag. cbn. left. reflexivity.
    - (* publish *)
      unfold step_matcher in Hs. destruct (mt s) as [m|] eqn:Hm; [|discriminate].
      destruct (ph m) eqn:Hp; try discriminate. inversion Hs; subst s'; clear Hs.
      unfold astep, astep_matcher, alpha; cbn. rewrite Hm, Hp. cbn. left. reflexivity.
    - (* notify *)
      unfold step_matcher in Hs. destruct (mt s) as [m|] eqn:Hm; [|discriminate].
      destruct (ph m) eqn:Hp; try discriminate. inversion Hs; subst s'; clear Hs.
      unfold astep, astep_matcher, alpha; cbn. rewrite Hm, Hp. cbn. left. reflexivity.
    - (* flag *)
      unfold step_matcher in Hs. destruct (mt s) as [m|] eqn:Hm; [|discriminate].
      destruct (ph m) eqn:Hp; try discriminate. inversion Hs; subst s'; clear Hs.
      unfold astep, astep_matcher, alpha; cbn. rewrite Hm, Hp. cbn. left. reflexivity.
    - (* exit *)
      unfold step_matcher in Hs. destruct (mt s) as [m|] eqn:Hm; [|discriminate].
      destruct (ph m) eqn:Hp; try discriminate. inversion Hs; subst s'; clear Hs.
      unfold astep, astep_matcher, alpha; cbn. rewrite Hm, Hp. cbn. left. reflexivity.
    - (* linger exit *)
      destruct (linger s) eqn:Hl; [|discriminate]. inversion Hs; subst s'; clear Hs.
      unfold astep, alpha; cbn. rewrite Hl. left. reflexivity.
    - (* timer *)
      destruct (timer s) eqn:Ht; [|discriminate]. inversion Hs; subst s'; clear Hs.
      unfold astep, alpha; cbn. rewrite Ht. left. reflexivity.
    - (* main *)
      unfold exec_main in Hs. destruct (pc s) as [|op rest] eqn:Hpc; [discriminate|].
      unfold astep, aexec_main. cbn [a_pc alpha]. rewrite Hpc. cbn [map].
      destruct op as [ |sv|r|r| | |c|c r| | |sr|sr]; cbn [amop_of].
      + inversion Hs; subst s'; clear Hs. rewrite alpha_upd_pc. cbn [map amop_of]. rewrite a_flagged. left. reflexivity.
      + inversion Hs; subst s'; clear Hs. rewrite alpha_upd_pc, a_rdone. left. f_equal.
        rewrite map_app. destruct sv; reflexivity.
      + (* harvest *)
        destruct (mt s) as [m|] eqn:Hm; [|discriminate]. destruct (flag m) eqn:Hf; [|discriminate].
        inversion Hs; subst s'; clear Hs.
        rewrite a_mt_alpha, Hm. rewrite a_flag, Hf. left.
        unfold alpha; cbn; try rewrite Hm; reflexivity.
      + (* HbReadC *)
        inversion Hs; subst s'; clear Hs. left.
        unfold alpha, consumed; cbn.
        destruct (mt s); destruct r; destruct (List.length (pl s) - taken s =? 0)%nat; cbn; reflexivity.
      + (* Restart *)
        destruct (mt s) as [m|] eqn:Hm; [discriminate|].
        rewrite a_mt_alpha, Hm. rewrite a_rdone, a_locked.
        destruct (rdone s) eqn:Hr.
        * inversion Hs; subst s'; clear Hs. left. unfold alpha; cbn. reflexivity.
        * destruct (locked s) eqn:Hl; [discriminate|].
          destruct (pool_append nres (pl s) (resv s) (rbuf s)) as [p' r'] eqn:Hpa.
          inversion Hs; subst s'; clear Hs.
          destruct (rbuf s) as [|x xs] eqn:Hrb.
          -- pose proof (pool_append_nil (pl s) (resv s)) as Hn. rewrite Hpa in Hn. cbn in Hn. subst p'.
             rewrite a_rbuf_alpha, Hrb. cbn [nonempty]. left.
             unfold alpha; cbn; try rewrite Hrb; reflexivity.
          -- pose proof (pool_append_len (pl s) (resv s) (x :: xs)) as Hn. rewrite Hpa in Hn. cbn [fst] in Hn.
             rewrite a_rbuf_alpha, Hrb. cbn [nonempty].
             destruct (List.length p' - taken s =? 0)%nat eqn:Hc'.
             ++ left. unfold alpha, consumed; cbn. rewrite Hc'.
                apply Nat.eqb_eq in Hc'. replace (List.length (pl s) - taken s =? 0)%nat with true; [reflexivity|].
                symmetry. apply Nat.eqb_eq. lia.
             ++ right. left. unfold alpha, consumed; cbn. rewrite Hc'. reflexivity.
      + inversion Hs; subst s'; clear Hs. rewrite alpha_upd_pc. left. reflexivity.
      + inversion Hs; subst s'; clear Hs. rewrite alpha_upd_pc, a_rdone. left. reflexivity.
      + (* S1Decide *)
        rewrite a_flags_alpha.
        destruct (negb (f1 s || f0 s || fsync s)) eqn:Hfl.
        * inversion Hs; subst s'; clear Hs. rewrite alpha_upd_pc. left. reflexivity.
        * rewrite a_mt_alpha.
          replace (match match mt s with Some m => Some (ph m, killed m) | None => None end with None => true | Some _ => false end)
            with (match mt s with None => true | Some _ => false end) by (destruct (mt s); reflexivity).
          destruct (r && c && match mt s with None => true | Some _ => false end) eqn:Hp.
          -- inversion Hs; subst s'; clear Hs. apply in_both_ex. eexists. unfold alpha; cbn. reflexivity.
          -- inversion Hs; subst s'; clear Hs. rewrite alpha_upd_pc. left. reflexivity.
      + (* KillQ *)
        left. destruct (mt s) as [m|] eqn:Hm; inversion Hs; subst s'; clear Hs; unfold alpha; cbn; try rewrite Hm; reflexivity.
      + (* JoinQ *)
        rewrite a_mt_alpha, a_linger_alpha.
        replace (match match mt s with Some m => Some (ph m, killed m) | None => None end with
                 | Some (PExited, _) => true | Some _ => false | None => true end)
          with (match mt s with Some m => match ph m with PExited => true | _ => false end | None => true end)
          by (destruct (mt s) as [m|]; [destruct (ph m)|]; reflexivity).
        destruct ((match mt s with Some m => match ph m with PExited => true | _ => false end | None => true end) && negb (linger s)); [|discriminate].
        inversion Hs; subst s'; clear Hs. apply in_both_ex. eexists. unfold alpha; cbn. reflexivity.
      + (* KillC *)
        left. destruct (mt s) as [m|] eqn:Hm; inversion Hs; subst s'; clear Hs; unfold alpha; cbn; try rewrite Hm; reflexivity.
      + (* JoinC *)
        rewrite a_mt_alpha, a_linger_alpha.
        replace (match match mt s with Some m => Some (ph m, killed m) | None => None end with
                 | Some (PExited, _) => true | Some _ => false | None => true end)
          with (match mt s with Some m => match ph m with PExited => true | _ => false end | None => true end)
          by (destruct (mt s) as [m|]; [destruct (ph m)|]; reflexivity).
        destruct ((match mt s with Some m => match ph m with PExited => true | _ => false end | None => true end) && negb (linger s)); [|discriminate].
        inversion Hs; subst s'; clear Hs. apply in_both_ex. eexists. unfold alpha; cbn. reflexivity.
    - (* heartbeat *)
      destruct (pc s) eqn:Hpc; [|discriminate]. inversion Hs; subst s'; clear Hs.
      unfold astep, alpha; cbn. rewrite Hpc. cbn. left. reflexivity.
    - destruct (pc s) eqn:Hpc; [|discriminate]. inversion Hs; subst s'; clear Hs.
      unfold astep, alpha, set_q; cbn. rewrite Hpc. cbn. left. reflexivity.
    - destruct (pc s) eqn:Hpc; [|discriminate]. inversion Hs; subst s'; clear Hs.
      unfold astep, alpha; cbn. rewrite Hpc. cbn. left. reflexivity.
  Qed.

  (** the abstraction is exact on enabledness *)
  Theorem enabled_exact s l : step s l = None -> astep (alpha s) (alab l) = [].
  Proof.
    intros Hs. destruct l; cbn [alab]; cbn in Hs.
    - unfold astep, alpha; cbn. destruct (alive s); [|reflexivity]. destruct (src s); [reflexivity|discriminate].
    - unfold astep, alpha; cbn. destruct (alive s); [|reflexivity]. destruct (src s); [discriminate|reflexivity].
    - unfold step_matcher in Hs. unfold astep, astep_matcher. rewrite a_mt_alpha.
      destruct (mt s) as [m|]; [|reflexivity]. destruct (ph m); try reflexivity; discriminate.
    - unfold step_matcher in Hs. unfold astep, astep_matcher. rewrite a_mt_alpha, a_locked.
      destruct (mt s) as [m|]; [|reflexivity]. destruct (ph m); try reflexivity. destruct (locked s); [reflexivity|discriminate].
    - unfold step_matcher in Hs. unfold astep, astep_matcher. rewrite a_mt_alpha.
      destruct (mt s) as [m|]; [|reflexivity]. destruct (ph m); try reflexivity; discriminate.
    - unfold step_matcher in Hs. unfold astep, astep_matcher. rewrite a_mt_alpha.
      destruct (mt s) as [m|]; [|reflexivity]. destruct (ph m); try reflexivity; discriminate.
    - unfold step_matcher in Hs. unfold astep, astep_matcher. rewrite a_mt_alpha.
      destruct (mt s) as [m|]; [|reflexivity]. destruct (ph m); try reflexivity; discriminate.
    - unfold step_matcher in Hs. unfold astep, astep_matcher. rewrite a_mt_alpha.
      destruct (mt s) as [m|]; [|reflexivity]. destruct (ph m); try reflexivity; discriminate.
    - unfold astep. rewrite a_linger_alpha. destruct (linger s); [discriminate|reflexivity].
    - unfold astep, alpha; cbn. destruct (timer s); [discriminate|reflexivity].
    - unfold exec_main in Hs. unfold astep, aexec_main. cbn [a_pc alpha].
      destruct (pc s) as [|op rest] eqn:Hpc; [reflexivity|]. cbn [map].
      destruct op as [ |sv|r|r| | |c|c r| | |sr|sr]; cbn [amop_of]; try discriminate.
      + rewrite a_mt_alpha. destruct (mt s) as [m|]; [|reflexivity]. rewrite a_flag. destruct (flag m); [discriminate|reflexivity].
      + rewrite a_mt_alpha, a_rdone, a_locked. destruct (mt s) as [m|]; [reflexivity|].
        destruct (rdone s); [discriminate|]. destruct (locked s); [reflexivity|].
        destruct (pool_append nres (pl s) (resv s) (rbuf s)). discriminate.
      + destruct (negb (f1 s || f0 s || fsync s)); [discriminate|].
        destruct (r && c && match mt s with None => true | Some _ => false end); discriminate.
      + rewrite a_mt_alpha, a_linger_alpha.
        replace (match match mt s with Some m => Some (ph m, killed m) | None => None end with
                 | Some (PExited, _) => true | Some _ => false | None => true end)
          with (match mt s with Some m => match ph m with PExited => true | _ => false end | None => true end)
          by (destruct (mt s) as [m|]; [destruct (ph m)|]; reflexivity).
        destruct ((match mt s with Some m => match ph m with PExited => true | _ => false end | None => true end) && negb (linger s)); [discriminate|reflexivity].
      + rewrite a_mt_alpha, a_linger_alpha.
        replace (match match mt s with Some m => Some (ph m, killed m) | None => None end with
                 | Some (PExited, _) => true | Some _ => false | None => true end)
          with (match mt s with Some m => match ph m with PExited => true | _ => false end | None => true end)
          by (destruct (mt s) as [m|]; [destruct (ph m)|]; reflexivity).
        destruct ((match mt s with Some m => match ph m with PExited => true | _ => false end | None => true end) && negb (linger s)); [discriminate|reflexivity].
    - unfold astep, alpha; cbn. destruct (pc s); [discriminate|reflexivity].
    - unfold astep, alpha; cbn. destruct (pc s); [discriminate|reflexivity].
    - unfold astep, alpha; cbn. destruct (pc s); [discriminate|reflexivity].
  Qed.

  (** every reachable state's abstraction is in the computed set *)
  Lemma alpha_init source q0 a b c : alpha (init source q0 a b c) = ainit (nonempty source) (a || b || c).
  Proof. reflexivity. Qed.

  Lemma run_reach ls : forall s s', In (alpha s) reach_list -> run s ls = Some s' -> In (alpha s') reach_list.
  Proof.
    induction ls as [|l ls IH]; intros s s' Hin Hr; cbn [Pipeline.run] in Hr.
    - inversion Hr; subst. exact Hin.
    - destruct (step s l) as [s1|] eqn:Hs; [|discriminate].
      apply (IH s1 s'); [|exact Hr]. eapply reach_closed; [exact Hin|]. apply sim. exact Hs.
  Qed.

  Theorem reachable_abs source q0 a b c ls s :
    run (init source q0 a b c) ls = Some s -> In (alpha s) reach_list.
  Proof.
    apply run_reach. rewrite alpha_init.
    pose proof reach_inits as H. rewrite forallb_forall in H. rewrite reach_list_eq. apply amem_In, H.
    destruct (nonempty source), (a || b || c); cbn; tauto.
  Qed.
End Sim.
