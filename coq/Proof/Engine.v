(** Lemmas about Model/Engine.v: exact matching is occurrence (C03), and/or evaluation is
    OR-of-ANDs and order-free (C04), reported positions are valid witnesses (C08). *)
From SkimV Require Import Common.Base Model.Engine.
From Coq Require Import Permutation.

(** * exact matching = occurrence of the pattern *)
(** [m] equals [pat] character by character under the case rule *)
Fixpoint same (sens : bool) (pat m : text) : Prop :=
  match pat, m with
  | [], [] => True
  | p :: pr, c :: cr => ceq sens p c = true /\ same sens pr cr
  | _, _ => False
  end.

Lemma prefix_match_spec sens : forall pat t,
  prefix_match sens pat t = true <-> exists m rest, t = m ++ rest /\ same sens pat m.
Proof.
  induction pat as [|p pr IH]; intros t; cbn [prefix_match].
  - split; [intros _; exists [], t; split; [reflexivity | exact I] | reflexivity].
  - destruct t as [|c cr].
    + split; [discriminate | intros (m & rest & E & HS)]. destruct m; cbn in *; [contradiction | discriminate].
    + rewrite andb_true_iff, IH. split.
      * intros (Hc & m & rest & E & HS). exists (c :: m), rest. split; [cbn; f_equal; exact E | cbn; split; assumption].
      * intros (m & rest & E & HS). destruct m as [|c' m]; [cbn in HS; contradiction|]. cbn in E. inversion E; subst.
        destruct HS as [S1 S2]. split; [exact S1 | exists m, rest; split; [reflexivity | exact S2]].
Qed.

Lemma same_length sens : forall pat m, same sens pat m -> length pat = length m.
Proof. induction pat as [|p pr IH]; intros [|c cr] H; cbn in *; try contradiction; [reflexivity | f_equal; apply IH, H]. Qed.

(** an occurrence: t = a ++ m ++ b with m ~ pat, anchored as required *)
Definition occurs (sens : bool) (pat : text) (pre post : bool) (t : text) : Prop :=
  exists a m b, t = a ++ m ++ b /\ same sens pat m /\ (pre = true -> a = []) /\ (post = true -> b = []).

Lemma here_spec sens pat post t :
  prefix_match sens pat t && (negb post || Nat.eqb (length t) (length pat)) = true <->
  exists m b, t = m ++ b /\ same sens pat m /\ (post = true -> b = []).
Proof.
  rewrite andb_true_iff, prefix_match_spec. split.
  - intros ((m & b & E & HS) & H). exists m, b. split; [exact E|]. split; [exact HS|]. intros Hp. subst post. cbn in H.
    apply Nat.eqb_eq in H. subst t. rewrite app_length, (same_length _ _ _ HS) in H. destruct b; [reflexivity | cbn in H; lia].
  - intros (m & b & E & HS & Hp). split; [exists m, b; auto|]. destruct post; [|reflexivity]. cbn. specialize (Hp eq_refl). subst b t.
    rewrite app_nil_r. apply Nat.eqb_eq. symmetry. apply (same_length _ _ _ HS).
Qed.

Lemma find_from_some sens pat pre post : forall t i k,
  find_from sens pat pre post t i = Some k ->
  exists a m b, t = a ++ m ++ b /\ same sens pat m /\ (post = true -> b = []) /\ k = (i + length a)%nat /\ (pre = true -> a = []).
Proof.
  induction t as [|c r IH]; intros i k H; cbn [find_from] in H.
  - destruct (prefix_match sens pat [] && (negb post || Nat.eqb (length (@nil char)) (length pat))) eqn:E.
    + inversion H; subst. apply here_spec in E as (m & b & E1 & HS & Hp). exists [], m, b. cbn. repeat split; auto; lia.
    + destruct pre; discriminate.
  - destruct (prefix_match sens pat (c :: r) && (negb post || Nat.eqb (length (c :: r)) (length pat))) eqn:E.
    + inversion H; subst. apply here_spec in E as (m & b & E1 & HS & Hp). exists [], m, b. cbn. repeat split; auto; lia.
    + destruct pre; [discriminate|]. apply IH in H as (a & m & b & E1 & HS & Hp & Hk & _).
      exists (c :: a), m, b. subst r. cbn. repeat split; auto; [lia | discriminate].
Qed.

Lemma find_from_none sens pat pre post : forall t i,
  find_from sens pat pre post t i = None -> ~ occurs sens pat pre post t.
Proof.
  induction t as [|c r IH]; intros i H (a & m & b & E & HS & Hpre & Hpost); cbn [find_from] in H.
  - destruct (prefix_match sens pat [] && _) eqn:Eh; [discriminate|].
    assert (a = [] /\ m = [] /\ b = []) as (-> & -> & ->).
    { destruct a; [|discriminate]. destruct m; [|discriminate]. destruct b; [auto | discriminate]. }
    assert (Hh : prefix_match sens pat [] && (negb post || Nat.eqb (length (@nil char)) (length pat)) = true)
      by (apply here_spec; exists [], []; auto).
    congruence.
  - destruct (prefix_match sens pat (c :: r) && _) eqn:Eh; [discriminate|].
    destruct a as [|c' a].
    + cbn [app] in E. assert (Hh : prefix_match sens pat (c :: r) && (negb post || Nat.eqb (length (c :: r)) (length pat)) = true)
        by (apply here_spec; exists m, b; auto).
      congruence.
    + destruct pre; [specialize (Hpre eq_refl); discriminate|].
      cbn in E. inversion E; subst. apply (IH (S i) H). exists a, m, b. repeat split; auto. discriminate.
Qed.

(** the exact search finds a match exactly when the pattern occurs (substring / prefix / suffix /
    whole text, under the case rule) *)
Theorem exact_in_slice_iff sens pat pre post sl :
  exact_in_slice sens pat pre post sl <> None <-> occurs sens pat pre post sl.
Proof.
  unfold exact_in_slice. destruct (find_from sens pat pre post sl 0) as [k|] eqn:E.
  - split; [intros _ | discriminate]. apply find_from_some in E as (a & m & b & E1 & HS & Hp & _ & Hpre). exists a, m, b. auto.
  - split; [congruence | intros H]. exfalso. eapply find_from_none; eassumption.
Qed.

(** * UTF-8 geometry *)
Lemma blen_app a b : blen (a ++ b) = (blen a + blen b)%N.
Proof. induction a as [|c a IH]; cbn [app blen]; [lia | rewrite IH; lia]. Qed.

Lemma clen_pos c : (1 <= clen c)%N.
Proof. unfold clen. destruct (c <? 128)%N; [lia|]. destruct (c <? 2048)%N; [lia|]. destruct (c <? 65536)%N; lia. Qed.

Lemma split_at_spec : forall t off a b, split_at t off = Some (a, b) -> t = a ++ b /\ blen a = off.
Proof.
  induction t as [|c r IH]; intros off a b H.
  - cbn [split_at] in H. destruct (off =? 0)%N eqn:E; [|discriminate]. inversion H; subst. apply N.eqb_eq in E. auto.
  - cbn [split_at] in H. destruct (off =? 0)%N eqn:E.
    + inversion H; subst. apply N.eqb_eq in E. auto.
    + destruct (clen c <=? off)%N eqn:E2; [|discriminate]. apply N.leb_le in E2.
      destruct (split_at r (off - clen c)) as [[a' b']|] eqn:E3; [|discriminate]. inversion H; subst.
      destruct (IH _ _ _ E3) as [-> Hb]. split; [reflexivity|]. cbn [blen]. lia.
Qed.

Lemma split_at_boundary : forall a b, split_at (a ++ b) (blen a) = Some (a, b).
Proof.
  induction a as [|c a IH]; intros b.
  - cbn [app blen]. destruct b; reflexivity.
  - cbn [app blen split_at]. pose proof (clen_pos c).
    assert (E : (clen c + blen a =? 0)%N = false) by (apply N.eqb_neq; lia). rewrite E.
    assert (E2 : (clen c <=? clen c + blen a)%N = true) by (apply N.leb_le; lia). rewrite E2.
    replace (clen c + blen a - clen c)%N with (blen a) by lia. rewrite IH. reflexivity.
Qed.

(** an offset is a character boundary of t *)
Definition boundary (t : text) (off : N) : Prop := exists a b, t = a ++ b /\ blen a = off.

Lemma slice_spec t s e pre m : slice t s e = Some (pre, m) ->
  exists post, t = pre ++ m ++ post /\ blen pre = s /\ blen m = (e - s)%N /\ (s <= e)%N.
Proof.
  unfold slice. destruct (e <? s)%N eqn:E; [discriminate|]. apply N.ltb_ge in E.
  destruct (split_at t s) as [[pre' rest]|] eqn:E1; [|discriminate].
  destruct (split_at rest (e - s)) as [[m' post]|] eqn:E2; [|discriminate].
  intros H; inversion H; subst. destruct (split_at_spec _ _ _ _ E1) as [-> H1]. destruct (split_at_spec _ _ _ _ E2) as [-> H2].
  exists post. auto.
Qed.

(** the exact engine's span inside a slice is a span of the slice on character boundaries *)
Lemma exact_in_slice_span sens pat pre post sl b e : exact_in_slice sens pat pre post sl = Some (b, e) ->
  exists a m c, sl = a ++ m ++ c /\ blen a = b /\ (blen a + blen m)%N = e /\ same sens pat m.
Proof.
  unfold exact_in_slice. destruct (find_from sens pat pre post sl 0) as [k|] eqn:E; [|discriminate].
  apply find_from_some in E as (a & m & c & E1 & HS & _ & Hk & _). cbn in Hk. subst k.
  intros H; inversion H; subst; clear H. exists a, m, c.
  rewrite firstn_app, Nat.sub_diag, firstn_all. cbn [firstn]. rewrite app_nil_r.
  rewrite skipn_app, Nat.sub_diag, skipn_all. cbn [skipn app].
  rewrite (same_length _ _ _ HS), firstn_app, Nat.sub_diag, firstn_all. cbn [firstn]. rewrite app_nil_r. auto.
Qed.

(** shifted by the slice's start it is a span of the whole text on character boundaries, and the
    characters it covers are an occurrence of the term *)
Theorem exact_span_valid t s e pre_t sl sens pat pre post b e' :
  slice t s e = Some (pre_t, sl) -> exact_in_slice sens pat pre post sl = Some (b, e') ->
  exists a m c, t = a ++ m ++ c /\ blen a = (b + s)%N /\ (blen a + blen m)%N = (e' + s)%N /\ same sens pat m.
Proof.
  intros Hs He. destruct (slice_spec _ _ _ _ _ Hs) as (post_t & -> & H1 & H2 & H3).
  destruct (exact_in_slice_span _ _ _ _ _ _ _ He) as (a & m & c & -> & Ha & Hm & HS).
  exists (pre_t ++ a), m, (c ++ post_t). rewrite <- !app_assoc. repeat split; try exact HS; rewrite ?blen_app; lia.
Qed.

(** * fuzzy positions: shifting the library's indices by the characters before the slice *)
Definition valid_indices (idx : list N) (n : nat) : Prop :=
  (forall k i, nth_error idx k = Some i -> (i < N.of_nat n)%N) /\
  (forall k i j, nth_error idx k = Some i -> nth_error idx (S k) = Some j -> (i < j)%N).

Theorem fuzzy_shift_valid (pre sl post : text) idx : valid_indices idx (length sl) ->
  let shifted := map (fun x => x + N.of_nat (length pre))%N idx in
  valid_indices shifted (length (pre ++ sl ++ post)) /\
  (forall k i, nth_error idx k = Some i ->
     nth_error (pre ++ sl ++ post) (N.to_nat (i + N.of_nat (length pre))) = nth_error sl (N.to_nat i)).
Proof.
  intros [V1 V2]. cbn zeta. split; [split|].
  - intros k i H. rewrite nth_error_map in H. destruct (nth_error idx k) as [i0|] eqn:E; [|discriminate]. inversion H; subst.
    specialize (V1 _ _ E). rewrite !app_length. lia.
  - intros k i j H1 H2. rewrite nth_error_map in H1, H2.
    destruct (nth_error idx k) as [i0|] eqn:E1; [|discriminate]. destruct (nth_error idx (S k)) as [j0|] eqn:E2; [|discriminate].
    inversion H1; inversion H2; subst. specialize (V2 _ _ _ E1 E2). lia.
  - intros k i H. specialize (V1 _ _ H).
    replace (N.to_nat (i + N.of_nat (length pre))) with (length pre + N.to_nat i)%nat by lia.
    rewrite nth_error_app2 by lia. replace (length pre + N.to_nat i - length pre)%nat with (N.to_nat i) by lia.
    rewrite nth_error_app1 by lia. reflexivity.
Qed.

(** * and / or *)
Definition is_match (r : result) : bool := match r with Match _ => true | _ => false end.
Definition is_panic (r : result) : bool := match r with Panic => true | _ => false end.

Section AndOr.
  Variable fz : text -> text -> option (list N).
  Variable rx : text -> text -> option (N * N).
  Variable rx_valid : text -> bool.
  Variable cm : casem.
  Notation eval := (eval fz rx rx_valid cm).

  Definition or_eval (it : item) :=
    fix first (l : list engine) : result :=
      match l with [] => NoMatch | x :: r => match eval x it with NoMatch => first r | other => other end end.

  Lemma eval_or es it : eval (EOr es) it = or_eval it es.
  Proof. reflexivity. Qed.

  (** without panics an alternative list matches iff one of its alternatives does *)
  Lemma or_verdict it : forall es, (forall e, In e es -> is_panic (eval e it) = false) ->
    is_match (or_eval it es) = existsb (fun e => is_match (eval e it)) es.
  Proof.
    induction es as [|x r IH]; intros Hp; [reflexivity|]. cbn [or_eval existsb].
    pose proof (Hp x (or_introl eq_refl)) as Hx.
    destruct (eval x it) eqn:E; cbn [is_match is_panic orb] in *; [discriminate | apply IH; intros e He; apply Hp; right; exact He | reflexivity].
  Qed.

  Definition and_eval (it : item) :=
    fix all (l : list engine) (acc : list N) (any : bool) : result :=
      match l with
      | [] => if any then Match (RChars (dedup_N (sort_N acc))) else NoMatch
      | x :: r => match eval x it with
                  | Match m => match char_indices (i_text it) m with
                               | Some idx => all r (acc ++ idx) true
                               | None => Panic
                               end
                  | other => other
                  end
      end.

  Lemma eval_and es it : eval (EAnd es) it = and_eval it es [] false.
  Proof. reflexivity. Qed.

  (** without panics a term list matches iff it is non-empty and every term matches *)
  Lemma and_verdict it : forall es acc any, is_panic (and_eval it es acc any) = false ->
    is_match (and_eval it es acc any) = (any || negb (match es with [] => true | _ => false end)) && forallb (fun e => is_match (eval e it)) es.
  Proof.
    induction es as [|x r IH]; intros acc any Hp; cbn [and_eval forallb] in *.
    - destruct any; reflexivity.
    - destruct (eval x it) as [| |m] eqn:E; cbn [is_match is_panic] in *; [discriminate | rewrite andb_false_r; reflexivity |].
      destruct (char_indices (i_text it) m) as [idx|]; [|discriminate]. rewrite (IH _ _ Hp). cbn [negb orb andb].
      destruct any; cbn; reflexivity.
  Qed.

  Lemma forallb_perm {X} (f : X -> bool) l l' : Permutation l l' -> forallb f l = forallb f l'.
  Proof.
    induction 1 as [|x l l' H IH|x y l|l l' l'' H1 IH1 H2 IH2]; cbn.
    - reflexivity.
    - rewrite IH; reflexivity.
    - destruct (f x), (f y); reflexivity.
    - congruence.
  Qed.
  Lemma existsb_perm {X} (f : X -> bool) l l' : Permutation l l' -> existsb f l = existsb f l'.
  Proof.
    induction 1 as [|x l l' H IH|x y l|l l' l'' H1 IH1 H2 IH2]; cbn.
    - reflexivity.
    - rewrite IH; reflexivity.
    - destruct (f x), (f y); reflexivity.
    - congruence.
  Qed.
End AndOr.

(** * merged positions are strictly increasing *)
Fixpoint sorted_N (l : list N) : Prop :=
  match l with x :: ((y :: _) as r) => (x <= y)%N /\ sorted_N r | _ => True end.
Fixpoint strict_N (l : list N) : Prop :=
  match l with x :: ((y :: _) as r) => (x < y)%N /\ strict_N r | _ => True end.

Lemma insert_N_sorted x l : sorted_N l -> sorted_N (insert_N x l).
Proof.
  induction l as [|y r IH]; intros H; cbn [insert_N]; [exact I|].
  destruct (x <=? y)%N eqn:E.
  - apply N.leb_le in E. cbn. auto.
  - apply N.leb_gt in E. destruct r as [|z r'].
    + cbn. split; [lia | exact I].
    + cbn [insert_N] in *. destruct H as [H1 H2]. specialize (IH H2).
      destruct (x <=? z)%N eqn:E2.
      * apply N.leb_le in E2. cbn. split; [lia|]. split; [exact E2 | exact H2].
      * cbn. split; [exact H1|]. exact IH.
Qed.
Lemma sort_N_sorted l : sorted_N (sort_N l).
Proof. induction l as [|x l IH]; cbn [sort_N fold_right]; [exact I | apply insert_N_sorted, IH]. Qed.

Lemma insert_N_In x l y : In y (insert_N x l) <-> y = x \/ In y l.
Proof.
  induction l as [|z r IH]; cbn [insert_N]; [cbn; intuition|].
  destruct (x <=? z)%N; cbn [In]; [intuition | rewrite IH; intuition].
Qed.
Lemma sort_N_In l y : In y (sort_N l) <-> In y l.
Proof. induction l as [|x l IH]; cbn [sort_N fold_right]; [reflexivity|]. rewrite insert_N_In, IH. cbn. intuition. Qed.

Lemma dedup_N_cons2 x y r : dedup_N (x :: y :: r) = if (x =? y)%N then dedup_N (y :: r) else x :: dedup_N (y :: r).
Proof. reflexivity. Qed.

Lemma dedup_N_head x r : exists r', dedup_N (x :: r) = x :: r' .
Proof.
  revert x; induction r as [|y r IH]; intros x; [exists []; reflexivity|].
  rewrite dedup_N_cons2. destruct (x =? y)%N eqn:E; [apply N.eqb_eq in E; subst; apply IH | eexists; reflexivity].
Qed.

Lemma dedup_N_strict l : sorted_N l -> strict_N (dedup_N l).
Proof.
  induction l as [|x l IH]; intros H; [exact I|]. destruct l as [|y r]; [exact I|].
  rewrite dedup_N_cons2. destruct H as [H1 H2]. specialize (IH H2).
  destruct (x =? y)%N eqn:E; [exact IH|]. apply N.eqb_neq in E.
  destruct (dedup_N_head y r) as (r' & Hr). rewrite Hr in *. cbn. split; [lia | exact IH].
Qed.

Lemma dedup_N_In l y : In y (dedup_N l) <-> In y l.
Proof.
  induction l as [|x l IH]; [reflexivity|]. destruct l as [|z r]; [reflexivity|].
  rewrite dedup_N_cons2. destruct (x =? z)%N eqn:E.
  - apply N.eqb_eq in E. subst. rewrite IH. cbn. intuition.
  - cbn [In] in *. rewrite IH. intuition.
Qed.

Theorem merged_positions l : strict_N (dedup_N (sort_N l)) /\ forall y, In y (dedup_N (sort_N l)) <-> In y l.
Proof. split; [apply dedup_N_strict, sort_N_sorted | intros y; rewrite dedup_N_In, sort_N_In; reflexivity]. Qed.

(** * whole-text evaluation (no --nth) *)
Lemma slice_whole t : slice t 0 (blen t) = Some ([], t).
Proof.
  unfold slice. assert (E : (blen t <? 0)%N = false) by (apply N.ltb_ge; lia). rewrite E.
  assert (E0 : split_at t 0 = Some ([], t)) by (destruct t; reflexivity). rewrite E0.
  rewrite N.sub_0_r. rewrite <- (app_nil_r t) at 1. rewrite split_at_boundary. reflexivity.
Qed.

Section Whole.
  Variable fz : text -> text -> option (list N).
  Variable rx : text -> text -> option (N * N).
  Variable rx_valid : text -> bool.
  Variable cm : casem.
  Notation eval := (eval fz rx rx_valid cm).

  Definition whole (t : text) : item := {| i_text := t; i_ranges := None |}.

  Lemma min_whole t : N.min (blen t) (blen t) = blen t /\ N.min 0 (blen t) = 0%N.
  Proof. split; lia. Qed.

  Lemma eval_exact_whole t p ps pre post inv :
    is_match (eval (EExact (p :: ps) pre post inv) (whole t)) =
    xorb inv (match exact_in_slice (case_sensitive cm (p :: ps)) (p :: ps) pre post t with Some _ => true | None => false end).
  Proof.
    cbn [Engine.eval whole item_ranges i_ranges i_text exact_loop].
    destruct (min_whole t) as [M1 M2]. rewrite M1, M2, slice_whole.
    destruct (exact_in_slice _ (p :: ps) pre post t) as [[b e]|]; cbn [option_map]; destruct inv; reflexivity.
  Qed.

  Lemma eval_exact_empty t pre post inv : eval (EExact [] pre post inv) (whole t) = Match (RBytes 0 0).
  Proof.
    cbn [Engine.eval whole item_ranges i_ranges i_text exact_loop].
    destruct (min_whole t) as [M1 M2]. rewrite M1, M2, slice_whole. reflexivity.
  Qed.

  Lemma eval_fuzzy_whole t pat :
    is_match (eval (EFuzzy pat) (whole t)) =
    match pat with
    | [] => true
    | _ => match t with [] => false | _ => match fz pat t with Some _ => true | None => false end end
    end.
  Proof.
    cbn [Engine.eval whole item_ranges i_ranges i_text fuzzy_loop].
    destruct (min_whole t) as [M1 M2]. rewrite M1, M2, slice_whole. unfold fuzzy_match.
    destruct pat as [|p ps]; [reflexivity|]. destruct t as [|c r]; [reflexivity|].
    destruct (fz (p :: ps) (c :: r)); reflexivity.
  Qed.

  Lemma eval_regex_invalid t pat : rx_valid pat = false -> eval (ERegex pat) (whole t) = Match (RBytes 0 0).
  Proof.
    intros H. cbn [Engine.eval whole item_ranges i_ranges i_text regex_loop].
    destruct (min_whole t) as [M1 M2]. rewrite M1, M2, slice_whole, H. reflexivity.
  Qed.

  Lemma eval_regex_whole t pat : rx_valid pat = true ->
    is_match (eval (ERegex pat) (whole t)) = match rx pat t with Some _ => true | None => false end.
  Proof.
    intros H. cbn [Engine.eval whole item_ranges i_ranges i_text regex_loop].
    destruct (min_whole t) as [M1 M2]. rewrite M1, M2, slice_whole, H. cbn [negb]. destruct (rx pat t) as [[b e]|]; reflexivity.
  Qed.
End Whole.

(** * the decoding table *)
(** a body that carries none of the term syntax at its ends *)
Definition plain (b : text) : Prop :=
  match b with
  | c :: _ => c <> Q /\ c <> BANG /\ c <> CARET /\ ends_with_char b DOLLAR = false
  | [] => False
  end.

Lemma ends_with_snoc b c : ends_with_char (b ++ [c]) c = true.
Proof. unfold ends_with_char. rewrite rev_app_distr. cbn. apply N.eqb_refl. Qed.
Lemma strip_last_snoc b c : strip_last (b ++ [c]) = b.
Proof. unfold strip_last. apply removelast_last. Qed.

Ltac neq_false H := let E := fresh in destruct (N.eqb_spec _ _) as [E|E]; [exfalso; apply H; exact E|].

Ltac dstep := cbv beta iota zeta; cbn [andb orb].

Lemma decode_plain em b : plain b -> decode_term em b = if em then EExact b false false false else EFuzzy b.
Proof.
  destruct b as [|c r]; [intros []|]. intros (H1 & H2 & H3 & H4). unfold decode_term.
  assert (E1 : (c =? Q)%N = false) by (apply N.eqb_neq; exact H1).
  assert (E2 : (c =? BANG)%N = false) by (apply N.eqb_neq; exact H2).
  assert (E3 : (c =? CARET)%N = false) by (apply N.eqb_neq; exact H3).
  rewrite E1. dstep. rewrite E2. dstep. rewrite E3. dstep. rewrite H4. dstep. destruct em; reflexivity.
Qed.

Lemma decode_quote b : plain b ->
  decode_term false (Q :: b) = EExact b false false false /\ decode_term true (Q :: b) = EFuzzy b.
Proof.
  destruct b as [|c r]; [intros []|]. intros (H1 & H2 & H3 & H4). unfold decode_term.
  assert (E2 : (c =? BANG)%N = false) by (apply N.eqb_neq; exact H2).
  assert (E3 : (c =? CARET)%N = false) by (apply N.eqb_neq; exact H3).
  rewrite N.eqb_refl. dstep. rewrite E2. dstep. rewrite E3. dstep. rewrite H4. dstep. split; reflexivity.
Qed.

Lemma decode_caret em b : plain b -> decode_term em (CARET :: b) = EExact b true false false.
Proof.
  destruct b as [|c r]; [intros []|]. intros (H1 & H2 & H3 & H4). unfold decode_term.
  change (CARET =? Q)%N with false. dstep. change (CARET =? BANG)%N with false. dstep. rewrite N.eqb_refl. dstep. rewrite H4. dstep.
  destruct em; reflexivity.
Qed.

Lemma decode_bang em b : plain b -> decode_term em (BANG :: b) = EExact b false false true.
Proof.
  destruct b as [|c r]; [intros []|]. intros (H1 & H2 & H3 & H4). unfold decode_term.
  assert (E3 : (c =? CARET)%N = false) by (apply N.eqb_neq; exact H3).
  change (BANG =? Q)%N with false. dstep. rewrite N.eqb_refl. dstep. rewrite E3. dstep. rewrite H4. dstep. destruct em; reflexivity.
Qed.

Lemma decode_bang_caret em b : plain b -> decode_term em (BANG :: CARET :: b) = EExact b true false true.
Proof.
  destruct b as [|c r]; [intros []|]. intros (H1 & H2 & H3 & H4). unfold decode_term.
  change (BANG =? Q)%N with false. dstep. rewrite N.eqb_refl. dstep. rewrite N.eqb_refl. dstep. rewrite H4. dstep. destruct em; reflexivity.
Qed.

Lemma decode_dollar em b : plain b -> decode_term em (b ++ [DOLLAR]) = EExact b false true false.
Proof.
  destruct b as [|c r]; [intros []|]. intros (H1 & H2 & H3 & H4). unfold decode_term. cbn [app].
  assert (E1 : (c =? Q)%N = false) by (apply N.eqb_neq; exact H1).
  assert (E2 : (c =? BANG)%N = false) by (apply N.eqb_neq; exact H2).
  assert (E3 : (c =? CARET)%N = false) by (apply N.eqb_neq; exact H3).
  rewrite E1. dstep. rewrite E2. dstep. rewrite E3. dstep.
  change (c :: r ++ [DOLLAR]) with ((c :: r) ++ [DOLLAR]). rewrite ends_with_snoc. dstep. rewrite strip_last_snoc. destruct em; reflexivity.
Qed.

Lemma decode_caret_dollar em b : plain b -> decode_term em (CARET :: b ++ [DOLLAR]) = EExact b true true false.
Proof.
  destruct b as [|c r]; [intros []|]. intros (H1 & H2 & H3 & H4). unfold decode_term.
  change (CARET =? Q)%N with false. dstep. change (CARET =? BANG)%N with false. dstep. rewrite N.eqb_refl. dstep.
  rewrite ends_with_snoc. dstep. rewrite strip_last_snoc. destruct em; reflexivity.
Qed.

Lemma decode_match_all em :
  decode_term em [] = EAll /\ decode_term em [BANG] = EAll /\ decode_term false [Q] = EAll /\ decode_term true [Q] = EFuzzy [].
Proof. repeat split; destruct em; reflexivity. Qed.
