(** Proofs about Model/Draw.v: reshape_string never panics on valid match spans; every cell the
    line printer emits lies inside the container; a text that fits is laid out in full with its
    own highlight; a clipped text shows a contiguous run of its glyphs between dots; the row loop
    puts item item_cursor + r on row r with pointer and marker. *)
From SkimV Require Import Common.Base Model.Draw.

Section Proofs.
  Variable cw : char -> nat.

  Local Notation acc_from := (acc_from cw).
  Local Notation acc_widths := (acc_widths cw).
  Local Notation reshape := (reshape cw).
  Local Notation print_raw := (print_raw cw).
  Local Notation print_spaces := (print_spaces cw).
  Local Notation print_char := (print_char cw).
  Local Notation print_item := (print_item cw).

  (** * accumulate_text_width is non-decreasing *)
  Lemma acc_from_length w tab t : List.length (acc_from w tab t) = List.length t.
  Proof. revert w. induction t as [|c r IH]; intros w; cbn; [reflexivity|]. rewrite IH. reflexivity. Qed.

  Lemma acc_from_ge w tab t k a : nth_error (acc_from w tab t) k = Some a -> w <= a.
  Proof.
    revert w k. induction t as [|c r IH]; intros w k H; [destruct k; discriminate|].
    cbn in H. destruct k as [|k]; cbn in H.
    - inversion H. lia.
    - apply IH in H. lia.
  Qed.

  Lemma acc_from_mono w tab t i j a b :
    i <= j -> nth_error (acc_from w tab t) i = Some a -> nth_error (acc_from w tab t) j = Some b -> a <= b.
  Proof.
    revert w i j. induction t as [|c r IH]; intros w i j Hij Hi Hj; [destruct i; discriminate|].
    cbn in Hi, Hj. destruct i as [|i], j as [|j]; cbn in Hi, Hj; try lia.
    - inversion Hi; inversion Hj; lia.
    - inversion Hi; subst. apply acc_from_ge in Hj. lia.
    - eapply (IH _ i j); eauto. lia.
  Qed.

  Lemma last_nth_error (l : list nat) d : l <> [] -> nth_error l (List.length l - 1) = Some (last l d).
  Proof.
    induction l as [|x l IH]; [congruence|]. intros _. destruct l as [|y l].
    - reflexivity.
    - cbn [List.length last]. replace (S (S (List.length l)) - 1) with (S (List.length (y :: l) - 1)) by (cbn; lia).
      cbn [nth_error]. apply IH. discriminate.
  Qed.

  (** * reshape_string never panics when the match span is a span of the text *)
  Theorem reshape_total t cwid ms me tab :
    ms <= me -> me <= List.length t -> exists s full, reshape t cwid ms me tab = Some (s, full).
  Proof.
    intros Hle Hme. unfold Draw.reshape. destruct t as [|c0 t0] eqn:Et; [eauto|]. rewrite <- Et in *.
    set (acc := acc_widths tab t). set (full := last acc 0).
    assert (Hlen : List.length acc = List.length t) by apply acc_from_length.
    assert (Hne : acc <> []). { intros E. rewrite E in Hlen. rewrite Et in Hlen. discriminate. }
    assert (Hlast : nth_error acc (List.length acc - 1) = Some full) by (apply last_nth_error; exact Hne).
    assert (Hpos : 0 < List.length t) by (rewrite Et; cbn; lia).
    destruct (full <=? cwid) eqn:Hfit; [eauto|]. apply Nat.leb_gt in Hfit.
    (* w1 *)
    assert (Hw1 : exists w1, (match ms with O => Some 0 | S k => nth_error acc k end) = Some w1 /\ w1 <= full /\
                             (forall a, nth_error acc me = Some a -> w1 <= a)).
    { destruct ms as [|k].
      - exists 0. split; [reflexivity|]. split; [lia|]. intros; lia.
      - destruct (nth_error acc k) as [a|] eqn:Hk.
        + exists a. split; [reflexivity|]. split.
          * eapply (acc_from_mono 0 tab t k (List.length acc - 1)); eauto. lia.
          * intros b Hb. eapply (acc_from_mono 0 tab t k me); eauto. lia.
        + exfalso. apply nth_error_None in Hk. lia. }
    destruct Hw1 as (w1 & -> & Hw1f & Hw1m).
    unfold csub.
    destruct (List.length acc <=? me) eqn:Hme2.
    - (* the match reaches the end: w3 = 0, right-fixed *)
      apply Nat.leb_le in Hw1f as Hb. rewrite Hb.
      replace (full - w1 - (full - w1)) with 0 by lia.
      assert (Hb2 : (full - w1 <=? full - w1) = true) by (apply Nat.leb_le; lia). rewrite Hb2.
      cbn [Nat.leb Nat.ltb orb]. rewrite orb_true_r.
      assert (Hb3 : (cwid <=? full) = true) by (apply Nat.leb_le; lia). rewrite Hb3. eauto.
    - apply Nat.leb_gt in Hme2. destruct (nth_error acc me) as [a|] eqn:Ha; [|apply nth_error_None in Ha; lia].
      assert (Haf : a <= full). { eapply (acc_from_mono 0 tab t me (List.length acc - 1)); eauto. lia. }
      specialize (Hw1m a eq_refl).
      assert (Hb1 : (w1 <=? a) = true) by (apply Nat.leb_le; lia). rewrite Hb1.
      assert (Hb2 : (w1 <=? full) = true) by (apply Nat.leb_le; lia). rewrite Hb2.
      assert (Hb3 : (a - w1 <=? full - w1) = true) by (apply Nat.leb_le; lia). rewrite Hb3.
      set (w2 := a - w1). set (w3 := full - w1 - w2).
      destruct (((w3 <? w1) && (w2 + w3 <=? cwid)) || (w3 <=? 2)) eqn:Hbr1.
      + assert (Hb4 : (cwid <=? full) = true) by (apply Nat.leb_le; lia). rewrite Hb4. eauto.
      + destruct ((w1 <=? w3) && (w1 + w2 <=? cwid)) eqn:Hbr2; [eauto|].
        (* left-right: acc[me] = w1 + w2 > cwid *)
        assert (Hb5 : (cwid <=? a) = true).
        { apply Nat.leb_le. apply orb_false_iff in Hbr1 as [Hx _].
          apply andb_false_iff in Hx. apply andb_false_iff in Hbr2.
          unfold w2, w3 in *.
          destruct Hx as [Hx|Hx]; destruct Hbr2 as [Hy|Hy];
            try apply Nat.ltb_ge in Hx; try apply Nat.leb_gt in Hx; try apply Nat.leb_gt in Hy; lia. }
        rewrite Hb5. eauto.
  Qed.

  (** * the line printer stays inside its container *)
  Definition lp_ok (col0 cwid : nat) (p : lp) : Prop :=
    l_end p = l_start p + cwid /\ col0 <= l_scol p /\ l_scol p <= col0 + (l_pos p - l_start p).

  Definition in_box (col0 cwid : nat) (c : cell) : Prop := col0 <= fst c < col0 + cwid.

  Lemma dots_cols n col tg c : In c (dots n col tg) -> col <= fst c < col + n /\ snd c = (DOT, tg).
  Proof.
    revert col. induction n as [|n IH]; intros col H; [destruct H|].
    cbn in H. destruct H as [<- | H]; [cbn; split; [lia|reflexivity]|].
    apply IH in H. destruct H as [H1 H2]. split; [lia|exact H2].
  Qed.

  Lemma print_raw_ok col0 cwid p c tg p' out :
    lp_ok col0 cwid p -> print_raw p c tg = (p', out) ->
    lp_ok col0 cwid p' /\ Forall (in_box col0 cwid) out.
  Proof.
    intros (He & Hlo & Hhi) H. unfold Draw.print_raw in H.
    destruct ((l_pos p <? l_start p) || (l_end p <=? l_pos p)) eqn:Hhid.
    - inversion H; subst; clear H. split; [|constructor]. unfold lp_ok; cbn. repeat split; auto. lia.
    - apply orb_false_iff in Hhid as [H1 H2]. apply Nat.ltb_ge in H1. apply Nat.leb_gt in H2.
      destruct ((l_pos p <? l_start p + 2) && (0 <? l_start p)) eqn:Hl.
      + inversion H; subst; clear H. split.
        * unfold lp_ok; cbn. repeat split; auto; lia.
        * apply Forall_forall. intros x Hx. apply dots_cols in Hx as [Hx _]. unfold in_box. lia.
      + destruct ((l_end p - l_pos p <=? 2) && (l_end p <? l_tw p)) eqn:Hr.
        * inversion H; subst; clear H. split.
          -- unfold lp_ok; cbn. repeat split; auto; lia.
          -- apply Forall_forall. intros x Hx. apply dots_cols in Hx as [Hx _]. unfold in_box. lia.
        * inversion H; subst; clear H. split.
          -- unfold lp_ok; cbn. repeat split; auto; lia.
          -- constructor; [|constructor]. unfold in_box; cbn. lia.
  Qed.

  Lemma print_spaces_ok col0 cwid n : forall p tg p' out,
    lp_ok col0 cwid p -> print_spaces n p tg = (p', out) -> lp_ok col0 cwid p' /\ Forall (in_box col0 cwid) out.
  Proof.
    induction n as [|n IH]; intros p tg p' out Hok H; cbn in H.
    - inversion H; subst. split; [exact Hok|constructor].
    - destruct (print_raw p SPC tg) as [p1 c1] eqn:E1. destruct (print_spaces n p1 tg) as [p2 c2] eqn:E2.
      inversion H; subst; clear H.
      destruct (print_raw_ok _ _ _ _ _ _ _ Hok E1) as [Hok1 Hc1].
      destruct (IH _ _ _ _ Hok1 E2) as [Hok2 Hc2]. split; [exact Hok2|]. apply Forall_app; auto.
  Qed.

  Lemma print_char_ok col0 cwid p c tg p' out :
    lp_ok col0 cwid p -> print_char p c tg = (p', out) -> lp_ok col0 cwid p' /\ Forall (in_box col0 cwid) out.
  Proof.
    intros Hok H. unfold Draw.print_char in H. destruct (c =? BSP)%N.
    - inversion H; subst. split; [exact Hok|constructor].
    - destruct (c =? TAB)%N; [eapply print_spaces_ok; eauto | eapply print_raw_ok; eauto].
  Qed.

  Theorem print_item_in_box col0 cwid cs : forall p,
    lp_ok col0 cwid p -> Forall (in_box col0 cwid) (print_item p cs).
  Proof.
    induction cs as [|[c tg] r IH]; intros p Hok; cbn; [constructor|].
    destruct (print_char p c tg) as [p' out] eqn:E.
    destruct (print_char_ok _ _ _ _ _ _ _ Hok E) as [Hok' Hout]. apply Forall_app; auto.
  Qed.

  Lemma lp_init_ok col0 cwid shift hoff tw tab : lp_ok col0 cwid (lp_init col0 cwid shift hoff tw tab).
  Proof. unfold lp_ok, lp_init; cbn. repeat split; lia. Qed.

  (** * glyphs: the characters as the printer sees them (tabs expanded, backspace dropped) *)
  Fixpoint glyphs (tab pos : nat) (cs : list (char * tag)) : list (char * tag) :=
    match cs with
    | [] => []
    | (c, tg) :: r =>
        if (c =? BSP)%N then glyphs tab pos r
        else if (c =? TAB)%N then
          let n := tab - pos mod tab in repeat (SPC, tg) n ++ glyphs tab (pos + n * cw SPC) r
        else (c, tg) :: glyphs tab (pos + cw c) r
    end.

  Fixpoint print_glyphs (p : lp) (gs : list (char * tag)) : list cell :=
    match gs with
    | [] => []
    | (c, tg) :: r => let (p', out) := print_raw p c tg in out ++ print_glyphs p' r
    end.

  Lemma print_raw_frame p c tg p' out :
    print_raw p c tg = (p', out) ->
    l_start p' = l_start p /\ l_end p' = l_end p /\ l_tw p' = l_tw p /\ l_tab p' = l_tab p /\ l_pos p' = l_pos p + cw c.
  Proof.
    unfold Draw.print_raw. intros H.
    destruct ((l_pos p <? l_start p) || (l_end p <=? l_pos p)); [inversion H; subst; cbn; auto|].
    destruct ((l_pos p <? l_start p + 2) && (0 <? l_start p)); [inversion H; subst; cbn; auto|].
    destruct ((l_end p - l_pos p <=? 2) && (l_end p <? l_tw p)); inversion H; subst; cbn; auto.
  Qed.

  Lemma print_glyphs_app p a b :
    print_glyphs p (a ++ b) =
    (fix go p a := match a with [] => print_glyphs p b | (c, tg) :: r => let (p', out) := print_raw p c tg in out ++ go p' r end) p a.
  Proof. revert p. induction a as [|[c tg] r IH]; intros p; cbn; [reflexivity|]. destruct (print_raw p c tg). rewrite IH. reflexivity. Qed.

  Lemma print_spaces_glyphs n : forall p tg rest,
    let (p', out) := print_spaces n p tg in
    print_glyphs p (repeat (SPC, tg) n ++ rest) = out ++ print_glyphs p' rest /\
    l_tab p' = l_tab p /\ l_pos p' = l_pos p + n * cw SPC.
  Proof.
    induction n as [|n IH]; intros p tg rest; cbn.
    - repeat split; lia.
    - destruct (print_raw p SPC tg) as [p1 c1] eqn:E1.
      specialize (IH p1 tg rest). destruct (print_spaces n p1 tg) as [p2 c2].
      destruct IH as (H1 & H2 & H3). destruct (print_raw_frame _ _ _ _ _ E1) as (_ & _ & _ & F4 & F5).
      rewrite H1, <- app_assoc. repeat split; [congruence|lia].
  Qed.

  Lemma print_item_glyphs cs : forall p, print_item p cs = print_glyphs p (glyphs (l_tab p) (l_pos p) cs).
  Proof.
    induction cs as [|[c tg] r IH]; intros p; cbn; [reflexivity|].
    unfold Draw.print_char. destruct (c =? BSP)%N; [cbn; apply IH|].
    destruct (c =? TAB)%N.
    - pose proof (print_spaces_glyphs (l_tab p - l_pos p mod l_tab p) p tg (glyphs (l_tab p) (l_pos p + (l_tab p - l_pos p mod l_tab p) * cw SPC) r)) as H.
      destruct (print_spaces (l_tab p - l_pos p mod l_tab p) p tg) as [p' out]. destruct H as (H1 & H2 & H3).
      rewrite H1, IH, H2, H3. reflexivity.
    - cbn. destruct (print_raw p c tg) as [p' out] eqn:E. destruct (print_raw_frame _ _ _ _ _ E) as (_ & _ & _ & F4 & F5).
      rewrite IH, F4, F5. reflexivity.
  Qed.

  (** cells at consecutive columns *)
  Fixpoint place (col : nat) (gs : list (char * tag)) : list cell :=
    match gs with
    | [] => []
    | (c, tg) :: r => (col, (c, tg)) :: place (col + cw c) r
    end.

  Definition wide_ok (gs : list (char * tag)) : Prop := Forall (fun g => 1 <= cw (fst g)) gs.

  (** * a text that fits is shown in full *)
  Theorem fit_glyphs gs : forall p,
    wide_ok gs -> l_start p = 0 -> l_tw p <= l_end p ->
    l_pos p + list_sum (map (fun g => cw (fst g)) gs) <= l_end p ->
    print_glyphs p gs = place (l_scol p) gs.
  Proof.
    induction gs as [|[c tg] r IH]; intros p Hw Hs Htw Hfit; cbn; [reflexivity|].
    inversion Hw as [|? ? Hc Hr]; subst. cbn [fst] in Hc. cbn [map list_sum fold_right fst] in Hfit.
    destruct (print_raw p c tg) as [p' out] eqn:E.
    destruct (print_raw_frame _ _ _ _ _ E) as (F1 & F2 & F3 & F4 & F5).
    unfold Draw.print_raw in E.
    assert (H1 : ((l_pos p <? l_start p) || (l_end p <=? l_pos p)) = false).
    { apply orb_false_iff. split; [apply Nat.ltb_ge; lia | apply Nat.leb_gt; lia]. }
    rewrite H1 in E.
    assert (H2 : ((l_pos p <? l_start p + 2) && (0 <? l_start p)) = false).
    { apply andb_false_iff. right. apply Nat.ltb_ge. lia. }
    rewrite H2 in E.
    assert (H3 : ((l_end p - l_pos p <=? 2) && (l_end p <? l_tw p)) = false).
    { apply andb_false_iff. right. apply Nat.ltb_ge. lia. }
    rewrite H3 in E. inversion E; subst p' out; clear E. cbn [app]. f_equal.
    apply IH; cbn [l_start l_end l_tw l_pos]; auto. unfold list_sum in *. lia.
  Qed.

  (** * a clipped text: dots, a contiguous run of glyphs, dots *)
  Definition phase (p : lp) : nat :=
    let cur := l_pos p in
    if (cur <? l_start p)%nat then 0
    else if (l_end p <=? cur)%nat then 4
    else if (cur <? l_start p + 2)%nat && (0 <? l_start p)%nat then 1
    else if (l_end p - cur <=? 2)%nat && (l_end p <? l_tw p)%nat then 3 else 2.

  Definition is_dot (c : cell) : Prop := fst (snd c) = DOT.

  Lemma dots_are_dots n col tg : Forall is_dot (dots n col tg).
  Proof. apply Forall_forall. intros c H. apply dots_cols in H as [_ H]. unfold is_dot. rewrite H. reflexivity. Qed.
  Lemma dots_length n col tg : List.length (dots n col tg) = n.
  Proof. revert col. induction n; intros; cbn; auto. Qed.

  Lemma phase_mono p p' :
    l_start p' = l_start p -> l_end p' = l_end p -> l_tw p' = l_tw p -> l_pos p <= l_pos p' -> phase p <= phase p'.
  Proof.
    intros E1 E2 E3 Hle. unfold phase. rewrite E1, E2, E3.
    destruct (l_pos p <? l_start p) eqn:A; [lia|]. apply Nat.ltb_ge in A.
    assert (A' : (l_pos p' <? l_start p) = false) by (apply Nat.ltb_ge; lia). rewrite A'.
    destruct (l_end p <=? l_pos p) eqn:B.
    { apply Nat.leb_le in B. assert (B' : (l_end p <=? l_pos p') = true) by (apply Nat.leb_le; lia). rewrite B'. lia. }
    apply Nat.leb_gt in B. destruct (l_end p <=? l_pos p') eqn:B'.
    { destruct ((l_pos p <? l_start p + 2) && (0 <? l_start p)); [lia|].
      destruct ((l_end p - l_pos p <=? 2) && (l_end p <? l_tw p)); lia. }
    apply Nat.leb_gt in B'.
    destruct ((l_pos p <? l_start p + 2) && (0 <? l_start p)) eqn:C.
    { destruct ((l_pos p' <? l_start p + 2) && (0 <? l_start p)); [lia|].
      destruct ((l_end p - l_pos p' <=? 2) && (l_end p <? l_tw p)); lia. }
    assert (C' : ((l_pos p' <? l_start p + 2) && (0 <? l_start p)) = false).
    { apply andb_false_iff in C. apply andb_false_iff. destruct C as [C|C]; [left|right; exact C].
      apply Nat.ltb_ge in C. apply Nat.ltb_ge. lia. }
    rewrite C'.
    destruct ((l_end p - l_pos p <=? 2) && (l_end p <? l_tw p)) eqn:D.
    { apply andb_true_iff in D as [D1 D2]. apply Nat.leb_le in D1.
      assert (D' : ((l_end p - l_pos p' <=? 2) && (l_end p <? l_tw p)) = true).
      { apply andb_true_iff. split; [apply Nat.leb_le; lia | exact D2]. }
      rewrite D'. lia. }
    destruct ((l_end p - l_pos p' <=? 2) && (l_end p <? l_tw p)); lia.
  Qed.

  Lemma phase_ge2_intro p : l_start p + 2 <= l_pos p -> 2 <= phase p.
  Proof.
    intros H. unfold phase.
    assert (A : (l_pos p <? l_start p) = false) by (apply Nat.ltb_ge; lia). rewrite A.
    destruct (l_end p <=? l_pos p); [lia|].
    assert (C : (l_pos p <? l_start p + 2) = false) by (apply Nat.ltb_ge; lia). rewrite C. cbn [andb].
    destruct ((l_end p - l_pos p <=? 2) && (l_end p <? l_tw p)); lia.
  Qed.
  Lemma phase_ge4_intro p : l_start p <= l_pos p -> l_end p <= l_pos p -> 4 <= phase p.
  Proof.
    intros H1 H2. unfold phase.
    assert (A : (l_pos p <? l_start p) = false) by (apply Nat.ltb_ge; lia). rewrite A.
    assert (B : (l_end p <=? l_pos p) = true) by (apply Nat.leb_le; lia). rewrite B. lia.
  Qed.

  Theorem clip_structure gs : forall p,
    wide_ok gs ->
    exists a b L R,
      print_glyphs p gs = L ++ place (l_scol p + List.length L) (firstn b (skipn a gs)) ++ R /\
      Forall is_dot L /\ Forall is_dot R /\
      (2 <= phase p -> L = [] /\ (a = 0 \/ b = 0)) /\ (3 <= phase p -> b = 0) /\ (4 <= phase p -> R = []) /\
      List.length L <= 3 /\ (l_start p < l_pos p -> List.length L <= 2) /\
      List.length R <= 2 /\ (l_end p - l_pos p <= 1 -> List.length R <= 1).
  Proof.
    induction gs as [|[c tg] r IH]; intros p Hw.
    - exists 0, 0, [], []. cbn. repeat split; auto; lia.
    - inversion Hw as [|? ? Hc Hr]; subst. cbn in Hc. cbn [print_glyphs].
      destruct (print_raw p c tg) as [p' out] eqn:E.
      destruct (print_raw_frame _ _ _ _ _ E) as (F1 & F2 & F3 & F4 & F5).
      assert (Hmono : phase p <= phase p') by (apply phase_mono; auto; lia).
      destruct (IH p' Hr) as (a' & b' & L' & R' & Hout & HL & HR & P2 & P3 & P4 & N1 & N2 & N3 & N4).
      assert (G2 : l_start p + 2 <= l_pos p + cw c -> 2 <= phase p').
      { intros H. apply phase_ge2_intro. lia. }
      assert (G4 : l_start p <= l_pos p -> l_end p <= l_pos p + cw c -> 4 <= phase p').
      { intros H1 H2. apply phase_ge4_intro; lia. }
      rewrite F1, F5 in N2. rewrite F2, F5 in N4.
      remember (phase p') as f' eqn:Hf'. clear Hf' F1 F2 F3 F4 F5.
      unfold Draw.print_raw in E. unfold phase in Hmono |- *.
      destruct (l_pos p <? l_start p) eqn:A.
      + (* hidden on the left *)
        cbn [orb] in E. inversion E; subst p' out; clear E. cbn [app List.length l_scol] in *. apply Nat.ltb_lt in A.
        exists (S a'), b', L', R'. cbn [skipn].
        repeat split; auto; try lia.
      + apply Nat.ltb_ge in A. destruct (l_end p <=? l_pos p) eqn:B.
        * (* hidden on the right: nothing more is printed *)
          rewrite orb_true_r in E. inversion E; subst p' out; clear E.
          destruct (P2 ltac:(lia)) as [-> _]. rewrite (P3 ltac:(lia)) in Hout. rewrite (P4 ltac:(lia)) in Hout.
          exists 0, 0, [], []. cbn in *. rewrite Hout. repeat split; auto; lia.
        * apply Nat.leb_gt in B. cbn [orb] in E.
          destruct ((l_pos p <? l_start p + 2) && (0 <? l_start p)) eqn:C.
          -- (* left dots *)
             apply andb_true_iff in C as [C1 C2]. apply Nat.ltb_lt in C1.
             inversion E; subst p' out; clear E.
             set (k := Nat.min (Nat.min (cw c) (l_pos p - l_start p + 1)) (l_end p - l_pos p)) in *.
             cbn [l_scol] in Hout.
             exists (S a'), b', (dots k (l_scol p) tg ++ L'), R'. cbn [skipn].
             rewrite Hout, app_length, dots_length, <- app_assoc, Nat.add_assoc.
             assert (Hk : k <= l_pos p - l_start p + 1) by (unfold k; lia).
             repeat split; auto; try lia; try (apply Forall_app; split; [apply dots_are_dots|exact HL]).
             ++ destruct (Nat.eq_dec (l_pos p) (l_start p)) as [Eq|Ne].
                ** specialize (N2 ltac:(lia)). lia.
                ** destruct (P2 (G2 ltac:(lia))) as [-> _]. cbn. lia.
             ++ intros Hlt. destruct (P2 (G2 ltac:(lia))) as [-> _]. cbn. lia.
          -- destruct ((l_end p - l_pos p <=? 2) && (l_end p <? l_tw p)) eqn:D.
             ++ (* right dots *)
                apply andb_true_iff in D as [D1 D2]. apply Nat.leb_le in D1.
                inversion E; subst p' out; clear E.
                destruct (P2 ltac:(lia)) as [-> _]. rewrite (P3 ltac:(lia)) in Hout. cbn in Hout.
                set (k := Nat.min (cw c) (l_end p - l_pos p)) in *.
                exists 0, 0, [], (dots k (l_scol p) tg ++ R'). cbn.
                rewrite Hout, app_length, dots_length.
                assert (HR' : (l_end p <= l_pos p + cw c -> R' = [])) by (intros H; apply P4; apply G4; lia).
                repeat split; auto; try lia; try (apply Forall_app; split; [apply dots_are_dots|exact HR]).
                ** destruct (Nat.le_gt_cases (l_end p) (l_pos p + cw c)) as [Hge|Hlt].
                   --- rewrite (HR' Hge). cbn. unfold k. lia.
                   --- specialize (N4 ltac:(lia)). unfold k. lia.
                ** intros H1. rewrite (HR' ltac:(lia)). cbn. unfold k. lia.
             ++ (* shown *)
                inversion E; subst p' out; clear E. cbn [l_scol] in Hout.
                destruct (P2 ltac:(lia)) as [-> Hab]. cbn [List.length app] in Hout. rewrite Nat.add_0_r in Hout.
                destruct Hab as [-> | ->].
                ** exists 0, (S b'), [], R'. cbn [skipn firstn place app List.length] in *. rewrite Nat.add_0_r, Hout.
                   repeat split; auto; try lia.
                ** exists 0, 1, [], R'. cbn [skipn firstn place app List.length] in *. rewrite Nat.add_0_r, Hout.
                   cbn. repeat split; auto; try lia.
  Qed.

  (** * the item level *)
  Local Notation item_cells := (item_cells cw).
  Local Notation row_cells := (row_cells cw).
  Local Notation draw_rows := (draw_rows cw).

  Definition item_glyphs (o : dopts) (t : text) (m : mrange) (base : tag) : list (char * tag) :=
    glyphs (o_tabstop o) 0 (tagged m 0 base t).

  Theorem item_cells_in_area o width t m base cs :
    item_cells o width t m base = Some cs -> Forall (fun c => 2 <= fst c < 2 + (width - 2)) cs.
  Proof.
    unfold Draw.item_cells. destruct (match_span m) as [ms me].
    destruct (reshape t (width - 2) ms me (o_tabstop o)) as [[shift0 full]|]; [|discriminate].
    intros H. inversion H; subst; clear H. apply print_item_in_box. apply lp_init_ok.
  Qed.

  Theorem item_cells_structure o width t m base cs :
    wide_ok (item_glyphs o t m base) ->
    item_cells o width t m base = Some cs ->
    exists a b L R,
      cs = L ++ place (2 + List.length L) (firstn b (skipn a (item_glyphs o t m base))) ++ R /\
      Forall is_dot L /\ Forall is_dot R /\ List.length L <= 3 /\ List.length R <= 2.
  Proof.
    intros Hw. unfold Draw.item_cells. destruct (match_span m) as [ms me].
    destruct (reshape t (width - 2) ms me (o_tabstop o)) as [[shift0 full]|]; [|discriminate].
    intros H. inversion H; subst; clear H. rewrite print_item_glyphs.
    match goal with |- context [print_glyphs ?p _] => set (p0 := p) end.
    destruct (clip_structure (item_glyphs o t m base) p0 Hw) as (a & b & L & R & Hout & HL & HR & _ & _ & _ & N1 & _ & N3 & _).
    exists a, b, L, R. split; [exact Hout|auto].
  Qed.

  (** the highlight tag is on exactly the matched characters *)
  Lemma tagged_nth m base t : forall k0 k c tg,
    nth_error (tagged m k0 base t) k = Some (c, tg) ->
    nth_error t k = Some c /\ tg = (if matched_at m (k0 + k) then (base + 1)%N else base).
  Proof.
    induction t as [|x r IH]; intros k0 k c tg H; [destruct k; discriminate|].
    destruct k as [|k]; cbn in H.
    - inversion H; subst. rewrite Nat.add_0_r. auto.
    - apply IH in H. replace (k0 + S k) with (S k0 + k) by lia. exact H.
  Qed.

  (** widths: the accumulated width is the sum of the glyph widths (no backspace, a space is one column) *)
  Lemma glyph_width_sum tab m base : forall t k0 w,
    cw SPC = 1 -> ~ In BSP t ->
    last (acc_from w tab t) w = w + list_sum (map (fun g => cw (fst g)) (glyphs tab w (tagged m k0 base t))).
  Proof.
    induction t as [|c r IH]; intros k0 w Hs Hb; [cbn; lia|].
    assert (Hc : (c =? BSP)%N = false). { apply N.eqb_neq. intros E. apply Hb. left. auto. }
    assert (Hb' : ~ In BSP r) by (intros E; apply Hb; right; exact E).
    cbn [acc_from Draw.acc_from tagged glyphs]. rewrite Hc.
    set (w' := w + (if (c =? TAB)%N then tab - w mod tab else cw c)).
    assert (Hl : last (w' :: acc_from w' tab r) w = last (acc_from w' tab r) w').
    { assert (Hd : forall (l : list nat) d d', l <> [] -> last l d = last l d').
      { induction l as [|y l IHl]; intros d d' Hn; [congruence|]. destruct l; [reflexivity|]. cbn [last]. apply IHl. discriminate. }
      destruct (acc_from w' tab r) as [|n l] eqn:Ea; [reflexivity|]. change (last (w' :: n :: l) w) with (last (n :: l) w). apply Hd. discriminate. }
    rewrite Hl, (IH (S k0) w' Hs Hb'). unfold w'. destruct (c =? TAB)%N.
    - rewrite map_app, list_sum_app.
      assert (Hrep : forall n tg, list_sum (map (fun g : char * tag => cw (fst g)) (repeat (SPC, tg) n)) = n).
      { induction n as [|n IHn]; intros tg; cbn [repeat map list_sum fold_right fst]; [reflexivity|].
        fold (list_sum (map (fun g : char * tag => cw (fst g)) (repeat (SPC, tg) n))). rewrite IHn, Hs. reflexivity. }
      rewrite Hrep, Hs, Nat.mul_1_r. lia.
    - cbn [map fst]. change (list_sum (?x :: ?l)) with (x + list_sum l). cbn [list_sum fold_right]. fold (list_sum (map (fun g : char * tag => cw (fst g)) (glyphs tab (w + cw c) (tagged m (S k0) base r)))). lia.
  Qed.

  Theorem item_cells_fit o width t m base :
    cw SPC = 1 -> ~ In BSP t -> wide_ok (item_glyphs o t m base) ->
    last (acc_widths (o_tabstop o) t) 0 <= width - 2 ->
    (o_hoff o <= 0)%Z ->
    (o_nohscroll o = true \/ o_keepright o = true \/ o_skip o <= 2 \/ fst (match_span m) <> 0 \/ snd (match_span m) <> 0) ->
    item_cells o width t m base = Some (place 2 (item_glyphs o t m base)).
  Proof.
    intros Hs Hb Hw Hfit Hoff Hshift. unfold Draw.item_cells. destruct (match_span m) as [ms me] eqn:Hms.
    assert (Hre : reshape t (width - 2) ms me (o_tabstop o) = Some (0, last (acc_widths (o_tabstop o) t) 0)).
    { unfold Draw.reshape. destruct t as [|c0 t0]; [reflexivity|].
      apply Nat.leb_le in Hfit. rewrite Hfit. reflexivity. }
    rewrite Hre. f_equal. rewrite print_item_glyphs.
    set (full := last (acc_widths (o_tabstop o) t) 0) in *.
    set (shift := if o_nohscroll o then 0 else if (ms =? 0) && (me =? 0) then if o_keepright o then Nat.max full (width - 2) - (width - 2) else Nat.max 2 (o_skip o) - 2 else 0).
    assert (Hz : shift = 0).
    { unfold shift. destruct (o_nohscroll o); [reflexivity|]. destruct ((ms =? 0) && (me =? 0)) eqn:Hm; [|reflexivity].
      destruct (o_keepright o); [lia|]. apply andb_true_iff in Hm as [H1 H2]. apply Nat.eqb_eq in H1, H2. cbn in Hshift.
      destruct Hshift as [H|[H|[H|[H|H]]]]; try discriminate; try lia. }
    fold shift. rewrite Hz.
    match goal with |- context [print_glyphs ?p _] => set (p0 := p) end.
    assert (Hst : l_start p0 = 0) by (unfold p0, lp_init; cbn; lia).
    assert (Hen : l_end p0 = width - 2) by (unfold p0, lp_init; cbn; lia).
    replace 2 with (l_scol p0) at 2 by reflexivity.
    apply (fit_glyphs (item_glyphs o t m base) p0 Hw Hst).
    - rewrite Hen. exact Hfit.
    - rewrite Hen. change (l_pos p0) with 0. cbn [Nat.add].
      unfold item_glyphs. pose proof (glyph_width_sum (o_tabstop o) m base t 0 0 Hs Hb) as E.
      cbn [Nat.add] in E. unfold full, Draw.acc_widths in Hfit. rewrite E in Hfit. exact Hfit.
  Qed.

  (** * the row loop *)
  Theorem draw_rows_spec o width height reverse line_cursor rows : forall lc out,
    draw_rows o width height reverse line_cursor lc rows = Some out ->
    List.length out = Nat.min (height - lc) (List.length rows) /\
    forall j rw, nth_error out j = Some rw ->
      fst rw = (if reverse then lc + j else height - 1 - (lc + j)) /\ lc + j < height /\
      exists r, nth_error rows j = Some r /\ row_cells o width (lc + j =? line_cursor)%nat r = Some (snd rw).
  Proof.
    induction rows as [|r rest IH]; intros lc out H; cbn in H.
    - inversion H; subst. split; [cbn; lia|]. intros j rw Hj. destruct j; discriminate.
    - destruct (height <=? lc) eqn:Hh.
      + inversion H; subst. apply Nat.leb_le in Hh. split; [cbn; lia|]. intros j rw Hj. destruct j; discriminate.
      + apply Nat.leb_gt in Hh.
        destruct (row_cells o width (lc =? line_cursor) r) as [cs|] eqn:Hr; [|discriminate].
        destruct (draw_rows o width height reverse line_cursor (S lc) rest) as [more|] eqn:Hm; [|discriminate].
        inversion H; subst; clear H. destruct (IH _ _ Hm) as [Hlen Hnth]. split.
        * cbn [List.length]. rewrite Hlen. lia.
        * intros j rw Hj. destruct j as [|j]; cbn in Hj.
          -- inversion Hj; subst. cbn [fst snd]. rewrite Nat.add_0_r. split; [reflexivity|]. split; [lia|].
             exists r. split; [reflexivity|exact Hr].
          -- destruct (Hnth j rw Hj) as (H1 & H2 & r' & H3 & H4).
             replace (lc + S j) with (S lc + j) by lia. split; [exact H1|]. split; [lia|]. exists r'. auto.
  Qed.

  Theorem row_cells_marks o width is_cur r cs :
    3 <= width -> row_cells o width is_cur r = Some cs ->
    exists body,
      cs = (0, ((if is_cur then GT else SPC), 4%N)) ::
           (1, (if r_selected r then (GT, (5 + (if is_cur then 1 else 0))%N) else (SPC, if is_cur then 2%N else 0%N))) :: body /\
      item_cells o width (r_text r) (r_match r) (if is_cur then 2%N else 0%N) = Some body.
  Proof.
    intros Hw. unfold Draw.row_cells. assert (E : (width <? 3) = false) by (apply Nat.ltb_ge; lia). rewrite E.
    destruct (item_cells o width (r_text r) (r_match r) (if is_cur then 2%N else 0%N)) as [body|]; [|discriminate].
    intros H. inversion H; subst. exists body. split; [|reflexivity]. destruct (r_selected r); reflexivity.
  Qed.

  (** * the header: each line is a prefix of its glyphs, no dots *)
  Lemma hidden_tail gs : forall p, l_start p <= l_pos p -> l_end p <= l_pos p -> print_glyphs p gs = [].
  Proof.
    induction gs as [|[c tg] r IH]; intros p H1 H2; cbn; [reflexivity|].
    destruct (print_raw p c tg) as [p' out] eqn:E. destruct (print_raw_frame _ _ _ _ _ E) as (F1 & F2 & _ & _ & F5).
    unfold Draw.print_raw in E.
    assert (Hh : ((l_pos p <? l_start p) || (l_end p <=? l_pos p)) = true).
    { apply orb_true_iff. right. apply Nat.leb_le. exact H2. }
    rewrite Hh in E. inversion E; subst. cbn [app]. apply IH; cbn; lia.
  Qed.

  Theorem prefix_glyphs gs : forall p,
    l_start p = 0 -> l_tw p <= l_end p -> exists b, print_glyphs p gs = place (l_scol p) (firstn b gs).
  Proof.
    induction gs as [|[c tg] r IH]; intros p Hs Htw; [exists 0; reflexivity|].
    destruct (Nat.le_gt_cases (l_end p) (l_pos p)) as [Hge|Hlt].
    - exists 0. cbn [firstn place]. apply hidden_tail; lia.
    - cbn [print_glyphs]. destruct (print_raw p c tg) as [p' out] eqn:E.
      destruct (print_raw_frame _ _ _ _ _ E) as (F1 & F2 & F3 & _ & F5).
      unfold Draw.print_raw in E.
      assert (H1 : ((l_pos p <? l_start p) || (l_end p <=? l_pos p)) = false).
      { apply orb_false_iff. split; [apply Nat.ltb_ge; lia | apply Nat.leb_gt; lia]. }
      rewrite H1 in E.
      assert (H2 : ((l_pos p <? l_start p + 2) && (0 <? l_start p)) = false).
      { apply andb_false_iff. right. apply Nat.ltb_ge. lia. }
      rewrite H2 in E.
      assert (H3 : ((l_end p - l_pos p <=? 2) && (l_end p <? l_tw p)) = false).
      { apply andb_false_iff. right. apply Nat.ltb_ge. lia. }
      rewrite H3 in E. inversion E; subst p' out; clear E.
      destruct (IH {| l_start := l_start p; l_end := l_end p; l_pos := l_pos p + cw c; l_scol := l_scol p + cw c; l_tw := l_tw p; l_tab := l_tab p |}) as [b Hb]; cbn; auto.
      exists (S b). cbn [firstn place app]. rewrite Hb. reflexivity.
  Qed.

  Theorem header_line_prefix width tab t :
    exists b, header_line cw width tab t = place 2 (firstn b (glyphs tab 0 (tagged MNone 0 7%N t))) /\
              Forall (fun c => 2 <= fst c < 2 + (width - 2)) (header_line cw width tab t).
  Proof.
    unfold Draw.header_line. rewrite print_item_glyphs.
    match goal with |- context [print_glyphs ?p _] => set (p0 := p) end.
    destruct (prefix_glyphs (glyphs tab 0 (tagged MNone 0 7%N t)) p0) as [b Hb]; [reflexivity|cbn; lia|].
    exists b. split; [exact Hb|].
    rewrite <- (print_item_glyphs (tagged MNone 0 7%N t) p0). apply print_item_in_box. apply lp_init_ok.
  Qed.

  Theorem header_rows_spec width height tab reverse fixed reserved out :
    header_rows cw width height tab reverse fixed reserved = Some out ->
    List.length out = List.length fixed + List.length reserved /\
    forall k t, nth_error (fixed ++ reserved) k = Some t ->
      nth_error out k = Some ((if reverse then k else height - k - 1), header_line cw width tab t) /\ k < height.
  Proof.
    unfold Draw.header_rows. destruct (width <? 3); [discriminate|].
    destruct (height <? List.length fixed + List.length reserved) eqn:Hh; [discriminate|]. apply Nat.ltb_ge in Hh.
    intros H. inversion H; subst out; clear H. rewrite <- app_length in *.
    assert (G : forall lines idx, List.length (header_from cw width height tab reverse idx lines) = List.length lines /\
                forall k t, nth_error lines k = Some t ->
                  nth_error (header_from cw width height tab reverse idx lines) k = Some ((if reverse then idx + k else height - (idx + k) - 1), header_line cw width tab t)).
    { induction lines as [|x r IH]; intros idx; cbn; [split; [reflexivity|intros k t Hk; destruct k; discriminate]|].
      destruct (IH (S idx)) as [I1 I2]. split; [rewrite I1; reflexivity|].
      intros k t Hk. destruct k as [|k]; cbn in *.
      - inversion Hk; subst. rewrite Nat.add_0_r. reflexivity.
      - rewrite (I2 k t Hk). replace (idx + S k) with (S idx + k) by lia. reflexivity. }
    destruct (G (fixed ++ reserved) 0) as [G1 G2]. split; [exact G1|].
    intros k t Hk. split; [rewrite (G2 k t Hk); reflexivity|].
    assert (k < List.length (fixed ++ reserved)) by (apply nth_error_Some; congruence). lia.
  Qed.
End Proofs.
