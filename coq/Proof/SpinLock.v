(** Mutual exclusion and no lost update for the spin lock model, for any number of threads and
    any schedule. *)
From SkimV Require Import Common.Base Model.SpinLock.

Definition holders (l : list tstate) : nat := List.length (filter holding l).

Lemma holders_upd l i t t' :
  nth_error l i = Some t ->
  holders (upd i t' l) + (if holding t then 1 else 0) = holders l + (if holding t' then 1 else 0).
Proof.
  unfold holders. revert i. induction l as [|x l IH]; intros [|i] H; cbn in H; try discriminate.
  - inversion H; subst. cbn. destruct (holding t), (holding t'); cbn; lia.
  - cbn. specialize (IH i H). destruct (holding x); cbn; lia.
Qed.

Lemma nth_upd_same {A} (l : list A) i x y : nth_error l i = Some y -> nth_error (upd i x l) i = Some x.
Proof. revert i. induction l as [|z l IH]; intros [|i] H; cbn in *; try discriminate; auto. Qed.
Lemma nth_upd_other {A} (l : list A) i j x : i <> j -> nth_error (upd i x l) j = nth_error l j.
Proof.
  revert i j. induction l as [|z l IH]; intros [|i] [|j] H; cbn; auto; try congruence.
Qed.

Lemma two_holders l i j a b :
  i <> j -> nth_error l i = Some a -> nth_error l j = Some b -> holding a = true -> holding b = true ->
  2 <= holders l.
Proof.
  unfold holders. revert i j. induction l as [|x l IH]; intros i j Hij Hi Hj Ha Hb.
  - destruct i; discriminate.
  - destruct i as [|i], j as [|j]; cbn in Hi, Hj; try congruence.
    + inversion Hi; subst. cbn. rewrite Ha. cbn.
      assert (1 <= List.length (filter holding l)).
      { clear -Hj Hb. revert j Hj. induction l as [|y l IH]; intros [|j] Hj; cbn in Hj; try discriminate.
        - inversion Hj; subst. cbn. rewrite Hb. cbn. lia.
        - cbn. specialize (IH j Hj). destruct (holding y); cbn; lia. }
      lia.
    + inversion Hj; subst. cbn. rewrite Hb. cbn.
      assert (1 <= List.length (filter holding l)).
      { clear -Hi Ha. revert i Hi. induction l as [|y l IH]; intros [|i] Hi; cbn in Hi; try discriminate.
        - inversion Hi; subst. cbn. rewrite Ha. cbn. lia.
        - cbn. specialize (IH i Hi). destruct (holding y); cbn; lia. }
      lia.
    + cbn. assert (2 <= List.length (filter holding l)) by (eapply (IH i j); eauto).
      destruct (holding x); cbn; lia.
Qed.

Record LInv (s : lk) : Prop := {
  l_count : holders (thr s) = if locked s then 1 else 0;
  l_data : data s = completed s;
  l_read : forall i v, nth_error (thr s) i = Some (TRead v) -> v = data s
}.

Lemma linit_inv n : LInv (linit n).
Proof.
  constructor; cbn; auto.
  - unfold holders. induction n; cbn; auto.
  - intros i v H. exfalso. revert i H. induction n as [|n IH]; intros [|i] H; cbn in H; try discriminate. eauto.
Qed.

Lemma lstep_inv s i s' : LInv s -> lstep s i = Some s' -> LInv s'.
Proof.
  intros [Hc Hd Hr] Hs. unfold lstep in Hs. destruct (nth_error (thr s) i) as [t|] eqn:Hi; [|discriminate].
  assert (Hother : forall t' j v, nth_error (upd i t' (thr s)) j = Some (TRead v) -> j <> i -> v = data s).
  { intros t' j v H Hne. rewrite nth_upd_other in H by congruence. eauto. }
  destruct t.
  - inversion Hs; subst s'; clear Hs. constructor; cbn; auto.
    + pose proof (holders_upd _ _ _ TWant Hi) as H. cbn in H. unfold holders in *. destruct (locked s); lia.
    + intros j v H. destruct (Nat.eq_dec j i) as [->|Hne]; [|eauto].
      rewrite (nth_upd_same _ _ _ _ Hi) in H. discriminate.
  - destruct (locked s) eqn:Hl.
    + inversion Hs; subst s'; clear Hs. constructor; auto. rewrite Hl. exact Hc.
    + inversion Hs; subst s'; clear Hs. constructor; cbn; auto.
      * pose proof (holders_upd _ _ _ THold Hi) as H. cbn in H. unfold holders in *. destruct (locked s); lia.
      * intros j v H. destruct (Nat.eq_dec j i) as [->|Hne]; [|eauto].
        rewrite (nth_upd_same _ _ _ _ Hi) in H. discriminate.
  - inversion Hs; subst s'; clear Hs. constructor; cbn; auto.
    + pose proof (holders_upd _ _ _ (TRead (data s)) Hi) as H. cbn in H. unfold holders in *. destruct (locked s); lia.
    + intros j v H. destruct (Nat.eq_dec j i) as [->|Hne]; [|eauto].
      rewrite (nth_upd_same _ _ _ _ Hi) in H. inversion H. reflexivity.
  - (* the write: no other thread is between its read and its write *)
    assert (Hv : v = data s) by eauto.
    inversion Hs; subst s'; clear Hs. constructor; cbn; auto.
    + pose proof (holders_upd _ _ _ TWrote Hi) as H. cbn in H. unfold holders in *. destruct (locked s); lia.
    + congruence.
    + intros j w H. destruct (Nat.eq_dec j i) as [->|Hne].
      * rewrite (nth_upd_same _ _ _ _ Hi) in H. discriminate.
      * exfalso. rewrite nth_upd_other in H by congruence.
        assert (2 <= holders (thr s)) by (eapply (two_holders _ i j); eauto).
        destruct (locked s); lia.
  - inversion Hs; subst s'; clear Hs. constructor; cbn; auto.
    + pose proof (holders_upd _ _ _ TIdle Hi) as H. cbn in H. unfold holders in *. destruct (locked s); lia.
    + intros j v H. destruct (Nat.eq_dec j i) as [->|Hne]; [|eauto].
      rewrite (nth_upd_same _ _ _ _ Hi) in H. discriminate.
Qed.

Theorem lrun_inv sched : forall s s', LInv s -> lrun s sched = Some s' -> LInv s'.
Proof.
  induction sched as [|i r IH]; cbn; intros s s' HI Hr.
  - inversion Hr; subst; exact HI.
  - destruct (lstep s i) as [s1|] eqn:Hs; [|discriminate]. eapply IH; [eapply lstep_inv; eauto|exact Hr].
Qed.

(** at most one holder, under any schedule of any number of threads *)
Theorem mutual_exclusion n sched s i j a b :
  lrun (linit n) sched = Some s ->
  nth_error (thr s) i = Some a -> nth_error (thr s) j = Some b ->
  holding a = true -> holding b = true -> i = j.
Proof.
  intros Hr Hi Hj Ha Hb. destruct (Nat.eq_dec i j) as [E|Hne]; [exact E|exfalso].
  pose proof (lrun_inv _ _ _ (linit_inv n) Hr) as [Hc _ _].
  assert (2 <= holders (thr s)) by (eapply two_holders; eauto).
  destruct (locked s); lia.
Qed.

(** every completed critical section's write is in the datum: nothing is lost, and a holder
    reads what the previous holder wrote *)
Theorem no_lost_update n sched s :
  lrun (linit n) sched = Some s ->
  data s = completed s /\ (forall i v, nth_error (thr s) i = Some (TRead v) -> v = data s).
Proof.
  intros Hr. pose proof (lrun_inv _ _ _ (linit_inv n) Hr) as [_ Hd Hrd]. auto.
Qed.

(** the lock word is set exactly while some thread holds *)
Theorem locked_iff_held n sched s :
  lrun (linit n) sched = Some s -> holders (thr s) = if locked s then 1 else 0.
Proof. intros Hr. apply (lrun_inv _ _ _ (linit_inv n) Hr). Qed.
