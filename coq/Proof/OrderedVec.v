(** Lemmas about Model/OrderedVec.v: the prefix invariant, contents, reads.
    Parametric in the element type, a total preorder [le], and the constants MAX / THRESH with
    THRESH <= MAX (the spill must trigger whenever the move loop may have stopped on its limit). *)
From SkimV Require Import Common.Base Model.OrderedVec.
From Coq Require Import Permutation.

Section Proofs.
  Context {T : Type}.
  Variable le : T -> T -> bool.
  Variables MAX THRESH : nat.
  Hypothesis le_total : forall a b, le a b = true \/ le b a = true.
  Hypothesis le_trans : forall a b c, le a b = true -> le b c = true -> le a c = true.
  Hypothesis thresh_le_max : THRESH <= MAX.

  Notation ov := (ov T).
  Notation append := (@append T le MAX THRESH).
  Notation get := (@get T le).
  Notation iter := (@iter T le).
  Notation merge_till := (@merge_till T le).
  Notation merge_loop := (@merge_loop T le).
  Notation step := (@step T le MAX THRESH).
  Notation run := (@run T le MAX THRESH).
  Notation ele := (@ele T le).
  Notation elt := (@elt T le).

  (** the effective order of a vector *)
  Definition R (s : ov) (a b : T) : Prop := ele s a b = true.

  Lemma R_total s a b : R s a b \/ R s b a.
  Proof. unfold R, OrderedVec.ele. destruct (tac s); [destruct (le_total b a) | destruct (le_total a b)]; auto. Qed.
  Lemma R_refl s a : R s a a.
  Proof. destruct (R_total s a a); assumption. Qed.
  Lemma R_trans s a b c : R s a b -> R s b c -> R s a c.
  Proof. unfold R, OrderedVec.ele. destruct (tac s); intros; eapply le_trans; eassumption. Qed.
  Lemma elt_R s a b : elt s a b = true -> R s a b.
  Proof.
    unfold OrderedVec.elt. intros H. destruct (R_total s a b) as [H1|H1]; [exact H1|].
    unfold R in H1. rewrite H1 in H. discriminate.
  Qed.
  Lemma not_elt_R s a b : elt s a b = false -> R s b a.
  Proof. unfold OrderedVec.elt, R. destruct (ele s b a); [reflexivity | discriminate]. Qed.

  (** R only depends on the tac flag *)
  Lemma R_flag s s' : tac s' = tac s -> forall a b, R s' a b <-> R s a b.
  Proof. intros E a b. unfold R, OrderedVec.ele. rewrite E. reflexivity. Qed.

  (** * ordered lists *)
  Fixpoint asc (P : T -> T -> Prop) (l : list T) : Prop :=
    match l with [] => True | x :: r => Forall (P x) r /\ asc P r end.

  Lemma asc_app P l1 l2 :
    asc P (l1 ++ l2) <-> asc P l1 /\ asc P l2 /\ (forall x y, In x l1 -> In y l2 -> P x y).
  Proof.
    induction l1 as [|a l1 IH]; cbn [app asc].
    - split; [intros H; repeat split; [exact H | intros x y []] | intros (_ & H & _); exact H].
    - rewrite IH, Forall_app. split.
      + intros ((F1 & F2) & A1 & A2 & C). repeat split; try assumption.
        intros x y [<-|Hx] Hy; [rewrite Forall_forall in F2; apply F2, Hy | apply C; assumption].
      + intros ((F1 & A1) & A2 & C). repeat split; try assumption.
        * apply Forall_forall. intros y Hy. apply C; [left; reflexivity | exact Hy].
        * intros x y Hx Hy. apply C; [right; exact Hx | exact Hy].
  Qed.

  Lemma asc_rev P l : asc P (rev l) <-> asc (fun a b => P b a) l.
  Proof.
    induction l as [|a l IH]; cbn [rev asc]; [reflexivity|].
    rewrite asc_app, IH. cbn [asc]. split.
    - intros (A & _ & C). split; [|exact A]. apply Forall_forall. intros y Hy.
      apply C; [rewrite <- in_rev; exact Hy | left; reflexivity].
    - intros (F & A). repeat split; try assumption; [constructor|].
      intros x y Hx [<-|[]]. rewrite Forall_forall in F. apply F. rewrite in_rev. exact Hx.
  Qed.

  Lemma asc_ext (P Q : T -> T -> Prop) l : (forall a b, P a b <-> Q a b) -> asc P l <-> asc Q l.
  Proof.
    intros E. induction l as [|a l IH]; cbn [asc]; [reflexivity|].
    rewrite IH. rewrite !Forall_forall. split; intros [F A]; (split; [|exact A]); intros y Hy; apply E, F, Hy.
  Qed.

  Lemma asc_tail P a l : asc P (a :: l) -> asc P l.
  Proof. intros [_ H]; exact H. Qed.

  Lemma asc_app_r P l1 l2 : asc P (l1 ++ l2) -> asc P l2.
  Proof. intros H. apply asc_app in H. tauto. Qed.

  (** * insertion sort *)
  Notation insert := (@insert T le).
  Notation isort := (@isort T le).
  Definition Le (a b : T) : Prop := le a b = true.

  Lemma insert_perm x l : Permutation (insert x l) (x :: l).
  Proof.
    induction l as [|y r IH]; cbn [OrderedVec.insert]; [reflexivity|].
    destruct (le x y); [reflexivity|]. rewrite IH. apply perm_swap.
  Qed.
  Lemma isort_perm l : Permutation (isort l) l.
  Proof. induction l as [|x r IH]; cbn [OrderedVec.isort]; [reflexivity|]. rewrite insert_perm, IH. reflexivity. Qed.

  Lemma insert_asc x l : asc Le l -> asc Le (insert x l).
  Proof.
    induction l as [|y r IH]; intros A; cbn [OrderedVec.insert].
    - cbn. split; constructor.
    - destruct A as [F A]. destruct (le x y) eqn:E.
      + cbn [asc]. repeat split; try assumption. constructor; [exact E|].
        eapply Forall_impl; [|exact F]. intros z Hz. eapply le_trans; eassumption.
      + cbn [asc]. split; [|apply IH, A].
        assert (Hyx : Le y x) by (destruct (le_total x y) as [H|H]; [congruence | exact H]).
        eapply Permutation_Forall; [symmetry; apply insert_perm|]. constructor; assumption.
  Qed.
  Lemma isort_asc l : asc Le (isort l).
  Proof. induction l as [|x r IH]; cbn [OrderedVec.isort]; [exact I | apply insert_asc, IH]. Qed.

  (** * sort_vector *)
  Notation sort_vector := (@sort_vector T le).

  Lemma sort_vector_false s l : sort_vector s l false = rev (sort_vector s l true).
  Proof. unfold OrderedVec.sort_vector. destruct (tac s); cbn [xorb]; [rewrite rev_involutive|]; reflexivity. Qed.

  Lemma sort_vector_perm s l b : Permutation (sort_vector s l b) l.
  Proof.
    unfold OrderedVec.sort_vector. destruct (xorb b (tac s)); [apply isort_perm|].
    rewrite <- Permutation_rev. apply isort_perm.
  Qed.

  Lemma sort_vector_asc s l : asc (R s) (sort_vector s l true).
  Proof.
    unfold OrderedVec.sort_vector. destruct (tac s) eqn:E; cbn [xorb].
    - apply asc_rev. eapply asc_ext; [|apply isort_asc].
      intros a b. unfold R, OrderedVec.ele, Le. rewrite E. reflexivity.
    - eapply asc_ext; [|apply isort_asc]. intros a b. unfold R, OrderedVec.ele, Le. rewrite E. reflexivity.
  Qed.

  Lemma ritems_eq s l : rev (sort_vector s l false) = sort_vector s l true.
  Proof. rewrite sort_vector_false, rev_involutive. reflexivity. Qed.

  (** * the move loop *)
  Notation move_loop := (@move_loop T le).

  Lemma move_loop_spec s lastS : forall f l m rest,
    asc (R s) l -> move_loop f lastS s l = (m, rest) ->
    l = m ++ rest /\ length m <= f /\ (forall x, In x m -> elt s x lastS = true) /\
    (length m < f -> forall y, In y rest -> R s lastS y).
  Proof.
    induction f as [|f IH]; intros l m rest A H; cbn [OrderedVec.move_loop] in H.
    - inversion H; subst. split; [reflexivity|]. split; [cbn; lia|]. split; [intros x []|]. cbn; lia.
    - destruct l as [|x r].
      + inversion H; subst. split; [reflexivity|]. split; [cbn; lia|]. split; [intros x []|]. intros _ y [].
      + destruct (elt s x lastS) eqn:E.
        * destruct (move_loop f lastS s r) as [m' rest'] eqn:E'. inversion H; subst.
          destruct (IH r m' rest (asc_tail _ _ _ A) E') as (H1 & H2 & H3 & H4).
          split; [cbn; f_equal; exact H1|]. split; [cbn; lia|]. split.
          -- intros y [<-|Hy]; [exact E | apply H3, Hy].
          -- intros Hl y Hy. apply H4; [cbn in Hl; lia | exact Hy].
        * inversion H; subst. split; [reflexivity|]. split; [cbn; lia|]. split; [intros ? []|].
          intros _ y [<-|Hy]; [apply not_elt_R, E|].
          destruct A as [F _]. rewrite Forall_forall in F.
          eapply R_trans; [apply not_elt_R, E | apply F, Hy].
  Qed.

  Notation last_opt := (@last_opt T).
  Lemma last_opt_spec l x : last_opt l = Some x -> exists l', l = l' ++ [x].
  Proof.
    unfold OrderedVec.last_opt. destruct (rev l) as [|y r] eqn:E; [discriminate|].
    intros H; inversion H; subst. exists (rev r).
    rewrite <- (rev_involutive l), E. reflexivity.
  Qed.
  Lemma last_opt_none l : last_opt l = None -> l = [].
  Proof.
    unfold OrderedVec.last_opt. destruct (rev l) eqn:E; [|discriminate]. intros _.
    rewrite <- (rev_involutive l), E. reflexivity.
  Qed.

  (** * the invariant *)
  Definition contents (s : ov) : list T := sorted s ++ concat (subs s).

  Definition Inv (s : ov) : Prop :=
    if nosort s then subs s = []
    else asc (R s) (sorted s) /\ Forall (asc (R s)) (subs s) /\
         (forall x y, In x (sorted s) -> In y (concat (subs s)) -> R s x y).

  Lemma Inv_empty t n : Inv (empty t n).
  Proof. unfold Inv, empty; cbn. destruct n; [reflexivity|]. repeat split; try constructor. intros x y []. Qed.

  Lemma Inv_clear s : Inv (clear s).
  Proof. unfold Inv, clear; cbn. destruct (nosort s); [reflexivity|]. repeat split; try constructor. intros x y []. Qed.

  Lemma append_flags s l : tac (append s l) = tac s /\ nosort (append s l) = nosort s.
  Proof.
    unfold OrderedVec.append. destruct (nosort s) eqn:En; [cbn; auto|].
    destruct (match last_opt (sorted s) with None => _ | Some lastS => _ end) as [m rest].
    destruct (Nat.leb THRESH (length m)); cbn; auto.
  Qed.

  Lemma concat_snoc (l : list (list T)) v : concat (l ++ [v]) = concat l ++ v.
  Proof. rewrite concat_app. cbn. rewrite app_nil_r. reflexivity. Qed.

  Lemma subs1_concat (su : list (list T)) rest :
    concat (if is_nil rest then su else su ++ [rest]) = concat su ++ rest.
  Proof. destruct rest; cbn [is_nil]; [rewrite app_nil_r; reflexivity | apply concat_snoc]. Qed.

  Lemma subs1_forall (P : list T -> Prop) (su : list (list T)) rest :
    Forall P su -> P rest -> Forall P (if is_nil rest then su else su ++ [rest]).
  Proof. intros H1 H2. destruct rest; cbn [is_nil]; [exact H1|]. apply Forall_app. split; [exact H1 | constructor; [exact H2 | constructor]]. Qed.

  Lemma append_Inv s l : Inv s -> Inv (append s l).
  Proof.
    intros HI. unfold Inv in *. destruct (append_flags s l) as [Et En]. rewrite En.
    unfold OrderedVec.append in *. destruct (nosort s) eqn:Ens; [cbn; exact HI|].
    destruct HI as (A & F & C).
    rewrite ritems_eq.
    pose proof (sort_vector_asc s l) as Asl.
    set (ritems := sort_vector s l true) in *.
    destruct (last_opt (sorted s)) as [lastS|] eqn:El.
    - destruct (move_loop MAX lastS s ritems) as [m rest] eqn:Em.
      destruct (move_loop_spec s lastS MAX ritems m rest Asl Em) as (H1 & H2 & H3 & H4).
      assert (Arest : asc (R s) rest) by (rewrite H1 in Asl; eapply asc_app_r; exact Asl).
      destruct (last_opt_spec _ _ El) as (pre & Epre).
      assert (Hlast : forall x, In x (sorted s) -> R s x lastS).
      { intros x Hx. rewrite Epre in Hx, A. apply in_app_or in Hx as [Hx|[<-|[]]]; [|apply R_refl].
        apply asc_app in A as (_ & _ & A). apply A; [exact Hx | left; reflexivity]. }
      assert (HlastIn : In lastS (sorted s)) by (rewrite Epre; apply in_or_app; right; left; reflexivity).
      destruct (Nat.leb THRESH (length m)) eqn:Eth; cbn [sorted subs tac nosort].
      + (* spill *)
        split; [exact I|]. split; [|intros x y []].
        apply Forall_app. split.
        * apply subs1_forall; [|eapply asc_ext; [apply R_flag; reflexivity | exact Arest]].
          eapply Forall_impl; [|exact F]. intros v Hv. exact Hv.
        * constructor; [|constructor]. rewrite ritems_eq.
          eapply asc_ext; [apply R_flag; reflexivity | apply sort_vector_asc].
      + apply Nat.leb_gt in Eth. assert (Hlt : length m < MAX) by lia.
        specialize (H4 Hlt).
        repeat split.
        * eapply asc_ext; [apply R_flag; reflexivity | apply sort_vector_asc].
        * apply subs1_forall; [|eapply asc_ext; [apply R_flag; reflexivity | exact Arest]].
          eapply Forall_impl; [|exact F]. intros v Hv. exact Hv.
        * intros x y Hx Hy. apply (R_flag s); [reflexivity|].
          rewrite subs1_concat in Hy.
          apply (Permutation_in _ (sort_vector_perm s _ true)) in Hx.
          assert (Hxl : R s x lastS).
          { apply in_app_or in Hx as [Hx|Hx]; [apply Hlast, Hx | apply elt_R, H3, Hx]. }
          eapply R_trans; [exact Hxl|].
          apply in_app_or in Hy as [Hy|Hy]; [apply C; assumption | apply H4, Hy].
    - (* sorted empty *)
      apply last_opt_none in El.
      destruct (Nat.leb THRESH (length (@nil T))) eqn:Eth; cbn [sorted subs tac nosort].
      + split; [exact I|]. split; [|intros x y []].
        apply Forall_app. split.
        * apply subs1_forall; [|eapply asc_ext; [apply R_flag; reflexivity | exact Asl]].
          eapply Forall_impl; [|exact F]. intros v Hv. exact Hv.
        * constructor; [|constructor]. rewrite ritems_eq.
          eapply asc_ext; [apply R_flag; reflexivity | apply sort_vector_asc].
      + repeat split.
        * eapply asc_ext; [apply R_flag; reflexivity | apply sort_vector_asc].
        * apply subs1_forall; [|eapply asc_ext; [apply R_flag; reflexivity | exact Asl]].
          eapply Forall_impl; [|exact F]. intros v Hv. exact Hv.
        * intros x y Hx Hy. rewrite El in Hx. cbn [app] in Hx.
          apply (Permutation_in _ (sort_vector_perm s _ true)) in Hx. destruct Hx.
  Qed.

  Lemma append_contents s l : Permutation (contents (append s l)) (contents s ++ l).
  Proof.
    unfold contents, OrderedVec.append. destruct (nosort s) eqn:Ens; cbn [sorted subs].
    - rewrite <- !app_assoc. apply Permutation_app_head. apply Permutation_app_comm.
    - rewrite ritems_eq. set (ritems := sort_vector s l true).
      assert (Hp : Permutation ritems l) by apply sort_vector_perm.
      assert (G : forall m rest, ritems = m ++ rest ->
        Permutation (contents (let subs1 := if is_nil rest then subs s else subs s ++ [rest] in
                        if Nat.leb THRESH (length m)
                        then {| sorted := []; subs := subs1 ++ [rev (sort_vector s (sorted s ++ m) false)]; tac := tac s; nosort := false |}
                        else {| sorted := sort_vector s (sorted s ++ m) true; subs := subs1; tac := tac s; nosort := false |}))
                    ((sorted s ++ concat (subs s)) ++ l)).
      { intros m rest E. cbn zeta. rewrite <- Hp, E.
        destruct (Nat.leb THRESH (length m)); unfold contents; cbn [sorted subs app].
        - rewrite concat_snoc, subs1_concat, ritems_eq, sort_vector_perm.
          rewrite (Permutation_app_comm (concat (subs s) ++ rest) (sorted s ++ m)).
          rewrite <- !app_assoc. apply Permutation_app_head. apply Permutation_app_swap_app.
        - rewrite subs1_concat, sort_vector_perm. rewrite <- !app_assoc. apply Permutation_app_head.
          apply Permutation_app_swap_app. }
      unfold contents in G.
      destruct (last_opt (sorted s)) as [lastS|] eqn:El.
      + destruct (move_loop MAX lastS s ritems) as [m rest] eqn:Em.
        destruct (move_loop_spec s lastS MAX ritems m rest (sort_vector_asc s l) Em) as (H1 & _).
        apply (G m rest H1).
      + apply (G [] ritems eq_refl).
  Qed.

  Lemma append_nosort s l : nosort s = true -> sorted (append s l) = sorted s ++ l /\ subs (append s l) = subs s.
  Proof. intros E. unfold OrderedVec.append. rewrite E. cbn. auto. Qed.

  (** * merge_loop *)
  Notation min_from := (@min_from T le).
  Notation pop_at := (@pop_at T).

  Lemma min_from_some s : forall l i b, exists r, min_from s i (Some b) l = Some r.
  Proof.
    induction l as [|v l IH]; intros i b; cbn [OrderedVec.min_from]; [eexists; reflexivity|].
    destruct v as [|x v]; [apply IH|]. destruct b as [j y]. destruct (elt s x y); apply IH.
  Qed.

  Lemma min_from_spec s : forall l i best,
    match min_from s i best l with
    | None => best = None /\ concat l = []
    | Some (k, x) =>
        (best = Some (k, x) \/ (i <= k /\ exists v, nth_error l (k - i) = Some (x :: v))) /\
        (forall j y, best = Some (j, y) -> R s x y) /\
        (forall v y, In (y :: v) l -> R s x y)
    end.
  Proof.
    induction l as [|v l IH]; intros i best; cbn [OrderedVec.min_from].
    - destruct best as [[k x]|].
      + split; [left; reflexivity|]. split; [|intros ? ? []].
        intros j y H; inversion H; subst. apply R_refl.
      + split; reflexivity.
    - destruct v as [|x v].
      + specialize (IH (S i) best). destruct (min_from s (S i) best l) as [[k z]|].
        * destruct IH as (H1 & H2 & H3). split; [|split; [exact H2|]].
          -- destruct H1 as [H1|(Hk & w & Hw)]; [left; exact H1|]. right. split; [lia|].
             exists w. replace (k - i) with (S (k - S i)) by lia. exact Hw.
          -- intros w y [Hw|Hw]; [discriminate | eapply H3; exact Hw].
        * destruct IH as (H1 & H2). split; [exact H1 | exact H2].
      + destruct best as [[j y]|].
        * destruct (elt s x y) eqn:E.
          -- specialize (IH (S i) (Some (i, x))).
             destruct (min_from_some s l (S i) (i, x)) as ([k z] & Er). rewrite Er in *.
             destruct IH as (H1 & H2 & H3).
             assert (Hzx : R s z x) by (eapply H2; reflexivity).
             split; [|split].
             ++ right. destruct H1 as [H1|(Hk & w & Hw)].
                ** inversion H1; subst. split; [lia|]. exists v. rewrite Nat.sub_diag. reflexivity.
                ** split; [lia|]. exists w. replace (k - i) with (S (k - S i)) by lia. exact Hw.
             ++ intros j' y' H; inversion H; subst. eapply R_trans; [exact Hzx | apply elt_R, E].
             ++ intros w y' [Hw|Hw]; [inversion Hw; subst; exact Hzx | eapply H3; exact Hw].
          -- specialize (IH (S i) (Some (j, y))).
             destruct (min_from_some s l (S i) (j, y)) as ([k z] & Er). rewrite Er in *.
             destruct IH as (H1 & H2 & H3).
             assert (Hzy : R s z y) by (eapply H2; reflexivity).
             split; [|split].
             ++ destruct H1 as [H1|(Hk & w & Hw)]; [left; exact H1|]. right.
                split; [lia|]. exists w. replace (k - i) with (S (k - S i)) by lia. exact Hw.
             ++ intros j' y' H; inversion H; subst. exact Hzy.
             ++ intros w y' [Hw|Hw]; [|eapply H3; exact Hw]. inversion Hw; subst.
                eapply R_trans; [exact Hzy | apply not_elt_R, E].
        * specialize (IH (S i) (Some (i, x))).
          destruct (min_from_some s l (S i) (i, x)) as ([k z] & Er). rewrite Er in *.
          destruct IH as (H1 & H2 & H3).
          assert (Hzx : R s z x) by (eapply H2; reflexivity).
          split; [|split].
          -- right. destruct H1 as [H1|(Hk & w & Hw)].
             ++ inversion H1; subst. split; [lia|]. exists v. rewrite Nat.sub_diag. reflexivity.
             ++ split; [lia|]. exists w. replace (k - i) with (S (k - S i)) by lia. exact Hw.
          -- intros j' y' H; discriminate.
          -- intros w y' [Hw|Hw]; [inversion Hw; subst; exact Hzx | eapply H3; exact Hw].
  Qed.

  Lemma pop_at_spec : forall (l : list (list T)) k x v, nth_error l k = Some (x :: v) ->
    Permutation (concat l) (x :: concat (pop_at k l)) /\
    length (concat (pop_at k l)) + 1 = length (concat l) /\
    (forall P : list T -> Prop, (forall a w, P (a :: w) -> P w) -> Forall P l -> Forall P (pop_at k l)).
  Proof.
    induction l as [|w l IH]; intros k x v H; [destruct k; discriminate|].
    destruct k as [|k]; cbn [nth_error] in H.
    - inversion H; subst. cbn [OrderedVec.pop_at]. destruct v as [|y v].
      + cbn. repeat split; try reflexivity; try lia. intros P _ F. inversion F; assumption.
      + cbn [concat app]. repeat split; try reflexivity.
        * cbn. lia.
        * intros P HP F. inversion F; subst. constructor; [eapply HP; eassumption | assumption].
    - cbn [OrderedVec.pop_at concat]. destruct (IH k x v H) as (H1 & H2 & H3). repeat split.
      + rewrite H1. symmetry. apply Permutation_middle.
      + rewrite !app_length. lia.
      + intros P HP F. inversion F; subst. constructor; [assumption | apply H3; assumption].
  Qed.

  Definition msize (s : ov) : nat := length (concat (subs s)).

  Lemma in_concat_head (l : list (list T)) v y : In (y :: v) l -> In y (concat l).
  Proof. intros H. apply in_concat. exists (y :: v). split; [exact H | left; reflexivity]. Qed.

  Lemma in_concat_run (l : list (list T)) y : In y (concat l) -> exists v, In v l /\ In y v.
  Proof. intros H. apply in_concat in H. exact H. Qed.

  (** one iteration of the while loop *)
  Definition merge_step (s : ov) k x : ov :=
    {| sorted := sorted s ++ [x]; subs := pop_at k (subs s); tac := tac s; nosort := nosort s |}.

  Lemma merge_step_facts s k x : Inv s -> min_from s 0 None (subs s) = Some (k, x) ->
    Inv (merge_step s k x) /\ Permutation (contents (merge_step s k x)) (contents s) /\
    msize (merge_step s k x) + 1 = msize s /\ nosort s = false.
  Proof.
    intros HI Hm. pose proof (min_from_spec s (subs s) 0 None) as Sp. rewrite Hm in Sp.
    destruct Sp as (H1 & _ & H3). destruct H1 as [H1|(_ & v & Hv)]; [discriminate|].
    rewrite Nat.sub_0_r in Hv.
    destruct (pop_at_spec _ _ _ _ Hv) as (P1 & P2 & P3).
    unfold Inv in *. cbn [merge_step nosort sorted subs].
    destruct (nosort s) eqn:En.
    { rewrite HI in Hv. destruct k; discriminate. }
    destruct HI as (A & F & C).
    assert (Hx : In x (concat (subs s))) by (eapply in_concat_head, nth_error_In; exact Hv).
    assert (Hmin : forall y, In y (concat (subs s)) -> R s x y).
    { intros y Hy. apply in_concat_run in Hy as (w & Hw & Hyw).
      destruct w as [|h w]; [destruct Hyw|].
      assert (Hh : R s x h) by (eapply H3; exact Hw).
      destruct Hyw as [<-|Hyw]; [exact Hh|].
      rewrite Forall_forall in F. specialize (F _ Hw). destruct F as [Fh _].
      rewrite Forall_forall in Fh. eapply R_trans; [exact Hh | apply Fh, Hyw]. }
    split; [|split; [|split]].
    - repeat split.
      + eapply asc_ext; [apply R_flag; reflexivity|]. apply asc_app. repeat split; try assumption; [constructor|].
        intros a b Ha [<-|[]]. apply C; assumption.
      + eapply Forall_impl; [intros w Hw; eapply asc_ext; [apply R_flag; reflexivity | exact Hw]|].
        apply P3; [intros a w Hw; eapply asc_tail; exact Hw | exact F].
      + intros a b Ha Hb. apply (R_flag s); [reflexivity|].
        assert (Hb' : In b (concat (subs s))) by (eapply Permutation_in; [symmetry; exact P1 | right; exact Hb]).
        apply in_app_or in Ha as [Ha|[<-|[]]]; [apply C; assumption | apply Hmin, Hb'].
    - unfold contents. cbn [merge_step sorted subs]. rewrite P1. rewrite <- app_assoc. reflexivity.
    - unfold msize. cbn [merge_step subs]. exact P2.
    - reflexivity.
  Qed.

  Lemma merge_loop_unfold f i s :
    merge_loop (S f) i s =
    if Nat.ltb i (length (sorted s)) then s
    else match min_from s 0 None (subs s) with
         | None => s
         | Some (k, x) => merge_loop f i (merge_step s k x)
         end.
  Proof. reflexivity. Qed.

  (** everything the loop guarantees, by induction on the fuel *)
  Lemma merge_loop_facts : forall f i s, Inv s -> msize s < f ->
    let s' := merge_loop f i s in
    Inv s' /\ Permutation (contents s') (contents s) /\ tac s' = tac s /\ nosort s' = nosort s /\
    (exists ext, sorted s' = sorted s ++ ext) /\
    (i < length (sorted s') \/ concat (subs s') = []).
  Proof.
    induction f as [|f IH]; intros i s HI Hf; [lia|].
    cbn zeta. rewrite merge_loop_unfold.
    destruct (Nat.ltb i (length (sorted s))) eqn:El.
    - apply Nat.ltb_lt in El. repeat split; try assumption; try reflexivity; [exists []; rewrite app_nil_r; reflexivity | left; exact El].
    - destruct (min_from s 0 None (subs s)) as [[k x]|] eqn:Em.
      + destruct (merge_step_facts s k x HI Em) as (I1 & P1 & M1 & _).
        destruct (IH i (merge_step s k x) I1 ltac:(lia)) as (I2 & P2 & T2 & N2 & (ext & E2) & D2).
        repeat split; try assumption.
        * rewrite P2. exact P1.
        * exists (x :: ext). rewrite E2. cbn [merge_step sorted]. rewrite <- app_assoc. reflexivity.
      + pose proof (min_from_spec s (subs s) 0 None) as Sp. rewrite Em in Sp. destruct Sp as [_ Sp].
        repeat split; try assumption; try reflexivity; [exists []; rewrite app_nil_r; reflexivity | right; exact Sp].
  Qed.

  (** more fuel changes nothing *)
  Lemma merge_loop_fuel : forall f f' i s, Inv s -> msize s < f -> msize s < f' ->
    merge_loop f i s = merge_loop f' i s.
  Proof.
    induction f as [|f IH]; intros f' i s HI H1 H2; [lia|]. destruct f' as [|f']; [lia|].
    rewrite !merge_loop_unfold. destruct (Nat.ltb i (length (sorted s))); [reflexivity|].
    destruct (min_from s 0 None (subs s)) as [[k x]|] eqn:Em; [|reflexivity].
    destruct (merge_step_facts s k x HI Em) as (I1 & _ & M1 & _). apply IH; [exact I1 | lia | lia].
  Qed.

  (** merging further from a merged state is merging further from the start *)
  Lemma merge_loop_compose : forall f i j s, Inv s -> msize s < f -> i <= j ->
    merge_loop f j (merge_loop f i s) = merge_loop f j s.
  Proof.
    induction f as [|f IH]; intros i j s HI Hf Hij; [lia|].
    rewrite (merge_loop_unfold f i s).
    destruct (Nat.ltb i (length (sorted s))) eqn:El; [reflexivity|].
    destruct (min_from s 0 None (subs s)) as [[k x]|] eqn:Em; [|reflexivity].
    destruct (merge_step_facts s k x HI Em) as (I1 & _ & M1 & _).
    rewrite (merge_loop_unfold f j s).
    apply Nat.ltb_ge in El.
    destruct (Nat.ltb j (length (sorted s))) eqn:El'; [apply Nat.ltb_lt in El'; lia|].
    rewrite Em.
    destruct (merge_loop_facts f i (merge_step s k x) I1 ltac:(lia)) as (I2 & P2 & _).
    assert (M2 : msize (merge_loop f i (merge_step s k x)) <= msize (merge_step s k x)).
    { apply Permutation_length in P2. unfold contents in P2. rewrite !app_length in P2.
      destruct (merge_loop_facts f i (merge_step s k x) I1 ltac:(lia)) as (_ & _ & _ & _ & (ext & E) & _).
      unfold msize. rewrite E, app_length in P2. lia. }
    rewrite (merge_loop_fuel (S f) f j _ I2 ltac:(lia) ltac:(lia)).
    apply IH; [exact I1 | lia | exact Hij].
  Qed.

  Lemma merge_till_eq i s : merge_till i s = merge_loop (S (msize s)) i s.
  Proof. reflexivity. Qed.

  Lemma merge_till_facts i s : Inv s ->
    let s' := merge_till i s in
    Inv s' /\ Permutation (contents s') (contents s) /\ tac s' = tac s /\ nosort s' = nosort s /\
    (exists ext, sorted s' = sorted s ++ ext) /\
    (i < length (sorted s') \/ concat (subs s') = []).
  Proof. intros HI. rewrite merge_till_eq. apply merge_loop_facts; [exact HI | lia]. Qed.

  Lemma msize_merge_till i s : Inv s -> msize (merge_till i s) <= msize s.
  Proof.
    intros HI. destruct (merge_till_facts i s HI) as (_ & P & _ & _ & (ext & E) & _).
    apply Permutation_length in P. unfold contents in P. rewrite !app_length in P.
    unfold msize. rewrite E, app_length in P. lia.
  Qed.

  Lemma merge_till_compose i j s : Inv s -> i <= j -> merge_till j (merge_till i s) = merge_till j s.
  Proof.
    intros HI Hij. destruct (merge_till_facts i s HI) as (I1 & _).
    pose proof (msize_merge_till i s HI) as M.
    rewrite (merge_till_eq j (merge_till i s)).
    rewrite (merge_loop_fuel (S (msize (merge_till i s))) (S (msize s)) j (merge_till i s) I1) by lia.
    rewrite (merge_till_eq i s), (merge_till_eq j s). apply merge_loop_compose; [exact HI | lia | exact Hij].
  Qed.

  Lemma len_contents s : len s = length (contents s).
  Proof. unfold len, contents. rewrite app_length. reflexivity. Qed.

  Lemma len_merge_till i s : Inv s -> len (merge_till i s) = len s.
  Proof.
    intros HI. rewrite !len_contents. destruct (merge_till_facts i s HI) as (_ & P & _).
    apply Permutation_length, P.
  Qed.

  (** a merged state is a fixed point of shorter merges *)
  Lemma merge_till_idle i s : Inv s -> i < length (sorted s) \/ concat (subs s) = [] -> merge_till i s = s.
  Proof.
    intros HI H. rewrite merge_till_eq, merge_loop_unfold.
    destruct (Nat.ltb i (length (sorted s))) eqn:El; [reflexivity|].
    apply Nat.ltb_ge in El. destruct H as [H|H]; [lia|].
    pose proof (min_from_spec s (subs s) 0 None) as Sp.
    destruct (min_from s 0 None (subs s)) as [[k x]|]; [|reflexivity].
    destruct Sp as ([Sp|(_ & v & Hv)] & _); [discriminate|].
    apply nth_error_In, in_concat_head in Hv. rewrite H in Hv. destruct Hv.
  Qed.

  (** * get *)
  Lemma get_state s i : fst (get s i) = merge_till i s.
  Proof.
    unfold OrderedVec.get. destruct (Nat.leb (len (merge_till i s)) i); [reflexivity|].
    destruct (nth_error _ _); reflexivity.
  Qed.

  Lemma nosort_subs s : Inv s -> nosort s = true -> subs s = [].
  Proof. unfold Inv. intros H E. rewrite E in H. exact H. Qed.

  Lemma get_none s i : Inv s -> (snd (get s i) = RNone <-> len s <= i).
  Proof.
    intros HI. unfold OrderedVec.get. rewrite (len_merge_till i s HI).
    destruct (Nat.leb (len s) i) eqn:E.
    - apply Nat.leb_le in E. cbn. tauto.
    - apply Nat.leb_gt in E. destruct (nth_error _ _); cbn; split; intros H; try discriminate; lia.
  Qed.

  Lemma get_no_panic s i : Inv s -> snd (get s i) <> RPanic.
  Proof.
    intros HI. unfold OrderedVec.get. rewrite (len_merge_till i s HI).
    destruct (Nat.leb (len s) i) eqn:E; [cbn; discriminate|]. apply Nat.leb_gt in E.
    destruct (merge_till_facts i s HI) as (I1 & P & Et & En & _ & D).
    set (s1 := merge_till i s) in *.
    assert (Hl : len s1 = len s) by (apply len_merge_till, HI).
    destruct (nth_error (sorted s1) _) eqn:En'; [cbn; discriminate|]. exfalso.
    apply nth_error_None in En'.
    destruct (tac s1 && nosort s1) eqn:Etn.
    - apply andb_true_iff in Etn as [_ Ens]. pose proof (nosort_subs s1 I1 Ens) as Hs.
      assert (Hl1 : len s1 = length (sorted s1)) by (unfold len; rewrite Hs; cbn [concat length]; lia).
      lia.
    - destruct D as [D|D]; [lia|].
      assert (Hl1 : len s1 = length (sorted s1)) by (unfold len; rewrite D; cbn [length]; lia).
      lia.
  Qed.

  (** * the listing: what a complete read returns *)
  Definition listing (s : ov) : list T :=
    let l := sorted (merge_till (len s) s) in if tac s && nosort s then rev l else l.

  Lemma merged_all s : Inv s -> concat (subs (merge_till (len s) s)) = [].
  Proof.
    intros HI. destruct (merge_till_facts (len s) s HI) as (_ & P & _ & _ & _ & [D|D]); [|exact D].
    pose proof (len_merge_till (len s) s HI) as Hl. unfold len in Hl at 1.
    exfalso. lia.
  Qed.

  Lemma listing_perm s : Inv s -> Permutation (listing s) (contents s).
  Proof.
    intros HI. unfold listing. destruct (merge_till_facts (len s) s HI) as (_ & P & _).
    pose proof (merged_all s HI) as D. unfold contents in P at 1. rewrite D, app_nil_r in P.
    destruct (tac s && nosort s); [rewrite <- Permutation_rev|]; exact P.
  Qed.

  Lemma listing_sorted s : Inv s -> nosort s = false -> asc (R s) (listing s).
  Proof.
    intros HI En. unfold listing. rewrite En, andb_false_r.
    destruct (merge_till_facts (len s) s HI) as (I1 & _ & Et & En1 & _).
    unfold Inv in I1. rewrite En1, En in I1. destruct I1 as (A & _).
    eapply asc_ext; [|exact A]. intros a b. symmetry. apply R_flag. exact Et.
  Qed.

  Lemma listing_nosort s : Inv s -> nosort s = true ->
    listing s = if tac s then rev (sorted s) else sorted s.
  Proof.
    intros HI En. unfold listing. rewrite En, andb_true_r.
    rewrite merge_till_idle; [reflexivity | exact HI | right]. rewrite (nosort_subs s HI En). reflexivity.
  Qed.

  (** reading position i (which merges up to i) returns element i of the listing, and leaves the
      listing as it was: reads in any pattern see one and the same ordered permutation *)
  Lemma listing_merge_till i s : Inv s -> listing (merge_till i s) = listing s.
  Proof.
    intros HI. unfold listing. destruct (merge_till_facts i s HI) as (I1 & _ & Et & En & _).
    rewrite Et, En, (len_merge_till i s HI). f_equal.
    destruct (Nat.le_gt_cases i (len s)) as [H|H].
    - rewrite merge_till_compose; [reflexivity | exact HI | exact H].
    - (* i beyond the end: merge_till i s is fully merged already *)
      assert (D : concat (subs (merge_till i s)) = []).
      { destruct (merge_till_facts i s HI) as (_ & _ & _ & _ & _ & [D|D]); [|exact D].
        pose proof (len_merge_till i s HI) as Hl. unfold len in Hl at 1. lia. }
      rewrite (merge_till_idle (len s) (merge_till i s) I1 (or_intror D)).
      rewrite <- (merge_till_compose (len s) i s HI ltac:(lia)).
      assert (D' : concat (subs (merge_till (len s) s)) = []) by apply merged_all, HI.
      destruct (merge_till_facts (len s) s HI) as (I2 & _).
      rewrite (merge_till_idle i _ I2 (or_intror D')). reflexivity.
  Qed.

  Lemma get_is_listing s i x : Inv s -> snd (get s i) = RSome x -> nth_error (listing s) i = Some x.
  Proof.
    intros HI. unfold OrderedVec.get.
    destruct (Nat.leb (len (merge_till i s)) i) eqn:E; [cbn; discriminate|]. apply Nat.leb_gt in E.
    rewrite (len_merge_till i s HI) in E.
    destruct (merge_till_facts i s HI) as (I1 & _ & Et & En & _ & D).
    set (s1 := merge_till i s) in *.
    destruct (nth_error (sorted s1) _) eqn:Hn; cbn [snd]; [|discriminate]. intros H; inversion H; subst; clear H.
    rewrite <- (listing_merge_till i s HI). fold s1.
    unfold listing.
    destruct (tac s1 && nosort s1) eqn:Etn.
    - apply andb_true_iff in Etn as [_ Ens]. pose proof (nosort_subs s1 I1 Ens) as Hs.
      rewrite (merge_till_idle (len s1) s1 I1); [|right; rewrite Hs; reflexivity].
      assert (Hl : len s1 = length (sorted s1)) by (unfold len; rewrite Hs; cbn [concat length]; lia).
      assert (Hls : len s1 = len s) by (apply len_merge_till, HI).
      rewrite nth_error_rev by lia. rewrite <- Hn. f_equal. lia.
    - assert (Hi : i < length (sorted s1)) by (apply nth_error_Some; congruence).
      destruct (merge_till_facts (len s1) s1 I1) as (_ & _ & _ & _ & (ext & Ex) & _).
      rewrite Ex. rewrite nth_error_app1 by exact Hi. exact Hn.
  Qed.

  (** * iter *)
  Lemma iter_from_spec s : Inv s -> concat (subs s) = [] -> forall f i, i <= len s -> len s - i < f ->
    iter_from le f i s =
    (s, map (@RSome T) (skipn i (if tac s && nosort s then rev (sorted s) else sorted s))).
  Proof.
    intros HI D. assert (Hlen : len s = length (sorted s)) by (unfold len; rewrite D; cbn; lia).
    induction f as [|f IH]; intros i Hi Hf; [lia|].
    cbn [OrderedVec.iter_from].
    assert (Hm : merge_till i s = s) by (apply merge_till_idle; [exact HI | right; exact D]).
    unfold OrderedVec.get. rewrite Hm.
    destruct (Nat.leb (len s) i) eqn:E.
    - apply Nat.leb_le in E. rewrite skipn_all2; [reflexivity|].
      destruct (tac s && nosort s); rewrite ?rev_length; lia.
    - apply Nat.leb_gt in E.
      set (L := if tac s && nosort s then rev (sorted s) else sorted s).
      assert (HL : length L = len s) by (unfold L; destruct (tac s && nosort s); rewrite ?rev_length; lia).
      assert (Hnth : nth_error (sorted s) (if tac s && nosort s then len s - i - 1 else i) = nth_error L i).
      { unfold L. destruct (tac s && nosort s); [|reflexivity]. rewrite nth_error_rev by lia. f_equal. lia. }
      rewrite Hnth. destruct (nth_error L i) as [x|] eqn:En; [|apply nth_error_None in En; lia].
      rewrite (IH (S i)) by lia. fold L. f_equal.
      clear -En. revert i En. induction L as [|a L IHL]; intros [|i] En; try discriminate.
      + inversion En; subst. reflexivity.
      + cbn [skipn nth_error] in *. apply IHL, En.
  Qed.

  Lemma iter_spec s : Inv s -> iter s = (merge_till (len s) s, map (@RSome T) (listing s)).
  Proof.
    intros HI. unfold OrderedVec.iter.
    destruct (merge_till_facts (len s) s HI) as (I1 & _ & Et & En & _).
    rewrite (iter_from_spec _ I1 (merged_all s HI)) by lia.
    unfold listing. rewrite Et, En. reflexivity.
  Qed.

  (** * histories *)
  Lemma step_Inv s o : Inv s -> Inv (step s o).
  Proof.
    intros HI. destruct o; cbn [OrderedVec.step].
    - apply append_Inv, HI.
    - rewrite get_state. apply merge_till_facts, HI.
    - exact HI.
    - rewrite iter_spec by exact HI. cbn [fst]. apply merge_till_facts, HI.
    - apply Inv_clear.
  Qed.

  Lemma step_flags s o : Inv s -> tac (step s o) = tac s /\ nosort (step s o) = nosort s.
  Proof.
    intros HI. destruct o; cbn [OrderedVec.step].
    - apply append_flags.
    - rewrite get_state. destruct (merge_till_facts i s HI) as (_ & _ & H1 & H2 & _). auto.
    - auto.
    - rewrite iter_spec by exact HI. cbn [fst]. destruct (merge_till_facts (len s) s HI) as (_ & _ & H1 & H2 & _). auto.
    - cbn. auto.
  Qed.

  Lemma step_contents s o acc : Inv s -> Permutation (contents s) acc ->
    Permutation (contents (step s o)) (since_clear_step acc o).
  Proof.
    intros HI HP. destruct o; cbn [OrderedVec.step since_clear_step].
    - rewrite append_contents, HP. reflexivity.
    - rewrite get_state. destruct (merge_till_facts i s HI) as (_ & P & _). rewrite P. exact HP.
    - exact HP.
    - rewrite iter_spec by exact HI. cbn [fst]. destruct (merge_till_facts (len s) s HI) as (_ & P & _). rewrite P. exact HP.
    - reflexivity.
  Qed.

  Lemma step_nosort_exact s o acc : Inv s -> nosort s = true -> sorted s = acc ->
    sorted (step s o) = since_clear_step acc o.
  Proof.
    intros HI En E. assert (Hs : subs s = []) by (apply nosort_subs; assumption).
    destruct o; cbn [OrderedVec.step since_clear_step].
    - destruct (append_nosort s items En) as [H _]. rewrite H, E. reflexivity.
    - rewrite get_state, merge_till_idle; [exact E | exact HI | right; rewrite Hs; reflexivity].
    - exact E.
    - rewrite iter_spec by exact HI. cbn [fst]. rewrite merge_till_idle; [exact E | exact HI | right; rewrite Hs; reflexivity].
    - reflexivity.
  Qed.

  Lemma run_facts : forall ops s acc, Inv s -> Permutation (contents s) acc ->
    let s' := run s ops in
    Inv s' /\ tac s' = tac s /\ nosort s' = nosort s /\
    Permutation (contents s') (fold_left since_clear_step ops acc).
  Proof.
    induction ops as [|o ops IH]; intros s acc HI HP; cbn [OrderedVec.run fold_left].
    - auto.
    - destruct (step_flags s o HI) as [Ft Fn].
      destruct (IH (step s o) (since_clear_step acc o) (step_Inv s o HI) (step_contents s o acc HI HP)) as (I1 & T1 & N1 & P1).
      unfold OrderedVec.run in *. repeat split; try assumption; congruence.
  Qed.

  Lemma run_nosort_exact : forall ops s acc, Inv s -> nosort s = true -> sorted s = acc ->
    sorted (run s ops) = fold_left since_clear_step ops acc.
  Proof.
    induction ops as [|o ops IH]; intros s acc HI En E; cbn [OrderedVec.run fold_left]; [exact E|].
    destruct (step_flags s o HI) as [_ Fn].
    apply IH; [apply step_Inv, HI | congruence | apply step_nosort_exact; assumption].
  Qed.

  (** * the statements used by Props/C02.v *)
  Definition reach (t n : bool) (ops : list (op T)) : ov := run (empty t n) ops.

  Lemma reach_basic (t n : bool) (ops : list (op T)) :
    Inv (reach t n ops) /\ tac (reach t n ops) = t /\ nosort (reach t n ops) = n /\
    Permutation (contents (reach t n ops)) (since_clear ops).
  Proof.
    destruct (run_facts ops (empty t n) [] (Inv_empty t n) (Permutation_refl _)) as (H1 & H2 & H3 & H4).
    repeat split; assumption.
  Qed.

  Lemma reach_len t n ops : len (reach t n ops) = length (since_clear ops).
  Proof. destruct (reach_basic t n ops) as (_ & _ & _ & P). rewrite len_contents. apply Permutation_length, P. Qed.

  Lemma reach_get_none t n ops i : snd (get (reach t n ops) i) = RNone <-> length (since_clear ops) <= i.
  Proof. destruct (reach_basic t n ops) as (HI & _). rewrite <- (reach_len t n ops). apply get_none, HI. Qed.

  Lemma reach_get_no_panic t n ops i : snd (get (reach t n ops) i) <> RPanic.
  Proof. destruct (reach_basic t n ops) as (HI & _). apply get_no_panic, HI. Qed.

  Lemma reach_iter t n ops : snd (iter (reach t n ops)) = map (@RSome T) (listing (reach t n ops)).
  Proof. destruct (reach_basic t n ops) as (HI & _). rewrite iter_spec by exact HI. reflexivity. Qed.

  Lemma reach_get_listing t n ops i x :
    snd (get (reach t n ops) i) = RSome x -> nth_error (listing (reach t n ops)) i = Some x.
  Proof. destruct (reach_basic t n ops) as (HI & _). apply get_is_listing, HI. Qed.

  Lemma reach_reads_keep_listing t n ops i :
    listing (fst (get (reach t n ops) i)) = listing (reach t n ops) /\
    listing (fst (iter (reach t n ops))) = listing (reach t n ops).
  Proof.
    destruct (reach_basic t n ops) as (HI & _). rewrite get_state, iter_spec by exact HI. cbn [fst].
    split; apply listing_merge_till, HI.
  Qed.

  Lemma reach_listing_perm t n ops : Permutation (listing (reach t n ops)) (since_clear ops).
  Proof. destruct (reach_basic t n ops) as (HI & _ & _ & P). rewrite listing_perm by exact HI. exact P. Qed.

  Lemma reach_listing_sorted (t : bool) ops :
    asc (fun a b => if t return Prop then le b a = true else le a b = true) (listing (reach t false ops)) .
  Proof.
    destruct (reach_basic t false ops) as (HI & Et & En & _).
    eapply asc_ext; [|apply listing_sorted; assumption].
    intros a b. unfold R, OrderedVec.ele. rewrite Et. destruct t; reflexivity.
  Qed.

  Lemma reach_listing_nosort t ops :
    listing (reach t true ops) = if t then rev (since_clear ops) else since_clear ops.
  Proof.
    destruct (reach_basic t true ops) as (HI & Et & En & _).
    rewrite listing_nosort by assumption. rewrite Et.
    assert (E : sorted (reach t true ops) = since_clear ops).
    { unfold reach, since_clear. apply run_nosort_exact; [apply Inv_empty | reflexivity | reflexivity]. }
    rewrite E. reflexivity.
  Qed.
End Proofs.
