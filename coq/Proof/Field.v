(** Lemmas about Model/Field.v (C12): to_index_pair is the clipped set semantics; the ranges are the
    fields between delimiter matches; produced endpoints are 0, the line length or match endpoints. *)
From SkimV Require Import Common.Base Model.Field.
Local Open Scope Z_scope.

(** * the documented meaning of a range over k fields *)
Definition tr (i k : Z) : Z := if i <? 0 then i + k + 1 else i.          (* negative counts from the end *)
Definition lo_hi (r : frange) (k : Z) : Z * Z :=
  match r with
  | Single n => (tr n k, tr n k)
  | LeftInf m => (1, tr m k)
  | RightInf n => (tr n k, k)
  | Both l r => (tr l k, tr r k)
  end.
(** field i (1-based) is selected: it exists and lies in the range *)
Definition selected (r : frange) (k i : Z) : Prop :=
  1 <= i <= k /\ fst (lo_hi r k) <= i <= snd (lo_hi r k).

Lemma translate_neg_spec i K : Z.of_N (translate_neg i K) = Z.max 0 (tr i (Z.of_N K)).
Proof. unfold translate_neg, tr. destruct (i <? 0); lia. Qed.

Ltac bools :=
  repeat match goal with
  | H : (_ || _)%bool = true |- _ => apply orb_true_iff in H; destruct H as [H|H]
  | H : (_ || _)%bool = false |- _ => apply orb_false_iff in H; destruct H
  | H : (_ =? _)%N = true |- _ => apply N.eqb_eq in H
  | H : (_ =? _)%N = false |- _ => apply N.eqb_neq in H
  | H : (_ <? _)%N = true |- _ => apply N.ltb_lt in H
  | H : (_ <? _)%N = false |- _ => apply N.ltb_ge in H
  end.

Lemma index_pair_some r K a b : to_index_pair r K = Some (a, b) ->
  (forall i, selected r (Z.of_N K) i <-> Z.of_N a + 1 <= i <= Z.of_N b) /\ (a < b)%N /\ (b <= K)%N.
Proof.
  unfold selected. destruct r as [n|m|n|l r]; cbn [to_index_pair lo_hi fst snd].
  - pose proof (translate_neg_spec n K) as T. set (t := translate_neg n K) in *.
    destruct ((t =? 0)%N || (K <? t)%N) eqn:E; [discriminate|]. intros H; inversion H; subst; clear H. bools.
    split; [intros i; unfold tr in *; destruct (n <? 0); lia | lia].
  - pose proof (translate_neg_spec m K) as T. set (t := translate_neg m K) in *.
    destruct ((K =? 0)%N || (t =? 0)%N) eqn:E; [discriminate|]. intros H; inversion H; subst; clear H. bools.
    split; [intros i; unfold tr in *; destruct (m <? 0); lia | lia].
  - pose proof (translate_neg_spec n K) as T. set (t := translate_neg n K) in *.
    destruct ((K =? 0)%N || (K <? t)%N) eqn:E; [discriminate|]. intros H; inversion H; subst; clear H. bools.
    split; [intros i; unfold tr in *; destruct (n <? 0); lia | lia].
  - pose proof (translate_neg_spec l K) as T1. pose proof (translate_neg_spec r K) as T2.
    set (tl := translate_neg l K) in *. set (t2 := translate_neg r K) in *.
    destruct ((K =? 0)%N || (t2 =? 0)%N || (t2 <? tl)%N || (K <? tl)%N) eqn:E; [discriminate|].
    intros H; inversion H; subst; clear H. bools.
    split; [intros i; unfold tr in *; destruct (l <? 0); destruct (r <? 0); lia | lia].
Qed.

Lemma index_pair_none r K : to_index_pair r K = None -> forall i, ~ selected r (Z.of_N K) i.
Proof.
  unfold selected. destruct r as [n|m|n|l r]; cbn [to_index_pair lo_hi fst snd].
  - pose proof (translate_neg_spec n K) as T. set (t := translate_neg n K) in *.
    destruct ((t =? 0)%N || (K <? t)%N) eqn:E; [|discriminate]. intros _ i. bools; unfold tr in *; destruct (n <? 0); lia.
  - pose proof (translate_neg_spec m K) as T. set (t := translate_neg m K) in *.
    destruct ((K =? 0)%N || (t =? 0)%N) eqn:E; [|discriminate]. intros _ i. bools; unfold tr in *; destruct (m <? 0); lia.
  - pose proof (translate_neg_spec n K) as T. set (t := translate_neg n K) in *.
    destruct ((K =? 0)%N || (K <? t)%N) eqn:E; [|discriminate]. intros _ i. bools; unfold tr in *; destruct (n <? 0); lia.
  - pose proof (translate_neg_spec l K) as T1. pose proof (translate_neg_spec r K) as T2.
    set (tl := translate_neg l K) in *. set (t2 := translate_neg r K) in *.
    destruct ((K =? 0)%N || (t2 =? 0)%N || (t2 <? tl)%N || (K <? tl)%N) eqn:E; [|discriminate].
    intros _ i. bools; unfold tr in *; destruct (l <? 0); destruct (r <? 0); lia.
Qed.

(** * the fields between the delimiter matches *)
(** matches in order, non-overlapping, inside the line *)
Fixpoint wfms (lo : N) (ms : list (N * N)) (len : N) : Prop :=
  match ms with
  | [] => (lo <= len)%N
  | (s, e) :: r => (lo <= s)%N /\ (s <= e)%N /\ wfms e r len
  end.

(** field j (0-based): starts at the end of match j-1 (or 0), ends at the start of match j (or len) *)
Definition field_begin (ms : list (N * N)) (j : nat) : N :=
  match j with O => 0%N | S j' => snd (nth j' ms (0%N, 0%N)) end.
Definition field_end (ms : list (N * N)) (len : N) (j : nat) : N :=
  if Nat.ltb j (length ms) then fst (nth j ms (0%N, 0%N)) else len.

Lemma ranges_from_length last ms len : length (ranges_from last ms len) = S (length ms).
Proof. revert last; induction ms as [|[s e] r IH]; intros last; cbn; [reflexivity | rewrite IH; reflexivity]. Qed.

Lemma ranges_from_nth : forall ms last len j d, (j <= length ms)%nat ->
  nth j (ranges_from last ms len) d =
  (match j with O => last | S j' => snd (nth j' ms (0%N, 0%N)) end,
   if Nat.ltb j (length ms) then fst (nth j ms (0%N, 0%N)) else len).
Proof.
  induction ms as [|[s e] r IH]; intros last len j d Hj; cbn [ranges_from length].
  - assert (j = 0%nat) by (cbn in Hj; lia). subst. reflexivity.
  - destruct j as [|j]; [reflexivity|]. cbn [nth]. rewrite IH by (cbn in Hj; lia).
    cbn [length]. replace (Nat.ltb (S j) (S (length r))) with (Nat.ltb j (length r)) by reflexivity.
    destruct j; reflexivity.
Qed.

Lemma ranges_nth ms len j d : (j <= length ms)%nat ->
  nth j (ranges_by_delimiter ms len) d = (field_begin ms j, field_end ms len j).
Proof. intros H. unfold ranges_by_delimiter. rewrite ranges_from_nth by exact H. reflexivity. Qed.

(** * spans *)
Lemma field_span_spec ms len f b e :
  field_span (ranges_by_delimiter ms len) len f = Some (b, e) ->
  exists start stop, to_index_pair f (N.of_nat (S (length ms))) = Some (start, stop) /\
    b = field_begin ms (N.to_nat start) /\
    e = (if Nat.ltb (N.to_nat stop) (S (length ms)) then field_begin ms (N.to_nat stop) else len).
Proof.
  unfold field_span, ranges_by_delimiter. rewrite ranges_from_length.
  destruct (to_index_pair f (N.of_nat (S (length ms)))) as [[start stop]|] eqn:E; [|discriminate].
  intros H; inversion H; subst; clear H. exists start, stop. split; [reflexivity|].
  destruct (index_pair_some _ _ _ _ E) as (_ & H1 & H2).
  unfold nthr. fold (ranges_by_delimiter ms len). split.
  - rewrite ranges_nth by lia. reflexivity.
  - destruct (Nat.ltb_spec (N.to_nat stop) (S (length ms))) as [L|L].
    + rewrite ranges_nth by lia. reflexivity.
    + rewrite nth_overflow by (unfold ranges_by_delimiter; rewrite ranges_from_length; lia). reflexivity.
Qed.

Lemma get_string_spec ms len f b e :
  get_string_by_field ms len f = Some (b, e) ->
  exists start stop, to_index_pair f (N.of_nat (S (length ms))) = Some (start, stop) /\
    b = field_begin ms (N.to_nat start) /\ e = field_end ms len (N.to_nat stop - 1).
Proof.
  unfold get_string_by_field, ranges_by_delimiter. rewrite ranges_from_length.
  destruct (to_index_pair f (N.of_nat (S (length ms)))) as [[start stop]|] eqn:E; [|discriminate].
  intros H; inversion H; subst; clear H. exists start, stop. split; [reflexivity|].
  destruct (index_pair_some _ _ _ _ E) as (_ & H1 & H2).
  unfold nthr. fold (ranges_by_delimiter ms len).
  rewrite !ranges_nth by lia. cbn [fst snd]. replace (N.to_nat (stop - 1)) with (N.to_nat stop - 1)%nat by lia. auto.
Qed.

(** the points a produced range may start or end at *)
Definition boundary (ms : list (N * N)) (len : N) (p : N) : Prop :=
  p = 0%N \/ p = len \/ exists s e, In (s, e) ms /\ (p = s \/ p = e).

Lemma wfms_nth lo ms len j : wfms lo ms len -> (j < length ms)%nat ->
  (lo <= fst (nth j ms (0, 0)) <= snd (nth j ms (0, 0)))%N /\ (snd (nth j ms (0, 0)) <= len)%N /\
  (forall j', (j < j' < length ms)%nat -> (snd (nth j ms (0, 0)) <= fst (nth j' ms (0, 0)))%N).
Proof.
  revert lo j; induction ms as [|[s e] r IH]; intros lo j W Hj; [cbn in Hj; lia|].
  destruct W as (W1 & W2 & W3).
  assert (Hle : forall l, wfms e l len -> (e <= len)%N).
  { clear. intros l. revert e. induction l as [|[s' e'] l IHl]; intros e W; cbn in W; [exact W|]. destruct W as (A & B & C). specialize (IHl _ C). lia. }
  destruct j as [|j]; cbn [nth fst snd].
  - split; [lia|]. split; [apply (Hle r W3)|].
    intros j' Hj'. destruct j' as [|j']; [lia|]. cbn [nth]. destruct (IH e j' W3 ltac:(cbn in Hj'; lia)) as (A & _). lia.
  - destruct (IH e j W3 ltac:(cbn in Hj; lia)) as (A & B & C). split; [lia|]. split; [exact B|].
    intros j' Hj'. destruct j' as [|j']; [lia|]. cbn [nth]. apply C. cbn in Hj'. lia.
Qed.

Lemma field_begin_boundary ms len j : (j <= length ms)%nat -> boundary ms len (field_begin ms j).
Proof.
  intros H. destruct j as [|j]; cbn [field_begin]; [left; reflexivity|]. right. right.
  destruct (nth j ms (0%N, 0%N)) as [s e] eqn:E. exists s, e. split; [rewrite <- E; apply nth_In; lia | right; reflexivity].
Qed.
Lemma field_end_boundary ms len j : boundary ms len (field_end ms len j).
Proof.
  unfold field_end. destruct (Nat.ltb_spec j (length ms)) as [L|L]; [|right; left; reflexivity]. right. right.
  destruct (nth j ms (0%N, 0%N)) as [s e] eqn:E. exists s, e. split; [rewrite <- E; apply nth_In; lia | left; reflexivity].
Qed.

Lemma field_begin_mono ms len j j' : wfms 0 ms len -> (j <= j' <= length ms)%nat ->
  (field_begin ms j <= field_begin ms j')%N /\ (field_begin ms j' <= len)%N.
Proof.
  intros W H. destruct j' as [|j']; [assert (j = 0%nat) by lia; subst; cbn; lia|]. cbn [field_begin].
  destruct (wfms_nth 0 ms len j' W ltac:(lia)) as (A & B & C). split; [|exact B].
  destruct j as [|j]; cbn [field_begin]; [lia|].
  destruct (Nat.eq_dec j j') as [->|Hne]; [lia|].
  destruct (wfms_nth 0 ms len j W ltac:(lia)) as (A' & B' & C'). specialize (C' j' ltac:(lia)). lia.
Qed.

Lemma field_begin_end ms len j j' : wfms 0 ms len -> (j <= j' <= length ms)%nat ->
  (field_begin ms j <= field_end ms len j' <= len)%N.
Proof.
  intros W H. unfold field_end. destruct (Nat.ltb_spec j' (length ms)) as [L|L].
  - destruct (wfms_nth 0 ms len j' W L) as (A & B & C).
    destruct j as [|j]; cbn [field_begin]; [lia|].
    destruct (wfms_nth 0 ms len j W ltac:(lia)) as (A' & B' & C').
    destruct (Nat.eq_dec j j') as [->|Hne]; [lia|]. specialize (C' j' ltac:(lia)). lia.
  - destruct (field_begin_mono ms len j j W ltac:(lia)). lia.
Qed.

Lemma span_bounds ms len f b e : wfms 0 ms len ->
  field_span (ranges_by_delimiter ms len) len f = Some (b, e) ->
  (b <= e <= len)%N /\ boundary ms len b /\ boundary ms len e.
Proof.
  intros W H. destruct (field_span_spec ms len f b e H) as (start & stop & E & -> & ->).
  destruct (index_pair_some _ _ _ _ E) as (_ & H1 & H2).
  destruct (Nat.ltb_spec (N.to_nat stop) (S (length ms))) as [L|L].
  - destruct (field_begin_mono ms len (N.to_nat start) (N.to_nat stop) W ltac:(lia)). repeat split; try lia; apply field_begin_boundary; lia.
  - destruct (field_begin_mono ms len (N.to_nat start) (N.to_nat start) W ltac:(lia)).
    repeat split; try lia; [apply field_begin_boundary; lia | right; left; reflexivity].
Qed.

Lemma get_string_bounds ms len f b e : wfms 0 ms len -> get_string_by_field ms len f = Some (b, e) ->
  (b <= e <= len)%N /\ boundary ms len b /\ boundary ms len e.
Proof.
  intros W H. destruct (get_string_spec ms len f b e H) as (start & stop & E & -> & ->).
  destruct (index_pair_some _ _ _ _ E) as (_ & H1 & H2).
  split; [apply field_begin_end; [exact W | lia]|]. split; [apply field_begin_boundary; lia | apply field_end_boundary].
Qed.

(** parse_matching_fields / --with-nth: one span per selecting range, in the order written *)
Lemma matching_fields_app ms len fs1 fs2 :
  parse_matching_fields ms len (fs1 ++ fs2) = parse_matching_fields ms len fs1 ++ parse_matching_fields ms len fs2.
Proof.
  unfold parse_matching_fields. induction fs1 as [|f fs1 IH]; cbn [app filter_map]; [reflexivity|].
  destruct (field_span _ len f); cbn [app]; rewrite IH; reflexivity.
Qed.
