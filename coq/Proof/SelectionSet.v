(** Lemmas about the selection map of Model/Selection.v (C10) and the accept output (C05). *)
From SkimV Require Import Common.Base Model.Selection Proof.Selection.
From Coq Require Import Sorted.

(** * keys *)
Lemma key_eqb_eq a b : key_eqb a b = true <-> a = b.
Proof.
  unfold key_eqb. destruct a as [a1 a2], b as [b1 b2]; cbn. rewrite andb_true_iff, !N.eqb_eq.
  split; [intros [-> ->]; reflexivity | intros H; inversion H; auto].
Qed.
Lemma key_eqb_refl a : key_eqb a a = true.
Proof. apply key_eqb_eq; reflexivity. Qed.
Lemma key_eqb_sym a b : key_eqb a b = key_eqb b a.
Proof. destruct (key_eqb a b) eqn:E; [apply key_eqb_eq in E; subst; symmetry; apply key_eqb_refl|].
  destruct (key_eqb b a) eqn:E'; [apply key_eqb_eq in E'; subst; rewrite key_eqb_refl in E; discriminate | reflexivity]. Qed.

Definition key_lt (a b : key) : Prop := key_ltb a b = true.
Lemma key_ltb_spec a b : key_ltb a b = true <-> (fst a < fst b \/ (fst a = fst b /\ snd a < snd b))%N.
Proof. unfold key_ltb. rewrite orb_true_iff, andb_true_iff, !N.ltb_lt, N.eqb_eq. reflexivity. Qed.
Lemma key_lt_trans a b c : key_lt a b -> key_lt b c -> key_lt a c.
Proof. unfold key_lt. rewrite !key_ltb_spec. lia. Qed.
Lemma key_lt_irrefl a : ~ key_lt a a.
Proof. unfold key_lt. rewrite key_ltb_spec. lia. Qed.
Lemma key_trichotomy a b : key_eqb a b = false -> key_ltb a b = false -> key_lt b a.
Proof.
  intros E L. unfold key_lt. rewrite key_ltb_spec.
  assert (a <> b) by (intros ->; rewrite key_eqb_refl in E; discriminate).
  assert (~ (fst a < fst b \/ (fst a = fst b /\ snd a < snd b))%N) by (rewrite <- key_ltb_spec; congruence).
  destruct a, b; cbn in *. assert (n <> n1 \/ n0 <> n2) by (destruct (N.eq_dec n n1), (N.eq_dec n0 n2); subst; auto; congruence). lia.
Qed.

(** the map is kept in strictly increasing key order *)
Fixpoint wf (m : list (key * N)) : Prop :=
  match m with
  | [] => True
  | (k, _) :: r => Forall (fun kv => key_lt k (fst kv)) r /\ wf r
  end.

Lemma contains_In m k : m_contains m k = true <-> exists v, In (k, v) m.
Proof.
  induction m as [|[k' v'] r IH]; cbn [m_contains]; [split; [discriminate | intros (v & [])]|].
  rewrite orb_true_iff, IH, key_eqb_eq. split.
  - intros [->|(v & H)]; [exists v'; left; reflexivity | exists v; right; exact H].
  - intros (v & [H|H]); [inversion H; left; reflexivity | right; exists v; exact H].
Qed.

Lemma contains_lt m k : wf m -> Forall (fun kv => key_lt k (fst kv)) m -> m_contains m k = false.
Proof.
  intros _ F. induction m as [|[k' v'] r IH]; [reflexivity|]. cbn [m_contains].
  inversion F as [|? ? H1 H2]; subst. cbn in H1.
  destruct (key_eqb k k') eqn:E; [apply key_eqb_eq in E; subst; exfalso; eapply key_lt_irrefl; exact H1|].
  cbn. apply IH, H2.
Qed.

Lemma insert_spec m k v : wf m ->
  wf (m_insert m k v) /\ (forall k', m_contains (m_insert m k v) k' = key_eqb k' k || m_contains m k') /\
  (forall x, In x (m_insert m k v) -> x = (k, v) \/ In x m).
Proof.
  induction m as [|[k0 v0] r IH]; intros W; cbn [m_insert].
  - split; [cbn; auto|]. split; [intros k'; cbn; reflexivity | intros x [<-|[]]; auto].
  - destruct W as [F W]. destruct (key_eqb k k0) eqn:E.
    + apply key_eqb_eq in E; subst k0. split; [split; [exact F | exact W]|]. split.
      * intros k'. cbn [m_contains]. destruct (key_eqb k' k); reflexivity.
      * intros x [<-|H]; [left; reflexivity | right; right; exact H].
    + destruct (key_ltb k k0) eqn:L.
      * split; [|split].
        -- split; [|split; [exact F | exact W]].
           constructor; [exact L|]. eapply Forall_impl; [|exact F]. intros kv Hkv. eapply key_lt_trans; [exact L | exact Hkv].
        -- intros k'. reflexivity.
        -- intros x [<-|H]; [left; reflexivity | right; exact H].
      * destruct (IH W) as (W' & C & I). split; [|split].
        -- split; [|exact W']. apply Forall_forall. intros x Hx. apply I in Hx as [->|Hx].
           ++ cbn. apply key_trichotomy; assumption.
           ++ rewrite Forall_forall in F. apply F, Hx.
        -- intros k'. cbn [m_contains]. rewrite C. destruct (key_eqb k' k0), (key_eqb k' k); reflexivity.
        -- intros x [<-|H]; [right; left; reflexivity|]. apply I in H as [->|H]; [left; reflexivity | right; right; exact H].
Qed.

Lemma remove_spec m k : wf m ->
  wf (m_remove m k) /\ (forall k', m_contains (m_remove m k) k' = negb (key_eqb k' k) && m_contains m k') /\
  (forall x, In x (m_remove m k) -> In x m).
Proof.
  induction m as [|[k0 v0] r IH]; intros W; cbn [m_remove].
  - split; [exact I|]. split; [intros k'; cbn; rewrite andb_false_r; reflexivity | intros x []].
  - destruct W as [F W]. destruct (key_eqb k k0) eqn:E.
    + apply key_eqb_eq in E; subst k0. split; [exact W|]. split; [|intros x H; right; exact H].
      intros k'. cbn [m_contains]. destruct (key_eqb k' k) eqn:E'; cbn; [|reflexivity].
      apply key_eqb_eq in E'; subst. apply contains_lt; assumption.
    + destruct (IH W) as (W' & C & I). split; [|split].
      * split; [|exact W']. apply Forall_forall. intros x Hx. rewrite Forall_forall in F. apply F, I, Hx.
      * intros k'. cbn [m_contains]. rewrite C. destruct (key_eqb k' k0) eqn:E0; cbn; [|reflexivity].
        apply key_eqb_eq in E0; subst k'. rewrite key_eqb_sym, E. reflexivity.
      * intros x [<-|H]; [left; reflexivity | right; apply I, H].
Qed.

Lemma toggle_key_spec m k v : wf m ->
  wf (toggle_key m k v) /\ forall k', m_contains (toggle_key m k v) k' = xorb (key_eqb k' k) (m_contains m k').
Proof.
  intros W. unfold toggle_key. destruct (m_contains m k) eqn:E.
  - destruct (remove_spec m k W) as (W' & C & _). split; [exact W'|]. intros k'. rewrite C.
    destruct (key_eqb k' k) eqn:E'; cbn; [apply key_eqb_eq in E'; subst; rewrite E; reflexivity | destruct (m_contains m k'); reflexivity].
  - destruct (insert_spec m k v W) as (W' & C & _). split; [exact W'|]. intros k'. rewrite C.
    destruct (key_eqb k' k) eqn:E'; cbn; [apply key_eqb_eq in E'; subst; rewrite E; reflexivity | destruct (m_contains m k'); reflexivity].
Qed.

(** the keys of the listed items under the current run number *)
Definition listed_keys (s : sel) : list key := map (fun it => (run s, mi_idx it)) (items s).
Definition keyin (k : key) (l : list key) : bool := existsb (key_eqb k) l.

Lemma fold_insert_spec (r : N) : forall its m, wf m ->
  let m' := fold_left (fun m it => m_insert m (r, mi_idx it) (mi_id it)) its m in
  wf m' /\ forall k, m_contains m' k = keyin k (map (fun it => (r, mi_idx it)) its) || m_contains m k.
Proof.
  induction its as [|it its IH]; intros m W; cbn [fold_left map keyin existsb].
  - split; [exact W | reflexivity].
  - destruct (insert_spec m (r, mi_idx it) (mi_id it) W) as (W1 & C1 & _).
    destruct (IH _ W1) as (W2 & C2). split; [exact W2|]. intros k. rewrite C2, C1. unfold keyin.
    destruct (key_eqb k (r, mi_idx it)), (existsb _ _); reflexivity.
Qed.

Fixpoint odd_count (k : key) (l : list key) : bool :=
  match l with [] => false | x :: r => xorb (key_eqb k x) (odd_count k r) end.

Lemma fold_toggle_spec (r : N) : forall its m, wf m ->
  let m' := fold_left (fun m it => toggle_key m (r, mi_idx it) (mi_id it)) its m in
  wf m' /\ forall k, m_contains m' k = xorb (odd_count k (map (fun it => (r, mi_idx it)) its)) (m_contains m k).
Proof.
  induction its as [|it its IH]; intros m W; cbn [fold_left map odd_count].
  - split; [exact W | intros k; destruct (m_contains m k); reflexivity].
  - destruct (toggle_key_spec m (r, mi_idx it) (mi_id it) W) as (W1 & C1).
    destruct (IH _ W1) as (W2 & C2). split; [exact W2|]. intros k. rewrite C2, C1.
    destruct (key_eqb k (r, mi_idx it)), (odd_count _ _), (m_contains m k); reflexivity.
Qed.

Lemma odd_count_nodup k l : NoDup l -> odd_count k l = keyin k l.
Proof.
  induction 1 as [|x l Hx Hn IH]; [reflexivity|]. cbn [odd_count keyin existsb]. rewrite IH.
  destruct (key_eqb k x) eqn:E; [|cbn; fold (keyin k l); destruct (keyin k l); reflexivity]. apply key_eqb_eq in E; subst. cbn.
  fold (keyin x l). destruct (keyin x l) eqn:E'; [|reflexivity]. exfalso. apply Hx.
  unfold keyin in E'. apply existsb_exists in E' as (y & Hy & Ey). apply key_eqb_eq in Ey; subst. exact Hy.
Qed.

(** * the four actions *)
Definition SelInv (s : sel) : Prop := wf (selected s) /\ (multi s = false -> selected s = []).

Lemma toggle_sel s : Good s -> SelInv s -> multi s = true -> (0 < nitems s)%N ->
  exists it s', item_at s (cursor_idx s) = Some it /\ act_toggle s = Some s' /\ SelInv s' /\
    forall k, m_contains (selected s') k = xorb (key_eqb k (run s, mi_idx it)) (m_contains (selected s) k).
Proof.
  intros HG [W _] Hm Hp. destruct (item_at_valid s (proj2 HG) Hp) as (it & Hit).
  unfold act_toggle. rewrite Hm. cbn [negb orb]. destruct (nitems s =? 0)%N eqn:E; [apply N.eqb_eq in E; lia|].
  rewrite Hit. exists it. eexists. split; [reflexivity|]. split; [reflexivity|].
  destruct (toggle_key_spec (selected s) (run s, mi_idx it) (mi_id it) W) as (W' & C).
  split; [split; [exact W' | cbn; congruence] | exact C].
Qed.

Lemma select_all_sel s : SelInv s -> multi s = true -> (0 < nitems s)%N ->
  SelInv (act_select_all s) /\
  forall k, m_contains (selected (act_select_all s)) k = keyin k (listed_keys s) || m_contains (selected s) k.
Proof.
  intros [W _] Hm Hp. unfold act_select_all. rewrite Hm. cbn [negb orb].
  destruct (nitems s =? 0)%N eqn:E; [apply N.eqb_eq in E; lia|].
  destruct (fold_insert_spec (run s) (items s) (selected s) W) as (W' & C).
  split; [split; [exact W' | cbn; congruence] | exact C].
Qed.

Lemma toggle_all_sel s : SelInv s -> multi s = true -> (0 < nitems s)%N -> NoDup (listed_keys s) ->
  SelInv (act_toggle_all s) /\
  forall k, m_contains (selected (act_toggle_all s)) k = xorb (keyin k (listed_keys s)) (m_contains (selected s) k).
Proof.
  intros [W _] Hm Hp Hnd. unfold act_toggle_all. rewrite Hm. cbn [negb orb].
  destruct (nitems s =? 0)%N eqn:E; [apply N.eqb_eq in E; lia|].
  destruct (fold_toggle_spec (run s) (items s) (selected s) W) as (W' & C).
  split; [split; [exact W' | cbn; congruence]|]. intros k. cbn [with_selected selected]. rewrite C.
  fold (listed_keys s). rewrite odd_count_nodup by exact Hnd. reflexivity.
Qed.

Lemma single_mode_ignores s : multi s = false ->
  act_toggle s = Some s /\ act_toggle_all s = s /\ act_select_all s = s.
Proof. intros Hm. unfold act_toggle, act_toggle_all, act_select_all. rewrite Hm. cbn. auto. Qed.

(** every other operation leaves the selection alone *)
(** * pre-selection *)
Definition presel_keys (s : sel) (b : list mitem) : list key :=
  map (fun it => (run s, mi_idx it)) (filter (fun it => should_select (selmod s) (mi_idx it)) b).
Definition presel_on (s : sel) : bool := negb (selmod s =? 0)%N && multi s.

Lemma fold_presel_spec (r k0 : N) : forall its m, wf m ->
  let m' := fold_left (fun m it => if should_select k0 (mi_idx it) then m_insert m (r, mi_idx it) (mi_id it) else m) its m in
  wf m' /\ forall k, m_contains m' k = keyin k (map (fun it => (r, mi_idx it)) (filter (fun it => should_select k0 (mi_idx it)) its)) || m_contains m k.
Proof.
  induction its as [|it its IH]; intros m W; cbn [fold_left filter].
  - split; [exact W | reflexivity].
  - destruct (should_select k0 (mi_idx it)) eqn:Es.
    + destruct (insert_spec m (r, mi_idx it) (mi_id it) W) as (W1 & C1 & _).
      destruct (IH _ W1) as (W2 & C2). split; [exact W2|]. intros k. rewrite C2, C1. cbn [map keyin existsb]. unfold keyin.
      destruct (key_eqb k (r, mi_idx it)), (existsb _ _); reflexivity.
    + apply IH, W.
Qed.

Lemma pre_select_spec s b : wf (selected s) ->
  wf (pre_select s b) /\
  forall k, m_contains (pre_select s b) k = (presel_on s && keyin k (presel_keys s b)) || m_contains (selected s) k.
Proof.
  intros W. unfold pre_select, presel_on. destruct (negb (selmod s =? 0)%N && multi s) eqn:E.
  - destruct (fold_presel_spec (run s) (selmod s) b (selected s) W) as (W1 & C1). split; [exact W1|]. intros k. rewrite C1. reflexivity.
  - split; [exact W | reflexivity].
Qed.

Lemma pre_select_single s b : multi s = false -> pre_select s b = selected s.
Proof. intros H. unfold pre_select. rewrite H, andb_false_r. reflexivity. Qed.
Lemma pre_select_none s b : selmod s = 0%N -> pre_select s b = selected s.
Proof. intros H. unfold pre_select. rewrite H. reflexivity. Qed.

(** the watermark condition of append_sorted_items: the batch is pre-selected iff the list is at
    least as long as the longest one seen since the highest run number arrived *)
Definition presel_applies (s : sel) (b : list mitem) : bool :=
  let fresh := negb (match b with [] => true | _ => false end) && (latest s <? run s)%N in
  ((if fresh then 0 else wm s) <=? nitems s)%N.

Lemma append_selected s b :
  selected (append_sorted_items s b) = (if presel_applies s b then pre_select s b else selected s) /\
  multi (append_sorted_items s b) = multi s /\ selmod (append_sorted_items s b) = selmod s /\ run (append_sorted_items s b) = run s.
Proof.
  unfold append_sorted_items, presel_applies. destruct (_ <=? _ + _)%N; cbn; auto.
Qed.

Definition no_presel (s : sel) (o : op) : bool :=
  match o with AppendItems _ => (selmod s =? 0)%N | _ => true end.

Definition is_sel_action (o : op) : bool :=
  match o with Toggle | ToggleAll | SelectAll | DeselectAll | SelectRaw _ _ _ | SelectMatched _ _ _ => true | _ => false end.

Lemma move_keeps_selected s d s' : move_line_cursor s d = Some s' -> selected s' = selected s /\ multi s' = multi s.
Proof.
  unfold move_line_cursor. intros H.
  repeat match type of H with
  | bind ?o _ = Some _ => destruct o eqn:?; cbn [bind] in H; [|discriminate]
  | (let '(_, _) := ?p in _) = Some _ => destruct p
  end.
  inversion H; subst. auto.
Qed.

Lemma other_ops_keep_selected s o s' : is_sel_action o = false -> no_presel s o = true -> step s o = Some s' ->
  selected s' = selected s /\ multi s' = multi s.
Proof.
  intros Ha Hnp E. destruct o; cbn [is_sel_action] in Ha; try discriminate; cbn [step] in E.
  - eapply move_keeps_selected; exact E.
  - destruct (chk (- k)); cbn [bind] in E; [|discriminate]. eapply move_keeps_selected; exact E.
  - unfold page in E. repeat (match type of E with bind ?o _ = Some _ => destruct o eqn:?; cbn [bind] in E; [|discriminate] end). eapply move_keeps_selected; exact E.
  - unfold page in E. repeat (match type of E with bind ?o _ = Some _ => destruct o eqn:?; cbn [bind] in E; [|discriminate] end). eapply move_keeps_selected; exact E.
  - unfold page in E. repeat (match type of E with bind ?o _ = Some _ => destruct o eqn:?; cbn [bind] in E; [|discriminate] end). eapply move_keeps_selected; exact E.
  - unfold page in E. repeat (match type of E with bind ?o _ = Some _ => destruct o eqn:?; cbn [bind] in E; [|discriminate] end). eapply move_keeps_selected; exact E.
  - unfold select_screen_row in E. repeat (match type of E with bind ?o _ = Some _ => destruct o eqn:?; cbn [bind] in E; [|discriminate] end). eapply move_keeps_selected; exact E.
  - inversion E; subst. cbn [no_presel] in Hnp. apply N.eqb_eq in Hnp.
    destruct (append_selected s b) as (H1 & H2 & _). rewrite H1, H2, (pre_select_none s b Hnp). destruct (presel_applies s b); auto.
  - inversion E; subst. cbn. auto.
  - inversion E; subst. unfold draw_height. destruct (draws_a_row s h); cbn; auto.
  - inversion E; subst. cbn. auto.
Qed.

(** SelInv is an invariant of every history *)
Lemma step_SelInv s o s' : SelInv s -> step s o = Some s' -> SelInv s'.
Proof.
  intros HI E. destruct (is_sel_action o) eqn:Ha.
  - destruct HI as [W Hs]. destruct o; cbn [is_sel_action] in Ha; try discriminate; cbn [step] in E.
    + unfold act_toggle in E. destruct (negb (multi s) || (nitems s =? 0)%N) eqn:Eg; [inversion E; subst; split; assumption|].
      destruct (item_at s (cursor_idx s)); [|discriminate]. inversion E; subst.
      apply orb_false_iff in Eg as [Eg _]. apply negb_false_iff in Eg.
      split; [apply toggle_key_spec, W | cbn; congruence].
    + inversion E; subst. unfold act_toggle_all. destruct (negb (multi s) || (nitems s =? 0)%N) eqn:Eg; [split; assumption|].
      apply orb_false_iff in Eg as [Eg _]. apply negb_false_iff in Eg.
      split; [apply (fold_toggle_spec (run s) (items s) (selected s) W) | cbn; congruence].
    + inversion E; subst. unfold act_select_all. destruct (negb (multi s) || (nitems s =? 0)%N) eqn:Eg; [split; assumption|].
      apply orb_false_iff in Eg as [Eg _]. apply negb_false_iff in Eg.
      split; [apply (fold_insert_spec (run s) (items s) (selected s) W) | cbn; congruence].
    + inversion E; subst. split; cbn; auto.
    + inversion E; subst. unfold act_select_raw_item. destruct (multi s) eqn:Em; cbn [negb]; [|split; [exact W | intros _; apply Hs; reflexivity]].
      split; [apply insert_spec, W | cbn; congruence].
    + inversion E; subst. unfold act_select_raw_item. destruct (multi s) eqn:Em; cbn [negb]; [|split; [exact W | intros _; apply Hs; reflexivity]].
      split; [apply insert_spec, W | cbn; congruence].
  - destruct (no_presel s o) eqn:Hnp.
    + destruct (other_ops_keep_selected s o s' Ha Hnp E) as [H1 H2]. unfold SelInv. rewrite H1, H2. exact HI.
    + destruct o; cbn [no_presel] in Hnp; try discriminate. cbn [step] in E. inversion E; subst.
      destruct HI as [W Hs]. destruct (append_selected s b) as (H1 & H2 & _). unfold SelInv. rewrite H1, H2.
      destruct (presel_applies s b); [|split; assumption].
      split; [apply pre_select_spec, W | intros Hm; rewrite (pre_select_single s b Hm); apply Hs, Hm].
Qed.

Lemma move_selmod s d s' : move_line_cursor s d = Some s' -> selmod s' = selmod s.
Proof.
  unfold move_line_cursor. intros H.
  repeat match type of H with
  | bind ?o _ = Some _ => destruct o eqn:?; cbn [bind] in H; [|discriminate]
  | (let '(_, _) := ?p in _) = Some _ => destruct p
  end.
  inversion H; subst. reflexivity.
Qed.

Lemma step_selmod s o s' : step s o = Some s' -> selmod s' = selmod s.
Proof.
  intros E. destruct o; cbn [step] in E.
  - eapply move_selmod; exact E.
  - destruct (chk (- k)); cbn [bind] in E; [|discriminate]. eapply move_selmod; exact E.
  - unfold page in E. repeat (match type of E with bind ?o _ = Some _ => destruct o eqn:?; cbn [bind] in E; [|discriminate] end). eapply move_selmod; exact E.
  - unfold page in E. repeat (match type of E with bind ?o _ = Some _ => destruct o eqn:?; cbn [bind] in E; [|discriminate] end). eapply move_selmod; exact E.
  - unfold page in E. repeat (match type of E with bind ?o _ = Some _ => destruct o eqn:?; cbn [bind] in E; [|discriminate] end). eapply move_selmod; exact E.
  - unfold page in E. repeat (match type of E with bind ?o _ = Some _ => destruct o eqn:?; cbn [bind] in E; [|discriminate] end). eapply move_selmod; exact E.
  - unfold select_screen_row in E. repeat (match type of E with bind ?o _ = Some _ => destruct o eqn:?; cbn [bind] in E; [|discriminate] end). eapply move_selmod; exact E.
  - inversion E; subst. apply append_selected.
  - inversion E; subst. reflexivity.
  - inversion E; subst. unfold draw_height. destruct (draws_a_row s h); reflexivity.
  - unfold act_toggle in E. destruct (negb (multi s) || (nitems s =? 0)%N); [inversion E; subst; reflexivity|].
    destruct (item_at s (cursor_idx s)); [|discriminate]. inversion E; subst. reflexivity.
  - inversion E; subst. unfold act_toggle_all. destruct (negb (multi s) || (nitems s =? 0)%N); reflexivity.
  - inversion E; subst. unfold act_select_all. destruct (negb (multi s) || (nitems s =? 0)%N); reflexivity.
  - inversion E; subst. reflexivity.
  - inversion E; subst. reflexivity.
  - inversion E; subst. unfold act_select_raw_item. destruct (negb (multi s)); reflexivity.
  - inversion E; subst. unfold act_select_raw_item. destruct (negb (multi s)); reflexivity.
Qed.

Lemma step_multi s o s' : step s o = Some s' -> multi s' = multi s.
Proof.
  intros E. destruct (is_sel_action o) eqn:Ha.
  - destruct o; cbn in Ha; try discriminate; cbn [step] in E.
    + unfold act_toggle in E. destruct (negb (multi s) || (nitems s =? 0)%N); [inversion E; subst; reflexivity|].
      destruct (item_at s (cursor_idx s)); [|discriminate]. inversion E; subst. reflexivity.
    + inversion E; subst. unfold act_toggle_all. destruct (negb (multi s) || (nitems s =? 0)%N); reflexivity.
    + inversion E; subst. unfold act_select_all. destruct (negb (multi s) || (nitems s =? 0)%N); reflexivity.
    + inversion E; subst. reflexivity.
    + inversion E; subst. unfold act_select_raw_item. destruct (negb (multi s)); reflexivity.
    + inversion E; subst. unfold act_select_raw_item. destruct (negb (multi s)); reflexivity.
  - destruct (no_presel s o) eqn:Hnp; [exact (proj2 (other_ops_keep_selected s o s' Ha Hnp E))|].
    destruct o; cbn [no_presel] in Hnp; try discriminate. cbn [step] in E. inversion E; subst. apply append_selected.
Qed.

Lemma run_selmod : forall ops s s', run_ops s ops = Some s' -> selmod s' = selmod s.
Proof.
  induction ops as [|o ops IH]; intros s s' E; cbn [run_ops] in E; [inversion E; subst; reflexivity|].
  destruct (step s o) eqn:Es; [|discriminate]. rewrite (IH _ _ E). eapply step_selmod; exact Es.
Qed.

(** the selected set after a result update: what was selected, plus -- when a selector is configured,
    in multi mode, and the watermark condition holds -- the arrivals the selector picks *)
Lemma append_sel s b : SelInv s ->
  SelInv (append_sorted_items s b) /\
  forall k, m_contains (selected (append_sorted_items s b)) k =
            (presel_applies s b && presel_on s && keyin k (presel_keys s b)) || m_contains (selected s) k.
Proof.
  intros HI. split; [exact (step_SelInv s (AppendItems b) _ HI eq_refl)|].
  destruct HI as [W _]. destruct (append_selected s b) as (H1 & _). rewrite H1. intros k.
  destruct (presel_applies s b); cbn [andb]; [|reflexivity].
  destruct (pre_select_spec s b W) as (_ & C). apply C.
Qed.

Lemma run_SelInv : forall ops s s', SelInv s -> run_ops s ops = Some s' -> SelInv s'.
Proof.
  induction ops as [|o ops IH]; intros s s' HI E; cbn [run_ops] in E; [inversion E; subst; exact HI|].
  destruct (step s o) eqn:Es; [|discriminate]. eapply IH; [eapply step_SelInv; eassumption | exact E].
Qed.

Lemma init_SelInv rev mul : SelInv (init rev mul).
Proof. split; cbn; auto. Qed.
Lemma init_sel_SelInv rev mul k : SelInv (init_sel rev mul k).
Proof. split; cbn; auto. Qed.

(** the counter: the keys are pairwise distinct, so the map's length is the size of the set *)
Lemma wf_nodup m : wf m -> NoDup (map fst m).
Proof.
  induction m as [|[k v] r IH]; intros W; cbn; [constructor|]. destruct W as [F W]. constructor; [|apply IH, W].
  intros Hin. apply in_map_iff in Hin as ([k' v'] & Hk & Hin). cbn in Hk; subst k'.
  rewrite Forall_forall in F. specialize (F _ Hin). cbn in F. eapply key_lt_irrefl; exact F.
Qed.

(** * accept output (C05) *)
Lemma output_single s : Good s -> multi s = false -> selected s = [] ->
  output s = Some (if (nitems s =? 0)%N then ([], []) else
                   ([cursor_idx s], match current_item s with Some i => [i] | None => [] end)) /\
  ((0 < nitems s)%N -> current_item s <> None).
Proof.
  intros HG Hm Hs. unfold output, current_item. rewrite Hm, Hs. cbn [negb orb map app andb].
  destruct (nitems s =? 0)%N eqn:E; cbn [negb].
  - split; [reflexivity|]. apply N.eqb_eq in E. lia.
  - apply N.eqb_neq in E. destruct (item_at_valid s (proj2 HG) ltac:(lia)) as (it & Hit). rewrite Hit. cbn.
    split; [reflexivity | discriminate].
Qed.

Lemma output_multi_selected s : multi s = true -> selected s <> [] ->
  output s = Some (map (fun kv => snd (fst kv)) (selected s), map snd (selected s)).
Proof.
  intros Hm Hs. unfold output. rewrite Hm. destruct (selected s) eqn:E; [congruence|]. reflexivity.
Qed.

Lemma output_multi_none s : Good s -> multi s = true -> selected s = [] ->
  output s = Some (if (nitems s =? 0)%N then ([], []) else
                   ([cursor_idx s], match current_item s with Some i => [i] | None => [] end)).
Proof.
  intros HG Hm Hs. unfold output, current_item. rewrite Hm, Hs. cbn [negb orb map app andb].
  destruct (nitems s =? 0)%N eqn:E; cbn [negb]; [reflexivity|].
  apply N.eqb_neq in E. destruct (item_at_valid s (proj2 HG) ltac:(lia)) as (it & Hit). rewrite Hit. reflexivity.
Qed.

Lemma output_no_panic s : Good s -> output s <> None.
Proof.
  intros HG. unfold output. destruct (_ && _) eqn:E; [|discriminate].
  apply andb_true_iff in E as [_ E]. apply negb_true_iff, N.eqb_neq in E.
  destruct (item_at_valid s (proj2 HG) ltac:(lia)) as (it & Hit). rewrite Hit. discriminate.
Qed.

(** the selected entries come out in key order: (run, input position) *)
Lemma wf_sorted m : wf m -> StronglySorted key_lt (map fst m).
Proof.
  induction m as [|[k v] r IH]; intros W; cbn; [constructor|]. destruct W as [F W]. constructor; [apply IH, W|].
  apply Forall_map. exact F.
Qed.

(** below the watermark nothing is pre-selected: what the user deselected stays deselected while
    re-filtering keeps the list shorter than the longest one seen *)
Lemma below_watermark s b : presel_applies s b = false ->
  selected (append_sorted_items s b) = selected s.
Proof. intros H. destruct (append_selected s b) as (H1 & _). rewrite H1, H. reflexivity. Qed.

Lemma single_set_empty rev k : forall ops s, run_ops (init_sel rev false k) ops = Some s -> multi s = false /\ selected s = [].
Proof.
  intros ops s E.
  assert (Hm : forall ops s0 s1, multi s0 = false -> run_ops s0 ops = Some s1 -> multi s1 = false).
  { induction ops0 as [|o ops0 IH]; intros s0 s1 H0 E0; cbn [run_ops] in E0; [inversion E0; subst; exact H0|].
    destruct (step s0 o) as [s2|] eqn:Es; [|discriminate]. apply (IH s2 s1); [|exact E0].
    rewrite (step_multi _ _ _ Es). exact H0. }
  pose proof (Hm ops (init_sel rev false k) s eq_refl E) as M. split; [exact M|].
  apply (run_SelInv ops _ _ (init_sel_SelInv rev false k) E). exact M.
Qed.

