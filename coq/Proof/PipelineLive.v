(** No lost wake-up (the second sentence of C01) and the finality of the -1/-0 decision (C14):
    two further invariants of the pipeline transition system. *)
From SkimV Require Import Common.Base Model.Pipeline Proof.Pipeline.

Section Live.
  Variable nres : nat.
  Variable ncie : bool.
  Variable mp : N -> item -> bool.

  Local Notation step := (step nres ncie mp).
  Local Notation run := (run nres ncie mp).
  Local Notation Inv := (Inv nres ncie mp).

  (** work outstanding: a matcher run to harvest, or items not yet read / not yet handed to a matcher *)
  Definition needs (s : st) : Prop := mt s <> None \/ rdone s && consumed s = false.

  (** operations that end in a re-armed timer or a restarted matcher (which queues a heartbeat) *)
  Definition wakes (o : mop) : bool :=
    match o with
    | HbReadS | HbReadR _ | HbHarvest _ | HbReadC _ | Restart | KillQ | JoinQ | KillC _ | JoinC _ => true
    | _ => false
    end.
  Definition prenotify (s : st) : bool :=
    match mt s with
    | Some m => match ph m with PSpawned | PLoaded | PTook | PPublished => true | _ => false end
    | None => false
    end.
  Definition wake (s : st) : Prop :=
    0 < hbq s \/ timer s = true \/ prenotify s = true \/ existsb wakes (pc s) = true.

  Definition Winv (s : st) : Prop := needs s -> wake s.

  Lemma init_winv source q0 a b c : Winv (init source q0 a b c).
  Proof. intros _. left. cbn. lia. Qed.

  Ltac wk_hbq := left; cbn; lia.
  Ltac wk_pc := right; right; right; cbn; rewrite ?orb_true_r; reflexivity.

  Lemma step_winv s l s' : Inv s -> Winv s -> step s l = Some s' -> Winv s'.
  Proof.
    intros HI W Hs. unfold Winv, needs, wake in *.
    destruct l; cbn in Hs.
    - (* push: the reader is alive, so work was outstanding before *)
      destruct (alive s) eqn:Ha; [|discriminate]. destruct (src s); [discriminate|].
      inversion Hs; subst s'; clear Hs. intros _. cbn.
      apply W. right. unfold rdone. rewrite Ha. reflexivity.
    - destruct (alive s) eqn:Ha; [|discriminate]. destruct (src s); [|discriminate].
      inversion Hs; subst s'; clear Hs. intros _. cbn.
      apply W. right. unfold rdone. rewrite Ha. reflexivity.
    - (* load *)
      unfold step_matcher in Hs. destruct (mt s) as [m|] eqn:Hm; [|discriminate].
      destruct (ph m) eqn:Hp; try discriminate. inversion Hs; subst s'; clear Hs.
      intros _. right. right. left. reflexivity.
    - (* take *)
      unfold step_matcher in Hs. destruct (mt s) as [m|] eqn:Hm; [|discriminate].
      destruct (ph m) eqn:Hp; try discriminate. destruct (locked s); [discriminate|].
      inversion Hs; subst s'; clear Hs. intros _. right. right. left. reflexivity.
    - (* publish *)
      unfold step_matcher in Hs. destruct (mt s) as [m|] eqn:Hm; [|discriminate].
      destruct (ph m) eqn:Hp; try discriminate. inversion Hs; subst s'; clear Hs.
      intros _. right. right. left. reflexivity.
    - (* notify: queues a heartbeat *)
      unfold step_matcher in Hs. destruct (mt s) as [m|] eqn:Hm; [|discriminate].
      destruct (ph m) eqn:Hp; try discriminate. inversion Hs; subst s'; clear Hs.
      intros _. wk_hbq.
    - (* flag *)
      unfold step_matcher in Hs. destruct (mt s) as [m|] eqn:Hm; [|discriminate].
      destruct (ph m) eqn:Hp; try discriminate. inversion Hs; subst s'; clear Hs.
      intros _. cbn.
      destruct W as [W | [W | [W | W]]]; auto.
      + left. intros Hx. congruence.
      + unfold prenotify in W. rewrite Hm, Hp in W. discriminate.
    - (* exit *)
      unfold step_matcher in Hs. destruct (mt s) as [m|] eqn:Hm; [|discriminate].
      destruct (ph m) eqn:Hp; try discriminate. inversion Hs; subst s'; clear Hs.
      intros _. cbn.
      destruct W as [W | [W | [W | W]]]; auto.
      + left. intros Hx. congruence.
      + unfold prenotify in W. rewrite Hm, Hp in W. discriminate.
    - (* linger exit *)
      destruct (linger s); [|discriminate]. inversion Hs; subst s'; clear Hs. exact W.
    - (* timer fires *)
      destruct (timer s); [|discriminate]. inversion Hs; subst s'; clear Hs. intros _. wk_hbq.
    - (* the event loop *)
      unfold exec_main in Hs. destruct (pc s) as [|op rest] eqn:Hpc; [discriminate|].
      pose proof (iF _ _ _ _ HI) as HF. rewrite Hpc in HF. inversion HF as [|? ? F1 F2]; subst.
      destruct op as [ |sv|r|r| | |c|c r| | |sr|sr].
      + inversion Hs; subst s'; clear Hs. intros _. wk_pc.
      + inversion Hs; subst s'; clear Hs. intros _. right. right. right. cbn.
        destruct sv; cbn; rewrite ?orb_true_r; reflexivity.
      + destruct (mt s) as [m|] eqn:Hm; [|discriminate]. destruct (flag m); [|discriminate].
        destruct (iG _ _ _ _ HI r rest Hpc) as [rest' ->].
        inversion Hs; subst s'; clear Hs. intros _. wk_pc.
      + (* HbReadC: restart, or re-arm, or everything is processed *)
        inversion Hs; subst s'; clear Hs. cbn in F1. cbn [mt rdone consumed alive rbuf pl taken timer hbq pc prenotify].
        intros Hn.
        destruct (mt s) as [m|] eqn:Hm.
        * right. left. cbn. rewrite andb_false_r. cbn. apply orb_true_r.
        * destruct (r && consumed s) eqn:Hp; cbn.
          -- exfalso. destruct Hn as [Hn | Hn]; [cbn in Hn; congruence|].
             apply andb_true_iff in Hp as [Hr Hc]. specialize (F1 Hr).
             unfold rdone, consumed in Hn, F1, Hc. cbn in Hn. rewrite F1, Hc in Hn. discriminate.
          -- right. right. right. reflexivity.
      + (* Restart queues a heartbeat *)
        destruct (mt s); [discriminate|]. destruct (rdone s).
        * inversion Hs; subst s'; clear Hs. intros _. wk_hbq.
        * destruct (locked s); [discriminate|]. destruct (pool_append nres (pl s) (resv s) (rbuf s)).
          inversion Hs; subst s'; clear Hs. intros _. wk_hbq.
      + inversion Hs; subst s'; clear Hs. intros Hn. cbn in *. exact (W Hn).
      + inversion Hs; subst s'; clear Hs. intros Hn. cbn in *. exact (W Hn).
      + assert (Hw : needs s -> 0 < hbq s \/ timer s = true \/ prenotify s = true \/ existsb wakes rest = true).
        { intros Hn. specialize (W Hn). cbn in W. exact W. }
        destruct (negb (f1 s || f0 s || fsync s)); [inversion Hs; subst s'; exact Hw|].
        destruct (r && c && match mt s with None => true | Some _ => false end); inversion Hs; subst s'; exact Hw.
      + destruct (mt s); inversion Hs; subst s'; intros _; wk_pc.
      + destruct ((match mt s with Some m => match ph m with PExited => true | _ => false end | None => true end) && negb (linger s)); [|discriminate].
        inversion Hs; subst s'; clear Hs. intros _. wk_pc.
      + destruct (mt s); inversion Hs; subst s'; intros _; wk_pc.
      + destruct ((match mt s with Some m => match ph m with PExited => true | _ => false end | None => true end) && negb (linger s)); [|discriminate].
        inversion Hs; subst s'; clear Hs. intros _. wk_pc.
    - destruct (pc s); [|discriminate]. inversion Hs; subst s'; clear Hs. intros _. wk_pc.
    - destruct (pc s); [|discriminate]. inversion Hs; subst s'; clear Hs. intros _. wk_pc.
    - destruct (pc s); [|discriminate]. inversion Hs; subst s'; clear Hs. intros _. wk_pc.
  Qed.

  Theorem run_winv ls : forall s s', Inv s -> Winv s -> run s ls = Some s' -> Winv s'.
  Proof.
    induction ls as [|l ls IH]; cbn; intros s s' HI W Hr.
    - inversion Hr; subst; exact W.
    - destruct (step s l) as [s1|] eqn:Hs; [|discriminate].
      eapply IH; [eapply step_inv; eauto | eapply step_winv; eauto | exact Hr].
  Qed.

  (** with the event loop idle: outstanding work implies a queued heartbeat, an armed timer, or a
      matcher that has yet to send its notification *)
  Theorem no_lost_wakeup source q0 a b c ls s :
    run (init source q0 a b c) ls = Some s -> pc s = [] -> needs s ->
    0 < hbq s \/ timer s = true \/ prenotify s = true.
  Proof.
    intros Hr Hpc Hn.
    assert (W : Winv s). { eapply run_winv; [apply init_inv | apply init_winv | exact Hr]. }
    destruct (W Hn) as [H | [H | [H | H]]]; auto. rewrite Hpc in H. discriminate.
  Qed.

  (** an idle loop with nothing on its way is quiescent *)
  Corollary idle_is_quiescent source q0 a b c ls s :
    run (init source q0 a b c) ls = Some s -> pc s = [] -> hbq s = 0 -> timer s = false -> prenotify s = false ->
    quiescent s.
  Proof.
    intros Hr Hpc Hh Ht Hp.
    assert (Hnn : ~ needs s).
    { intros Hn. destruct (no_lost_wakeup _ _ _ _ _ _ _ Hr Hpc Hn) as [H | [H | H]]; [lia|congruence|congruence]. }
    assert (HI : Inv s) by (eapply reachable_inv; exact Hr).
    unfold needs in Hnn.
    assert (Hm : mt s = None). { destruct (mt s) eqn:E; [|reflexivity]. exfalso. apply Hnn. left. discriminate. }
    assert (Hrc : rdone s && consumed s = true). { destruct (rdone s && consumed s) eqn:E; [reflexivity|]. exfalso. apply Hnn. right. reflexivity. }
    apply andb_true_iff in Hrc as [Hrd Hc]. unfold rdone in Hrd. apply andb_true_iff in Hrd as [Ha Hb].
    unfold quiescent. repeat split; auto.
    - destruct (alive s); [discriminate|reflexivity].
    - destruct (rbuf s); [reflexivity|discriminate].
    - unfold consumed in Hc. apply Nat.eqb_eq in Hc. pose proof (iB _ _ _ _ HI). lia.
  Qed.


  (** * once everything has been read and handed out, the pipeline only winds down *)
  Definition calm_op (o : mop) : Prop :=
    match o with
    | Restart | KillQ | JoinQ | KillC _ | JoinC _ => False
    | HbHarvest r | HbReadC r => r = true
    | _ => True
    end.
  (** the reader is done, the pool is fully handed out, and no heartbeat in flight still holds a
      stale "reader not done" *)
  Definition calm (s : st) : Prop := rdone s = true /\ consumed s = true /\ Forall calm_op (pc s).

  Lemma idle_done_calm s : pc s = [] -> rdone s = true -> consumed s = true -> calm s.
  Proof. intros Hp Hr Hc. unfold calm. rewrite Hp. auto. Qed.

  Definition internal (l : label) : Prop := match l with LQuery _ | LCmd _ => False | _ => True end.

  (** no keystroke: the pool, the taken mark's completeness and the reader state stay as they are,
      and the matcher is never restarted *)
  Theorem calm_step s l s' :
    calm s -> internal l -> step s l = Some s' -> calm s' /\ pl s' = pl s /\ resv s' = resv s.
  Proof.
    intros (Hr & Hc & Hp) Hi Hs. unfold calm.
    assert (Hal : alive s = false) by (unfold rdone in Hr; destruct (alive s); [discriminate|reflexivity]).
    destruct l; try destruct Hi; cbn in Hs.
    - rewrite Hal in Hs. discriminate.
    - rewrite Hal in Hs. discriminate.
    - unfold step_matcher in Hs. destruct (mt s) as [m|]; [|discriminate]. destruct (ph m); try discriminate. inversion Hs; subst; cbn; auto.
    - unfold step_matcher in Hs. destruct (mt s) as [m|]; [|discriminate]. destruct (ph m); try discriminate. destruct (locked s); [discriminate|].
      inversion Hs; subst; cbn. repeat split; auto. unfold consumed. cbn. rewrite Nat.sub_diag. reflexivity.
    - unfold step_matcher in Hs. destruct (mt s) as [m|]; [|discriminate]. destruct (ph m); try discriminate. inversion Hs; subst; cbn; auto.
    - unfold step_matcher in Hs. destruct (mt s) as [m|]; [|discriminate]. destruct (ph m); try discriminate. inversion Hs; subst; cbn; auto.
    - unfold step_matcher in Hs. destruct (mt s) as [m|]; [|discriminate]. destruct (ph m); try discriminate. inversion Hs; subst; cbn; auto.
    - unfold step_matcher in Hs. destruct (mt s) as [m|]; [|discriminate]. destruct (ph m); try discriminate. inversion Hs; subst; cbn; auto.
    - destruct (linger s); [|discriminate]. inversion Hs; subst; cbn; auto.
    - destruct (timer s); [|discriminate]. inversion Hs; subst; cbn; auto.
    - unfold exec_main in Hs. destruct (pc s) as [|op rest] eqn:Hpc; [discriminate|].
      inversion Hp as [|? ? P1 P2]; subst.
      destruct op as [ |sv|r|r| | |c|c r| | |sr|sr]; cbn in P1; try contradiction.
      + inversion Hs; subst; cbn. repeat split; auto; try (constructor; [exact I|exact P2]).
      + inversion Hs; subst; cbn. repeat split; auto. destruct sv; cbn; repeat (constructor; auto).
      + destruct (mt s) as [m|]; [|discriminate]. destruct (flag m); [|discriminate]. inversion Hs; subst; cbn. auto.
      + subst r. inversion Hs; subst; cbn. cbn [andb]. rewrite Hc. cbn. repeat split; auto; try (constructor; [exact I|exact P2]).
      + inversion Hs; subst; cbn. repeat split; auto; try (constructor; [exact I|exact P2]).
      + inversion Hs; subst; cbn. repeat split; auto; try (constructor; [exact I|exact P2]).
      + destruct (negb (f1 s || f0 s || fsync s)); [inversion Hs; subst; cbn; auto|].
        destruct (r && c && match mt s with None => true | Some _ => false end); inversion Hs; subst; cbn; auto.
    - destruct (pc s); [|discriminate]. inversion Hs; subst; cbn. repeat split; auto; try (constructor; [exact I|constructor]).
  Qed.

  Theorem calm_run ls : forall s s',
    calm s -> Forall internal ls -> run s ls = Some s' -> calm s' /\ pl s' = pl s /\ resv s' = resv s.
  Proof.
    induction ls as [|l ls IH]; cbn; intros s s' Hc Hi Hr.
    - inversion Hr; subst. auto.
    - inversion Hi as [|? ? Hl Hls]; subst. destruct (step s l) as [s1|] eqn:Hs; [|discriminate].
      destruct (calm_step _ _ _ Hc Hl Hs) as (Hc1 & Hp1 & Hr1).
      destruct (IH _ _ Hc1 Hls Hr) as (Hc2 & Hp2 & Hr2). split; [exact Hc2|]. split; congruence.
  Qed.

  (** * finality of the decision *)
  Definition flags_off (s : st) : Prop := f1 s = false /\ f0 s = false /\ fsync s = false.
  Definition Finv (s : st) : Prop := decided s = Some Interactive -> flags_off s.

  Lemma step_flags s l s' :
    step s l = Some s' ->
    (flags_off s -> flags_off s' /\ decided s' = decided s) /\ (Finv s -> Finv s').
  Proof.
    intros Hs. unfold Finv, flags_off.
    assert (Hsame : (f1 s' = f1 s /\ f0 s' = f0 s /\ fsync s' = fsync s /\ decided s' = decided s) \/
                    (exists c r rest, l = LMain /\ pc s = S1Decide c r :: rest)).
    { destruct l; cbn in Hs.
      - destruct (alive s); [|discriminate]. destruct (src s); [discriminate|]. inversion Hs; subst; cbn; auto.
      - destruct (alive s); [|discriminate]. destruct (src s); [|discriminate]. inversion Hs; subst; cbn; auto.
      - unfold step_matcher in Hs. destruct (mt s) as [m|]; [|discriminate]. destruct (ph m); try discriminate. inversion Hs; subst; cbn; auto.
      - unfold step_matcher in Hs. destruct (mt s) as [m|]; [|discriminate]. destruct (ph m); try discriminate. destruct (locked s); [discriminate|]. inversion Hs; subst; cbn; auto.
      - unfold step_matcher in Hs. destruct (mt s) as [m|]; [|discriminate]. destruct (ph m); try discriminate. inversion Hs; subst; cbn; auto.
      - unfold step_matcher in Hs. destruct (mt s) as [m|]; [|discriminate]. destruct (ph m); try discriminate. inversion Hs; subst; cbn; auto.
      - unfold step_matcher in Hs. destruct (mt s) as [m|]; [|discriminate]. destruct (ph m); try discriminate. inversion Hs; subst; cbn; auto.
      - unfold step_matcher in Hs. destruct (mt s) as [m|]; [|discriminate]. destruct (ph m); try discriminate. inversion Hs; subst; cbn; auto.
      - destruct (linger s); [|discriminate]. inversion Hs; subst; cbn; auto.
      - destruct (timer s); [|discriminate]. inversion Hs; subst; cbn; auto.
      - unfold exec_main in Hs. destruct (pc s) as [|op rest] eqn:Hpc; [discriminate|].
        destruct op as [ |sv|r|r| | |c|c r| | |sr|sr]; try (inversion Hs; subst; cbn; auto; fail).
        + destruct (mt s) as [m|]; [|discriminate]. destruct (flag m); [|discriminate]. inversion Hs; subst; cbn; auto.
        + destruct (mt s); [discriminate|]. destruct (rdone s); [inversion Hs; subst; cbn; auto|].
          destruct (locked s); [discriminate|]. destruct (pool_append nres (pl s) (resv s) (rbuf s)). inversion Hs; subst; cbn; auto.
        + right. eauto.
        + destruct (mt s); inversion Hs; subst; cbn; auto.
        + destruct ((match mt s with Some m => match ph m with PExited => true | _ => false end | None => true end) && negb (linger s)); [|discriminate].
          inversion Hs; subst; cbn; auto.
        + destruct (mt s); inversion Hs; subst; cbn; auto.
        + destruct ((match mt s with Some m => match ph m with PExited => true | _ => false end | None => true end) && negb (linger s)); [|discriminate].
          inversion Hs; subst; cbn; auto.
      - destruct (pc s); [|discriminate]. inversion Hs; subst; cbn; auto.
      - destruct (pc s); [|discriminate]. inversion Hs; subst; cbn; auto.
      - destruct (pc s); [|discriminate]. inversion Hs; subst; cbn; auto. }
    destruct Hsame as [(E1 & E2 & E3 & E4) | (c & r & rest & -> & Hpc)].
    - rewrite E1, E2, E3, E4. tauto.
    - cbn in Hs. unfold exec_main in Hs. rewrite Hpc in Hs.
      destruct (f1 s) eqn:H1; destruct (f0 s) eqn:H0; destruct (fsync s) eqn:H2; cbn [orb negb] in Hs;
        try (inversion Hs; subst s'; cbn; rewrite ?H1, ?H0, ?H2; split; [tauto | auto]; fail);
        (destruct (r && c && match mt s with None => true | Some _ => false end);
         [|inversion Hs; subst s'; cbn; rewrite ?H1, ?H0, ?H2; split; [intros (?&?&?); discriminate | auto]]);
        inversion Hs; subst s'; cbn; rewrite ?H1, ?H0, ?H2; (split; [intros (?&?&?); discriminate|]);
        intros _; destruct ((List.length (L s) =? 1)%nat); destruct ((List.length (L s) =? 0)%nat); cbn; intros Hd; try discriminate; auto.
  Qed.

  (** once the interactive session has started, no later step decides again *)
  Theorem interactive_is_final ls : forall s s',
    Finv s -> decided s = Some Interactive -> run s ls = Some s' -> decided s' = Some Interactive /\ Finv s'.
  Proof.
    induction ls as [|l ls IH]; cbn; intros s s' HF Hd Hr.
    - inversion Hr; subst. auto.
    - destruct (step s l) as [s1|] eqn:Hs; [|discriminate].
      destruct (step_flags _ _ _ Hs) as [H1 H2]. destruct (H1 (HF Hd)) as [Hoff Hdec].
      eapply IH; [apply H2; exact HF | congruence | exact Hr].
  Qed.

  Theorem reachable_finv source q0 a b c ls s : run (init source q0 a b c) ls = Some s -> Finv s.
  Proof.
    assert (H : forall ls s s', Finv s -> run s ls = Some s' -> Finv s').
    { induction ls0 as [|l ls0 IH]; cbn; intros s1 s2 HF Hr.
      - inversion Hr; subst; exact HF.
      - destruct (step s1 l) as [s3|] eqn:Hs; [|discriminate]. eapply IH; [|exact Hr]. apply (step_flags _ _ _ Hs). exact HF. }
    apply H. intros Hd. cbn in Hd. discriminate.
  Qed.
End Live.
